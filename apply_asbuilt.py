#!/usr/bin/env python3
"""Inserts / refreshes the *As built* paragraphs (design_asbuilt/<ID>.md) at the end of each property section of DESIGN.md."""
import glob, os, re
V=os.path.dirname(os.path.abspath(__file__)); p=os.path.join(V,'DESIGN.md'); s=open(p).read()
s=re.sub(r'\n<!-- asbuilt:(C\d+) -->.*?<!-- /asbuilt:\1 -->\n','\n',s,flags=re.S)
heads=[(m.start(),m.group(1)) for m in re.finditer(r'^### (C\d\d) ',s,flags=re.M)]
end5=s.index('## 6. Driver, MANIFEST')
out=s
for i in range(len(heads)-1,-1,-1):
    pos,pid=heads[i]
    nxt=heads[i+1][0] if i+1<len(heads) else end5
    f=os.path.join(V,'design_asbuilt',pid+'.md')
    if os.path.exists(f):
        block='\n<!-- asbuilt:%s -->\n%s\n<!-- /asbuilt:%s -->\n'%(pid,open(f).read().strip(),pid)
        out=out[:nxt].rstrip('\n')+'\n'+block+'\n'+out[nxt:]
open(p,'w').write(out)
print('applied',[os.path.basename(f)[:-3] for f in sorted(glob.glob(os.path.join(V,'design_asbuilt','*.md')))])
