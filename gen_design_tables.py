#!/usr/bin/env python3
"""Regenerates the measured tables of DESIGN.md between <!-- gen:NAME --> ... <!-- /gen:NAME --> markers:
  S11  cost table            from evidence/<ID>.json (quick, last run) and thorough_results.json (last thorough run)
  S13a own mutants           from mutants/<ID>.json + mutants/results.json (written by mutate_sweep.py)
  S13b seeded changes        from seeded/*/meta.json + seeded/notes.json
Nothing here is used by a check; it only keeps the document in step with what was run."""
import glob, json, os, re
V = os.path.dirname(os.path.abspath(__file__))
ids = ["C%02d" % i for i in range(1, 21)]

def load(p, d=None):
    try:
        return json.load(open(p))
    except Exception:
        return d

def s11():
    th = load(os.path.join(V, "thorough_results.json"), {})
    rows = ["| | quick: executions | states / transitions | wall | exhaustive within bounds | thorough: executions | wall | exhaustive |", "|---|---|---|---|---|---|---|---|"]
    for i in ids:
        e = load(os.path.join(V, "evidence", i + ".json"))
        if not e:
            continue
        c = e["coverage"]
        t = th.get(i, {})
        rows.append("| %s | %s | %s / %s | %s s | %s | %s | %s | %s |" % (
            i, "{:,}".format(c.get("traces_validated_against_impl", 0)), "{:,}".format(c.get("states", 0)), "{:,}".format(c.get("transitions", 0)),
            round(e.get("wall_s", 0)), "yes" if c.get("exhaustive") else "no (caps in evidence)",
            "{:,}".format(t["executions"]) if t else "–", ("%d s" % t["wall_s"]) if t else "–", ("yes" if t.get("exhaustive") else "no") if t else "–"))
    return "\n".join(rows)

def s13a():
    res = load(os.path.join(V, "mutants", "results.json"), {})
    rows = ["| | mutants | caught | not caught (expected: equivalent w.r.t. the statement / race-pass only) | not caught, unexpected | not run |", "|---|---|---|---|---|---|"]
    details = []
    for i in ids:
        cat = load(os.path.join(V, "mutants", i + ".json"), [])
        r = res.get(i, {})
        caught = exp_miss = unexp = notrun = 0
        for m in cat:
            x = r.get(m["name"])
            ex = (m.get("expect") or "").lower()
            if not x or x.get("rc") is None or x.get("rc") == 2:
                notrun += 1
                continue
            if x["rc"] == 1:
                caught += 1
            elif ex.startswith("caught") and "or equivalent" not in ex:
                unexp += 1
                details.append("* %s `%s`: expected caught, quick check passed" % (i, m["name"]))
            else:
                exp_miss += 1
        rows.append("| %s | %d | %d | %d | %d | %d |" % (i, len(cat), caught, exp_miss, unexp, notrun))
    return "\n".join(rows) + ("\n\n" + "\n".join(details) if details else "")

def s13b():
    notes = load(os.path.join(V, "seeded", "notes.json"), {})
    rows = ["| seeded change | file | first run | now | caught by (part: key) |", "|---|---|---|---|---|"]
    n = first = now = 0
    for d in sorted(glob.glob(os.path.join(V, "seeded", "*", ""))):
        m = load(os.path.join(d, "meta.json"))
        if not m:
            continue
        name = os.path.basename(d[:-1])
        patch = open(os.path.join(d, "patch.diff")).read()
        f = re.search(r"^\+\+\+ b/(\S+)", patch, re.M)
        key = ""
        for l in m.get("check_lines", []):
            mm = re.match(r"\s+\[([^\]]+)\] ([^ ]+?):? ", l)
            if mm:
                key = "%s: %s" % (mm.group(1), mm.group(2).rstrip(":"))
                break
        nt = notes.get(name, {})
        fr = nt.get("first_run", "caught" if m.get("check_rc") == 1 else "missed")
        nw = "caught" if m.get("check_rc") == 1 else "MISSED"
        n += 1
        first += fr == "caught"
        now += nw == "caught"
        rows.append("| %s | %s | %s | %s | %s |" % (name, f.group(1).replace("p2p/", "") if f else "", fr, nw, key[:110]))
    out = "%d independently seeded changes; %d caught by the check as it stood when the change arrived, %d caught now.\n\n" % (n, first, now) + "\n".join(rows)
    st = [(k, v["strengthening"]) for k, v in sorted(notes.items()) if v.get("strengthening")]
    if st:
        out += "\n\nWhat was strengthened for the ones missed at first:\n\n" + "\n".join("* `%s` — %s." % kv for kv in st)
    return out

p = os.path.join(V, "DESIGN.md")
s = open(p).read()
for name, fn in (("S11", s11), ("S13a", s13a), ("S13b", s13b)):
    pat = re.compile(r"(<!-- gen:%s -->\n).*?(<!-- /gen:%s -->)" % (name, name), re.S)
    if not pat.search(s):
        print("marker missing:", name)
        continue
    s = pat.sub(lambda m: m.group(1) + fn() + "\n" + m.group(2), s)
open(p, "w").write(s)
print("tables regenerated")
