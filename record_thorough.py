#!/usr/bin/env python3
"""record_thorough.py <evidence dir of a thorough pass> [commit]: summarises it into thorough_results.json
(read by gen_design_tables.py for DESIGN section 11)."""
import glob, json, os, sys
V = os.path.dirname(os.path.abspath(__file__))
out = os.path.join(V, "thorough_results.json")
res = json.load(open(out)) if os.path.exists(out) else {}
for f in sorted(glob.glob(os.path.join(sys.argv[1], "C??.json"))):
    e = json.load(open(f))
    if e.get("tier") != "thorough":
        continue
    c = e["coverage"]
    res[e["property_id"]] = {"executions": c.get("traces_validated_against_impl", 0), "states": c.get("states", 0), "transitions": c.get("transitions", 0),
                             "wall_s": round(e.get("wall_s", 0)), "exhaustive": bool(c.get("exhaustive")), "violations": (e.get("violations") if isinstance(e.get("violations"), int) else len(e.get("violations") or [])),
                             "known_findings": len(c.get("known_findings_reproduced", []) or []), "verif_commit": sys.argv[2] if len(sys.argv) > 2 else None}
json.dump(res, open(out, "w"), indent=1, sort_keys=True)
print("recorded", sorted(res))
