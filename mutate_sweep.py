#!/usr/bin/env python3
"""Runs every mutant of every catalogue (mutants/<ID>.json) against the quick check of its property, in a private
worktree (VERIF_REPO, default /tmp/mwt), and records the outcome in mutants/results.json:
  {ID: {mutant name: {"rc": 0|1|2, "caught_by": [violation keys], "expect": "...", "part": "..."}}}
A mutant that names a part is run against that part only (VERIF_ONLY_PART). usage: mutate_sweep.py [ID | ID:mutant-name ...]"""
import json, os, re, subprocess, sys, time, glob, fcntl
VERIF=os.path.dirname(os.path.abspath(__file__))
REPO=os.environ.get("VERIF_REPO","/tmp/mwt")
out=os.path.join(VERIF,"mutants","results.json")
res=json.load(open(out)) if os.path.exists(out) else {}
BUILD=os.environ.get("VERIF_BUILD","/tmp/mbuild")
def save(pid,name,entry):
    """read-modify-write under a lock: several sweeps (on different worktrees / property sets) may run at once"""
    with open(out+".lock","w") as lk:
        fcntl.flock(lk,fcntl.LOCK_EX)
        cur=json.load(open(out)) if os.path.exists(out) else {}
        cur.setdefault(pid,{})[name]=entry
        json.dump(cur,open(out+".tmp","w"),indent=1,sort_keys=True); os.replace(out+".tmp",out)
only={}  # "ID:mutant name" arguments restrict a property to the named mutants
args=[]
for a in sys.argv[1:]:
    if ":" in a:
        i,n=a.split(":",1); only.setdefault(i,set()).add(n)
        if i not in args: args.append(i)
    else:
        args.append(a)
ids=args or sorted(os.path.basename(f)[:-5] for f in glob.glob(os.path.join(VERIF,"mutants","C??.json")))
checks={i:json.load(open(os.path.join(VERIF,"checks",i+".json"))) for i in ids}
for pid in ids:
    cat=json.load(open(os.path.join(VERIF,"mutants",pid+".json")))
    parts={p["name"] for p in checks[pid]["parts"]}
    for m in cat:
        if pid in only and m["name"] not in only[pid]: continue
        srcs={}; news={}; bad=False
        for e in (m.get("edits") or [{"find":m["find"],"replace":m["replace"]}]):
            path=os.path.join(REPO,e.get("file") or m["file"])
            if path not in srcs: srcs[path]=open(path).read(); news[path]=srcs[path]
            if news[path].count(e["find"])!=1: bad=True; break
            news[path]=news[path].replace(e["find"],e["replace"])
        if bad:
            save(pid,m["name"],{"rc":None,"error":"find string does not occur exactly once","expect":m.get("expect")}); continue
        env=dict(os.environ,VERIF_REPO=REPO,VERIF_BUILD=BUILD,VERIF_EVIDENCE_DIR=BUILD+"-evidence",VERIF_REPLAY_DIR=BUILD+"-replays")
        if m.get("part") in parts: env["VERIF_ONLY_PART"]=m["part"]
        t0=time.time()
        try:
            for path in news: open(path,"w").write(news[path])
            r=subprocess.run([sys.executable,os.path.join(VERIF,"check.py"),pid,"--tier","quick"],capture_output=True,text=True,env=env)
        finally:
            for path in srcs: open(path,"w").write(srcs[path])
        keys=sorted({re.match(r"  \[[^\]]*\] ([^:]+(?::[A-Za-z][^: ]*)*)",l).group(1) for l in r.stdout.splitlines() if l.startswith("  [") and re.match(r"  \[[^\]]*\] ([^:]+)",l)})[:6]
        entry={"rc":r.returncode,"caught_by":keys,"expect":m.get("expect"),"part":m.get("part"),"wall_s":round(time.time()-t0,1)}
        if r.returncode==2: entry["stderr"]=r.stderr[-600:]
        save(pid,m["name"],entry)
        print(pid,m["name"],r.returncode,keys[:2],flush=True)
