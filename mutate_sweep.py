#!/usr/bin/env python3
"""Runs every mutant of every catalogue (mutants/<ID>.json) against the quick check of its property, in a private
worktree (VERIF_REPO, default /tmp/mwt), and records the outcome in mutants/results.json:
  {ID: {mutant name: {"rc": 0|1|2, "caught_by": [violation keys], "expect": "...", "part": "..."}}}
A mutant that names a part is run against that part only (VERIF_ONLY_PART). usage: mutate_sweep.py [ID ...]"""
import json, os, re, subprocess, sys, time, glob
VERIF=os.path.dirname(os.path.abspath(__file__))
REPO=os.environ.get("VERIF_REPO","/tmp/mwt")
out=os.path.join(VERIF,"mutants","results.json")
res=json.load(open(out)) if os.path.exists(out) else {}
ids=sys.argv[1:] or sorted(os.path.basename(f)[:-5] for f in glob.glob(os.path.join(VERIF,"mutants","C??.json")))
checks={i:json.load(open(os.path.join(VERIF,"checks",i+".json"))) for i in ids}
for pid in ids:
    cat=json.load(open(os.path.join(VERIF,"mutants",pid+".json")))
    parts={p["name"] for p in checks[pid]["parts"]}
    for m in cat:
        path=os.path.join(REPO,m["file"]); src=open(path).read(); new=src; bad=False
        for e in (m.get("edits") or [{"find":m["find"],"replace":m["replace"]}]):
            if new.count(e["find"])!=1: bad=True; break
            new=new.replace(e["find"],e["replace"])
        if bad:
            res.setdefault(pid,{})[m["name"]]={"rc":None,"error":"find string does not occur exactly once","expect":m.get("expect")}
            json.dump(res,open(out,"w"),indent=1,sort_keys=True); continue
        env=dict(os.environ,VERIF_REPO=REPO,VERIF_BUILD="/tmp/mbuild",VERIF_EVIDENCE_DIR="/tmp/verif-mutant-evidence",VERIF_REPLAY_DIR="/tmp/verif-mutant-replays")
        if m.get("part") in parts: env["VERIF_ONLY_PART"]=m["part"]
        t0=time.time()
        try:
            open(path,"w").write(new)
            r=subprocess.run([sys.executable,os.path.join(VERIF,"check.py"),pid,"--tier","quick"],capture_output=True,text=True,env=env)
        finally:
            open(path,"w").write(src)
        keys=sorted({re.match(r"  \[[^\]]*\] ([^:]+(?::[A-Za-z][^: ]*)*)",l).group(1) for l in r.stdout.splitlines() if l.startswith("  [") and re.match(r"  \[[^\]]*\] ([^:]+)",l)})[:6]
        res.setdefault(pid,{})[m["name"]]={"rc":r.returncode,"caught_by":keys,"expect":m.get("expect"),"part":m.get("part"),"wall_s":round(time.time()-t0,1)}
        if r.returncode==2: res[pid][m["name"]]["stderr"]=r.stderr[-600:]
        json.dump(res,open(out,"w"),indent=1,sort_keys=True)
        print(pid,m["name"],r.returncode,keys[:2],flush=True)
