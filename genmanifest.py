#!/usr/bin/env python3
"""Regenerates MANIFEST.json from checks.json (claimed checks) and properties.jsonl (everything else -> not_applicable)."""
import json, os
V=os.path.dirname(os.path.abspath(__file__))
import glob
checks={os.path.basename(f)[:-5]:json.load(open(f)) for f in sorted(glob.glob(os.path.join(V,'checks','C*.json')))}
ids=[json.loads(l)['id'] for l in open(os.path.join(V,'properties.jsonl'))]
accepted=set(open(os.path.join(V,'accepted.txt')).read().split())
checks={k:v for k,v in checks.items() if k in accepted}
na_reasons=json.load(open(os.path.join(V,'not_applicable.json'))) if os.path.exists(os.path.join(V,'not_applicable.json')) else {}
m={"version":1,
 "setup_cmd":"python3 /verif/check.py --setup",
 "hooks":{"guard":"verif","enable":"no hooks are committed to /repo: harnesses, engine packages and (for scheduler-driven checks) instrumented copies of the CURRENT sources are injected with `go test -tags verif -overlay <generated.json>` at check time","baseline_off_cmd":"cd /repo && GOFLAGS=-mod=mod GOPROXY=off go test -vet=off -count=1 -timeout 25m ./...","source_commits":[],"add_only":True},
 "engines":[
  {"name":"seqmc","path":"engine/seqmc","serves_properties":[k for k,v in checks.items() if 'seqmc' in v.get('engines',[])],"kind_free_text":"explicit-state BFS over operation histories of the real object vs a reference model / statement-level invariants; canonical (impl snapshot, model) state keys; closure or depth bound reported"},
  {"name":"sched","path":"engine/vsched + engine/instr","serves_properties":[k for k,v in checks.items() if 'sched' in v.get('engines',[])],"kind_free_text":"cooperative controlled scheduler inside a testing/synctest bubble over AST-instrumented copies of the real package (sync/atomic shims, channel/select/go points); stateless DFS with iterative preemption bounding"},
  {"name":"faultenum","path":"engine/memconn","serves_properties":[k for k,v in checks.items() if 'faultenum' in v.get('engines',[])],"kind_free_text":"exhaustive (position x fault kind) and input-shape enumeration over in-memory fault-injecting connections / wire editors, real code on both ends"}],
 "checks":[], "not_applicable":[],
 "notes":"All checks: `python3 /verif/check.py <ID> --tier quick|thorough`. Exit 0 = held on everything explored, 1 = VIOLATION line(s), 2 = build/infrastructure failure (no verdict). See DESIGN.md."}
for pid in ids:
    if pid in checks:
        c=checks[pid]
        m["checks"].append({"property_id":pid,
          "quick_cmd":"python3 /verif/check.py %s --tier quick"%pid,
          "thorough_cmd":"python3 /verif/check.py %s --tier thorough"%pid,
          "evidence_file":"/verif/evidence/%s.json"%pid,
          "replay_cmd_template":"python3 /verif/check.py %s --replay {path}"%pid,
          "engine":"+".join(c.get('engines',[])),
          "level_claimed":{"category":c["level"],"text":c.get("level_text",""),"design_ref":c.get("design_ref","DESIGN.md section 5 "+pid)},
          "level_note":c.get("level_note",""),
          "technique":c.get("technique","")})
    else:
        m["not_applicable"].append({"property_id":pid,"reason":na_reasons.get(pid,"check not built yet (work in progress; DESIGN.md section 5 describes the planned bounded-exhaustive check)")})
json.dump(m,open(os.path.join(V,'MANIFEST.json'),'w'),indent=1)
print("claimed:",[c["property_id"] for c in m["checks"]])
