#!/usr/bin/env python3
"""Runs the repository's own test suite (the command of /root/.vp/BASELINE.json, module root only) on /repo's current
tree and compares with the baseline's stable_pass list; tests of that list that did not pass are re-run alone up to
3 times (the machine is shared, several suites are timing-sensitive). Not part of any registered check: it is how
the 'fix:' commits were validated. usage: baseline_check.py [out.json]"""
import json, os, re, subprocess, sys, collections
B = json.load(open("/root/.vp/BASELINE.json"))
stable = set(B["stable_pass"])
env = dict(os.environ, GOFLAGS="-mod=mod", GOPROXY="off")
p = subprocess.run("go test -json -vet=off -count=1 -timeout 25m ./...", shell=True, cwd="/repo", env=env, capture_output=True, text=True)
passed, failed = set(), set()
for line in p.stdout.splitlines():
    try:
        e = json.loads(line)
    except Exception:
        continue
    if e.get("Test") and e.get("Action") in ("pass", "fail"):
        (passed if e["Action"] == "pass" else failed).add("%s::%s" % (e["Package"], e["Test"]))
missing = sorted(stable - passed)
print("first pass: %d passed, %d failed, %d of %d stable tests did not pass" % (len(passed), len(failed), len(missing), len(stable)))
by_pkg = collections.defaultdict(list)
for t in missing:
    pkg, name = t.split("::")
    by_pkg[pkg].append(name.split("/")[0])
still = []
for pkg, names in by_pkg.items():
    names = sorted(set(names))
    ok = set()
    for attempt in range(3):
        todo = [n for n in names if n not in ok]
        if not todo:
            break
        r = subprocess.run(["go", "test", "-json", "-vet=off", "-count=1", "-timeout", "20m", "-run", "^(%s)$" % "|".join(map(re.escape, todo)), pkg.replace("github.com/libp2p/go-libp2p", ".")],
                           cwd="/repo", env=env, capture_output=True, text=True)
        sub_pass = set()
        for line in r.stdout.splitlines():
            try:
                e = json.loads(line)
            except Exception:
                continue
            if e.get("Test") and e.get("Action") == "pass":
                sub_pass.add("%s::%s" % (e["Package"], e["Test"]))
        passed |= sub_pass
        for n in todo:
            if all(t in passed for t in missing if t.startswith(pkg + "::" + n)):
                ok.add(n)
    still += [t for t in missing if t.startswith(pkg + "::") and t not in passed]
print("after re-runs: %d stable tests still not passing" % len(still))
for t in still[:40]:
    print("  ", t)
res = {"head": subprocess.run("git -C /repo rev-parse --short HEAD", shell=True, capture_output=True, text=True).stdout.strip(),
       "stable": len(stable), "stable_passing": len(stable) - len(still), "not_passing": still, "failed_first_pass": sorted(failed)[:60]}
json.dump(res, open(sys.argv[1] if len(sys.argv) > 1 else "/tmp/baseline_check.json", "w"), indent=1)
