//go:build verif

package connmgr

import (
	"encoding/json"
	"fmt"
	"log/slog"
	"os"
	"runtime/debug"
	"sort"
	"strconv"
	"strings"
	"sync/atomic"
	"testing"
	"testing/synctest"

	"github.com/libp2p/go-libp2p/x/verif/seqmc"
	"github.com/libp2p/go-libp2p/x/verif/vrep"
)

// ---------- searches ----------

type c14sSearch struct {
	name     string
	cfg      c14sCfg
	prefix   []c14sOp
	ops      []c14sOp
	depth    int
	verified atomic.Bool // the start prefix has passed all checks on one instance
}

func (s *c14sSearch) fullName() string {
	var pre []string
	for _, o := range s.prefix {
		pre = append(pre, c14sOpTab[o].name)
	}
	return fmt.Sprintf("%s low=%d high=%d start=[%s] ops=%d depth=%d", s.name, s.cfg.low, s.cfg.high, strings.Join(pre, " "), len(s.ops), s.depth)
}

func c14sEnvInt(name string, def int) int {
	if v, err := strconv.Atoi(os.Getenv(name)); err == nil {
		return v
	}
	return def
}

// Start states (prefixes applied to a fresh manager, all oracles on). They exist because the interesting trim
// situations need 4-6 operations of set-up (connect, tag, let the grace period pass) before the first trim.
var c14sStarts = []struct {
	name string
	ops  []string
}{
	{"empty", nil},
	// two eligible peers of the same segment with values 0 and 10
	{"two-eligible", []string{"Connected(A1)", "Connected(B1)", "TagPeer(B,x,10)", "Advance(10s)"}},
	// three eligible peers with values 0, 5, 10
	{"three-eligible", []string{"Connected(A1)", "Connected(B1)", "Connected(C1)", "TagPeer(B,x,5)", "TagPeer(C,x,10)", "Advance(10s)"}},
	// an eligible peer C (value 10) and an early-tag (temporary) entry for A that is older than the grace period
	{"old-early-tags", []string{"Connected(C1)", "TagPeer(C,x,10)", "TagPeer(A,x,5)", "Advance(10s)"}},
	// A (value 5) out of its grace period, B (value 0) half-way through it
	{"mixed-ages", []string{"Connected(A1)", "Advance(5s)", "Connected(B1)", "TagPeer(A,x,5)", "Advance(5s)"}},
}

func c14sSearches() []*c14sSearch {
	full := c14sOpsWhere(func(*c14sOpDef) bool { return true })
	// protection with several tags against both kinds of trim, on two eligible peers
	protect := c14sOpsNamed("TrimOpenConns", "ForceTrim", "Advance(5s)", "Connected(A2)", "Disconnected(A1)", "TagPeer(A,x,10)",
		"Protect(A,a)", "Unprotect(A,a)", "Protect(A,b)", "Unprotect(A,b)", "Protect(B,a)", "Unprotect(B,a)", "Protect(B,b)", "Unprotect(B,b)")
	// accounting of tags and connections on the two peers that share a segment, interleaved with trims and ticks
	account := c14sOpsNamed("Connected(A1)", "Connected(A2)", "Connected(B1)", "Disconnected(A1)", "Disconnected(A2)", "Disconnected(B1)",
		"TrimOpenConns", "Advance(5s)", "TagPeer(A,x,5)", "TagPeer(A,x,10)", "TagPeer(A,y,5)", "UntagPeer(A,x)", "UpsertTag(A,x,-5)",
		"Bump(A,d,+5)", "Remove(A,d)", "TagPeer(B,x,5)", "Bump(B,d,+5)")
	thorough := vrep.Thorough()
	dFull, dProt, dAcc := 3, 8, 5
	if thorough {
		dFull, dProt, dAcc = 4, 12, 7
	}
	dFull = c14sEnvInt("VERIF_C14S_DEPTH", dFull)
	var out []*c14sSearch
	// the two focused searches are cheap: first, so that a deadline cannot starve them
	out = append(out, &c14sSearch{name: "protection/two-eligible", cfg: c14sCfg{1, 2, 0}, prefix: c14sOpsNamed(c14sStarts[1].ops...), ops: protect, depth: dProt})
	out = append(out, &c14sSearch{name: "accounting/empty", cfg: c14sCfg{1, 2, 0}, ops: account, depth: dAcc})
	// the decaying tag with a decay function that overshoots zero (DecayFixed(3): 5 -> 2 -> removed with -1 "left")
	decay := c14sOpsNamed("Connected(A1)", "Connected(B1)", "Disconnected(A1)", "TrimOpenConns", "Advance(5s)", "TagPeer(B,x,5)", "Bump(A,d,+5)", "Remove(A,d)", "Bump(B,d,+5)")
	out = append(out, &c14sSearch{name: "decay-overshoot/empty", cfg: c14sCfg{1, 2, 3}, ops: decay, depth: dAcc + 1})
	for _, cfg := range []c14sCfg{{1, 2, 0}, {2, 3, 0}} {
		for _, st := range c14sStarts {
			d := dFull
			if !thorough && cfg.low == 2 && st.name != "empty" && st.name != "three-eligible" {
				// quick tier: with low=2 these start states hold <= 2 connections, a trim needs one more
				// operation to have anything to do; one level less keeps the quick tier small
				d--
			}
			out = append(out, &c14sSearch{name: "full-alphabet/" + st.name, cfg: cfg, prefix: c14sOpsNamed(st.ops...), ops: full, depth: d})
		}
	}
	// (low 1, high 3): with two connections the background tick does not trim yet, so the first trim of these
	// start states is the explicit one (with high=2 the tick inside the start prefix has already closed a peer)
	for _, st := range c14sStarts {
		if st.name == "two-eligible" || (thorough && (st.name == "three-eligible" || st.name == "mixed-ages")) {
			out = append(out, &c14sSearch{name: "full-alphabet/" + st.name, cfg: c14sCfg{1, 3, 0}, prefix: c14sOpsNamed(st.ops...), ops: full, depth: dFull})
		}
	}
	return out
}

func (s *c14sSearch) spec(t *testing.T, st *c14sStats) *seqmc.Spec[*c14sInst, c14sOp] {
	return &seqmc.Spec[*c14sInst, c14sOp]{
		Name: s.fullName(),
		New: func() *c14sInst {
			in := c14sNew(s.cfg, st, s.prefix, !s.verified.Load())
			if in.pending == nil {
				s.verified.Store(true)
			}
			return in
		},
		Close:    func(in *c14sInst) { in.close() },
		Ops:      func(*c14sInst) []c14sOp { return s.ops }, // shared slice: the frontier stores only the header
		Apply:    func(in *c14sInst, op c14sOp) error { return in.Apply(op) },
		Key:      func(in *c14sInst) string { return in.key() },
		Show:     func(o c14sOp) string { return c14sOpTab[o].name },
		Depth:    s.depth,
		Bubble:   true,
		T:        t,
		Deadline: vrep.Deadline(),
	}
}

func TestVerifC14Seq(t *testing.T) {
	log = slog.New(slog.DiscardHandler) // the manager logs every duplicate notification at error level
	// every execution allocates a fresh manager (256 segments) while the live heap (the frontier) is small:
	// collect less often
	defer debug.SetGCPercent(debug.SetGCPercent(1600))
	if p := vrep.ReplayPath(); p != "" {
		c14sReplay(t, p)
		return
	}
	r := vrep.New("C14", "seq")
	r.Bounds["universe"] = "peers A,B (same segment) and C; connections A1 A2 B1 B2 C1 C2 (inbound/outbound, 0/1 streams)"
	r.Bounds["alphabet"] = fmt.Sprintf("%d operations: Connected/Disconnected x6 each, TagPeer(p,x|y,0|5|10), UntagPeer(p,x|y), UpsertTag(p,x|y,+5|-5), Bump(p,d,+5), Remove(p,d), Protect/Unprotect(p,a|b), Advance(5s|10s), TrimOpenConns, ForceTrim", len(c14sOpTab))
	r.Bounds["config"] = "grace 10s, silence 5s (background tick every 5s), decayer resolution 5s, (low,high) in {(1,2),(2,3)} and (1,3) for some start states"
	if s := c14sPeerIDs; len(s[0]) == 0 || s[0][len(s[0])-1] != s[1][len(s[1])-1] || s[0][len(s[0])-1] == s[2][len(s[2])-1] {
		r.Note("universe: peer IDs do not have the intended last bytes")
	}
	st := &c14sStats{classes: map[string]map[string]any{}}
	var depths []string
	type done struct {
		name string
		res  *seqmc.Stats
	}
	var all []done
	for _, s := range c14sSearches() {
		sp := s.spec(t, st)
		res := seqmc.Run(sp)
		all = append(all, done{sp.Name, res})
		depths = append(depths, fmt.Sprintf("%s low=%d high=%d: %d", s.name, s.cfg.low, s.cfg.high, res.DepthDone))
	}
	r.Bounds["depth_completed"] = depths
	for i, n := range c14sOutcomeNames {
		if v := st.out[i].Load(); v > 0 {
			r.Outcomes[n] = v
		}
	}
	// distinct non-trivial cases: canonical trim situations (count > low) with their outcome, peer names abstracted
	r.Distinct = int64(len(st.classes))
	var cls []string
	for k := range st.classes {
		cls = append(cls, k)
	}
	sort.Strings(cls)
	// samples (at most 6 are kept): two trim situations with the history that reached them, then one history
	// of each of the first searches
	for i := 0; i < 2 && len(cls) > 0; i++ {
		r.Sample(st.classes[cls[(2*i+1)*len(cls)/4]])
	}
	for i := len(all) - 1; i >= 0 && i >= len(all)-4; i-- {
		if n := len(all[i].res.Samples); n > 0 {
			r.Sample(map[string]any{"search": all[i].name, "history": all[i].res.Samples[n-1]})
		}
	}
	for _, d := range all {
		seqmc.Fill(r, d.name, d.res)
	}
	r.Note("distinct_nontrivial = number of distinct trim situations with count > low (kind, low, count, per peer: protected/grace/eligible, #conns, value rank, #closed), peer names abstracted: %d", len(cls))
	r.Flush()
}

// ---------- replay of one recorded history: VERIF_REPLAY=<file> ----------

func c14sReplay(t *testing.T, path string) {
	var rec struct {
		Key    string `json:"key"`
		Replay struct {
			Search  string   `json:"search"`
			History []string `json:"history"`
		} `json:"replay"`
	}
	b, err := os.ReadFile(path)
	if err == nil {
		err = json.Unmarshal(b, &rec)
	}
	if err != nil {
		t.Logf("replay: cannot read %s: %v", path, err)
		return
	}
	var cfg c14sCfg
	var prefix []c14sOp
	if i := strings.Index(rec.Replay.Search, "low="); i >= 0 {
		fmt.Sscanf(rec.Replay.Search[i:], "low=%d high=%d", &cfg.low, &cfg.high)
	}
	if i, j := strings.Index(rec.Replay.Search, "start=["), strings.Index(rec.Replay.Search, "]"); i >= 0 && j > i {
		for _, n := range strings.Fields(rec.Replay.Search[i+7 : j]) {
			prefix = append(prefix, c14sOpByName[n])
		}
	}
	r := vrep.New("C14", "seq")
	st := &c14sStats{classes: map[string]map[string]any{}}
	synctest.Test(t, func(*testing.T) {
		in := c14sNew(cfg, st, prefix, true)
		defer in.close()
		var pn []string
		for _, o := range prefix {
			pn = append(pn, c14sOpTab[o].name)
		}
		fmt.Printf("replay: low=%d high=%d start=%v expected key=%s\n", cfg.low, cfg.high, pn, rec.Key)
		if in.pending != nil {
			fmt.Printf("  start prefix: VIOLATION %v\n", in.pending)
		}
		for _, n := range rec.Replay.History {
			op, ok := c14sOpByName[n]
			if !ok {
				fmt.Printf("  unknown operation %q\n", n)
				return
			}
			err := in.Apply(op)
			r.Executions++
			fmt.Printf("  %-24s -> count=%d %s\n", n, in.m.count(), in.m.snap())
			if err != nil {
				fmt.Printf("  VIOLATION %v\n", err)
				if v, ok := err.(*seqmc.Vio); ok {
					r.Violate(v.Key, v.Desc, rec.Replay)
				}
				return
			}
		}
		fmt.Println("  history completed without violation")
	})
	r.Flush()
}
