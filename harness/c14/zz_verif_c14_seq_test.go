//go:build verif

package connmgr

// C14, sequential part: engine E1 (seqmc), depth-bounded BFS over operation histories of the REAL BasicConnMgr.
// Model, oracles and the reading of the statement: zz_verif_c14_seq_model_test.go.
//
// Alphabet (70 operations; universe: peers A,B (same segment) and C, connections A1 A2 B1 B2 C1 C2):
//   Connected(c) x6, Disconnected(c) x6 (any time: duplicates, unknown connections, connections closed by a trim)
//   TagPeer(p, x|y, 0|5|10) x18, UntagPeer(p, x|y) x6, UpsertTag(p, x|y, +5|-5) x12
//   Bump(p, d, +5) x3, Remove(p, d) x3 on the decaying tag d (values 5,10; -5 per 5 s tick, removed at 0)
//   Protect(p, a|b) x6, Unprotect(p, a|b) x6
//   Advance(5s), Advance(10s): 5 s clock steps; each step = one background tick + one decay tick
//   TrimOpenConns, ForceTrim
// Searches = (low, high) x start state x alphabet x depth; see c14sSearches. A start state is a fixed prefix of
// operations applied (with all oracles on) to a fresh manager; it only serves to reach deeper trim situations.

import (
	"context"
	"fmt"
	"sort"
	"strconv"
	"strings"
	"sync"
	"sync/atomic"
	"testing/synctest"
	"time"

	"github.com/benbjohnson/clock"
	"github.com/libp2p/go-libp2p/core/connmgr"
	"github.com/libp2p/go-libp2p/core/peer"
	"github.com/libp2p/go-libp2p/x/verif/seqmc"
)

func c14sVio(key, f string, a ...any) error { return seqmc.Violation(key, f, a...) }

// ---------- operations ----------

const (
	c14sOpConnected = iota
	c14sOpDisconnected
	c14sOpTag
	c14sOpUntag
	c14sOpUpsert
	c14sOpBump
	c14sOpDRemove
	c14sOpProtect
	c14sOpUnprotect
	c14sOpAdvance
	c14sOpTrim
	c14sOpForce
)

type c14sOpDef struct {
	kind, peer, conn, tag, val int
	name                       string
}

type c14sOp uint8 // index into c14sOpTab

var c14sOpTab, c14sOpByName = func() ([]c14sOpDef, map[string]c14sOp) {
	var t []c14sOpDef
	add := func(d c14sOpDef) { t = append(t, d) }
	for c := 0; c < c14sNC; c++ {
		add(c14sOpDef{kind: c14sOpConnected, conn: c, peer: c / 2, name: "Connected(" + c14sConnName(c) + ")"})
	}
	for c := 0; c < c14sNC; c++ {
		add(c14sOpDef{kind: c14sOpDisconnected, conn: c, peer: c / 2, name: "Disconnected(" + c14sConnName(c) + ")"})
	}
	add(c14sOpDef{kind: c14sOpTrim, name: "TrimOpenConns"})
	add(c14sOpDef{kind: c14sOpForce, name: "ForceTrim"})
	add(c14sOpDef{kind: c14sOpAdvance, val: 1, name: "Advance(5s)"})
	add(c14sOpDef{kind: c14sOpAdvance, val: 2, name: "Advance(10s)"})
	for p := 0; p < c14sNP; p++ {
		pn := string(c14sPeerNames[p])
		for tg := 0; tg < 2; tg++ {
			add(c14sOpDef{kind: c14sOpProtect, peer: p, tag: tg, name: "Protect(" + pn + "," + c14sProtNames[tg] + ")"})
			add(c14sOpDef{kind: c14sOpUnprotect, peer: p, tag: tg, name: "Unprotect(" + pn + "," + c14sProtNames[tg] + ")"})
		}
		for tg := 0; tg < 2; tg++ {
			for _, v := range []int{0, 5, 10} {
				add(c14sOpDef{kind: c14sOpTag, peer: p, tag: tg, val: v, name: fmt.Sprintf("TagPeer(%s,%s,%d)", pn, c14sTagNames[tg], v)})
			}
			add(c14sOpDef{kind: c14sOpUntag, peer: p, tag: tg, name: "UntagPeer(" + pn + "," + c14sTagNames[tg] + ")"})
			for _, v := range []int{5, -5} {
				add(c14sOpDef{kind: c14sOpUpsert, peer: p, tag: tg, val: v, name: fmt.Sprintf("UpsertTag(%s,%s,%+d)", pn, c14sTagNames[tg], v)})
			}
		}
		add(c14sOpDef{kind: c14sOpBump, peer: p, name: "Bump(" + pn + ",d,+5)"})
		add(c14sOpDef{kind: c14sOpDRemove, peer: p, name: "Remove(" + pn + ",d)"})
	}
	m := map[string]c14sOp{}
	for i, d := range t {
		m[d.name] = c14sOp(i)
	}
	return t, m
}()

func c14sOpsWhere(f func(d *c14sOpDef) bool) []c14sOp {
	var out []c14sOp
	for i := range c14sOpTab {
		if f(&c14sOpTab[i]) {
			out = append(out, c14sOp(i))
		}
	}
	return out
}

func c14sOpsNamed(names ...string) []c14sOp {
	var out []c14sOp
	for _, n := range names {
		o, ok := c14sOpByName[n]
		if !ok {
			panic("c14s: unknown operation " + n)
		}
		out = append(out, o)
	}
	return out
}

// ---------- outcome statistics (shared by the workers) ----------

var c14sOutcomeNames = []string{
	"connected:new-peer", "connected:second-conn", "connected:duplicate", "connected:after-early-tags",
	"disconnected:tracked", "disconnected:last-conn-forgets-peer", "disconnected:duplicate-or-unknown",
	"trim:count<=low nothing closed", "trim:count>low nothing closed (too few eligible)", "trim:closed some",
	"tick:background trim closed some", "tick:nothing closed", "tick:decay changed a value",
	"forced:nothing closed", "forced:closed unprotected only", "forced:closed protected too",
	"trim:early-tag entry pruned", "tag-op:on-untracked-peer (early tag)", "tag-op:on-tracked-peer",
	"trim:re-closed an already closed conn",
}

const (
	c14sOutConnNew = iota
	c14sOutConnSecond
	c14sOutConnDup
	c14sOutConnAfterTemp
	c14sOutDiscTracked
	c14sOutDiscLast
	c14sOutDiscUnknown
	c14sOutTrimNoopLow
	c14sOutTrimNoopIneligible
	c14sOutTrimClosed
	c14sOutTickClosed
	c14sOutTickNothing
	c14sOutTickDecay
	c14sOutForcedNothing
	c14sOutForcedUnprot
	c14sOutForcedProt
	c14sOutTempPruned
	c14sOutEarlyTag
	c14sOutTagTracked
	c14sOutReclosed
)

type c14sStats struct {
	out     [20]atomic.Int64
	mu      sync.Mutex
	classes map[string]map[string]any // trim class -> first example seen
}

func (s *c14sStats) class(k string, in *c14sInst, x [c14sNC]bool) {
	s.mu.Lock()
	if _, ok := s.classes[k]; !ok {
		var h []string
		for _, o := range in.hist {
			h = append(h, c14sOpTab[o].name)
		}
		s.classes[k] = map[string]any{"trim_class": k, "low": in.cfg.low, "high": in.cfg.high, "history_including_start": h,
			"closed_by_this_trim": c14sSetStr(x), "model_at_trim": in.m.snap()}
	}
	s.mu.Unlock()
}

// ---------- instance: real manager + model ----------

type c14sCfg struct {
	low, high int
	decay     int // DecayFixed(decay) of the decaying tag; 0 = 5 (a value always reaches 0 exactly), 3 = overshoots (5 -> 2 -> -1)
}

func (c c14sCfg) decayBy() int {
	if c.decay == 0 {
		return 5
	}
	return c.decay
}

type c14sInst struct {
	cfg     c14sCfg
	st      *c14sStats
	clk     *clock.Mock
	cm      *BasicConnMgr
	dtag    connmgr.DecayingTag
	cl      c14sCloseLog
	conns   [c14sNC]*c14sFakeConn
	m       c14sModel
	closedP [c14sNC]bool // closed by a trim, Disconnected not yet delivered (statistics only)
	hist    []c14sOp     // operations applied so far (start prefix included), for the samples
	pending error        // violation found while applying the start prefix
	noExact bool         // skip the exact comparison (only while re-applying an already verified start prefix)
	done    bool
}

// c14sNew builds a fresh manager + model and applies the start prefix. verifyPrefix=false skips the exact
// GetTagInfo comparison while the prefix is applied: the code and the prefix are deterministic, and the search
// has verified the prefix once on its first instance (the trim oracles stay on, the model needs their results).
func c14sNew(cfg c14sCfg, st *c14sStats, prefix []c14sOp, verifyPrefix bool) *c14sInst {
	in := &c14sInst{cfg: cfg, st: st, clk: clock.NewMock()}
	in.m.low, in.m.decay = cfg.low, cfg.decayBy()
	cm, err := NewConnManager(cfg.low, cfg.high, WithGracePeriod(c14sGrace), WithSilencePeriod(c14sStep), WithClock(in.clk),
		DecayerConfig(&DecayerCfg{Resolution: c14sStep, Clock: in.clk}))
	if err != nil {
		panic("c14s harness: NewConnManager: " + err.Error())
	}
	in.cm = cm
	synctest.Wait() // both goroutines have created their mock tickers (next tick: 5 s)
	in.dtag, err = cm.RegisterDecayingTag(c14sDecayName, c14sStep, connmgr.DecayFixed(cfg.decayBy()), connmgr.BumpSumBounded(0, 10))
	if err != nil {
		panic("c14s harness: RegisterDecayingTag: " + err.Error())
	}
	for i := range in.conns {
		in.conns[i] = &c14sFakeConn{idx: i, cl: &in.cl}
	}
	in.noExact = !verifyPrefix
	for _, op := range prefix {
		if err := in.apply(op); err != nil && in.pending == nil {
			in.pending = err
		}
	}
	in.noExact = false
	return in
}

func (in *c14sInst) close() {
	if in.done {
		return
	}
	in.done = true
	in.cm.Close()
}

// Apply wrapper: a violating or panicking execution must still stop the manager's goroutines, otherwise the
// bubble would report them as leaked (an infrastructure failure, not a verdict).
func (in *c14sInst) Apply(op c14sOp) (err error) {
	defer func() {
		if r := recover(); r != nil {
			in.close()
			panic(r)
		}
		if err != nil {
			in.close()
		}
	}()
	if in.pending != nil {
		return in.pending
	}
	return in.apply(op)
}

func (in *c14sInst) apply(op c14sOp) error {
	in.hist = append(in.hist, op)
	d := &c14sOpTab[op]
	m := &in.m
	st := in.st
	id := c14sPeerIDs[d.peer]
	in.cl.take()
	kind := c14sTrimOther
	var err error
	switch d.kind {
	case c14sOpConnected:
		e := &m.peers[d.peer]
		switch {
		case !e.exists:
			st.out[c14sOutConnNew].Add(1)
		case e.temp:
			st.out[c14sOutConnAfterTemp].Add(1)
		case e.conns[d.conn%2]:
			st.out[c14sOutConnDup].Add(1)
		default:
			st.out[c14sOutConnSecond].Add(1)
		}
		in.cm.Notifee().Connected(nil, in.conns[d.conn])
		m.connected(d.conn)
		in.closedP[d.conn] = false
	case c14sOpDisconnected:
		in.cm.Notifee().Disconnected(nil, in.conns[d.conn])
		if m.disconnected(d.conn) {
			if m.peers[d.peer].exists {
				st.out[c14sOutDiscTracked].Add(1)
			} else {
				st.out[c14sOutDiscLast].Add(1)
			}
			in.closedP[d.conn] = false
		} else {
			st.out[c14sOutDiscUnknown].Add(1)
		}
	case c14sOpTag, c14sOpUpsert, c14sOpBump, c14sOpDRemove:
		if e := &m.peers[d.peer]; e.exists && !e.temp {
			st.out[c14sOutTagTracked].Add(1)
		} else {
			st.out[c14sOutEarlyTag].Add(1)
		}
		switch d.kind {
		case c14sOpTag:
			in.cm.TagPeer(id, c14sTagNames[d.tag], d.val)
			m.tag(d.peer, d.tag, d.val)
		case c14sOpUpsert:
			in.cm.UpsertTag(id, c14sTagNames[d.tag], func(v int) int { return v + d.val })
			m.upsert(d.peer, d.tag, d.val)
		case c14sOpBump:
			if e := in.dtag.Bump(id, 5); e != nil {
				panic("c14s harness: Bump: " + e.Error())
			}
			synctest.Wait() // the decayer goroutine has applied the bump
			m.bump(d.peer)
		case c14sOpDRemove:
			if e := in.dtag.Remove(id); e != nil {
				panic("c14s harness: Remove: " + e.Error())
			}
			synctest.Wait()
			m.dremove(d.peer)
		}
	case c14sOpUntag:
		in.cm.UntagPeer(id, c14sTagNames[d.tag])
		m.untag(d.peer, d.tag)
	case c14sOpProtect:
		in.cm.Protect(id, c14sProtNames[d.tag])
		m.prot[d.peer][d.tag] = true
	case c14sOpUnprotect:
		in.cm.Unprotect(id, c14sProtNames[d.tag])
		m.prot[d.peer][d.tag] = false
	case c14sOpAdvance:
		for i := 0; i < d.val; i++ {
			if err = in.step(); err != nil {
				return err
			}
			if err = in.checkExact(); err != nil {
				return err
			}
		}
		return nil
	case c14sOpTrim:
		kind = c14sTrimExplicit
		in.cm.TrimOpenConns(context.Background())
	case c14sOpForce:
		in.cm.ForceTrim()
		x, nx := in.cl.take()
		err = c14sCheckForced(m, x, nx)
		protClosed := false
		for c, b := range x {
			if b {
				protClosed = protClosed || m.protected(c/2)
				in.closedP[c] = true
			}
		}
		switch {
		case nx == 0:
			st.out[c14sOutForcedNothing].Add(1)
		case protClosed:
			st.out[c14sOutForcedProt].Add(1)
		default:
			st.out[c14sOutForcedUnprot].Add(1)
		}
		if m.count() > m.low {
			st.class(c14sTrimClass(m, "forced", x, m.values()), in, x)
		}
		if err != nil {
			return err
		}
		return in.checkExact()
	}
	x, nx := in.cl.take()
	if err = c14sCheckTrim(m, kind, x, nx, m.values()); err != nil {
		return err
	}
	if kind == c14sTrimExplicit {
		switch {
		case nx > 0:
			st.out[c14sOutTrimClosed].Add(1)
		case m.count() <= m.low:
			st.out[c14sOutTrimNoopLow].Add(1)
		default:
			st.out[c14sOutTrimNoopIneligible].Add(1)
		}
		if m.count() > m.low {
			st.class(c14sTrimClass(m, "trim", x, m.values()), in, x)
		}
	}
	if kind == c14sTrimExplicit || nx > 0 { // a trim ran
		in.noteClosed(x)
		in.resolvePruned()
	}
	return in.checkExact()
}

func (in *c14sInst) noteClosed(x [c14sNC]bool) {
	for c, b := range x {
		if b {
			if in.closedP[c] {
				in.st.out[c14sOutReclosed].Add(1)
			}
			in.closedP[c] = true
		}
	}
}

// step: one 5 s clock step = (background tick: trim if count >= high) + (decay tick), in either order.
func (in *c14sInst) step() error {
	m := &in.m
	pre := m.values()
	in.clk.Add(c14sStep)
	synctest.Wait()
	m.now += c14sStep
	m.decayTick()
	post := m.values()
	if pre != post {
		in.st.out[c14sOutTickDecay].Add(1)
	}
	x, nx := in.cl.take()
	// the grace period is evaluated at the tick, i.e. at the end of the step (the mock clock stands at the
	// tick time while the background loop runs)
	if err := c14sCheckTrim(m, c14sTrimTick, x, nx, pre, post); err != nil {
		return err
	}
	if nx > 0 {
		in.st.out[c14sOutTickClosed].Add(1)
		in.st.class(c14sTrimClass(m, "tick", x, post), in, x)
	} else {
		in.st.out[c14sOutTickNothing].Add(1)
	}
	in.noteClosed(x)
	in.resolvePruned()
	return nil
}

// resolvePruned: a (non-forced) trim may drop the temporary entry of a peer that has no connection, is not
// protected and whose entry is older than the grace period ("this entry has gone past the grace period and
// still holds no connections, so prune it"). Whether it does depends on the trim's target, so the model
// follows the implementation (observation-resolved); dropping the early tags of an entry that is protected or
// still in grace is not followed and shows up as a tag mismatch.
func (in *c14sInst) resolvePruned() {
	m := &in.m
	for p := 0; p < c14sNP; p++ {
		e := &m.peers[p]
		if !e.exists || !e.temp || m.protected(p) || m.now-e.first < c14sGrace {
			continue
		}
		id := c14sPeerIDs[p]
		s := in.cm.segments.get(id)
		s.Lock()
		_, ok := s.peers[id]
		s.Unlock()
		if !ok {
			*e = c14sPeerM{}
			in.st.out[c14sOutTempPruned].Add(1)
		}
	}
}

// checkExact: the manager's connection count and every peer's tags / total / connections equal the model.
func (in *c14sInst) checkExact() error {
	if in.noExact {
		return nil
	}
	m := &in.m
	if got, want := in.cm.GetInfo().ConnCount, m.count(); got != want {
		return c14sVio("conn-count-mismatch", "GetInfo().ConnCount=%d, the notifications delivered so far imply %d", got, want)
	}
	for p := 0; p < c14sNP; p++ {
		e := &m.peers[p]
		ti := in.cm.GetTagInfo(c14sPeerIDs[p])
		gotVal, gotTags, gotConns := 0, map[string]int(nil), map[string]time.Time(nil)
		if ti != nil {
			gotVal, gotTags, gotConns = ti.Value, ti.Tags, ti.Conns
		}
		if gotVal != e.value() {
			return c14sVio("tag-total-mismatch", "peer %c: GetTagInfo().Value=%d, tag operations delivered so far imply %d (tags=%v)", c14sPeerNames[p], gotVal, e.value(), gotTags)
		}
		// per-tag values; an absent tag and a tag with value 0 are not distinguished
		want := func(k string) int {
			for t := range e.tagSet {
				if k == c14sTagNames[t] && e.tagSet[t] {
					return e.tagVal[t]
				}
			}
			if k == c14sDecayName && e.dSet {
				return e.dVal
			}
			return 0
		}
		bad := ""
		for k, v := range gotTags {
			if want(k) != v {
				bad = k
			}
		}
		for _, k := range [...]string{c14sTagNames[0], c14sTagNames[1], c14sDecayName} {
			if gotTags[k] != want(k) {
				bad = k
			}
		}
		if bad != "" {
			return c14sVio("tags-mismatch", "peer %c: tag %q=%d, expected %d (all tags: %v; model: %s)", c14sPeerNames[p], bad, gotTags[bad], want(bad), gotTags, m.snap())
		}
		ok := len(gotConns) == e.nconns()
		for j, has := range e.conns {
			if _, got := gotConns[c14sConnAddrStr[2*p+j]]; got != has {
				ok = false
			}
		}
		if !ok {
			var gotAddrs, wantAddrs []string
			for a := range gotConns {
				gotAddrs = append(gotAddrs, a)
			}
			sort.Strings(gotAddrs)
			for j, has := range e.conns {
				if has {
					wantAddrs = append(wantAddrs, c14sConnAddrStr[2*p+j])
				}
			}
			return c14sVio("peer-conns-mismatch", "peer %c: GetTagInfo().Conns=%v, the notifications delivered so far imply %v", c14sPeerNames[p], gotAddrs, wantAddrs)
		}
	}
	return nil
}

// ---------- canonical key: white-box snapshot of the manager + model ----------

func c14sAppRel(b []byte, now, t time.Time, cap time.Duration) []byte {
	if t.IsZero() {
		return append(b, "never"...)
	}
	d := now.Sub(t)
	if d > cap {
		d = cap
	}
	return strconv.AppendInt(b, int64(d/time.Millisecond), 10)
}

func (in *c14sInst) key() string {
	cm := in.cm
	now := in.clk.Now()
	b := make([]byte, 0, 512)
	for bi, s := range cm.segments.buckets {
		s.Lock()
		if len(s.peers) > 0 {
			ids := make([]string, 0, 4)
			for id := range s.peers {
				ids = append(ids, string(id))
			}
			sort.Strings(ids)
			for _, id := range ids {
				pi := s.peers[peer.ID(id)]
				// firstSeen is only read as "older than the grace period or not" (and reported by GetTagInfo,
				// which no oracle reads), so ages are capped at the grace period
				b = append(b, "seg"...)
				b = strconv.AppendInt(b, int64(bi), 10)
				b = append(b, ' ')
				b = append(b, id...)
				b = append(b, " temp="...)
				b = strconv.AppendBool(b, pi.temp)
				b = append(b, " age="...)
				b = c14sAppRel(b, now, pi.firstSeen, c14sGrace)
				b = append(b, " val="...)
				b = strconv.AppendInt(b, int64(pi.value), 10)
				b = append(b, " tags="...)
				tg := make([]string, 0, 4)
				for k, v := range pi.tags {
					tg = append(tg, k+"="+strconv.Itoa(v))
				}
				for k, v := range pi.decaying {
					tg = append(tg, "~"+k.name+"="+strconv.Itoa(v.Value)+"/next="+strconv.Itoa(int(k.nextTick.Sub(now)/time.Millisecond))+
						seqmc.ExtraFields(k, "trkr", "name", "interval", "nextTick", "decayFn", "bumpFn", "closed"))
				}
				sort.Strings(tg)
				for _, t := range tg {
					b = append(b, t...)
					b = append(b, ',')
				}
				b = append(b, " conns="...)
				cs := make([]string, 0, 2)
				for c := range pi.conns {
					if fc, ok := c.(*c14sFakeConn); ok {
						cs = append(cs, c14sConnName(fc.idx))
					} else {
						cs = append(cs, "?")
					}
				}
				sort.Strings(cs)
				for _, c := range cs {
					b = append(b, c...)
					b = append(b, ',')
				}
				// fields a later version adds to the entry join the key (see seqmc.ExtraFields)
				b = append(b, seqmc.ExtraFields(pi, "id", "tags", "decaying", "value", "temp", "conns", "firstSeen")...)
				b = append(b, ';')
			}
		}
		s.Unlock()
	}
	cm.plk.RLock()
	pr := make([]string, 0, 4)
	for id, tags := range cm.protected {
		tg := make([]string, 0, 2)
		for t := range tags {
			tg = append(tg, t)
		}
		sort.Strings(tg)
		pr = append(pr, string(id)+":"+strings.Join(tg, ","))
	}
	cm.plk.RUnlock()
	sort.Strings(pr)
	cm.lastTrimMu.RLock()
	lt := cm.lastTrim
	cm.lastTrimMu.RUnlock()
	b = append(b, "|prot="...)
	for _, p := range pr {
		b = append(b, p...)
		b = append(b, ';')
	}
	b = append(b, "|count="...)
	b = strconv.AppendInt(b, int64(cm.connCount.Load()), 10)
	// lastTrim is read by nothing but GetInfo in this version; kept (capped at 10 s) so that a version that
	// enforces the silence period is not merged wrongly
	b = append(b, "|lastTrim="...)
	b = c14sAppRel(b, now, lt, 10*time.Second)
	b = append(b, "|lastTick="...)
	b = c14sAppRel(b, now, *cm.decayer.lastTick.Load(), time.Hour)
	b = append(b, seqmc.ExtraFields(cm, "decayer", "clock", "cfg", "segments", "plk", "protected", "trimMutex", "connCount", "trimCount",
		"lastTrimMu", "lastTrim", "refCount", "ctx", "cancel", "unregisterMemoryWatcher")...)
	b = append(b, seqmc.ExtraFields(cm.decayer, "cfg", "mgr", "clock", "tagsMu", "knownTags", "lastTick", "bumpTagCh", "removeTagCh",
		"closeTagCh", "closeCh", "doneCh", "err")...)
	b = append(b, "|M:"...)
	b = in.m.appendSnap(b)
	return string(b)
}
