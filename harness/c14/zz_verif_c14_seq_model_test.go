//go:build verif

package connmgr

// C14, sequential part (engine E1 seqmc): universe, fake connections, reference model and oracles.
// See zz_verif_c14_seq_test.go for the searches. Every top-level identifier of this part starts with c14s.
//
// The REAL BasicConnMgr (NewConnManager, real decayer, real background loop) runs on ONE benbjohnson mock
// clock shared by the manager and the decayer, inside a testing/synctest bubble (the mock's gosched sleeps
// and the two goroutines become deterministic: after every mock.Add each ticker consequence has completed).
//
//   grace period 10 s; silence period 5 s (=> the background loop ticks every 5 s; WithSilencePeriod(0) is
//   rejected by the option, and in this version the silence period is used for nothing but that interval);
//   decayer resolution 5 s, one decaying tag "d" (interval 5 s, DecayFixed(5), BumpSumBounded(0,10)).
//   The clock only moves in 5 s steps made by the harness, so every step ends exactly on a tick of both
//   tickers: "background tick" and "decay tick" are therefore part of the explicit event Advance.
//
// Reading of the statement (documented in the report):
//   tracked connection  a connection for which Connected was delivered and Disconnected was not (yet); closing a
//                       fake connection does NOT deliver Disconnected - that is a separate event, as in the swarm
//   connection count    number of tracked connections
//   grace period        a peer is inside its grace period while less than 10 s of mock time have passed since
//                       the Connected notification that started its current tracked period (the first one after
//                       it was untracked or only known through early tags); exactly 10 s = no longer inside
//   eligible peer       has a tracked connection, is not protected (no protection tag), not inside its grace period
//   value               sum of the peer's tag values including the decaying tag (GetTagInfo().Value)
//   kept                a peer is kept by a trim if one of its tracked connections was not closed by THAT trim
//
// Oracles after a non-forced trim (TrimOpenConns, or a background tick that closed something; X = connections
// on which Close/CloseWithError was called during the operation):
//   trim-closed-protected      X contains a connection of a protected peer
//   trim-closed-in-grace       X contains a connection of a peer inside its grace period
//   trim-kept-lower-value      a peer with a connection in X has a strictly higher value than a kept eligible peer
//   trim-below-low-watermark   count <= low before the trim and X is not empty
//   trim-left-too-many         count > low and the eligible peers keep more than low tracked connections not in X
// If any other operation (a notification, a tag operation) closes connections, that is treated as a trim that
// ran at that moment and the same oracles apply (the statement does not say when trims may run).
// Forced trim (ForceTrim = the memory-emergency path of this version):
//   forced-closed-protected-before-unprotected   X has a connection of a protected peer while a tracked connection
//                                                of an unprotected peer is not in X
//   forced-below-low-watermark                   count <= low and X not empty  ("a trim does nothing when ...")
//   forced-kept-lower-value                      among UNPROTECTED peers (grace is ignored by a forced trim): a
//                                                closed one has a strictly higher value than a kept one
// Always, after every operation (exact, "always equal what the notifications and tag operations imply"):
//   conn-count-mismatch / tag-total-mismatch / tags-mismatch / peer-conns-mismatch
// Ties (equal values), stream counts and directions are never used by an oracle: any victim among equals is legal.

import (
	"fmt"
	"sort"
	"strconv"
	"strings"
	"sync"
	"time"

	"github.com/libp2p/go-libp2p/core/network"
	"github.com/libp2p/go-libp2p/core/peer"
	ma "github.com/multiformats/go-multiaddr"
)

const (
	c14sGrace = 10 * time.Second
	c14sStep  = 5 * time.Second
	c14sNP    = 3 // peers
	c14sNC    = 6 // connections, two per peer: conn i belongs to peer i/2
)

// A and B share a segment (segments are selected by the LAST byte of the peer ID), C lives in another one.
var c14sPeerIDs = [c14sNP]peer.ID{"verif-c14-peer-A\x07", "verif-c14-peer-B\x07", "verif-c14-peer-C\x09"}

const c14sPeerNames = "ABC"

var c14sTagNames = [2]string{"x", "y"}
var c14sProtNames = [2]string{"a", "b"}

const c14sDecayName = "d"

// direction / stream count of the six fake connections (varied, never used by an oracle)
var c14sConnDir = [c14sNC]network.Direction{network.DirInbound, network.DirOutbound, network.DirOutbound, network.DirInbound, network.DirInbound, network.DirOutbound}
var c14sConnStreams = [c14sNC]int{0, 1, 0, 1, 1, 0}
var c14sConnAddrs = func() (out [c14sNC]ma.Multiaddr) {
	for i := range out {
		out[i] = ma.StringCast(fmt.Sprintf("/ip4/10.0.%d.%d/tcp/4001", i/2+1, i%2+1))
	}
	return
}()

var c14sConnAddrStr = func() (out [c14sNC]string) {
	for i := range out {
		out[i] = c14sConnAddrs[i].String()
	}
	return
}()

func c14sConnName(i int) string { return fmt.Sprintf("%c%d", c14sPeerNames[i/2], i%2+1) }

// ---------- fake connection: records Close / CloseWithError, nothing else ----------

type c14sCloseLog struct {
	mu  sync.Mutex
	log []int
}

func (l *c14sCloseLog) add(i int) {
	l.mu.Lock()
	l.log = append(l.log, i)
	l.mu.Unlock()
}

// take returns the set of connections closed since the last take.
func (l *c14sCloseLog) take() (set [c14sNC]bool, n int) {
	l.mu.Lock()
	for _, i := range l.log {
		if !set[i] {
			set[i] = true
			n++
		}
	}
	l.log = l.log[:0]
	l.mu.Unlock()
	return
}

type c14sFakeConn struct {
	network.Conn // nil: any method the manager is not expected to call panics (reported as key "panic")
	idx          int
	cl           *c14sCloseLog
}

func (c *c14sFakeConn) RemotePeer() peer.ID           { return c14sPeerIDs[c.idx/2] }
func (c *c14sFakeConn) RemoteMultiaddr() ma.Multiaddr { return c14sConnAddrs[c.idx] }
func (c *c14sFakeConn) ID() string                    { return "c14s-" + c14sConnName(c.idx) }
func (c *c14sFakeConn) IsClosed() bool                { return false }
func (c *c14sFakeConn) Stat() network.ConnStats {
	return network.ConnStats{Stats: network.Stats{Direction: c14sConnDir[c.idx]}, NumStreams: c14sConnStreams[c.idx]}
}
func (c *c14sFakeConn) Close() error { c.cl.add(c.idx); return nil }
func (c *c14sFakeConn) CloseWithError(network.ConnErrorCode) error {
	c.cl.add(c.idx)
	return nil
}

// ---------- reference model ----------

type c14sPeerM struct {
	exists bool          // the manager has an entry for the peer (tracked, or temporary entry holding early tags)
	temp   bool          // entry created by a tag operation before any Connected
	first  time.Duration // mock time of: first Connected of the tracked period / creation of the temporary entry
	tagSet [2]bool
	tagVal [2]int
	dSet   bool
	dVal   int
	conns  [2]bool
}

func (p *c14sPeerM) value() int {
	v := 0
	for i := range p.tagSet {
		if p.tagSet[i] {
			v += p.tagVal[i]
		}
	}
	if p.dSet {
		v += p.dVal
	}
	return v
}

func (p *c14sPeerM) nconns() int {
	n := 0
	for _, c := range p.conns {
		if c {
			n++
		}
	}
	return n
}

type c14sModel struct {
	low   int
	decay int // what a decay tick subtracts
	now   time.Duration
	peers [c14sNP]c14sPeerM
	prot  [c14sNP][2]bool
}

func (m *c14sModel) count() int {
	n := 0
	for i := range m.peers {
		n += m.peers[i].nconns()
	}
	return n
}

func (m *c14sModel) protected(p int) bool { return m.prot[p][0] || m.prot[p][1] }

// inGrace: tracked (non-temporary) peer whose first Connected is less than the grace period ago.
func (m *c14sModel) inGrace(p int) bool {
	e := &m.peers[p]
	return e.exists && !e.temp && m.now-e.first < c14sGrace
}

func (m *c14sModel) eligible(p int) bool {
	e := &m.peers[p]
	return e.exists && !e.temp && e.nconns() > 0 && !m.protected(p) && !m.inGrace(p)
}

func (m *c14sModel) values() (v [c14sNP]int) {
	for i := range m.peers {
		v[i] = m.peers[i].value()
	}
	return
}

// entry returns the peer's entry, creating a temporary one (early tags) if the peer is unknown.
func (m *c14sModel) entry(p int) *c14sPeerM {
	e := &m.peers[p]
	if !e.exists {
		*e = c14sPeerM{exists: true, temp: true, first: m.now}
	}
	return e
}

func (m *c14sModel) connected(c int) (dup bool) {
	e := &m.peers[c/2]
	if !e.exists {
		*e = c14sPeerM{exists: true, first: m.now}
	} else if e.temp {
		e.temp = false
		e.first = m.now
	}
	if e.conns[c%2] {
		return true
	}
	e.conns[c%2] = true
	return false
}

func (m *c14sModel) disconnected(c int) (known bool) {
	e := &m.peers[c/2]
	if !e.exists || !e.conns[c%2] {
		return false
	}
	e.conns[c%2] = false
	if e.nconns() == 0 {
		*e = c14sPeerM{} // the peer is forgotten together with its tags
	}
	return true
}

func (m *c14sModel) tag(p, t, v int) {
	e := m.entry(p)
	e.tagSet[t], e.tagVal[t] = true, v
}

func (m *c14sModel) untag(p, t int) {
	e := &m.peers[p]
	if e.exists {
		e.tagSet[t], e.tagVal[t] = false, 0
	}
}

func (m *c14sModel) upsert(p, t, delta int) {
	e := m.entry(p)
	old := 0
	if e.tagSet[t] {
		old = e.tagVal[t]
	}
	e.tagSet[t], e.tagVal[t] = true, old+delta
}

// bump: BumpSumBounded(0, 10) with delta 5
func (m *c14sModel) bump(p int) {
	e := m.entry(p)
	if !e.dSet {
		e.dSet, e.dVal = true, 0
	}
	v := e.dVal + 5
	if v >= 10 {
		v = 10
	} else if v <= 0 {
		v = 0
	}
	e.dVal = v
}

func (m *c14sModel) dremove(p int) {
	e := m.entry(p) // the decayer creates a temporary entry even for a removal
	e.dSet, e.dVal = false, 0
}

// decayTick: DecayFixed(m.decay), tag interval = resolution, so every decayer tick visits the tag.
func (m *c14sModel) decayTick() {
	for i := range m.peers {
		e := &m.peers[i]
		if e.exists && e.dSet {
			if v := e.dVal - m.decay; v <= 0 {
				e.dSet, e.dVal = false, 0
			} else {
				e.dVal = v
			}
		}
	}
}

func (m *c14sModel) snap() string { return string(m.appendSnap(nil)) }

func (m *c14sModel) appendSnap(b []byte) []byte {
	bit := func(v bool) byte {
		if v {
			return '1'
		}
		return '0'
	}
	for i := range m.peers {
		e := &m.peers[i]
		b = append(b, c14sPeerNames[i], ':')
		if !e.exists {
			b = append(b, '-')
		} else {
			age := m.now - e.first
			if age > c14sGrace {
				age = c14sGrace
			}
			if e.temp {
				b = append(b, "temp,"...)
			}
			b = append(b, "age="...)
			b = strconv.AppendInt(b, int64(age/time.Second), 10)
			for t := range e.tagSet {
				if e.tagSet[t] {
					b = append(b, ',')
					b = append(b, c14sTagNames[t]...)
					b = append(b, '=')
					b = strconv.AppendInt(b, int64(e.tagVal[t]), 10)
				}
			}
			if e.dSet {
				b = append(b, ",d="...)
				b = strconv.AppendInt(b, int64(e.dVal), 10)
			}
			b = append(b, ",conns="...)
			b = append(b, bit(e.conns[0]), bit(e.conns[1]))
		}
		b = append(b, ",prot="...)
		b = append(b, bit(m.prot[i][0]), bit(m.prot[i][1]), ' ')
	}
	return b
}

// ---------- trim oracles ----------

const (
	c14sTrimExplicit = iota // TrimOpenConns
	c14sTrimTick            // a 5 s clock step (background tick, may or may not trim)
	c14sTrimOther           // any other non-forced operation (a trim ran only if something was closed)
)

// c14sCheckTrim evaluates the non-forced trim oracles for the connections X closed during one operation,
// against the model state at the time of the trim. vals holds the admissible valuations (at a clock step the
// decay tick and the background tick happen at the same instant in an order the harness does not own, so
// the ordering constraint must hold for the values before OR after the decay).
func c14sCheckTrim(m *c14sModel, kind int, x [c14sNC]bool, nx int, vals ...[c14sNP]int) error {
	if nx == 0 && kind != c14sTrimExplicit {
		return nil
	}
	n := m.count()
	closedPeer := [c14sNP]bool{}
	for c := 0; c < c14sNC; c++ {
		if !x[c] {
			continue
		}
		p := c / 2
		closedPeer[p] = true
		if m.protected(p) {
			return c14sVio("trim-closed-protected", "non-forced trim closed %s of protected peer %c (closed=%s)", c14sConnName(c), c14sPeerNames[p], c14sSetStr(x))
		}
		if m.inGrace(p) {
			return c14sVio("trim-closed-in-grace", "trim closed %s of peer %c which is %v into its %v grace period (closed=%s)", c14sConnName(c), c14sPeerNames[p], m.now-m.peers[p].first, c14sGrace, c14sSetStr(x))
		}
	}
	if n <= m.low && nx > 0 {
		return c14sVio("trim-below-low-watermark", "connection count %d <= low watermark %d but the trim closed %s", n, m.low, c14sSetStr(x))
	}
	// kept eligible peers and the connections they keep
	keptConns := 0
	kept := [c14sNP]bool{}
	for p := 0; p < c14sNP; p++ {
		if !m.eligible(p) {
			continue
		}
		for j, has := range m.peers[p].conns {
			if has && !x[2*p+j] {
				kept[p] = true
				keptConns++
			}
		}
	}
	if nx > 0 {
		var firstBad string
		okSome := false
		for _, v := range vals {
			bad := ""
			for c := 0; c < c14sNP && bad == ""; c++ {
				for k := 0; k < c14sNP && closedPeer[c]; k++ {
					if k != c && kept[k] && v[k] < v[c] {
						bad = fmt.Sprintf("peer %c (value %d) was closed while eligible peer %c (value %d) was kept", c14sPeerNames[c], v[c], c14sPeerNames[k], v[k])
						break
					}
				}
			}
			if bad == "" {
				okSome = true
				break
			}
			if firstBad == "" {
				firstBad = bad
			}
		}
		if !okSome {
			return c14sVio("trim-kept-lower-value", "%s (closed=%s)", firstBad, c14sSetStr(x))
		}
	}
	if n > m.low && keptConns > m.low {
		return c14sVio("trim-left-too-many", "connection count %d > low watermark %d, yet the eligible peers keep %d connections after the trim (closed=%s)", n, m.low, keptConns, c14sSetStr(x))
	}
	return nil
}

func c14sCheckForced(m *c14sModel, x [c14sNC]bool, nx int) error {
	if nx == 0 {
		return nil
	}
	n := m.count()
	if n <= m.low {
		return c14sVio("forced-below-low-watermark", "connection count %d <= low watermark %d but the forced trim closed %s", n, m.low, c14sSetStr(x))
	}
	protClosed, unprotKept := -1, -1
	closedPeer, keptUnprot := [c14sNP]bool{}, [c14sNP]bool{}
	for c := 0; c < c14sNC; c++ {
		p := c / 2
		if x[c] {
			closedPeer[p] = true
			if m.protected(p) {
				protClosed = c
			}
		} else if m.peers[p].exists && m.peers[p].conns[c%2] && !m.protected(p) {
			unprotKept = c
			keptUnprot[p] = true
		}
	}
	if protClosed >= 0 && unprotKept >= 0 {
		return c14sVio("forced-closed-protected-before-unprotected", "forced trim closed %s of a protected peer while %s of an unprotected peer stays open (closed=%s)", c14sConnName(protClosed), c14sConnName(unprotKept), c14sSetStr(x))
	}
	v := m.values()
	for c := 0; c < c14sNP; c++ {
		if !closedPeer[c] || m.protected(c) {
			continue
		}
		for k := 0; k < c14sNP; k++ {
			if k != c && keptUnprot[k] && v[k] < v[c] {
				return c14sVio("forced-kept-lower-value", "forced trim closed unprotected peer %c (value %d) while unprotected peer %c (value %d) was kept (closed=%s)", c14sPeerNames[c], v[c], c14sPeerNames[k], v[k], c14sSetStr(x))
			}
		}
	}
	return nil
}

func c14sSetStr(x [c14sNC]bool) string {
	var s []string
	for c, b := range x {
		if b {
			s = append(s, c14sConnName(c))
		}
	}
	return "{" + strings.Join(s, ",") + "}"
}

// c14sTrimClass: canonical class of a trim situation + outcome (peer names abstracted away), used to count
// the distinct non-trivial trim cases the run has seen.
func c14sTrimClass(m *c14sModel, kind string, x [c14sNC]bool, v [c14sNP]int) string {
	var d []string
	for p := 0; p < c14sNP; p++ {
		e := &m.peers[p]
		if !e.exists || e.nconns() == 0 {
			continue
		}
		st := "e"
		if m.protected(p) {
			st = "p"
		}
		if m.inGrace(p) {
			st += "g"
		}
		rank := 0
		for q := 0; q < c14sNP; q++ {
			if q != p && m.peers[q].exists && m.peers[q].nconns() > 0 && v[q] < v[p] {
				rank++
			}
		}
		cl := 0
		for j := range e.conns {
			if e.conns[j] && x[2*p+j] {
				cl++
			}
		}
		d = append(d, fmt.Sprintf("%s/n%d/r%d/c%d", st, e.nconns(), rank, cl))
	}
	sort.Strings(d)
	return fmt.Sprintf("%s low=%d n=%d [%s]", kind, m.low, m.count(), strings.Join(d, " "))
}
