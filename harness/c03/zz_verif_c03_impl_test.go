//go:build verif

package rcmgr

// C03, sequential part: the instance (real resource manager + model), the operations, the oracle.

import (
	"errors"
	"fmt"
	"math"
	"net/netip"
	"sort"
	"strconv"
	"strings"
	"sync"
	"sync/atomic"

	"github.com/libp2p/go-libp2p/core/network"
	"github.com/libp2p/go-libp2p/core/peer"
	"github.com/libp2p/go-libp2p/core/protocol"
	"github.com/libp2p/go-libp2p/x/rate"
	"github.com/libp2p/go-libp2p/x/verif/seqmc"
	"github.com/multiformats/go-multiaddr"
	mh "github.com/multiformats/go-multihash"
)

// ---------- universe ----------

var (
	c03PeerIDs  [2]peer.ID
	c03ProtoIDs = [2]protocol.ID{"/c03/q1", "/c03/q2"}
	c03SvcName  = "c03svc"
	c03PeerIdx  = map[peer.ID]int{}
	c03ProtoIdx = map[protocol.ID]int{"/c03/q1": 0, "/c03/q2": 1}
)

type c03EP struct {
	name      string
	ma        multiaddr.Multiaddr
	ip        netip.Addr // invalid: the multiaddr carries no IP
	allowAny  bool       // allow-listed for every peer (by network)
	allowPeer int        // allow-listed for this peer only (-1: not)
}

const (
	c03EPv4 = iota
	c03EPal
	c03EPalA
	c03EPv6
	c03EPnoip
	c03EPv4b  // second ordinary IPv4 address in the same /24 as c03EPv4
	c03EPv6b  // second IPv6 address in the same /56 as c03EPv6
	c03EPalb  // second address inside the allow-listed network
	c03EPalA2 // second connection endpoint with the peer-A-only address (same IP, other port)
	c03EPv4m  // the IPv4 address of c03EPv4 spelled as an IPv4-mapped IPv6 multiaddr: the same IP, hence the same subnet
)

var c03EPs []c03EP

// the allow-list: one network for everybody, one address for peer A only
const c03ALNet = "8.8.8.0/24"

var c03AllowlistAddrs []multiaddr.Multiaddr

func init() {
	for i, n := range c03PeerNames {
		h, err := mh.Sum([]byte("verif-c03-peer-"+n), mh.SHA2_256, -1)
		if err != nil {
			panic(err)
		}
		c03PeerIDs[i] = peer.ID(h)
		c03PeerIdx[c03PeerIDs[i]] = i
	}
	c03AllowlistAddrs = []multiaddr.Multiaddr{
		multiaddr.StringCast("/ip4/8.8.8.0/ipcidr/24"),
		multiaddr.StringCast("/ip4/9.9.9.1/p2p/" + c03PeerIDs[0].String()),
	}
	mk := func(name, s, ip string, any bool, forPeer int) c03EP {
		e := c03EP{name: name, ma: multiaddr.StringCast(s), allowAny: any, allowPeer: forPeer}
		if ip != "" {
			e.ip = netip.MustParseAddr(ip)
		}
		return e
	}
	c03EPs = []c03EP{
		c03EPv4:   mk("v4", "/ip4/7.7.7.1/tcp/4001", "7.7.7.1", false, -1),
		c03EPal:   mk("v4-allowlisted", "/ip4/8.8.8.1/tcp/4001", "8.8.8.1", true, -1),
		c03EPalA:  mk("v4-allowlisted-for-A", "/ip4/9.9.9.1/tcp/4001", "9.9.9.1", false, 0),
		c03EPv6:   mk("v6", "/ip6/2001:db8:0:100::1/tcp/4001", "2001:db8:0:100::1", false, -1),
		c03EPnoip: mk("no-ip", "/dns4/example.com/tcp/4001", "", false, -1),
		c03EPv4b:  mk("v4-same/24", "/ip4/7.7.7.2/tcp/4001", "7.7.7.2", false, -1),
		c03EPv6b:  mk("v6-same/56", "/ip6/2001:db8:0:1ff::1/tcp/4001", "2001:db8:0:1ff::1", false, -1),
		c03EPalb:  mk("v4-allowlisted-same-net", "/ip4/8.8.8.2/tcp/4001", "8.8.8.2", true, -1),
		c03EPalA2: mk("v4-allowlisted-for-A-port2", "/ip4/9.9.9.1/tcp/4002", "9.9.9.1", false, 0),
		c03EPv4m:  mk("v4-mapped-in-v6", "/ip6/::ffff:7.7.7.1/tcp/4003", "7.7.7.1", false, -1),
	}
}

func (e *c03EP) allowlisted() bool { return e.ip.IsValid() && (e.allowAny || e.allowPeer >= 0) }
func (e *c03EP) allowedFor(p int) bool {
	return e.ip.IsValid() && (e.allowAny || e.allowPeer == p)
}

func (l *c03Limits) concrete() ConcreteLimitConfig {
	c := ConcreteLimitConfig{
		system: l.system, transient: l.transient, allowlistedSystem: l.alSystem, allowlistedTransient: l.alTransient,
		serviceDefault: l.svc, servicePeerDefault: l.svcPeer, protocolDefault: l.proto, protocolPeerDefault: l.protoPeer,
		peerDefault: l.peer, conn: l.conn, stream: l.stream,
	}
	if len(l.peerOver) > 0 {
		c.peer = map[peer.ID]BaseLimit{}
		for p, v := range l.peerOver {
			c.peer[c03PeerIDs[p]] = v
		}
	}
	if len(l.protoOver) > 0 {
		c.protocol = map[protocol.ID]BaseLimit{}
		for q, v := range l.protoOver {
			c.protocol[c03ProtoIDs[q]] = v
		}
	}
	return c
}

// ---------- scenario ----------

type c03Scn struct {
	name   string
	family string
	lim    c03Limits
	// per-subnet caps handed to WithLimitPerSubnet
	sub4, sub6 []c03SubnetCap
	// explicit cap for the allow-listed network handed to WithNetworkPrefixLimit (0: rely on the manager
	// registering the allow-listed network itself, with the allow-listed system connection limit as cap)
	alNetCap int
	alpha    c03Alpha
	depthQ   int // quick depth; 0 = not in the quick tier
	depthT   int // thorough depth
}

func (s *c03Scn) net() *c03Net {
	n := &c03Net{sub4: s.sub4, sub6: s.sub6}
	cp := s.alNetCap
	if cp == 0 {
		cp = s.lim.alSystem.Conns
	}
	n.prefixes = []c03PrefixCap{{netip.MustParsePrefix(c03ALNet), cp}}
	return n
}

const (
	c03TConn = iota
	c03TStream
	c03TSpan
	c03TScope
)

var c03TNames = [...]string{"conn", "stream", "span", "scope"}

// c03Alpha: the (state-dependent) alphabet of a scenario.
type c03Alpha struct {
	eps      []int
	dirs     []network.Direction
	fds      []bool
	maxConns int // connections ever opened in one history
	setPeer  []int

	streamPeers []int
	streamDirs  []network.Direction
	maxStreams  int
	protos      []int
	svc         bool
	svcEarly    bool // also offer SetService before SetProtocol (plain refusal)

	sizes  []int64 // ReserveMemory on connections / streams / spans
	prios  []uint8
	memOn  [3]bool // conn, stream, span
	spanOn [3]bool // BeginSpan on conn, stream, span (nesting)
	// maxSpans bounds the number of spans ever begun in one history; maxNest the nesting depth
	maxSpans, maxNest int

	views     []string // scopes for View*-reservations
	viewSizes []int64
	viewPrios []uint8
	viewSpan  bool

	gc        bool
	closedOps bool // ReserveMemory / BeginSpan / SetPeer / SetProtocol on closed owners, repeated Done
}

const (
	c03OpOpenConn = iota
	c03OpOpenStream
	c03OpSetPeer
	c03OpSetProto
	c03OpSetSvc
	c03OpReserve
	c03OpRelease
	c03OpBeginSpan
	c03OpDone
	c03OpGC
)

// c03Op is kept small (24 bytes): the search keeps the enabled operations of every frontier state.
type c03Op struct {
	Size int64
	Dir  network.Direction
	K    int8
	T    int8 // target kind
	I    int8 // target index (handle table)
	S    int8 // target scope for T == c03TScope (index into c03ViewScopes)
	EP   int8
	P    int8 // peer / protocol argument
	FD   bool
	Prio uint8
}

var c03ViewScopes = []string{c03Sys, c03Tr, c03PeerScope[0], c03PeerScope[1], c03ProtoScope[0], c03ProtoScope[1], c03SvcN}

func c03ViewIdx(s string) int8 {
	for i, n := range c03ViewScopes {
		if n == s {
			return int8(i)
		}
	}
	panic("c03: not a viewable scope: " + s)
}

func (o c03Op) scope() string {
	if o.T != c03TScope {
		return ""
	}
	return c03ViewScopes[o.S]
}

func c03DirS(d network.Direction) string {
	if d == network.DirInbound {
		return "in"
	}
	return "out"
}

func (o c03Op) target() string {
	if o.T == c03TScope {
		return "View(" + o.scope() + ")"
	}
	return c03TNames[o.T] + "#" + strconv.Itoa(int(o.I))
}

func c03SizeS(n int64) string {
	if n == c03Big {
		return "MaxInt64/2+1"
	}
	return strconv.FormatInt(n, 10)
}

func (o c03Op) String() string {
	switch o.K {
	case c03OpOpenConn:
		return fmt.Sprintf("OpenConnection(%s,fd=%v,%s)", c03DirS(o.Dir), o.FD, c03EPs[o.EP].name)
	case c03OpOpenStream:
		return fmt.Sprintf("OpenStream(%s,%s)", c03PeerNames[o.P], c03DirS(o.Dir))
	case c03OpSetPeer:
		return fmt.Sprintf("conn#%d.SetPeer(%s)", o.I, c03PeerNames[o.P])
	case c03OpSetProto:
		return fmt.Sprintf("stream#%d.SetProtocol(%s)", o.I, c03ProtoNames[o.P])
	case c03OpSetSvc:
		return fmt.Sprintf("stream#%d.SetService(s)", o.I)
	case c03OpReserve:
		return fmt.Sprintf("%s.ReserveMemory(%s,prio=%d)", o.target(), c03SizeS(o.Size), o.Prio)
	case c03OpRelease:
		return fmt.Sprintf("%s.ReleaseMemory(%s)", o.target(), c03SizeS(o.Size))
	case c03OpBeginSpan:
		return fmt.Sprintf("%s.BeginSpan()", o.target())
	case c03OpDone:
		return fmt.Sprintf("%s.Done()", o.target())
	case c03OpGC:
		return "gc()"
	}
	return "?"
}

func (o c03Op) kindName() string {
	return [...]string{"OpenConnection", "OpenStream", "SetPeer", "SetProtocol", "SetService", "ReserveMemory", "ReleaseMemory", "BeginSpan", "Done", "gc"}[o.K]
}

const c03Big = int64(math.MaxInt64/2 + 1)

// ---------- instance ----------

type c03Inst struct {
	scn     *c03Scn
	rm      *resourceManager
	m       *c03Model
	conns   []network.ConnManagementScope
	streams []network.StreamManagementScope
	spans   []network.ResourceScopeSpan
	broken  string // harness-level failure (never a verdict)
	// hh is a running hash of (scenario, operations applied so far). A history whose hash is in c03Validated
	// has already been executed once with the full oracle and passed; the search only ever re-executes such
	// histories as prefixes of longer ones, and then (fast) the observations and the audit are not repeated.
	hh    uint64
	fast  bool
	nops  int // operations applied so far
	depth int // depth bound of the search this instance belongs to (histories of that length are never extended)
}

type c03HashSet struct {
	sh [64]struct {
		mu sync.Mutex
		m  map[uint64]struct{}
	}
}

func (h *c03HashSet) has(k uint64) bool {
	s := &h.sh[k&63]
	s.mu.Lock()
	_, ok := s.m[k]
	s.mu.Unlock()
	return ok
}

func (h *c03HashSet) add(k uint64) {
	s := &h.sh[k&63]
	s.mu.Lock()
	if s.m == nil {
		s.m = map[uint64]struct{}{}
	}
	s.m[k] = struct{}{}
	s.mu.Unlock()
}

var c03Validated c03HashSet

func c03Mix(h uint64, vs ...uint64) uint64 {
	for _, v := range vs {
		for i := 0; i < 8; i++ {
			h ^= v & 0xff
			h *= 1099511628211
			v >>= 8
		}
	}
	return h
}

func c03HashStr(h uint64, s string) uint64 {
	for i := 0; i < len(s); i++ {
		h ^= uint64(s[i])
		h *= 1099511628211
	}
	return h
}

func (o c03Op) hash(h uint64) uint64 {
	b := uint64(0)
	if o.FD {
		b = 1
	}
	return c03Mix(h, uint64(o.K), uint64(o.T), uint64(o.I), uint64(o.S), uint64(o.Dir), b, uint64(o.EP), uint64(o.P), uint64(o.Size), uint64(o.Prio))
}

func c03New(scn *c03Scn) *c03Inst {
	in := &c03Inst{scn: scn, hh: c03HashStr(14695981039346656037, scn.name)}
	nt := scn.net()
	opts := []Option{
		WithMetricsDisabled(),
		// the connection RATE limiter is configured off: the only refusals left are the ones C03 talks about
		WithConnRateLimiters(&rate.Limiter{}),
		WithAllowlistedMultiaddrs(c03AllowlistAddrs),
	}
	var s4, s6 []ConnLimitPerSubnet
	for _, s := range scn.sub4 {
		s4 = append(s4, ConnLimitPerSubnet{PrefixLength: s.bits, ConnCount: s.cap})
	}
	for _, s := range scn.sub6 {
		s6 = append(s6, ConnLimitPerSubnet{PrefixLength: s.bits, ConnCount: s.cap})
	}
	opts = append(opts, WithLimitPerSubnet(s4, s6))
	if scn.alNetCap > 0 {
		opts = append(opts, WithNetworkPrefixLimit([]NetworkPrefixLimit{{Network: netip.MustParsePrefix(c03ALNet), ConnCount: scn.alNetCap}}, []NetworkPrefixLimit{}))
	} else {
		opts = append(opts, WithNetworkPrefixLimit([]NetworkPrefixLimit{}, []NetworkPrefixLimit{}))
	}
	rm, err := NewResourceManager(NewFixedLimiter(scn.lim.concrete()), opts...)
	if err != nil {
		in.broken = "NewResourceManager: " + err.Error()
		return in
	}
	in.rm = rm.(*resourceManager)
	in.m = c03NewModel(&scn.lim, nt)
	return in
}

func (in *c03Inst) close() {
	if in.rm != nil {
		in.rm.Close()
	}
}

// ---------- observation of the real manager ----------

type c03Obs struct {
	stats   map[string]network.ScopeStat // every existing scope, canonical name -> reported usage
	limiter map[string]int               // non-zero counters of the per-subnet limiter
}

// observe reads every scope: system, transient, services, protocols and peers through the public
// ResourceManagerState.Stat(); the allow-listed pair and the per-peer sub-scopes white-box.
func (in *c03Inst) observe() *c03Obs {
	o := &c03Obs{stats: map[string]network.ScopeStat{}, limiter: map[string]int{}}
	r := in.rm
	st := r.Stat()
	o.stats[c03Sys] = st.System
	o.stats[c03Tr] = st.Transient
	for name, s := range st.Services {
		if name == c03SvcName {
			o.stats[c03SvcN] = s
		} else {
			o.stats["svc:?"+name] = s
		}
	}
	for id, s := range st.Protocols {
		if q, ok := c03ProtoIdx[id]; ok {
			o.stats[c03ProtoScope[q]] = s
		} else {
			o.stats["proto:?"+string(id)] = s
		}
	}
	for id, s := range st.Peers {
		if p, ok := c03PeerIdx[id]; ok {
			o.stats[c03PeerScope[p]] = s
		} else {
			o.stats["peer:?"+id.String()] = s
		}
	}
	o.stats[c03ASys] = r.allowlistedSystem.Stat()
	o.stats[c03ATr] = r.allowlistedTransient.Stat()
	r.mx.Lock()
	for id, ps := range r.proto {
		q, ok := c03ProtoIdx[id]
		if !ok {
			continue
		}
		ps.Lock()
		for pid, sub := range ps.peers {
			if p, ok := c03PeerIdx[pid]; ok {
				o.stats[c03ProtoPeerScope[q][p]] = sub.rc.stat()
			}
		}
		ps.Unlock()
	}
	if ss, ok := r.svc[c03SvcName]; ok {
		ss.Lock()
		for pid, sub := range ss.peers {
			if p, ok := c03PeerIdx[pid]; ok {
				o.stats[c03SvcPeerScope[p]] = sub.rc.stat()
			}
		}
		ss.Unlock()
	}
	r.mx.Unlock()
	cl := r.connLimiter
	cl.mu.Lock()
	for i, n := range cl.connsPerNetworkPrefixV4 {
		if n != 0 {
			o.limiter["net "+cl.networkPrefixLimitV4[i].Network.String()] = n
		}
	}
	for i, n := range cl.connsPerNetworkPrefixV6 {
		if n != 0 {
			o.limiter["net "+cl.networkPrefixLimitV6[i].Network.String()] = n
		}
	}
	for _, ms := range [][]map[netip.Prefix]int{cl.ip4connsPerLimit, cl.ip6connsPerLimit} {
		for _, mp := range ms {
			for pf, n := range mp {
				if n != 0 {
					o.limiter["subnet "+pf.String()] = n
				}
			}
		}
	}
	cl.mu.Unlock()
	return o
}

func c03SortedKeys[V any](m map[string]V) []string {
	out := make([]string, 0, len(m))
	for k := range m {
		out = append(out, k)
	}
	sort.Strings(out)
	return out
}

func (o *c03Obs) equal(p *c03Obs) (string, bool) {
	names := map[string]struct{}{}
	for k := range o.stats {
		names[k] = struct{}{}
	}
	for k := range p.stats {
		names[k] = struct{}{}
	}
	l := make([]string, 0, len(names))
	for k := range names {
		l = append(l, k)
	}
	c03SortScopes(l)
	for _, k := range l {
		if o.stats[k] != p.stats[k] {
			return k, false
		}
	}
	for k, v := range o.limiter {
		if p.limiter[k] != v {
			return "limiter " + k, false
		}
	}
	for k, v := range p.limiter {
		if o.limiter[k] != v {
			return "limiter " + k, false
		}
	}
	return "", true
}

// ---------- outcome classes (coverage evidence) ----------

var c03Outcomes sync.Map // class -> *atomic.Int64

func (in *c03Inst) outcome(class string) {
	if in.fast {
		return
	}
	v, ok := c03Outcomes.Load(class)
	if !ok {
		v, _ = c03Outcomes.LoadOrStore(class, new(atomic.Int64))
	}
	v.(*atomic.Int64).Add(1)
}

// ---------- white-box helpers ----------

func c03RS(x any) *resourceScope {
	switch v := x.(type) {
	case *connectionScope:
		return v.resourceScope
	case *streamScope:
		return v.resourceScope
	case *resourceScope:
		return v
	}
	return nil
}

// scopeNames maps every long-lived scope object to its canonical name.
func (in *c03Inst) scopeNames() map[*resourceScope]string {
	r := in.rm
	out := map[*resourceScope]string{
		r.system.resourceScope: c03Sys, r.transient.resourceScope: c03Tr,
		r.allowlistedSystem.resourceScope: c03ASys, r.allowlistedTransient.resourceScope: c03ATr,
	}
	for id, s := range r.svc {
		n := "svc:?" + id
		if id == c03SvcName {
			n = c03SvcN
		}
		out[s.resourceScope] = n
		for pid, sub := range s.peers {
			if p, ok := c03PeerIdx[pid]; ok && id == c03SvcName {
				out[sub] = c03SvcPeerScope[p]
			}
		}
	}
	for id, s := range r.proto {
		q, ok := c03ProtoIdx[id]
		if !ok {
			continue
		}
		out[s.resourceScope] = c03ProtoScope[q]
		for pid, sub := range s.peers {
			if p, ok := c03PeerIdx[pid]; ok {
				out[sub] = c03ProtoPeerScope[q][p]
			}
		}
	}
	for id, s := range r.peer {
		if p, ok := c03PeerIdx[id]; ok {
			out[s.resourceScope] = c03PeerScope[p]
		}
	}
	return out
}

func c03EdgeNames(rs *resourceScope, names map[*resourceScope]string) []string {
	var out []string
	for _, e := range rs.edges {
		n, ok := names[e]
		if !ok {
			n = "detached(" + e.name + ")"
		}
		out = append(out, n)
	}
	return out
}

func c03SameSet(a, b []string) bool {
	if len(a) != len(b) {
		return false
	}
	x := append([]string{}, a...)
	y := append([]string{}, b...)
	sort.Strings(x)
	sort.Strings(y)
	for i := range x {
		if x[i] != y[i] {
			return false
		}
	}
	return true
}

// ---------- Key: white-box snapshot + model state, canonical under renaming of handles ----------

func c03RcS(sb *strings.Builder, rs *resourceScope) {
	rc := &rs.rc
	fmt.Fprintf(sb, "%d,%d,%d,%d,%d,%d r%d", rc.nconnsIn, rc.nconnsOut, rc.nfd, rc.nstreamsIn, rc.nstreamsOut, rc.memory, rs.refCnt)
	if rs.done {
		sb.WriteString(" done")
	}
	// fields a later version adds to a scope or its counters join the key (see seqmc.ExtraFields)
	sb.WriteString(seqmc.ExtraFields(rs, "Mutex", "done", "refCnt", "spanID", "rc", "owner", "edges", "name", "trace", "metrics"))
	sb.WriteString(seqmc.ExtraFields(rc, "limit", "nconnsIn", "nconnsOut", "nstreamsIn", "nstreamsOut", "nfd", "memory"))
}

func (in *c03Inst) spanDesc(h *c03Holder) string {
	var sb strings.Builder
	rs := c03RS(in.spans[h.idx])
	sb.WriteString("span<")
	c03RcS(&sb, rs)
	fmt.Fprintf(&sb, "|own=%d closed=%v", h.own, h.closed)
	var kids []string
	for _, k := range h.kids {
		kids = append(kids, in.spanDesc(k))
	}
	sort.Strings(kids)
	for _, k := range kids {
		sb.WriteString(" ")
		sb.WriteString(k)
	}
	sb.WriteString(">")
	return sb.String()
}

func (in *c03Inst) key() string {
	if in.rm == nil {
		return "broken"
	}
	names := in.scopeNames()
	var sb strings.Builder
	// long-lived scopes
	var sc []string
	for rs, n := range names {
		var b strings.Builder
		b.WriteString(n)
		b.WriteString("=")
		c03RcS(&b, rs)
		if len(rs.edges) > 0 {
			b.WriteString(" e" + strings.Join(c03EdgeNames(rs, names), ","))
		}
		if d := in.m.direct[n]; d != 0 {
			fmt.Fprintf(&b, " direct=%d", d)
		}
		sc = append(sc, b.String())
	}
	sort.Strings(sc)
	sb.WriteString(strings.Join(sc, ";"))
	for s, d := range in.m.direct {
		// a direct reservation whose scope no longer exists (only reachable through a defect)
		found := false
		for _, n := range names {
			if n == s {
				found = true
			}
		}
		if !found && d != 0 {
			fmt.Fprintf(&sb, ";lost-direct %s=%d", s, d)
		}
	}
	// holders with their span trees
	var hs []string
	kidsDesc := func(h *c03Holder) string {
		var kids []string
		for _, k := range h.kids {
			kids = append(kids, in.spanDesc(k))
		}
		sort.Strings(kids)
		return strings.Join(kids, " ")
	}
	for i, h := range in.m.conns {
		cs := in.conns[i].(*connectionScope)
		var b strings.Builder
		b.WriteString("conn<")
		c03RcS(&b, cs.resourceScope)
		fmt.Fprintf(&b, " e%s al=%v ip=%v peer=%v|%s fd=%v ep=%d al=%v peer=%d own=%d closed=%v %s>",
			strings.Join(c03EdgeNames(cs.resourceScope, names), ","), cs.isAllowlisted, cs.ip.IsValid(), cs.peer != nil,
			c03DirS(h.dir), h.fd, h.ep, h.allow, h.peer, h.own, h.closed, kidsDesc(h))
		b.WriteString(seqmc.ExtraFields(cs, "resourceScope", "dir", "usefd", "isAllowlisted", "rcmgr", "peer", "endpoint", "ip"))
		hs = append(hs, b.String())
	}
	for i, h := range in.m.streams {
		ss := in.streams[i].(*streamScope)
		var b strings.Builder
		b.WriteString("stream<")
		c03RcS(&b, ss.resourceScope)
		fmt.Fprintf(&b, " e%s proto=%v svc=%v|%s peer=%d proto=%d svc=%v own=%d closed=%v %s>",
			strings.Join(c03EdgeNames(ss.resourceScope, names), ","), ss.proto != nil, ss.svc != nil,
			c03DirS(h.dir), h.peer, h.proto, h.svc, h.own, h.closed, kidsDesc(h))
		b.WriteString(seqmc.ExtraFields(ss, "resourceScope", "dir", "rcmgr", "peer", "svc", "proto", "peerProtoScope", "peerSvcScope"))
		hs = append(hs, b.String())
	}
	for _, h := range in.m.spans {
		if h.owner == nil {
			hs = append(hs, "on "+h.ownerScope+" "+in.spanDesc(h))
		}
	}
	sort.Strings(hs)
	sb.WriteString("||")
	sb.WriteString(strings.Join(hs, ";"))
	// per-subnet limiter
	o := in.observe()
	sb.WriteString("||")
	for _, k := range c03SortedKeys(o.limiter) {
		fmt.Fprintf(&sb, "%s=%d;", k, o.limiter[k])
	}
	if rm := in.rm; rm != nil {
		sb.WriteString(seqmc.ExtraFields(rm, "limits", "connLimiter", "connRateLimiter", "verifySourceAddressRateLimiter", "trace", "metrics",
			"disableMetrics", "allowlist", "system", "transient", "allowlistedSystem", "allowlistedTransient", "cancelCtx", "cancel", "wg",
			"mx", "svc", "proto", "peer", "stickyProto", "stickyPeer", "connId", "streamId"))
		sb.WriteString(seqmc.ExtraFields(rm.connLimiter, "mu", "networkPrefixLimitV4", "networkPrefixLimitV6", "connsPerNetworkPrefixV4",
			"connsPerNetworkPrefixV6", "connLimitPerSubnetV4", "connLimitPerSubnetV6", "ip4connsPerLimit", "ip6connsPerLimit"))
	}
	return sb.String()
}

// ---------- Ops: the state-dependent alphabet ----------

func (in *c03Inst) ops() []c03Op {
	if in.rm == nil {
		return nil
	}
	a := &in.scn.alpha
	m := in.m
	var ops []c03Op
	if len(m.conns) < a.maxConns {
		for _, ep := range a.eps {
			for _, d := range a.dirs {
				for _, fd := range a.fds {
					ops = append(ops, c03Op{K: c03OpOpenConn, Dir: d, FD: fd, EP: int8(ep)})
				}
			}
		}
	}
	if len(m.streams) < a.maxStreams {
		for _, p := range a.streamPeers {
			for _, d := range a.streamDirs {
				ops = append(ops, c03Op{K: c03OpOpenStream, P: int8(p), Dir: d})
			}
		}
	}
	for i, h := range m.conns {
		if h.peer < 0 && (!h.closed || a.closedOps) {
			for _, p := range a.setPeer {
				ops = append(ops, c03Op{K: c03OpSetPeer, I: int8(i), P: int8(p)})
			}
		}
	}
	for i, h := range m.streams {
		if h.closed && !a.closedOps {
			continue
		}
		if h.proto < 0 {
			for _, q := range a.protos {
				ops = append(ops, c03Op{K: c03OpSetProto, I: int8(i), P: int8(q)})
			}
		}
		if a.svc && !h.svc && (h.proto >= 0 || a.svcEarly) {
			ops = append(ops, c03Op{K: c03OpSetSvc, I: int8(i)})
		}
	}
	nSpans := len(m.spans)
	holderOps := func(t int, i int, h *c03Holder) {
		if h.closed {
			if a.closedOps {
				if a.memOn[t] && len(a.sizes) > 0 {
					ops = append(ops, c03Op{K: c03OpReserve, T: int8(t), I: int8(i), Size: 1, Prio: 255})
				}
				if a.spanOn[t] && nSpans < a.maxSpans && (t != c03TSpan || h.depth < a.maxNest) {
					ops = append(ops, c03Op{K: c03OpBeginSpan, T: int8(t), I: int8(i)})
				}
				ops = append(ops, c03Op{K: c03OpDone, T: int8(t), I: int8(i)})
			}
			return
		}
		if a.memOn[t] {
			for _, s := range a.sizes {
				for _, p := range a.prios {
					ops = append(ops, c03Op{K: c03OpReserve, T: int8(t), I: int8(i), Size: s, Prio: p})
				}
			}
			// callers never release more than they reserved
			seen := map[int64]bool{}
			for _, s := range append(append([]int64{}, a.sizes...), h.own) {
				if s > 0 && s <= h.own && !seen[s] {
					seen[s] = true
					ops = append(ops, c03Op{K: c03OpRelease, T: int8(t), I: int8(i), Size: s})
				}
			}
		}
		if a.spanOn[t] && nSpans < a.maxSpans && (t != c03TSpan || h.depth < a.maxNest) {
			ops = append(ops, c03Op{K: c03OpBeginSpan, T: int8(t), I: int8(i)})
		}
		ops = append(ops, c03Op{K: c03OpDone, T: int8(t), I: int8(i)})
	}
	for i, h := range m.conns {
		holderOps(c03TConn, i, h)
	}
	for i, h := range m.streams {
		holderOps(c03TStream, i, h)
	}
	for i, h := range m.spans {
		holderOps(c03TSpan, i, h)
	}
	for _, s := range a.views {
		for _, sz := range a.viewSizes {
			for _, p := range a.viewPrios {
				ops = append(ops, c03Op{K: c03OpReserve, T: c03TScope, S: c03ViewIdx(s), Size: sz, Prio: p})
			}
		}
		seen := map[int64]bool{}
		own := m.direct[s]
		for _, sz := range append(append([]int64{}, a.viewSizes...), own) {
			if sz > 0 && sz <= own && !seen[sz] {
				seen[sz] = true
				ops = append(ops, c03Op{K: c03OpRelease, T: c03TScope, S: c03ViewIdx(s), Size: sz})
			}
		}
		if a.viewSpan && nSpans < a.maxSpans {
			ops = append(ops, c03Op{K: c03OpBeginSpan, T: c03TScope, S: c03ViewIdx(s)})
		}
	}
	if a.gc {
		ops = append(ops, c03Op{K: c03OpGC})
	}
	return ops
}

// ---------- Apply: one operation on the real manager and on the model, then the oracle ----------

func c03IsLimit(err error) bool { return errors.Is(err, network.ErrResourceLimitExceeded) }

// view runs f on the real scope through the public View* call of the manager.
func (in *c03Inst) view(scope string, f func(network.ResourceScope) error) error {
	r := in.rm
	switch c03Kind(scope) {
	case c03Sys:
		return r.ViewSystem(f)
	case c03Tr:
		return r.ViewTransient(f)
	case "svc":
		return r.ViewService(c03SvcName, func(s network.ServiceScope) error { return f(s) })
	case "peer":
		for p, n := range c03PeerScope {
			if n == scope {
				return r.ViewPeer(c03PeerIDs[p], func(s network.PeerScope) error { return f(s) })
			}
		}
	case "proto":
		for q, n := range c03ProtoScope {
			if n == scope {
				return r.ViewProtocol(c03ProtoIDs[q], func(s network.ProtocolScope) error { return f(s) })
			}
		}
	}
	panic("c03: cannot view " + scope)
}

func (in *c03Inst) holder(t, i int) (*c03Holder, network.ResourceScopeSpan) {
	switch t {
	case c03TConn:
		return in.m.conns[i], in.conns[i]
	case c03TStream:
		return in.m.streams[i], in.streams[i]
	case c03TSpan:
		return in.m.spans[i], in.spans[i]
	}
	panic("c03: bad target")
}

func c03LinkClass(chain []c03Link, i int) string {
	return fmt.Sprintf("edge %d/%d (%s)", i+1, len(chain), c03Kind(chain[i].name))
}

// c03CheckRefusal: the common part of a refused reservation: sentinel and "changes nothing".
func (in *c03Inst) checkRefusal(op c03Op, err error, pre *c03Obs, wantSentinel bool) error {
	if in.fast {
		return nil
	}
	if wantSentinel && !c03IsLimit(err) {
		return seqmc.Violation("refusal-not-wrapping-sentinel:"+op.kindName(), "%s was refused for a limit but the error does not wrap network.ErrResourceLimitExceeded: %v", op, err)
	}
	post := in.observe()
	if where, ok := pre.equal(post); !ok {
		kind := c03Kind(where)
		if strings.HasPrefix(where, "limiter ") {
			kind = "subnet-limiter"
		}
		return seqmc.Violation("refused-call-changed-state:"+op.kindName()+":"+kind,
			"%s was refused (%v) but changed %s: before %v/%v after %v/%v", op, err, where, pre.stats[where], pre.limiter, post.stats[where], post.limiter)
	}
	return nil
}

func (in *c03Inst) apply(op c03Op) error {
	if in.rm == nil {
		return nil
	}
	in.hh = op.hash(in.hh)
	in.fast = c03Validated.has(in.hh)
	err := in.applyOp(op)
	in.nops++
	if err == nil && !in.fast && in.nops < in.depth {
		c03Validated.add(in.hh)
	}
	return err
}

func (in *c03Inst) applyOp(op c03Op) error {
	m := in.m
	us := m.usages()
	var pre *c03Obs
	if !in.fast {
		pre = in.observe()
	}
	reparentRefused := false
	switch op.K {
	case c03OpOpenConn:
		ep := &c03EPs[op.EP]
		nh := &c03Holder{kind: c03KConn, idx: len(in.conns), dir: op.Dir, fd: op.FD, ep: int(op.EP), peer: -1, proto: -1}
		d := nh.counts()
		c, err := in.rm.OpenConnection(op.Dir, op.FD, ep.ma)
		capKey, capHit := "", false
		if ep.ip.IsValid() {
			capKey, capHit = m.capWouldExceed(ep.ip)
		}
		own := c03Link{"conn", nil, m.lim.conn}
		std := append([]c03Link{own}, m.scopeLinks([]string{c03Tr, c03Sys}, us)...)
		alw := append([]c03Link{own}, m.scopeLinks([]string{c03ATr, c03ASys}, us)...)
		si, swhy := c03FirstRefusing(std, d, 255, false)
		ai, _ := -1, ""
		if ep.allowlisted() {
			ai, _ = c03FirstRefusing(alw, d, 255, false)
		}
		switch {
		case capHit:
			if err == nil {
				return seqmc.Violation("subnet-cap-exceeded:OpenConnection:"+strings.SplitN(capKey, " ", 2)[0], "%s admitted although %q already holds its cap of open connections (open per capped subnet: %v)", op, capKey, m.subnetCountsS())
			}
			in.outcome("OpenConnection: refused by per-subnet cap")
			return in.checkRefusal(op, err, pre, false)
		case si < 0:
			if err != nil {
				return c03Spurious(op, err)
			}
			in.outcome("OpenConnection: admitted (standard scopes)")
		case ep.allowlisted() && ai < 0:
			if err != nil {
				return c03Spurious(op, err)
			}
			nh.allow = true
			in.outcome("OpenConnection: admitted through the allow-list fallback; standard refused at " + c03LinkClass(std, si) + " " + swhy)
		default:
			if err == nil {
				return seqmc.Violation("accepted-over-limit:OpenConnection:"+c03Kind(std[si].name), "%s admitted although %s would exceed its %s limit (usage %v, limit %+v)", op, std[si].name, swhy, std[si].use, std[si].lim)
			}
			in.outcome("OpenConnection: refused at " + c03LinkClass(std, si) + " " + swhy)
			return in.checkRefusal(op, err, pre, true)
		}
		m.conns = append(m.conns, nh)
		in.conns = append(in.conns, c)

	case c03OpOpenStream:
		nh := &c03Holder{kind: c03KStream, idx: len(in.streams), dir: op.Dir, peer: int(op.P), proto: -1}
		d := nh.counts()
		s, err := in.rm.OpenStream(c03PeerIDs[op.P], op.Dir)
		chain := append([]c03Link{{"stream", nil, m.lim.stream}}, m.scopeLinks(m.charged(nh), us)...)
		ri, why := c03FirstRefusing(chain, d, 255, false)
		if ri >= 0 {
			if err == nil {
				return seqmc.Violation("accepted-over-limit:OpenStream:"+c03Kind(chain[ri].name), "%s admitted although %s would exceed its %s limit (usage %v, limit %+v)", op, chain[ri].name, why, chain[ri].use, chain[ri].lim)
			}
			in.outcome("OpenStream: refused at " + c03LinkClass(chain, ri) + " " + why)
			return in.checkRefusal(op, err, pre, true)
		}
		if err != nil {
			return c03Spurious(op, err)
		}
		in.outcome("OpenStream: admitted")
		m.streams = append(m.streams, nh)
		in.streams = append(in.streams, s)

	case c03OpSetPeer:
		h := m.conns[op.I]
		err := in.conns[op.I].SetPeer(c03PeerIDs[op.P])
		if h.closed {
			// the statement is silent about calls on a closed connection; only the accounting below applies
			in.outcome(fmt.Sprintf("SetPeer on a closed connection: err=%v", err != nil))
			break
		}
		d := h.res()
		peerL := m.scopeLinks([]string{c03PeerScope[op.P]}, us)
		pi, pwhy := c03FirstRefusing(peerL, d, 255, true)
		wrong := h.allow && !c03EPs[h.ep].allowedFor(int(op.P))
		must, may := pi >= 0, pi >= 0
		why := "peer " + pwhy
		if wrong {
			// the connection loses its allow-listed status: it has to fit into the standard system scope; the
			// implementation also routes it through the standard transient scope, which the statement neither
			// demands nor forbids (accepted either way)
			if i, w := c03FirstRefusing(m.scopeLinks([]string{c03Sys}, us), d, 255, true); i >= 0 {
				must, may, why = true, true, "system "+w
			}
			if i, w := c03FirstRefusing(m.scopeLinks([]string{c03Tr}, us), d, 255, true); i >= 0 {
				may = true
				if !must {
					why = "transient " + w
				}
			}
		}
		if err == nil {
			if must {
				return seqmc.Violation("accepted-over-limit:SetPeer", "%s succeeded although %s would exceed its limit (holder %v)", op, why, d)
			}
			h.peer = int(op.P)
			if wrong {
				h.allow = false
				in.outcome("SetPeer: attached, allow-listed connection transferred to the standard scopes")
			} else if h.allow {
				in.outcome("SetPeer: attached (allow-listed)")
			} else {
				in.outcome("SetPeer: attached")
			}
			break
		}
		if !may {
			return c03Spurious(op, err)
		}
		if !c03IsLimit(err) {
			return seqmc.Violation("refusal-not-wrapping-sentinel:SetPeer", "%s refused (%s) but the error does not wrap network.ErrResourceLimitExceeded: %v", op, why, err)
		}
		// a refused re-parenting step leaves the connection charged exactly once in a consistent set of scopes:
		// the allow-listed pair or the standard pair (never a mixture, never nothing)
		got := c03EdgeNames(c03RS(in.conns[op.I]), in.scopeNames())
		switch {
		case c03SameSet(got, []string{c03Tr, c03Sys}):
			if h.allow {
				in.outcome("SetPeer: refused (" + why + "), connection left in the standard pair after leaving the allow-listed pair")
			} else {
				in.outcome("SetPeer: refused (" + why + "), connection stays in the standard pair")
			}
			h.allow = false
		case c03SameSet(got, []string{c03ATr, c03ASys}) && h.allow:
			in.outcome("SetPeer: refused (" + why + "), connection stays in the allow-listed pair")
		default:
			if len(got) == 0 {
				// the shape of the open known finding (the connection is charged to nothing). It must not mask further damage
				// of the same step: with the connection counted nowhere, every scope has to report exactly what the OTHER
				// holders hold - a scope that kept (part of) the connection's resources is a different violation
				h.nowhere = true
				extra := in.audit(op, true)
				h.nowhere = false
				if extra != nil {
					if v, ok := extra.(*seqmc.Vio); ok {
						return seqmc.Violation("refused-reparent-stray-usage:SetPeer", "%s refused (%s: %v); the connection is charged to no scope any more, and on top of that: %s", op, why, err, v.Desc)
					}
					return extra
				}
			}
			return seqmc.Violation("refused-reparent-inconsistent:SetPeer", "%s refused (%s: %v) and the connection, still open and holding %v, is now charged to %v (consistent would be [transient system] or [alTransient alSystem])", op, why, err, d, got)
		}
		reparentRefused = true

	case c03OpSetProto:
		h := m.streams[op.I]
		err := in.streams[op.I].SetProtocol(c03ProtoIDs[op.P])
		if h.closed {
			in.outcome(fmt.Sprintf("SetProtocol on a closed stream: err=%v", err != nil))
			break
		}
		d := h.res()
		chain := m.scopeLinks([]string{c03ProtoScope[op.P], c03ProtoPeerScope[op.P][h.peer]}, us)
		ri, why := c03FirstRefusing(chain, d, 255, true)
		if ri < 0 {
			if err != nil {
				return c03Spurious(op, err)
			}
			h.proto = int(op.P)
			in.outcome("SetProtocol: attached")
			break
		}
		if err == nil {
			return seqmc.Violation("accepted-over-limit:SetProtocol:"+c03Kind(chain[ri].name), "%s succeeded although %s would exceed its %s limit (holder %v, usage %v)", op, chain[ri].name, why, d, chain[ri].use)
		}
		if !c03IsLimit(err) {
			return seqmc.Violation("refusal-not-wrapping-sentinel:SetProtocol", "%s refused but the error does not wrap network.ErrResourceLimitExceeded: %v", op, err)
		}
		if got := c03EdgeNames(c03RS(in.streams[op.I]), in.scopeNames()); !c03SameSet(got, m.charged(h)) {
			return seqmc.Violation("refused-reparent-inconsistent:SetProtocol", "%s refused (%v) and the stream, holding %v, is now charged to %v instead of %v", op, err, d, got, m.charged(h))
		}
		in.outcome("SetProtocol: refused at " + c03LinkClass(chain, ri) + " " + why)
		reparentRefused = true

	case c03OpSetSvc:
		h := m.streams[op.I]
		err := in.streams[op.I].SetService(c03SvcName)
		if h.closed {
			in.outcome(fmt.Sprintf("SetService on a closed stream: err=%v", err != nil))
			break
		}
		if h.proto < 0 {
			// not attached to a protocol yet: the implementation refuses; the statement is silent, so only
			// "nothing changed" (checked through the sums below) matters
			if err == nil {
				return seqmc.Violation("harness-assumption:SetService-before-SetProtocol", "%s succeeded on a stream without protocol; the model has no charge set for that", op)
			}
			in.outcome("SetService before SetProtocol: refused")
			return in.checkRefusal(op, err, pre, false)
		}
		d := h.res()
		chain := m.scopeLinks([]string{c03SvcN, c03SvcPeerScope[h.peer]}, us)
		ri, why := c03FirstRefusing(chain, d, 255, true)
		if ri < 0 {
			if err != nil {
				return c03Spurious(op, err)
			}
			h.svc = true
			in.outcome("SetService: attached")
			break
		}
		if err == nil {
			return seqmc.Violation("accepted-over-limit:SetService:"+c03Kind(chain[ri].name), "%s succeeded although %s would exceed its %s limit (holder %v, usage %v)", op, chain[ri].name, why, d, chain[ri].use)
		}
		if !c03IsLimit(err) {
			return seqmc.Violation("refusal-not-wrapping-sentinel:SetService", "%s refused but the error does not wrap network.ErrResourceLimitExceeded: %v", op, err)
		}
		if got := c03EdgeNames(c03RS(in.streams[op.I]), in.scopeNames()); !c03SameSet(got, m.charged(h)) {
			return seqmc.Violation("refused-reparent-inconsistent:SetService", "%s refused (%v) and the stream, holding %v, is now charged to %v instead of %v", op, err, d, got, m.charged(h))
		}
		in.outcome("SetService: refused at " + c03LinkClass(chain, ri) + " " + why)
		reparentRefused = true

	case c03OpReserve:
		var h *c03Holder
		var err error
		if op.T == c03TScope {
			err = in.view(op.scope(), func(s network.ResourceScope) error { return s.ReserveMemory(int(op.Size), op.Prio) })
		} else {
			var sc network.ResourceScopeSpan
			h, sc = in.holder(int(op.T), int(op.I))
			err = sc.ReserveMemory(int(op.Size), op.Prio)
		}
		chain, open := m.memChain(h, op.scope(), us)
		if !open {
			// some owner is closed: which error comes back is not specified; nothing may be charged
			if err == nil {
				// a span of a closed owner may legitimately accept and charge nothing; track it as held by the span
				h.own += op.Size
			}
			in.outcome(fmt.Sprintf("ReserveMemory below a closed owner: err=%v", err != nil))
			break
		}
		d := c03Delta{mem: op.Size}
		ri, _ := c03FirstRefusing(chain, d, op.Prio, true)
		if ri < 0 {
			if err != nil {
				return c03Spurious(op, err)
			}
			if h != nil {
				h.own += op.Size
			} else {
				m.direct[op.scope()] += op.Size
			}
			in.outcome(fmt.Sprintf("ReserveMemory(%s prio %d): granted, chain of %d", c03TNames[op.T], op.Prio, len(chain)))
			break
		}
		if err == nil && chain[ri].lim.Memory == math.MaxInt64 {
			// the sum of what the holders hold is no longer representable: the scope wraps around
			return seqmc.Violation("accepted-beyond-maxint64-at-unlimited-limit:ReserveMemory",
				"%s granted although %s already holds %v and its limit is MaxInt64 (the reported usage wraps negative)", op, chain[ri].name, chain[ri].use)
		}
		if err == nil {
			return seqmc.Violation("accepted-over-limit:ReserveMemory:"+c03Kind(chain[ri].name),
				"%s granted although %s (usage %v, memory limit %d) may hold at most %v at priority %d", op, chain[ri].name, chain[ri].use, chain[ri].lim.Memory, c03MemBound(chain[ri].lim.Memory, op.Prio), op.Prio)
		}
		in.outcome(fmt.Sprintf("ReserveMemory(%s): refused at %s", c03TNames[op.T], c03LinkClass(chain, ri)))
		return in.checkRefusal(op, err, pre, true)

	case c03OpRelease:
		if op.T == c03TScope {
			in.view(op.scope(), func(s network.ResourceScope) error { s.ReleaseMemory(int(op.Size)); return nil })
			m.direct[op.scope()] -= op.Size
			if m.direct[op.scope()] == 0 {
				delete(m.direct, op.scope())
			}
		} else {
			h, sc := in.holder(int(op.T), int(op.I))
			sc.ReleaseMemory(int(op.Size))
			h.own -= op.Size
		}
		in.outcome("ReleaseMemory(" + c03TNames[op.T] + ")")

	case c03OpBeginSpan:
		nh := &c03Holder{kind: c03KSpan, idx: len(in.spans), peer: -1, proto: -1}
		var sp network.ResourceScopeSpan
		var err error
		if op.T == c03TScope {
			err = in.view(op.scope(), func(s network.ResourceScope) error {
				var e error
				sp, e = s.BeginSpan()
				return e
			})
			nh.ownerScope, nh.depth = op.scope(), 1
		} else {
			h, sc := in.holder(int(op.T), int(op.I))
			sp, err = sc.BeginSpan()
			nh.owner, nh.depth = h, 1
			if h.kind == c03KSpan {
				nh.depth = h.depth + 1
			}
			if h.closed {
				if err == nil {
					return seqmc.Violation("harness-assumption:BeginSpan-on-closed", "%s succeeded on a closed owner", op)
				}
				in.outcome("BeginSpan on a closed owner: refused")
				return in.checkRefusal(op, err, pre, false)
			}
		}
		if err != nil {
			return c03Spurious(op, err)
		}
		if nh.owner != nil {
			nh.owner.kids = append(nh.owner.kids, nh)
		}
		m.spans = append(m.spans, nh)
		in.spans = append(in.spans, sp)
		in.outcome(fmt.Sprintf("BeginSpan on %s (depth %d)", c03TNames[op.T], nh.depth))

	case c03OpDone:
		h, sc := in.holder(int(op.T), int(op.I))
		sc.Done()
		if h.closed {
			in.outcome("Done repeated on " + c03TNames[op.T])
		} else if !h.chainOpen() {
			in.outcome("Done on " + c03TNames[op.T] + " below a closed owner")
		} else {
			in.outcome("Done on " + c03TNames[op.T])
		}
		h.closed = true

	case c03OpGC:
		in.rm.gc()
		in.outcome("gc")
	}

	return in.audit(op, reparentRefused)
}

func c03Spurious(op c03Op, err error) error {
	if c03IsLimit(err) {
		return seqmc.Violation("refused-although-fits:"+op.kindName(), "%s was refused with a limit error although no constraining scope would exceed its limit: %v", op, err)
	}
	return seqmc.Violation("refused-without-cause:"+op.kindName(), "%s failed although no limit and no per-subnet cap stands in its way: %v", op, err)
}

func (m *c03Model) subnetCountsS() string {
	c := m.subnetCounts()
	var l []string
	for k, v := range c {
		l = append(l, fmt.Sprintf("%s=%d/cap %d", k.key, v, k.cap))
	}
	sort.Strings(l)
	return strings.Join(l, ", ")
}

// audit: the "at every moment" part of the statement, evaluated after every operation.
func (in *c03Inst) audit(op c03Op, reparentRefused bool) error {
	if in.fast {
		return nil
	}
	m := in.m
	post := in.observe()
	want := m.usages()
	names := map[string]struct{}{}
	for k := range post.stats {
		names[k] = struct{}{}
	}
	for k := range want {
		names[k] = struct{}{}
	}
	l := make([]string, 0, len(names))
	for k := range names {
		l = append(l, k)
	}
	c03SortScopes(l)
	// (1) every scope reports exactly the sum of what the holders charged to it hold
	for _, s := range l {
		got, exists := post.stats[s]
		if !want[s].equalStat(got) {
			ex := ""
			if !exists {
				ex = " (the scope no longer exists: a fresh View* of it reads zero)"
			}
			return seqmc.Violation("usage-not-sum-of-holders:"+op.kindName()+":"+c03Kind(s),
				"after %s scope %s reports %s%s but its holders hold %v; holders: %s", op, s, c03StatStr(got), ex, want[s], m.describe())
		}
	}
	// (2) never below zero, never above the configured limit (independent of the model)
	for _, s := range l {
		got, exists := post.stats[s]
		if !exists || strings.Contains(s, "?") {
			continue
		}
		lim := m.lim.of(s)
		bad := ""
		switch {
		case got.Memory < 0 || got.NumConnsInbound < 0 || got.NumConnsOutbound < 0 || got.NumFD < 0 || got.NumStreamsInbound < 0 || got.NumStreamsOutbound < 0:
			bad = "negative"
		case got.Memory > lim.Memory:
			bad = "memory"
		case got.NumConnsInbound > lim.ConnsInbound || got.NumConnsOutbound > lim.ConnsOutbound || got.NumConnsInbound+got.NumConnsOutbound > lim.Conns:
			bad = "conns"
		case got.NumStreamsInbound > lim.StreamsInbound || got.NumStreamsOutbound > lim.StreamsOutbound || got.NumStreamsInbound+got.NumStreamsOutbound > lim.Streams:
			bad = "streams"
		case got.NumFD > lim.FD:
			bad = "fd"
		}
		if bad != "" {
			return seqmc.Violation("usage-outside-limit:"+op.kindName()+":"+c03Kind(s)+":"+bad, "after %s scope %s reports %s, outside [0, limit %+v]", op, s, c03StatStr(got), lim)
		}
	}
	// (3) the holders' own scopes (connection, stream, span) report what the holder holds, as long as the
	//     holder and everything above it is open
	for t, hl := range [][]*c03Holder{m.conns, m.streams, m.spans} {
		for i, h := range hl {
			if !h.chainOpen() {
				continue
			}
			_, sc := in.holder(t, i)
			if got := sc.Stat(); !c03UseOf(h.res()).equalStat(got) {
				return seqmc.Violation("holder-stat-mismatch:"+op.kindName()+":"+c03TNames[t], "after %s %s#%d reports %s but holds %v", op, c03TNames[t], i, c03StatStr(got), h.res())
			}
		}
	}
	// (4) open connections per subnet never exceed the configured cap
	for k, n := range m.subnetCounts() {
		if n > k.cap {
			return seqmc.Violation("subnet-cap-exceeded:"+op.kindName()+":"+strings.SplitN(k.key, " ", 2)[0], "after %s there are %d open connections in %q, cap %d", op, n, k.key, k.cap)
		}
	}
	// (5) when the last holder is released every scope reads zero (part of (1)) and the subnet counters are empty
	if m.openConnsWithIP() == 0 && len(post.limiter) != 0 {
		return seqmc.Violation("subnet-counter-leak:"+op.kindName(), "after %s no connection with an IP address is open but the per-subnet limiter still counts %v", op, post.limiter)
	}
	if m.quiescent() {
		in.outcome("quiescent point audited: every scope zero, subnet counters empty")
	}
	return nil
}

func (m *c03Model) describe() string {
	var l []string
	for i, h := range m.conns {
		l = append(l, fmt.Sprintf("conn#%d{%s fd=%v %s allowlisted=%v peer=%d holds=%v closed=%v charged=%v}", i, c03DirS(h.dir), h.fd, c03EPs[h.ep].name, h.allow, h.peer, h.res(), h.closed, m.charged(h)))
	}
	for i, h := range m.streams {
		l = append(l, fmt.Sprintf("stream#%d{%s holds=%v closed=%v charged=%v}", i, c03DirS(h.dir), h.res(), h.closed, m.charged(h)))
	}
	for i, h := range m.spans {
		o := h.ownerScope
		if h.owner != nil {
			o = fmt.Sprintf("%s#%d", c03TNames[h.owner.kind], h.owner.idx)
		}
		l = append(l, fmt.Sprintf("span#%d{of %s own=%d closed=%v}", i, o, h.own, h.closed))
	}
	for _, s := range c03SortedKeys(m.direct) {
		l = append(l, fmt.Sprintf("direct{%s mem=%d}", s, m.direct[s]))
	}
	return strings.Join(l, " ")
}
