//go:build verif

package rcmgr

// C03, sequential part: the enumerated space (limit lattice x alphabets) and the test entry point.

import (
	"encoding/json"
	"fmt"
	"math"
	"os"
	"runtime"
	"runtime/debug"
	"sort"
	"strconv"
	"sync"
	"sync/atomic"
	"testing"
	"testing/synctest"
	"time"

	"github.com/libp2p/go-libp2p/core/network"
	"github.com/libp2p/go-libp2p/x/verif/seqmc"
	"github.com/libp2p/go-libp2p/x/verif/vrep"
)

// ---------- limit profiles ----------

const c03Huge = int64(1)<<62 + int64(1)<<61 // forces the big-integer path of the priority arithmetic

var (
	c03In  = network.DirInbound
	c03Out = network.DirOutbound

	// count profiles (memory unlimited)
	c03C0 = c03Lim(0, 0, 0, math.MaxInt64)
	c03C1 = c03Lim(1, 1, 1, math.MaxInt64)
	c03C2 = BaseLimit{Conns: 2, ConnsInbound: 1, ConnsOutbound: 2, Streams: 2, StreamsInbound: 2, StreamsOutbound: 1, FD: 1, Memory: math.MaxInt64}
	// memory profiles (counts unlimited)
	c03M0 = c03Lim(c03Inf, c03Inf, c03Inf, 0)
	c03M4 = c03Lim(c03Inf, c03Inf, c03Inf, 4)
	c03MH = c03Lim(c03Inf, c03Inf, c03Inf, c03Huge)
	// everything tight
	c03T1 = c03Lim(1, 1, 1, 4)
	c03T2 = BaseLimit{Conns: 2, ConnsInbound: 2, ConnsOutbound: 1, Streams: 2, StreamsInbound: 1, StreamsOutbound: 2, FD: 2, Memory: 4}
)

type c03Prof struct {
	name string
	l    BaseLimit
}

func (l *c03Limits) field(name string) *BaseLimit {
	switch name {
	case "system":
		return &l.system
	case "transient":
		return &l.transient
	case "alSystem":
		return &l.alSystem
	case "alTransient":
		return &l.alTransient
	case "svc":
		return &l.svc
	case "svcPeer":
		return &l.svcPeer
	case "proto":
		return &l.proto
	case "protoPeer":
		return &l.protoPeer
	case "peer":
		return &l.peer
	case "conn":
		return &l.conn
	case "stream":
		return &l.stream
	}
	panic("c03: no limit field " + name)
}

type c03Set struct {
	scope string
	prof  c03Prof
}

func c03LimitsWith(sets ...c03Set) (c03Limits, string) {
	l := c03AllUnl()
	name := ""
	for i, s := range sets {
		*l.field(s.scope) = s.prof.l
		if i > 0 {
			name += ","
		}
		name += s.scope + "=" + s.prof.name
	}
	if name == "" {
		name = "unlimited"
	}
	return l, name
}

var c03LooseSub = []c03SubnetCap{{32, 100}}
var c03LooseSub6 = []c03SubnetCap{{56, 100}}

// ---------- the scenario lattice ----------

// c03ThoroughExtra is added to every thorough depth written in the table below (the table was sized first,
// the extra level was added after measuring the cost).
const c03ThoroughExtra = 1

func c03Scenarios() []*c03Scn {
	var out []*c03Scn
	add := func(family string, depthQ, depthT int, alpha c03Alpha, sets ...c03Set) *c03Scn {
		l, n := c03LimitsWith(sets...)
		s := &c03Scn{name: family + "/" + n, family: family, lim: l, sub4: c03LooseSub, sub6: c03LooseSub6, alpha: alpha, depthQ: depthQ, depthT: depthT + c03ThoroughExtra}
		out = append(out, s)
		return s
	}
	pC0, pC1, pC2 := c03Prof{"C0", c03C0}, c03Prof{"C1", c03C1}, c03Prof{"C2", c03C2}
	pM0, pM4, pMH := c03Prof{"M0", c03M0}, c03Prof{"M4", c03M4}, c03Prof{"MH", c03MH}
	pT1, pT2 := c03Prof{"T1", c03T1}, c03Prof{"T2", c03T2}
	both := []network.Direction{c03In, c03Out}
	in1 := []network.Direction{c03In}
	out1 := []network.Direction{c03Out}

	// ---- family conn: OpenConnection / SetPeer / Done / memory on the connection, every edge tight in turn ----
	// chain of a connection: own scope, transient|peer, system
	connCount := c03Alpha{eps: []int{c03EPv4}, dirs: both, fds: []bool{true, false}, maxConns: 3, setPeer: []int{0, 1},
		sizes: []int64{3}, prios: []uint8{255}, memOn: [3]bool{true, false, false}, gc: true}
	connMem := c03Alpha{eps: []int{c03EPv4}, dirs: in1, fds: []bool{false}, maxConns: 2, setPeer: []int{0, 1},
		sizes: []int64{1, 3}, prios: []uint8{255, 127}, memOn: [3]bool{true, false, false}, gc: true, closedOps: true}
	for _, sc := range []string{"conn", "transient", "peer", "system"} {
		add("conn", 6, 8, connCount, c03Set{sc, pC0})
		add("conn", 6, 8, connCount, c03Set{sc, pC1})
		add("conn", 5, 8, connCount, c03Set{sc, pC2})
		add("conn", 6, 8, connMem, c03Set{sc, pM4})
		add("conn", 5, 8, connMem, c03Set{sc, pM0})
	}
	// inner scopes tighter and looser than outer ones
	add("conn", 6, 8, connCount, c03Set{"peer", pC1}, c03Set{"system", pC2})
	add("conn", 6, 8, connCount, c03Set{"peer", pC2}, c03Set{"system", pC1})
	add("conn", 5, 8, connCount, c03Set{"transient", pC1}, c03Set{"system", pC2})
	add("conn", 5, 8, connCount, c03Set{"transient", pC2}, c03Set{"system", pC1})
	add("conn", 6, 8, connCount, c03Set{"transient", pT1}, c03Set{"peer", pT2}, c03Set{"system", pT2})
	add("conn", 5, 8, connMem, c03Set{"peer", pM4}, c03Set{"system", pMH})
	add("conn", 5, 8, connMem, c03Set{"transient", pM0}, c03Set{"peer", pM4})
	// per-peer override: peer A tight, peer B loose
	{
		s := add("conn", 5, 8, connCount)
		s.lim.peerOver = map[int]BaseLimit{0: c03T1}
		s.name = "conn/peerA=T1(override)"
	}

	// ---- family stream: OpenStream / SetProtocol / SetService / memory on the stream ----
	// chain of a stream: own scope, peer, [transient | protoPeer, proto | protoPeer, svcPeer, proto, svc], system
	strCount := c03Alpha{streamPeers: []int{0, 1}, streamDirs: both, maxStreams: 3, protos: []int{0}, svc: true,
		sizes: []int64{3}, prios: []uint8{255}, memOn: [3]bool{false, true, false}, gc: true}
	strMem := c03Alpha{streamPeers: []int{0}, streamDirs: in1, maxStreams: 2, protos: []int{0}, svc: true, svcEarly: true,
		sizes: []int64{1, 3}, prios: []uint8{255, 127}, memOn: [3]bool{false, true, false}, gc: true, closedOps: true}
	for _, sc := range []string{"stream", "peer", "transient", "system", "proto", "protoPeer", "svc", "svcPeer"} {
		add("stream", 6, 8, strCount, c03Set{sc, pC0})
		add("stream", 6, 8, strCount, c03Set{sc, pC1})
		add("stream", 5, 8, strCount, c03Set{sc, pC2})
		add("stream", 6, 8, strMem, c03Set{sc, pM4})
		add("stream", 6, 8, strMem, c03Set{sc, pM0})
	}
	strTwoProto := strCount
	strTwoProto.protos = []int{0, 1}
	strTwoProto.streamPeers = []int{0}
	strTwoProto.closedOps = true
	add("stream", 6, 8, strTwoProto, c03Set{"proto", pC1})
	add("stream", 5, 8, strTwoProto, c03Set{"protoPeer", pC1}, c03Set{"svc", pC2})
	add("stream", 6, 8, strCount, c03Set{"protoPeer", pC1}, c03Set{"proto", pC2})
	add("stream", 6, 8, strCount, c03Set{"svcPeer", pC1}, c03Set{"svc", pC2})
	add("stream", 5, 8, strCount, c03Set{"proto", pC1}, c03Set{"protoPeer", pC2})
	add("stream", 5, 8, strCount, c03Set{"peer", pT1}, c03Set{"proto", pT2}, c03Set{"svc", pT2}, c03Set{"system", pT2})
	add("stream", 5, 8, strMem, c03Set{"svcPeer", pM4}, c03Set{"system", pMH})
	{
		s := add("stream", 5, 8, strTwoProto)
		s.lim.protoOver = map[int]BaseLimit{0: c03T1}
		s.name = "stream/protoq1=T1(override)"
	}

	// ---- family mix: connections and streams of the same peer compete in peer and system ----
	mix := c03Alpha{eps: []int{c03EPv4}, dirs: in1, fds: []bool{true}, maxConns: 2, setPeer: []int{0},
		streamPeers: []int{0}, streamDirs: out1, maxStreams: 2, protos: []int{0}, svc: true,
		sizes: []int64{3}, prios: []uint8{255}, memOn: [3]bool{true, true, false}, gc: true}
	add("mix", 6, 8, mix, c03Set{"peer", pT1})
	add("mix", 5, 8, mix, c03Set{"system", pT2})
	add("mix", 5, 8, mix, c03Set{"transient", pT1})

	// ---- family prio: the priority arithmetic, all sizes x all priorities ----
	allSizes := []int64{0, 1, 3, c03Big}
	allPrios := []uint8{0, 127, 254, 255}
	prioView := c03Alpha{views: []string{c03Sys}, viewSizes: allSizes, viewPrios: allPrios}
	for _, p := range []c03Prof{pM0, pM4, pMH, {"U", c03Unl}, {"Mmax-1", c03Lim(c03Inf, c03Inf, c03Inf, math.MaxInt64-1)}, {"M255", c03Lim(c03Inf, c03Inf, c03Inf, 255)},
		// MaxInt64/2+1 fits at priority 254 only if the scaling uses (1+prio) in the big-integer path
		{"MB", c03Lim(c03Inf, c03Inf, c03Inf, int64(1)<<62+int64(1)<<54+int64(1)<<53)}} {
		add("prio", 5, 7, prioView, c03Set{"system", p})
	}
	prioConn := c03Alpha{eps: []int{c03EPv4}, dirs: in1, fds: []bool{false}, maxConns: 1, setPeer: []int{0},
		sizes: allSizes, prios: allPrios, memOn: [3]bool{true, false, false}}
	for _, sc := range []string{"conn", "transient", "peer", "system"} {
		add("prio", 5, 7, prioConn, c03Set{sc, pM4})
		add("prio", 5, 7, prioConn, c03Set{sc, pMH})
	}
	add("prio", 5, 7, prioConn)

	// ---- family span: spans (nested up to 2) on connections and streams, Done in any order ----
	spanConn := c03Alpha{eps: []int{c03EPv4}, dirs: in1, fds: []bool{false}, maxConns: 1, setPeer: []int{0},
		sizes: []int64{1, 3}, prios: []uint8{255, 127}, memOn: [3]bool{true, false, true}, spanOn: [3]bool{true, false, true}, maxSpans: 2, maxNest: 2, closedOps: true}
	add("span", 6, 8, spanConn)
	add("span", 6, 8, spanConn, c03Set{"conn", pM4})
	add("span", 6, 8, spanConn, c03Set{"system", pM4})
	add("span", 5, 8, spanConn, c03Set{"peer", pM4})
	add("span", 5, 8, spanConn, c03Set{"transient", pM4})
	spanStream := c03Alpha{streamPeers: []int{0}, streamDirs: in1, maxStreams: 1, protos: []int{0}, svc: true,
		sizes: []int64{3}, prios: []uint8{255}, memOn: [3]bool{false, false, true}, spanOn: [3]bool{false, true, true}, maxSpans: 2, maxNest: 2, closedOps: true}
	add("span", 7, 9, spanStream, c03Set{"svcPeer", pM4})
	add("span", 6, 9, spanStream, c03Set{"proto", pM4})
	add("span", 6, 9, spanStream)
	spanThree := spanConn
	spanThree.maxSpans = 3
	spanThree.sizes, spanThree.prios = []int64{3}, []uint8{255}
	add("span", 6, 8, spanThree, c03Set{"system", pM4})

	// spans whose owner is closed first while ANOTHER holder is still charged to the shared ancestors: a span that
	// releases again what its owner's Done already returned is masked by the clamp at zero unless somebody else's
	// reservation is there to be taken (added after a seeded change was missed)
	spanOther := spanConn
	spanOther.sizes, spanOther.prios, spanOther.maxSpans, spanOther.maxNest = []int64{3}, []uint8{255}, 1, 1
	spanOther.views, spanOther.viewSizes, spanOther.viewPrios = []string{c03Sys}, []int64{3}, []uint8{255}
	add("span", 7, 9, spanOther)
	spanTwo := spanStream
	spanTwo.maxStreams, spanTwo.memOn, spanTwo.maxSpans, spanTwo.maxNest = 2, [3]bool{false, true, true}, 1, 1
	spanTwo.svc, spanTwo.protos = false, nil
	add("span", 7, 9, spanTwo)

	// ---- family view: View*-reservations, spans on View* scopes, gc ----
	viewAll := c03Alpha{views: []string{c03Sys, c03Tr, c03PeerScope[0], c03ProtoScope[0], c03SvcN}, viewSizes: []int64{1, 3}, viewPrios: []uint8{255},
		gc: true}
	add("view", 5, 6, viewAll)
	add("view", 5, 6, viewAll, c03Set{"system", pM4})
	viewGC := c03Alpha{views: []string{c03PeerScope[0], c03ProtoScope[0]}, viewSizes: []int64{3}, viewPrios: []uint8{255}, viewSpan: true,
		sizes: []int64{3}, prios: []uint8{255}, memOn: [3]bool{false, true, true}, maxSpans: 2, maxNest: 1,
		streamPeers: []int{0}, streamDirs: in1, maxStreams: 1, protos: []int{0}, svc: true, gc: true, closedOps: true}
	add("view", 6, 8, viewGC)
	add("view", 6, 8, viewGC, c03Set{"peer", pM4})
	add("view", 5, 8, viewGC, c03Set{"proto", pM4})
	add("view", 5, 8, viewGC, c03Set{"system", pM4})
	viewConn := c03Alpha{views: []string{c03Sys, c03Tr, c03PeerScope[0]}, viewSizes: []int64{3}, viewPrios: []uint8{255, 127},
		eps: []int{c03EPv4}, dirs: in1, fds: []bool{false}, maxConns: 1, setPeer: []int{0},
		sizes: []int64{3}, prios: []uint8{255}, memOn: [3]bool{true, false, false}, gc: true}
	add("view", 6, 7, viewConn, c03Set{"system", pM4})
	add("view", 6, 7, viewConn, c03Set{"transient", pM4})
	add("view", 6, 7, viewConn, c03Set{"peer", pM4})

	// ---- family full: every kind of holder at once, several scopes tight at once ----
	full := c03Alpha{eps: []int{c03EPv4}, dirs: in1, fds: []bool{true}, maxConns: 1, setPeer: []int{0},
		streamPeers: []int{0}, streamDirs: out1, maxStreams: 1, protos: []int{0}, svc: true,
		sizes: []int64{3}, prios: []uint8{255}, memOn: [3]bool{true, true, true}, spanOn: [3]bool{true, true, false}, maxSpans: 2, maxNest: 1,
		views: []string{c03Sys, c03PeerScope[0]}, viewSizes: []int64{3}, viewPrios: []uint8{255}, gc: true}
	add("full", 5, 7, full, c03Set{"system", pT2}, c03Set{"peer", pT2})
	add("full", 5, 7, full, c03Set{"system", pM4})
	add("full", 0, 7, full, c03Set{"peer", pM4}, c03Set{"transient", pT1})
	add("full", 0, 7, full, c03Set{"proto", pM4}, c03Set{"svcPeer", pT1})

	// ---- family net: endpoints, allow-list fallback, transfer back to the standard scopes, per-subnet caps ----
	netA := c03Alpha{eps: []int{c03EPv4, c03EPal, c03EPalA, c03EPv6, c03EPnoip}, dirs: in1, fds: []bool{false}, maxConns: 3,
		setPeer: []int{0, 1}, gc: true}
	netMem := netA
	netMem.eps = []int{c03EPv4, c03EPal, c03EPalA}
	netMem.fds = []bool{true}
	netMem.sizes, netMem.prios, netMem.memOn = []int64{3}, []uint8{255}, [3]bool{true, false, false}
	netMem.maxConns = 2
	netDir := netA
	netDir.eps = []int{c03EPv4, c03EPal, c03EPalA}
	netDir.dirs, netDir.fds = both, []bool{true, false}
	netDir.closedOps = true
	type netCfg struct {
		name     string
		sets     []c03Set
		sub4     []c03SubnetCap
		sub6     []c03SubnetCap
		alNetCap int
		dq, dt   int
		alpha    c03Alpha
	}
	netWide := netA
	netWide.eps = []int{c03EPv4, c03EPv4b, c03EPal, c03EPalb, c03EPalA, c03EPalA2, c03EPv6, c03EPv6b}
	netWide.setPeer = nil
	netWide.gc = false
	netWide.maxConns = 4
	netWide.closedOps = true // repeated Done must not return a subnet slot twice
	// tiny alphabet, deep: a subnet slot must be returned exactly once however often Done is repeated
	netDone := c03Alpha{eps: []int{c03EPv4, c03EPv4b, c03EPv4m}, dirs: in1, fds: []bool{false}, maxConns: 4, closedOps: true}
	for _, c := range []netCfg{
		{"caps /32=2,/24=2 (repeated Done)", nil, []c03SubnetCap{{32, 2}, {24, 2}}, c03LooseSub6, 0, 8, 9, netDone},
		// standard scopes full from the start: every allow-listed endpoint goes through the fallback
		{"system=C0,alSystem=C2", []c03Set{{"system", pC0}, {"alSystem", pC2}}, c03LooseSub, c03LooseSub6, 0, 6, 7, netA},
		{"transient=C0,alTransient=C1", []c03Set{{"transient", pC0}, {"alTransient", pC1}}, c03LooseSub, c03LooseSub6, 0, 6, 7, netA},
		{"system=C1,alSystem=C1", []c03Set{{"system", pC1}, {"alSystem", pC1}}, c03LooseSub, c03LooseSub6, 0, 6, 7, netA},
		{"system=C1,alSystem=C2,alTransient=C1", []c03Set{{"system", pC1}, {"alSystem", pC2}, {"alTransient", pC1}}, c03LooseSub, c03LooseSub6, 0, 6, 7, netA},
		{"transient=C1,peer=C1,alSystem=C2", []c03Set{{"transient", pC1}, {"peer", pC1}, {"alSystem", pC2}}, c03LooseSub, c03LooseSub6, 0, 5, 7, netA},
		{"system=T1,alSystem=T2 (memory and fd move too)", []c03Set{{"system", pT1}, {"alSystem", pT2}, {"alTransient", pT2}}, c03LooseSub, c03LooseSub6, 0, 6, 7, netMem},
		{"system=C1,peer=M4,alSystem=T2 (memory and fd move too)", []c03Set{{"system", pC1}, {"peer", pM4}, {"alSystem", pT2}}, c03LooseSub, c03LooseSub6, 0, 5, 7, netMem},
		{"system=C2,alSystem=C2 (both directions, fd)", []c03Set{{"system", pC2}, {"alSystem", pC2}}, c03LooseSub, c03LooseSub6, 0, 5, 6, netDir},
		// per-subnet caps
		{"caps /32=1,/56=1", nil, []c03SubnetCap{{32, 1}}, []c03SubnetCap{{56, 1}}, 0, 5, 6, netWide},
		{"caps /32=2,/24=2,/56=2", nil, []c03SubnetCap{{32, 2}, {24, 2}}, []c03SubnetCap{{56, 2}}, 0, 6, 7, netWide},
		{"caps /24=1,alnet=2", nil, []c03SubnetCap{{24, 1}}, []c03SubnetCap{{56, 2}}, 2, 5, 6, netWide},
		{"caps /32=1 with system=C0,alSystem=unl", []c03Set{{"system", pC0}}, []c03SubnetCap{{32, 1}}, []c03SubnetCap{{56, 1}}, 0, 6, 7, netA},
		{"caps /32=1 with system=C1,alSystem=C2", []c03Set{{"system", pC1}, {"alSystem", pC2}}, []c03SubnetCap{{32, 1}}, []c03SubnetCap{{56, 1}}, 0, 6, 7, netA},
		{"caps /32=1,alnet=1 with system=C1,alSystem=C2", []c03Set{{"system", pC1}, {"alSystem", pC2}}, []c03SubnetCap{{32, 1}}, []c03SubnetCap{{56, 1}}, 1, 6, 7, netA},
		{"caps /32=2,/24=2 with system=C0,alSystem=unl", []c03Set{{"system", pC0}}, []c03SubnetCap{{32, 2}, {24, 2}}, []c03SubnetCap{{56, 2}}, 0, 5, 7, netA},
	} {
		s := add("net", c.dq, c.dt, c.alpha, c.sets...)
		s.name = "net/" + c.name
		s.sub4, s.sub6, s.alNetCap = c.sub4, c.sub6, c.alNetCap
	}
	// scenario names identify the search in replay files: they must be unique
	seen := map[string]int{}
	for _, s := range out {
		seen[s.name]++
		if n := seen[s.name]; n > 1 {
			s.name = fmt.Sprintf("%s #%d", s.name, n)
		}
	}
	return out
}

// ---------- running ----------

func c03Spec(t *testing.T, scn *c03Scn, depth int) *seqmc.Spec[*c03Inst, c03Op] {
	return &seqmc.Spec[*c03Inst, c03Op]{
		Name: scn.name,
		New: func() *c03Inst {
			in := c03New(scn)
			in.depth = depth
			return in
		},
		Close:    func(in *c03Inst) { in.close() },
		Ops:      func(in *c03Inst) []c03Op { return in.ops() },
		Apply:    func(in *c03Inst, op c03Op) error { return in.apply(op) },
		Key:      func(in *c03Inst) string { return in.key() },
		Show:     func(o c03Op) string { return o.String() },
		Depth:    depth,
		Bubble:   true, // the manager's background GC ticker is virtual and never fires; gc() is an explicit event
		T:        t,
		Deadline: vrep.Deadline(),
	}
}

var c03Execs atomic.Int64

func TestVerifC03Seq(t *testing.T) {
	scns := c03Scenarios()
	if p := vrep.ReplayPath(); p != "" {
		c03Replay(t, scns, p)
		return
	}
	r := vrep.New("C03", "seq")
	thorough := vrep.Thorough()
	r.Bounds["universe"] = "2 peers, 2 protocols, 1 service, endpoints {v4, v4 allow-listed by network, v4 allow-listed for peer A, v6, no IP} + second addresses in the same /24, /56 and allow-listed network"
	r.Bounds["sizes"] = "{0,1,3,MaxInt64/2+1}"
	r.Bounds["priorities"] = "{0,127,254,255}"
	r.Bounds["span_nesting"] = 2
	type row struct {
		Name                string
		Depth               int
		States, Transitions int64
		Closed              bool
		Secs                float64
	}
	var rows []row
	depths := map[string]int{}
	nScn := 0
	// the searches are level-synchronous and most frontiers are small, so several scenarios run side by side;
	// results are merged in scenario order, which keeps counts and counterexamples deterministic
	// Two passes: first every scenario at a shallow depth (a few percent of the cost), then every scenario at
	// its full depth, families interleaved. If the deadline arrives during the second pass, the scenarios it
	// did not finish are reported with their shallow search (and a cap), instead of not at all. Histories
	// validated in the first pass are not audited twice (c03Validated).
	type job struct {
		scn            *c03Scn
		depth, shallow int
		a, b           *seqmc.Stats
		secs           float64
	}
	var jobs []*job
	for _, scn := range scns {
		d := scn.depthQ
		if thorough {
			d = scn.depthT
		}
		if d == 0 {
			continue
		}
		if v, err := strconv.Atoi(os.Getenv("C03_DEPTH_ADD")); err == nil {
			d += v // development knob: explore deeper than the configured tiers
		}
		if f := os.Getenv("C03_ONLY"); f != "" && f != scn.family && f != scn.name {
			continue
		}
		sh := d - 2
		if thorough {
			sh = d - 3
		}
		if sh < 2 {
			sh = 2
		}
		jobs = append(jobs, &job{scn: scn, depth: d, shallow: sh})
	}
	debug.SetGCPercent(400)
	debug.SetMemoryLimit(5 << 30) // soft limit: collect harder instead of growing towards the worker's ulimit
	par := 4
	per := runtime.GOMAXPROCS(0) / par
	if per < 1 {
		per = 1
	}
	runPass := func(order []*job, second bool) {
		var wg sync.WaitGroup
		next := make(chan *job, len(order))
		for _, j := range order {
			next <- j
		}
		close(next)
		for w := 0; w < par; w++ {
			wg.Add(1)
			go func() {
				defer wg.Done()
				for j := range next {
					if !time.Now().Before(vrep.Deadline()) {
						continue // reported below as a cap
					}
					t0 := time.Now()
					d := j.shallow
					if second {
						d = j.depth
					}
					sp := c03Spec(t, j.scn, d)
					sp.Workers = per
					st := seqmc.Run(sp)
					if second {
						j.b = st
					} else {
						j.a = st
					}
					j.secs += time.Since(t0).Seconds()
				}
			}()
		}
		wg.Wait()
	}
	runPass(jobs, false)
	// second pass: round-robin over the families
	var order []*job
	byFam := map[string][]*job{}
	var fams []string
	for _, j := range jobs {
		if _, ok := byFam[j.scn.family]; !ok {
			fams = append(fams, j.scn.family)
		}
		byFam[j.scn.family] = append(byFam[j.scn.family], j)
	}
	for i := 0; len(order) < len(jobs); i++ {
		for _, f := range fams {
			if i < len(byFam[f]) {
				order = append(order, byFam[f][i])
			}
		}
	}
	runPass(order, true)
	shallowOnly := 0
	for _, j := range jobs {
		st, d := j.b, j.depth
		if st == nil || st.Capped != "" {
			if j.a == nil {
				r.Cap("deadline reached before scenario %s", j.scn.name)
				continue
			}
			r.Cap("%s: deadline reached, explored to depth %d instead of %d", j.scn.name, j.shallow, j.depth)
			if st != nil {
				// keep what the unfinished deep search found
				for _, v := range st.Violations {
					if v.Key != "replay-divergence" {
						r.Violate(v.Key, v.Desc, map[string]any{"search": j.scn.name, "history": v.History})
					}
				}
			}
			st, d = j.a, j.shallow
			shallowOnly++
		}
		nScn++
		seqmc.Fill(r, j.scn.name, st)
		rows = append(rows, row{j.scn.name, d, st.States, st.Transitions, st.Closed, j.secs})
		if d > depths[j.scn.family] {
			depths[j.scn.family] = d
		}
	}
	if shallowOnly > 0 {
		r.Bounds["scenarios_explored_only_to_the_shallow_depth"] = shallowOnly
	}
	r.Bounds["scenarios"] = nScn
	r.Bounds["depth_by_family"] = depths
	// the per-search outcome lines of seqmc.Fill are replaced by the outcome classes observed by the oracle
	r.Outcomes = map[string]int64{}
	var classes []string
	c03Outcomes.Range(func(k, v any) bool {
		r.Outcomes[k.(string)] = v.(*atomic.Int64).Load()
		classes = append(classes, k.(string))
		return true
	})
	r.Distinct = int64(len(classes))
	sort.Strings(classes)
	for _, row := range rows {
		t.Logf("%-70s depth=%d states=%-8d transitions=%-9d closed=%-5v %.1fs", row.Name, row.Depth, row.States, row.Transitions, row.Closed, row.Secs)
	}
	for _, c := range classes {
		t.Logf("outcome %8d  %s", r.Outcomes[c], c)
	}
	r.Note("scenarios explored: %d; outcome classes: %d", nScn, len(classes))
	r.Flush()
}

// c03Replay re-executes one recorded history (check.py --replay) and prints the trace.
func c03Replay(t *testing.T, scns []*c03Scn, path string) {
	var rp struct {
		Key    string `json:"key"`
		Replay struct {
			Search  string   `json:"search"`
			History []string `json:"history"`
		} `json:"replay"`
	}
	b, err := os.ReadFile(path)
	if err != nil {
		t.Logf("replay: %v", err)
		return
	}
	if err := json.Unmarshal(b, &rp); err != nil {
		t.Logf("replay: %v", err)
		return
	}
	r := vrep.New("C03", "seq")
	defer r.Flush()
	for _, scn := range scns {
		if scn.name != rp.Replay.Search {
			continue
		}
		run := func() {
			in := c03New(scn)
			defer in.close()
			t.Logf("replay of %q, limits %+v", scn.name, scn.lim)
			for i, want := range rp.Replay.History {
				var op *c03Op
				for _, o := range in.ops() {
					if o.String() == want {
						o := o
						op = &o
						break
					}
				}
				if op == nil {
					t.Logf("step %d: operation %q is not enabled here (replay diverged)", i, want)
					r.Cap("replay diverged at step %d", i)
					return
				}
				err := in.apply(*op)
				r.Executions++
				o := in.observe()
				var names []string
				for n := range o.stats {
					names = append(names, n)
				}
				c03SortScopes(names)
				line := ""
				for _, n := range names {
					if st := o.stats[n]; st != (network.ScopeStat{}) {
						line += " " + n + "=" + c03StatStr(st)
					}
				}
				t.Logf("step %d: %-55s -> reported:%s | subnet counters: %v | holders: %s", i, want, line, o.limiter, in.m.describe())
				if err != nil {
					t.Logf("   VIOLATION %v", err)
					if v, ok := err.(*seqmc.Vio); ok {
						r.Violate(v.Key, v.Desc, map[string]any{"search": scn.name, "history": rp.Replay.History[:i+1]})
					}
					return
				}
			}
			t.Logf("replay finished without violation")
		}
		c03InBubble(t, run)
		return
	}
	t.Logf("replay: scenario %q not found", rp.Replay.Search)
	r.Cap("replay: scenario not found")
}

func c03InBubble(t *testing.T, f func()) { synctest.Test(t, func(*testing.T) { f() }) }

func c03Describe(scn *c03Scn) string { return fmt.Sprintf("%s %+v", scn.name, scn.lim) }
