//go:build verif

package rcmgr

// C03, sequential part (engine E1): reference model of DESIGN Appendix D.1.
//
// The model keeps, per holder (connection, stream, span, direct View* reservation), what the caller holds
// and the set of scopes the holder is charged to. Every scope's expected ScopeStat is DERIVED as a sum over
// holders (c03Model.usages); nothing in here copies the accounting code of scope.go / rcmgr.go. Memory
// bounds are computed with math/big.

import (
	"math"
	"math/big"
	"net/netip"
	"sort"
	"strconv"
	"strings"

	"github.com/libp2p/go-libp2p/core/network"
)

const (
	c03KConn = iota
	c03KStream
	c03KSpan
)

// canonical scope names of the model (independent of the implementation's debug names)
const (
	c03Sys  = "system"
	c03Tr   = "transient"
	c03ASys = "alSystem"
	c03ATr  = "alTransient"
	c03SvcN = "svc:s"
)

var (
	c03PeerNames  = [2]string{"A", "B"}
	c03ProtoNames = [2]string{"q1", "q2"}

	c03PeerScope      = [2]string{"peer:A", "peer:B"}
	c03ProtoScope     = [2]string{"proto:q1", "proto:q2"}
	c03ProtoPeerScope = [2][2]string{{"protoPeer:q1/A", "protoPeer:q1/B"}, {"protoPeer:q2/A", "protoPeer:q2/B"}}
	c03SvcPeerScope   = [2]string{"svcPeer:s/A", "svcPeer:s/B"}
)

// c03Kind is the scope class used in violation keys ("peer", "protoPeer", "system", ...).
func c03Kind(scope string) string {
	if i := strings.IndexByte(scope, ':'); i >= 0 {
		return scope[:i]
	}
	return scope
}

// c03KindOrder: most specific class first, so that a violation key names the most informative scope.
var c03KindOrder = map[string]int{"conn": 0, "stream": 0, "span": 0, "protoPeer": 1, "svcPeer": 2, "peer": 3, "proto": 4, "svc": 5,
	c03ATr: 6, c03Tr: 7, c03ASys: 8, c03Sys: 9}

func c03SortScopes(names []string) {
	sort.Slice(names, func(i, j int) bool {
		ki, kj := c03KindOrder[c03Kind(names[i])], c03KindOrder[c03Kind(names[j])]
		if ki != kj {
			return ki < kj
		}
		return names[i] < names[j]
	})
}

// ---------- limits ----------

// c03Limits is the limit configuration of one scenario; the real ConcreteLimitConfig is built from it.
type c03Limits struct {
	system, transient, alSystem, alTransient BaseLimit
	svc, svcPeer, proto, protoPeer, peer     BaseLimit
	conn, stream                             BaseLimit
	peerOver                                 map[int]BaseLimit // per-peer override (index into c03PeerIDs)
	protoOver                                map[int]BaseLimit
}

func c03Lim(conns, streams, fd int, mem int64) BaseLimit {
	return BaseLimit{Streams: streams, StreamsInbound: streams, StreamsOutbound: streams,
		Conns: conns, ConnsInbound: conns, ConnsOutbound: conns, FD: fd, Memory: mem}
}

const c03Inf = math.MaxInt

var c03Unl = c03Lim(c03Inf, c03Inf, c03Inf, math.MaxInt64)

func c03AllUnl() c03Limits {
	u := c03Unl
	return c03Limits{system: u, transient: u, alSystem: u, alTransient: u, svc: u, svcPeer: u, proto: u, protoPeer: u, peer: u, conn: u, stream: u}
}

func (l *c03Limits) of(scope string) BaseLimit {
	switch c03Kind(scope) {
	case c03Sys:
		return l.system
	case c03Tr:
		return l.transient
	case c03ASys:
		return l.alSystem
	case c03ATr:
		return l.alTransient
	case "svc":
		return l.svc
	case "svcPeer":
		return l.svcPeer
	case "protoPeer":
		return l.protoPeer
	case "proto":
		for q, n := range c03ProtoScope {
			if n == scope {
				if v, ok := l.protoOver[q]; ok {
					return v
				}
			}
		}
		return l.proto
	case "peer":
		for p, n := range c03PeerScope {
			if n == scope {
				if v, ok := l.peerOver[p]; ok {
					return v
				}
			}
		}
		return l.peer
	case "conn":
		return l.conn
	case "stream":
		return l.stream
	}
	panic("c03: unknown scope " + scope)
}

// ---------- usage vectors ----------

type c03Delta struct {
	ci, co, fd, si, so int
	mem                int64
}

func (d c03Delta) String() string {
	return "{ci:" + strconv.Itoa(d.ci) + " co:" + strconv.Itoa(d.co) + " fd:" + strconv.Itoa(d.fd) + " si:" + strconv.Itoa(d.si) +
		" so:" + strconv.Itoa(d.so) + " mem:" + strconv.FormatInt(d.mem, 10) + "}"
}

type c03Use struct {
	ci, co, fd, si, so int
	mem                big.Int
}

func (u *c03Use) add(d c03Delta) {
	u.ci += d.ci
	u.co += d.co
	u.fd += d.fd
	u.si += d.si
	u.so += d.so
	if d.mem != 0 {
		var t big.Int
		t.SetInt64(d.mem)
		u.mem.Add(&u.mem, &t)
	}
}

func (u *c03Use) zero() bool {
	return u == nil || (u.ci == 0 && u.co == 0 && u.fd == 0 && u.si == 0 && u.so == 0 && u.mem.Sign() == 0)
}

func (u *c03Use) String() string {
	if u == nil {
		return "{0}"
	}
	return "{ci:" + strconv.Itoa(u.ci) + " co:" + strconv.Itoa(u.co) + " fd:" + strconv.Itoa(u.fd) + " si:" + strconv.Itoa(u.si) +
		" so:" + strconv.Itoa(u.so) + " mem:" + u.mem.String() + "}"
}

func (u *c03Use) equalStat(s network.ScopeStat) bool {
	if u == nil {
		return s == network.ScopeStat{}
	}
	return u.ci == s.NumConnsInbound && u.co == s.NumConnsOutbound && u.fd == s.NumFD && u.si == s.NumStreamsInbound &&
		u.so == s.NumStreamsOutbound && u.mem.IsInt64() && u.mem.Int64() == s.Memory
}

func c03StatStr(s network.ScopeStat) string {
	return "{ci:" + strconv.Itoa(s.NumConnsInbound) + " co:" + strconv.Itoa(s.NumConnsOutbound) + " fd:" + strconv.Itoa(s.NumFD) +
		" si:" + strconv.Itoa(s.NumStreamsInbound) + " so:" + strconv.Itoa(s.NumStreamsOutbound) + " mem:" + strconv.FormatInt(s.Memory, 10) + "}"
}

// c03MemBound: the memory a scope with this limit may hold right after a reservation of priority prio:
// floor(limit*(1+prio)/256), computed in big integers. MaxInt64 is the library's "unlimited" value
// (limit_defaults.go: Unlimited64): no scaling applies, but the usage still cannot exceed the limit itself.
func c03MemBound(limit int64, prio uint8) *big.Int {
	if limit == math.MaxInt64 {
		return big.NewInt(math.MaxInt64)
	}
	b := new(big.Int).Mul(big.NewInt(limit), big.NewInt(int64(prio)+1))
	return b.Quo(b, big.NewInt(256))
}

// c03Fits: would usage u plus d stay within lim? Returns "" or the resource that would exceed.
// checkMem: the call is a memory reservation of priority prio (ReserveMemory) or a re-parenting step (prio 255).
func c03Fits(u *c03Use, lim BaseLimit, d c03Delta, prio uint8, checkMem bool) string {
	var z c03Use
	if u == nil {
		u = &z
	}
	if checkMem {
		var n big.Int
		n.SetInt64(d.mem)
		n.Add(&n, &u.mem)
		if n.Cmp(c03MemBound(lim.Memory, prio)) > 0 {
			return "memory"
		}
	}
	if d.si > 0 && u.si+d.si > lim.StreamsInbound {
		return "streams-in"
	}
	if d.so > 0 && u.so+d.so > lim.StreamsOutbound {
		return "streams-out"
	}
	if d.si+d.so > 0 && u.si+u.so+d.si+d.so > lim.Streams {
		return "streams"
	}
	if d.ci > 0 && u.ci+d.ci > lim.ConnsInbound {
		return "conns-in"
	}
	if d.co > 0 && u.co+d.co > lim.ConnsOutbound {
		return "conns-out"
	}
	if d.ci+d.co > 0 && u.ci+u.co+d.ci+d.co > lim.Conns {
		return "conns"
	}
	if d.fd > 0 && u.fd+d.fd > lim.FD {
		return "fd"
	}
	return ""
}

// ---------- holders ----------

type c03Holder struct {
	kind   int
	idx    int // index in the instance's handle table of its kind
	closed bool
	own    int64 // memory reserved directly on this holder by the caller and not yet released

	// connection
	dir   network.Direction
	fd    bool
	ep    int
	allow bool // charged to the allow-listed system/transient pair
	peer  int  // connection: attached peer or -1; stream: its peer
	// nowhere: only set while the shape of the open known finding (a refused SetPeer leaving the connection charged
	// to no scope) is examined for ADDITIONAL damage: the holder is then counted in no scope at all
	nowhere bool

	// stream
	proto int // -1: none
	svc   bool

	// span
	owner      *c03Holder // nil: rooted at a View* scope
	ownerScope string
	depth      int // nesting depth (1 = span of a connection/stream/scope)
	kids       []*c03Holder
}

// total: the memory this holder's own scope accounts for: its own reservations plus its open spans', recursively.
// A closed holder holds nothing, and neither does anything below it ("a span of a closed owner charges nothing").
func (h *c03Holder) total() int64 {
	if h.closed {
		return 0
	}
	t := h.own
	for _, k := range h.kids {
		t += k.total() // cannot overflow: every accepted reservation kept the root's sum <= MaxInt64
	}
	return t
}

func (h *c03Holder) counts() c03Delta {
	if h.closed {
		return c03Delta{}
	}
	var d c03Delta
	switch h.kind {
	case c03KConn:
		if h.dir == network.DirInbound {
			d.ci = 1
		} else {
			d.co = 1
		}
		if h.fd {
			d.fd = 1
		}
	case c03KStream:
		if h.dir == network.DirInbound {
			d.si = 1
		} else {
			d.so = 1
		}
	}
	return d
}

// res: everything the holder holds (what its own scope reports).
func (h *c03Holder) res() c03Delta {
	d := h.counts()
	d.mem = h.total()
	return d
}

// chainOpen: the holder and every owner above it are open.
func (h *c03Holder) chainOpen() bool {
	for x := h; x != nil; x = x.owner {
		if x.closed {
			return false
		}
	}
	return true
}

func (h *c03Holder) root() *c03Holder {
	x := h
	for x.owner != nil {
		x = x.owner
	}
	return x
}

type c03Model struct {
	lim     *c03Limits
	net     *c03Net
	conns   []*c03Holder
	streams []*c03Holder
	spans   []*c03Holder
	direct  map[string]int64 // View*(scope).ReserveMemory not yet released
}

func c03NewModel(lim *c03Limits, nt *c03Net) *c03Model {
	return &c03Model{lim: lim, net: nt, direct: map[string]int64{}}
}

// charged: the scopes a connection/stream is charged to (D.1).
func (m *c03Model) charged(h *c03Holder) []string {
	switch h.kind {
	case c03KConn:
		sys, tr := c03Sys, c03Tr
		if h.allow {
			sys, tr = c03ASys, c03ATr
		}
		if h.peer >= 0 {
			return []string{c03PeerScope[h.peer], sys}
		}
		return []string{tr, sys}
	case c03KStream:
		switch {
		case h.svc:
			return []string{c03PeerScope[h.peer], c03ProtoPeerScope[h.proto][h.peer], c03SvcPeerScope[h.peer], c03ProtoScope[h.proto], c03SvcN, c03Sys}
		case h.proto >= 0:
			return []string{c03PeerScope[h.peer], c03ProtoPeerScope[h.proto][h.peer], c03ProtoScope[h.proto], c03Sys}
		default:
			return []string{c03PeerScope[h.peer], c03Tr, c03Sys}
		}
	}
	panic("c03: charged() of a span")
}

// scopeChain: a reservation made directly on a View* scope is charged to that scope and to system.
func c03ScopeChain(s string) []string {
	if s == c03Sys {
		return []string{c03Sys}
	}
	return []string{s, c03Sys}
}

// usages: expected ScopeStat of every scope = sum over holders. Scopes nobody is charged to are absent (= zero).
func (m *c03Model) usages() map[string]*c03Use {
	out := map[string]*c03Use{}
	add := func(scope string, d c03Delta) {
		if d == (c03Delta{}) {
			return
		}
		u := out[scope]
		if u == nil {
			u = &c03Use{}
			out[scope] = u
		}
		u.add(d)
	}
	for _, l := range [][]*c03Holder{m.conns, m.streams} {
		for _, h := range l {
			if h.closed {
				continue
			}
			d := h.res()
			if h.nowhere {
				continue
			}
			for _, s := range m.charged(h) {
				add(s, d)
			}
		}
	}
	for s, v := range m.direct {
		for _, c := range c03ScopeChain(s) {
			add(c, c03Delta{mem: v})
		}
	}
	for _, sp := range m.spans {
		if sp.owner == nil && !sp.closed {
			for _, c := range c03ScopeChain(sp.ownerScope) {
				add(c, c03Delta{mem: sp.total()})
			}
		}
	}
	return out
}

// quiescent: nothing is held by anybody.
func (m *c03Model) quiescent() bool {
	for _, l := range [][]*c03Holder{m.conns, m.streams} {
		for _, h := range l {
			if !h.closed {
				return false
			}
		}
	}
	for _, v := range m.direct {
		if v != 0 {
			return false
		}
	}
	for _, sp := range m.spans {
		if sp.owner == nil && !sp.closed && sp.total() != 0 {
			return false
		}
	}
	return true
}

// c03Link is one element of the chain of scopes that constrain a reservation.
type c03Link struct {
	name string // scope name, or "conn"/"stream"/"span" for the holder's own scopes
	use  *c03Use
	lim  BaseLimit
}

// firstRefusing returns the index and resource of the first link that would exceed its limit, or -1.
func c03FirstRefusing(chain []c03Link, d c03Delta, prio uint8, checkMem bool) (int, string) {
	for i, l := range chain {
		if why := c03Fits(l.use, l.lim, d, prio, checkMem); why != "" {
			return i, why
		}
	}
	return -1, ""
}

func c03UseOf(d c03Delta) *c03Use {
	u := &c03Use{}
	u.add(d)
	return u
}

// memChain: every scope that constrains a memory reservation made on target (a holder) or on a View* scope.
// ok=false when some scope of the chain is closed (the statement does not say which error that gives).
func (m *c03Model) memChain(target *c03Holder, scope string, us map[string]*c03Use) (chain []c03Link, ok bool) {
	if target == nil {
		for _, s := range c03ScopeChain(scope) {
			chain = append(chain, c03Link{s, us[s], m.lim.of(s)})
		}
		return chain, true
	}
	if !target.chainOpen() {
		return nil, false
	}
	root := target.root()
	var rootLim BaseLimit
	var rootName string
	if root.kind == c03KSpan {
		rootLim, rootName = m.lim.of(root.ownerScope), ""
	} else if root.kind == c03KConn {
		rootLim, rootName = m.lim.conn, "conn"
	} else {
		rootLim, rootName = m.lim.stream, "stream"
	}
	for x := target; x != nil; x = x.owner {
		if x.kind == c03KSpan {
			// a span carries a copy of its root owner's limit
			chain = append(chain, c03Link{"span", c03UseOf(c03Delta{mem: x.total()}), rootLim})
		} else {
			chain = append(chain, c03Link{rootName, c03UseOf(x.res()), rootLim})
		}
	}
	if root.kind == c03KSpan {
		for _, s := range c03ScopeChain(root.ownerScope) {
			chain = append(chain, c03Link{s, us[s], m.lim.of(s)})
		}
	} else {
		for _, s := range m.charged(root) {
			chain = append(chain, c03Link{s, us[s], m.lim.of(s)})
		}
	}
	return chain, true
}

func (m *c03Model) scopeLinks(names []string, us map[string]*c03Use) []c03Link {
	var chain []c03Link
	for _, s := range names {
		chain = append(chain, c03Link{s, us[s], m.lim.of(s)})
	}
	return chain
}

// ---------- subnets ----------

type c03PrefixCap struct {
	prefix netip.Prefix
	cap    int
}

type c03SubnetCap struct {
	bits int
	cap  int
}

// c03Net is the network side of a scenario: the configured caps, as the documentation of
// WithNetworkPrefixLimit / WithLimitPerSubnet defines them: an address inside a configured network prefix
// is bound by that network's cap (most specific network first) and by nothing else; any other address is
// bound by every per-subnet cap of its family.
type c03Net struct {
	prefixes []c03PrefixCap // most specific first
	sub4     []c03SubnetCap
	sub6     []c03SubnetCap
}

type c03CapKey struct {
	key string
	cap int
}

func (n *c03Net) capsFor(ip netip.Addr) []c03CapKey {
	for _, p := range n.prefixes {
		if p.prefix.Contains(ip) {
			return []c03CapKey{{"net " + p.prefix.String(), p.cap}}
		}
	}
	subs := n.sub4
	if ip.Is6() {
		subs = n.sub6
	}
	var out []c03CapKey
	for _, s := range subs {
		pf, err := ip.Prefix(s.bits)
		if err != nil {
			continue
		}
		out = append(out, c03CapKey{"subnet " + pf.String(), s.cap})
	}
	return out
}

// subnetCounts: number of simultaneously open connections per capped subnet.
func (m *c03Model) subnetCounts() map[c03CapKey]int {
	out := map[c03CapKey]int{}
	for _, h := range m.conns {
		if h.closed {
			continue
		}
		ip := c03EPs[h.ep].ip
		if !ip.IsValid() {
			continue
		}
		for _, k := range m.net.capsFor(ip) {
			out[k]++
		}
	}
	return out
}

// capWouldExceed: one more connection from ip would exceed a configured cap.
func (m *c03Model) capWouldExceed(ip netip.Addr) (string, bool) {
	cnt := m.subnetCounts()
	for _, k := range m.net.capsFor(ip) {
		if cnt[k]+1 > k.cap {
			return k.key, true
		}
	}
	return "", false
}

func (m *c03Model) openConnsWithIP() int {
	n := 0
	for _, h := range m.conns {
		if !h.closed && c03EPs[h.ep].ip.IsValid() {
			n++
		}
	}
	return n
}
