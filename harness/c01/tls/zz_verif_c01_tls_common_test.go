//go:build verif

package libp2ptls

// C01 (TLS part): security handshakes authenticate the remote peer's identity.
//
// Engine E3 (exhaustive fault / wire-mutation / input enumeration). Every execution is one or two complete
// runs of the REAL handshake (Transport.SecureInbound/SecureOutbound, or crypto/tls driven with the config
// returned by Identity.ConfigForPeer, which is what the QUIC and WebTransport transports do) over the
// in-memory wire of package c01wire, inside its own testing/synctest bubble.
//
//   TestVerifC01TLSMatrix   honest baseline matrix (key type x key type) x role x expected-peer setting x entry point.
//   TestVerifC01TLSWire     man-in-the-middle edits of every TLS record of every flight.
//   TestVerifC01TLSCerts    the certificate space: an endpoint driving crypto/tls directly with hand-built
//                           certificate chains, and the same chains given to PubKeyFromCertChain.
//
// Oracle for every HONEST side H (c01Judge / c01JudgeCert), phrases of the statement quoted:
//   (i)   "reports as its remote peer exactly the peer ID derived from a public key".
//   (ii)  "whose private key the remote used in that handshake": the harness built the run, so it knows which
//         identity private keys signed the certificate key that terminated H's link.
//   (iii) "when the local side named the peer it expects, the handshake succeeds only if that peer ID matches".
//   (iv)  "No side that received handshake data which was altered, truncated, replayed from another session or
//         signed/certified with a substituted key completes the handshake": the bytes H had consumed when its
//         handshake call returned must, after c01Norm, be a prefix of what its peer wrote.
//   (v)   "first Read on the TLS client side (TLS 1.3 reports server-side rejection there)": a first Read that
//         returns data requires that the peer completed too and that the data is what the peer wrote.
//   (+)   positive control: unedited runs between compatible honest configurations must complete.

import (
	"context"
	"crypto/sha1"
	"crypto/tls"
	"crypto/x509"
	"encoding/asn1"
	"encoding/hex"
	"errors"
	"fmt"
	"net"
	"runtime"
	"strings"
	"sync"
	"testing"
	"testing/synctest"
	"time"

	ic "github.com/libp2p/go-libp2p/core/crypto"
	"github.com/libp2p/go-libp2p/core/peer"
	tptu "github.com/libp2p/go-libp2p/p2p/net/upgrader"
	"github.com/libp2p/go-libp2p/x/verif/c01wire"
	"github.com/libp2p/go-libp2p/x/verif/vrep"
)

const (
	c01HandshakeTimeout = 10 * time.Second // virtual
	c01ReadTimeout      = 3 * time.Second  // virtual
	c01MaxRetries       = 400
)

var c01Muxers = []tptu.StreamMuxer{{ID: "/yamux/1.0.0"}}

func c01Key(t testing.TB, typ, idx int) *c01wire.Key {
	k, err := c01wire.GenKey(vrep.Seed(), typ, idx)
	if err != nil {
		t.Fatalf("c01: %v", err) // infrastructure, not a verdict
	}
	return k
}

// c01Bubble runs f inside a fresh synctest bubble (virtual clock starting at 2000-01-01).
func c01Bubble(t *testing.T, f func()) (panicked string) {
	synctest.Test(t, func(*testing.T) {
		defer func() {
			if r := recover(); r != nil {
				buf := make([]byte, 4096)
				panicked = fmt.Sprintf("%v\n%s", r, buf[:runtime.Stack(buf, false)])
			}
		}()
		f()
	})
	return panicked
}

// ---------- honest transports with a canonical-size certificate ----------

var (
	c01TptMu    sync.Mutex
	c01TptCache = map[string]*Transport{}
)

// c01CanonicalCert: the certificate made by NewIdentity has several fields of variable length (two random
// serial numbers, two DER ECDSA signatures). Record lengths - hence the enumerated byte positions - must not
// depend on that, so transports are re-made until every such field has its most likely length.
func c01CanonicalCert(der []byte, idType int) bool {
	c, err := x509.ParseCertificate(der)
	if err != nil {
		return false
	}
	if len(c.SerialNumber.Bytes()) != 8 || c.SerialNumber.Bytes()[0]&0x80 != 0 || len(c.Subject.SerialNumber) != 19 || len(c.Signature) != 71 {
		return false
	}
	for _, e := range c.Extensions {
		if extensionIDEqual(e.Id, extensionID) {
			var sk signedKey
			if _, err := asn1.Unmarshal(e.Value, &sk); err != nil {
				return false
			}
			return len(sk.Signature) == c01wire.CanonSigLen(idType)
		}
	}
	return false
}

// c01Transport returns the (cached) real Transport of an identity key. It is created inside a bubble because
// NewIdentity stamps the certificate with time.Now() and every run happens at the bubble epoch.
func c01Transport(t *testing.T, k *c01wire.Key) *Transport {
	c01TptMu.Lock()
	defer c01TptMu.Unlock()
	if tp, ok := c01TptCache[k.Name]; ok {
		return tp
	}
	var tp *Transport
	var err error
	pan := c01Bubble(t, func() {
		for try := 0; try < 4000; try++ {
			tp, err = New(ID, k.Priv, c01Muxers)
			if err != nil {
				return
			}
			if c01CanonicalCert(tp.identity.config.Certificates[0].Certificate[0], k.Typ) {
				return
			}
		}
		err = errors.New("no certificate of canonical size in 4000 attempts")
	})
	if pan != "" || err != nil {
		t.Fatalf("c01: cannot create the TLS transport of %s: %v %s", k.Name, err, pan) // infrastructure
	}
	c01TptCache[k.Name] = tp
	return tp
}

// ---------- one honest party ----------

type c01Secured struct {
	rw         net.Conn
	remotePeer peer.ID
	remoteKey  ic.PubKey
}

type c01Secure func(ctx context.Context, c net.Conn) (*c01Secured, error)

type c01Cfg struct {
	Entry  string `json:"entry"`  // "T" = Transport.SecureInbound/Outbound, "CFP" = crypto/tls + Identity.ConfigForPeer (QUIC style)
	Expect string `json:"expect"` // "match", "different", "empty"
}

func (c c01Cfg) String() string { return c.Entry + "/" + c.Expect }
func (c c01Cfg) named() bool    { return c.Expect == "match" || c.Expect == "different" }

func c01SideCfgs() []c01Cfg {
	var out []c01Cfg
	for _, e := range []string{"T", "CFP"} {
		for _, x := range []string{"match", "different", "empty"} {
			out = append(out, c01Cfg{e, x})
		}
	}
	return out
}

// c01Build returns the handshake entry point of an honest side naming p.
func c01Build(tp *Transport, entry string, client bool, p peer.ID) c01Secure {
	if entry == "T" {
		return func(ctx context.Context, c net.Conn) (*c01Secured, error) {
			var sc interface {
				net.Conn
				RemotePeer() peer.ID
				RemotePublicKey() ic.PubKey
			}
			var err error
			if client {
				sc, err = tp.SecureOutbound(ctx, c, p)
			} else {
				sc, err = tp.SecureInbound(ctx, c, p)
			}
			if err != nil || sc == nil {
				if err == nil {
					err = errors.New("nil connection without error")
				}
				return nil, err
			}
			return &c01Secured{rw: sc, remotePeer: sc.RemotePeer(), remoteKey: sc.RemotePublicKey()}, nil
		}
	}
	// What p2p/transport/quic does with the same Identity: ConfigForPeer, let the TLS stack run, then take the
	// key from the channel without blocking.
	return func(ctx context.Context, c net.Conn) (*c01Secured, error) {
		conf, keyCh := tp.identity.ConfigForPeer(p)
		var tc *tls.Conn
		if client {
			tc = tls.Client(c, conf)
		} else {
			tc = tls.Server(c, conf)
		}
		if err := tc.HandshakeContext(ctx); err != nil {
			c.Close()
			return nil, err
		}
		var k ic.PubKey
		select {
		case k = <-keyCh:
		default:
		}
		if k == nil {
			c.Close()
			return nil, errors.New("expected remote pub key to be set")
		}
		id, err := peer.IDFromPublicKey(k)
		if err != nil {
			c.Close()
			return nil, err
		}
		return &c01Secured{rw: tc, remotePeer: id, remoteKey: k}, nil
	}
}

type c01Party struct {
	name     string
	key      *c01wire.Key
	cfg      c01Cfg
	client   bool
	secure   c01Secure
	end      *c01wire.End
	expected peer.ID
	app      []byte

	completed  bool
	err        error
	rw         net.Conn
	remotePeer peer.ID
	remoteKey  ic.PubKey
	consumed   int
	received   []byte
	readN      int
	readData   []byte
	readErr    error
	panicked   string
}

func (p *c01Party) resultClass() string {
	if p.panicked != "" {
		return "harness-panic"
	}
	if !p.completed {
		return "fail"
	}
	if p.readErr != nil {
		return "ok,read-fails"
	}
	return "ok,read-ok"
}

func c01HandshakePhase(parties []*c01Party, extra ...func(ctx context.Context)) {
	ctx, cancel := context.WithTimeout(context.Background(), c01HandshakeTimeout)
	defer cancel()
	var wg sync.WaitGroup
	for _, f := range extra {
		wg.Add(1)
		go func() { defer wg.Done(); f(ctx) }()
	}
	for _, p := range parties {
		wg.Add(1)
		go func() {
			defer wg.Done()
			defer func() {
				if r := recover(); r != nil {
					buf := make([]byte, 2048)
					p.panicked = fmt.Sprintf("%v\n%s", r, buf[:runtime.Stack(buf, false)])
				}
			}()
			s, err := p.secure(ctx, p.end)
			p.err = err
			if err == nil && s != nil {
				p.completed = true
				p.rw, p.remotePeer, p.remoteKey = s.rw, s.remotePeer, s.remoteKey
				p.consumed = p.end.Consumed()
			}
		}()
	}
	wg.Wait()
	for _, p := range parties {
		p.received = p.end.Received()
	}
}

func c01DataPhase(parties []*c01Party) {
	for _, p := range parties {
		if p.completed {
			p.rw.SetWriteDeadline(time.Now().Add(c01ReadTimeout))
			p.rw.Write(p.app)
		}
	}
	for _, p := range parties {
		if !p.completed {
			continue
		}
		p.rw.SetReadDeadline(time.Now().Add(c01ReadTimeout))
		buf := make([]byte, 512)
		n, err := p.rw.Read(buf)
		p.readN, p.readErr, p.readData = n, err, append([]byte{}, buf[:n]...)
	}
}

func c01Cleanup(parties []*c01Party) {
	for _, p := range parties {
		// not tls.Conn.Close: it would try to send close_notify; the raw end is what matters
		p.end.Close()
	}
}

// ---------- accounting ----------

type c01Acct struct {
	r        *vrep.Result
	t        *testing.T
	distinct map[[8]byte]struct{}
	retries  int64
	stop     bool
}

func c01NewAcct(t *testing.T, part string) *c01Acct {
	return &c01Acct{r: vrep.New("C01", part), t: t, distinct: map[[8]byte]struct{}{}}
}

func (a *c01Acct) nontrivial(class string) {
	h := sha1.Sum([]byte(class))
	var k [8]byte
	copy(k[:], h[:8])
	a.distinct[k] = struct{}{}
}

func (a *c01Acct) expired() bool {
	if a.stop {
		return true
	}
	if time.Now().After(vrep.Deadline()) {
		a.stop = true
		a.r.Cap("deadline reached; the remaining cases of this shard were not run")
	}
	return a.stop
}

func (a *c01Acct) flush() {
	a.r.Distinct = int64(len(a.distinct))
	if a.retries > 0 {
		a.r.Note("runs repeated because a signature made by the code under test did not have the canonical length: %d (not counted as executions)", a.retries)
	}
	a.r.Flush()
}

func (a *c01Acct) infra(f string, args ...any) {
	a.r.Cap("INFRASTRUCTURE (no verdict for this case): "+f, args...)
}

func c01Mine(n, shard, nshards int) bool {
	return int((uint64(n)*0x9e3779b97f4a7c15)>>33)%nshards == shard
}

func c01Hex(b []byte) string {
	if len(b) > 48 {
		return hex.EncodeToString(b[:48]) + fmt.Sprintf("...(%d bytes)", len(b))
	}
	return hex.EncodeToString(b)
}

func c01IsPrefix(pre, full []byte) bool {
	return len(pre) <= len(full) && string(full[:len(pre)]) == string(pre)
}

// ---------- what counts as "the handshake data H received" ----------

// c01Norm maps a TLS byte stream to the part of it that the TLS 1.3 handshake authenticates, so that two
// streams with the same image carry the same handshake data. It removes exactly the record-layer framing that
// TLS 1.3 does not authenticate and that RFC 8446 tells the receiver to ignore:
//
//   - the legacy_record_version field of PLAINTEXT handshake records (ClientHello, ServerHello): RFC 8446
//     5.1 "MUST be ignored for all purposes"; only the handshake message inside enters the transcript hash;
//   - a change_cipher_spec record consisting of the single byte 0x01 with version 0x0303: RFC 8446 5 "an
//     implementation may receive an unencrypted record of type change_cipher_spec consisting of the single
//     byte value 0x01 at any time after the first ClientHello ... and MUST simply drop it".
//
// Everything else (type and length of plaintext records, every byte of encrypted records, whose header is
// the AEAD additional data, alerts, anything unparseable) is kept verbatim.
func c01Norm(b []byte) []byte {
	var out []byte
	for len(b) > 0 {
		if len(b) < 5 {
			return append(append(out, 0xff), b...)
		}
		n := 5 + (int(b[3])<<8 | int(b[4]))
		if n > len(b) {
			return append(append(out, 0xff), b...)
		}
		rec := b[:n]
		b = b[n:]
		switch {
		case c01NormOn && rec[0] == 22: // plaintext handshake record
			out = append(append(out, 0x16, 0, 0, rec[3], rec[4]), rec[5:]...) // version field zeroed
		case c01NormOn && rec[0] == 20 && n == 6 && rec[1] == 3 && rec[2] == 3 && rec[5] == 1:
			// dropped
		default:
			out = append(append(out, 0x00), rec...)
		}
	}
	return out
}

// c01NormOn can be switched off to see which edits the normalisation absorbs.
var c01NormOn = true

// ---------- the oracle for a link between two honest parties ----------

func c01Describe(p *c01Party) map[string]any {
	m := map[string]any{"name": p.name, "key": p.key.Name, "cfg": p.cfg.String(), "client": p.client, "completed": p.completed,
		"err": fmt.Sprint(p.err), "consumed": p.consumed}
	if p.completed {
		m["remote_peer"] = p.remotePeer.String()
		m["read"] = fmt.Sprintf("%q/%v", p.readData, p.readErr)
	}
	return m
}

func (a *c01Acct) c01Judge(scn string, desc map[string]any, A, B *c01Party) []string {
	var keys []string
	bad := func(key, f string, args ...any) {
		keys = append(keys, key)
		d := map[string]any{}
		for k, v := range desc {
			d[k] = v
		}
		d["A"] = c01Describe(A)
		d["B"] = c01Describe(B)
		a.r.Violate(scn+"/"+key, fmt.Sprintf(f, args...), d)
	}
	for _, hp := range [][2]*c01Party{{A, B}, {B, A}} {
		H, P := hp[0], hp[1]
		if H.panicked != "" {
			a.infra("%s: harness goroutine of %s panicked: %s", scn, H.name, H.panicked)
			continue
		}
		if !H.completed {
			continue
		}
		// (i)
		if H.remoteKey == nil {
			bad("no-remote-key", "%s completed but the remote public key is nil (RemotePeer=%s)", H.name, H.remotePeer)
		} else if id, err := peer.IDFromPublicKey(H.remoteKey); err != nil || id != H.remotePeer {
			bad("remote-peer-not-derived-from-remote-key", "%s: RemotePeer()=%s but RemotePublicKey() hashes to %s (err=%v)", H.name, H.remotePeer, id, err)
		}
		// (ii)
		if H.remotePeer != P.key.ID || (H.remoteKey != nil && !H.remoteKey.Equals(P.key.Pub)) {
			bad("authenticated-as-someone-else", "%s completed with RemotePeer()=%s, but the endpoint that terminated its link is %s (%s)", H.name, H.remotePeer, P.key.ID, P.key.Name)
		}
		// (iii)
		if H.cfg.named() && H.remotePeer != H.expected {
			bad("completed-although-expected-peer-differs", "%s named %s but completed with RemotePeer()=%s", H.name, H.expected, H.remotePeer)
		}
		// (iv)
		sent := P.end.Sent()
		cons := H.received[:min(H.consumed, len(H.received))]
		if H.consumed > len(H.received) || !c01IsPrefix(c01Norm(cons), c01Norm(sent)) {
			bad("completed-on-altered-handshake-data", "%s completed after consuming %d bytes that are not what its peer sent: consumed=%s sent=%s", H.name, H.consumed, c01Hex(cons), c01Hex(sent))
		}
		// (v)
		if H.readErr == nil && H.readN > 0 {
			if !P.completed {
				bad("read-data-although-peer-did-not-complete", "%s read %q although %s never completed its handshake (err=%v)", H.name, H.readData, P.name, P.err)
			} else if string(H.readData) != string(P.app) {
				bad("read-data-peer-did-not-write", "%s read %q, peer wrote %q", H.name, H.readData, P.app)
			}
		} else if H.readErr == nil && !P.completed {
			bad("read-data-although-peer-did-not-complete", "%s: first Read returned (0, nil) although %s never completed", H.name, P.name)
		}
	}
	return keys
}

func c01Compatible(cc, cs c01Cfg) bool {
	return cc.Expect != "different" && cs.Expect != "different"
}

func c01ErrClass(err error) string {
	if err == nil {
		return "nil"
	}
	s := err.Error()
	for _, k := range []string{"peer id mismatch", "signature invalid", "signature verification failed", "expected one certificates in the chain", "expected certificate to contain the key extension",
		"duplicate extension", "unmarshalling public key failed", "unmarshalling signed certificate failed", "bad record MAC", "bad certificate", "invalid signature by the", "didn't provide a certificate",
		"empty certificates message", "EOF", "timeout", "deadline exceeded", "closed", "x509:", "remote error", "tls:"} {
		if strings.Contains(s, k) {
			return k
		}
	}
	if len(s) > 40 {
		s = s[:40]
	}
	return s
}
