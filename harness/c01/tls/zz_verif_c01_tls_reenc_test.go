//go:build verif

package libp2ptls

// TestVerifC01TLSReenc: the remote E holds its identity private key and the certificate key it handshakes
// with - everything about its certificate is genuine - but it writes its identity public key into the libp2p
// extension in ANOTHER, parseable wire encoding (package c01reenc: unknown protobuf fields appended /
// prepended / in between, fields in reverse order, repeated fields with the genuine one last, non-minimal
// varints for tag, type and length, and for secp256k1 the other SEC1 point forms). The extension signature is
// over the certificate key, so it stays valid whatever the encoding of the identity key is.
//
// Oracle ("reports as its remote peer exactly the peer ID derived from a public key whose private key the
// remote used in that handshake, and when the local side named the peer it expects, the handshake succeeds
// only if that peer ID matches"): IF the honest side accepts, the peer ID it reports is the peer ID of E's key
// as the harness derives it from the key itself (c01reenc.CanonID: type + raw form -> canonical protobuf ->
// multihash; not through MarshalPublicKey / IDFromPublicKey), the key it reports is E's key, and a side that
// named a peer named exactly that ID. Refusing a non-canonical encoding is fine. The canonical encoding is
// the positive control.

import (
	"crypto/ecdsa"
	"crypto/elliptic"
	"crypto/rand"
	"crypto/x509"
	"crypto/x509/pkix"
	"fmt"
	"math/big"
	"testing"
	"time"

	ic "github.com/libp2p/go-libp2p/core/crypto"
	"github.com/libp2p/go-libp2p/core/peer"
	"github.com/libp2p/go-libp2p/x/verif/c01reenc"
	"github.com/libp2p/go-libp2p/x/verif/c01wire"
	"github.com/libp2p/go-libp2p/x/verif/vrep"
)

type c01ReencWorld struct {
	E       *c01wire.Key
	canonID peer.ID // derived by the harness from the key E holds
	c1      *ecdsa.PrivateKey
	sig     []byte // E's signature over c1 (independent of how the identity key is encoded)
	encs    []c01reenc.Enc
	chains  map[int][][]byte
}

func c01NewReencWorld(E *c01wire.Key) (*c01ReencWorld, error) {
	w := &c01ReencWorld{E: E, chains: map[int][][]byte{}}
	raw, err := E.Pub.Raw()
	if err != nil {
		return nil, err
	}
	if w.canonID, err = c01reenc.CanonID(E.Pub); err != nil {
		return nil, err
	}
	if w.canonID != E.ID {
		return nil, fmt.Errorf("the peer ID of the locally generated key %s is %s, the harness derives %s", E.Name, E.ID, w.canonID)
	}
	if w.c1, err = ecdsa.GenerateKey(elliptic.P256(), rand.Reader); err != nil {
		return nil, err
	}
	w.sig = c01SignCertKey(E, w.c1.Public())
	w.encs = c01reenc.Encodings(E.Typ, raw)
	return w, nil
}

func (w *c01ReencWorld) chain(i int) [][]byte {
	if c, ok := w.chains[i]; ok {
		return c
	}
	tmpl := &x509.Certificate{
		SerialNumber:    big.NewInt(0x5eed0002),
		NotBefore:       time.Date(1999, 1, 1, 0, 0, 0, 0, time.UTC),
		NotAfter:        time.Date(2099, 1, 1, 0, 0, 0, 0, time.UTC),
		Subject:         pkix.Name{SerialNumber: "1234567890123456789"},
		ExtraExtensions: []pkix.Extension{c01Ext(w.encs[i].Bytes, w.sig)},
	}
	der, err := x509.CreateCertificate(rand.Reader, tmpl, tmpl, w.c1.Public(), w.c1)
	if err != nil {
		panic(err)
	}
	w.chains[i] = [][]byte{der}
	return w.chains[i]
}

type c01ReencRes struct {
	driver   string
	hkey     string
	hClient  bool
	entry    string
	expLabel string // canonical | alias | nobody
	expected peer.ID
	accepted bool
	err      error
	epErr    error
	key      ic.PubKey
	id       peer.ID
}

func TestVerifC01TLSReenc(t *testing.T) {
	a := c01NewAcct(t, "tls-reenc")
	defer a.flush()
	kt := c01wire.KeyTypes
	htypes := []int{kt[0]}
	if vrep.Thorough() {
		htypes = kt
	}
	var encNames []string
	for _, e := range c01reenc.Encodings(kt[0], make([]byte, 32)) {
		encNames = append(encNames, e.Name)
	}
	a.r.Bounds["encodings of the remote's genuine identity key in the certificate extension"] = append(encNames, "secp256k1 only: the point uncompressed; in hybrid form")
	a.r.Bounds["identity key type of the remote"] = "ed25519, ecdsa, secp256k1, rsa2048 (all encodings each)"
	a.r.Bounds["identity key type of the honest side"] = fmt.Sprintf("%d (quick: ed25519; thorough: all 4)", len(htypes))
	a.r.Bounds["drivers"] = "PubKeyFromCertChain; ConfigForPeer(p).VerifyPeerCertificate called directly; full TLS 1.3 handshake of a crypto/tls endpoint holding the certificate key against the real Transport and against crypto/tls+ConfigForPeer, honest side as client and as server"
	a.r.Bounds["expected peer of the honest side"] = "the remote's peer ID; the ID that hashing the bytes as received gives (non-canonical encodings only); nobody"
	shard, nshards := vrep.Shard()
	n, cases := 0, 0
	accepted := map[string]int{}
	for _, te := range kt {
		E := c01Key(t, te, 2)
		var w *c01ReencWorld
		get := func() *c01ReencWorld {
			if w == nil {
				var err error
				if w, err = c01NewReencWorld(E); err != nil {
					a.infra("re-encoding world of %s: %v", E.Name, err)
				}
			}
			return w
		}
		raw, err := E.Pub.Raw()
		if err != nil {
			a.infra("raw form of %s: %v", E.Name, err)
			continue
		}
		encs := c01reenc.Encodings(te, raw)
		for ei, enc := range encs {
			exps := []string{"canonical", "alias", "nobody"}
			if enc.Canonical {
				exps = []string{"canonical", "nobody"}
			}
			// direct calls (they do not depend on the honest side's identity)
			cases++
			n++
			if c01Mine(n, shard, nshards) {
				if a.expired() {
					return
				}
				if w := get(); w != nil {
					a.c01ReencDirect(t, w, ei, exps, accepted)
				}
			}
			for _, th := range htypes {
				hk := c01Key(t, th, 0)
				for _, hClient := range []bool{true, false} {
					for _, entry := range []string{"T", "CFP"} {
						for _, exp := range exps {
							cases++
							n++
							if !c01Mine(n, shard, nshards) {
								continue
							}
							if a.expired() {
								return
							}
							if w := get(); w != nil {
								a.c01ReencHandshake(t, hk, w, ei, hClient, entry, exp, accepted)
							}
						}
					}
				}
			}
		}
	}
	a.r.Bounds["cases (all shards)"] = cases
	na := 0
	for _, c := range accepted {
		na += c
	}
	a.r.Note("non-canonical encodings accepted by the honest side in this shard: %d evaluations (the oracle is exercised on them; a rejection is never a violation)", na)
}

func (w *c01ReencWorld) expectedID(label string, ei int) peer.ID {
	switch label {
	case "canonical":
		return w.canonID
	case "alias":
		id, err := c01reenc.HashID(w.encs[ei].Bytes)
		if err != nil {
			panic(err)
		}
		return id
	}
	return ""
}

func (a *c01Acct) c01ReencDirect(t *testing.T, w *c01ReencWorld, ei int, exps []string, accepted map[string]int) {
	chain := w.chain(ei)
	parsed, perr := x509.ParseCertificate(chain[0])
	res := c01ReencRes{driver: "PubKeyFromCertChain", expLabel: "nobody"}
	if perr != nil {
		res.err = perr
	} else {
		var k ic.PubKey
		pan := c01Bubble(t, func() { k, res.err = PubKeyFromCertChain([]*x509.Certificate{parsed}) })
		if pan != "" {
			a.infra("PubKeyFromCertChain, %s key re-encoded (%s): %s", w.E.Name, w.encs[ei].Name, pan)
			return
		}
		if res.err == nil {
			res.accepted, res.key = true, k
			if k != nil {
				// what every caller of PubKeyFromCertChain reports as the remote peer
				res.id, _ = peer.IDFromPublicKey(k)
			}
		}
	}
	a.r.Executions++
	a.c01JudgeReenc(w, ei, res, accepted)
	hk := c01Key(t, c01wire.KeyTypes[0], 0)
	tp := c01Transport(t, hk)
	for _, exp := range exps {
		res := c01ReencRes{driver: "VerifyPeerCertificate", expLabel: exp, expected: w.expectedID(exp, ei)}
		pan := c01Bubble(t, func() {
			conf, keyCh := tp.identity.ConfigForPeer(res.expected)
			res.err = conf.VerifyPeerCertificate(chain, nil)
			if res.err == nil {
				res.accepted = true
				select {
				case res.key = <-keyCh:
				default:
				}
				if res.key != nil {
					res.id, _ = peer.IDFromPublicKey(res.key)
				}
			}
		})
		if pan != "" {
			a.infra("VerifyPeerCertificate, %s key re-encoded (%s): %s", w.E.Name, w.encs[ei].Name, pan)
			continue
		}
		a.r.Executions++
		a.c01JudgeReenc(w, ei, res, accepted)
	}
}

func (a *c01Acct) c01ReencHandshake(t *testing.T, hk *c01wire.Key, w *c01ReencWorld, ei int, hClient bool, entry, exp string, accepted map[string]int) {
	res := c01ReencRes{driver: "handshake", hkey: hk.Name, hClient: hClient, entry: entry, expLabel: exp, expected: w.expectedID(exp, ei)}
	chain := w.chain(ei)
	tp := c01Transport(t, hk)
	var H *c01Party
	pan := c01Bubble(t, func() {
		l := c01wire.NewLink(c01wire.FrameTLS)
		H = &c01Party{name: "honest", key: hk, cfg: c01Cfg{Entry: entry, Expect: map[string]string{"canonical": "match", "alias": "different", "nobody": "empty"}[exp]}, client: hClient, end: l.End(0), expected: res.expected}
		H.secure = c01Build(tp, entry, hClient, res.expected)
		ep := c01Endpoint(!hClient, chain, w.c1, l.End(1), &res.epErr)
		c01HandshakePhase([]*c01Party{H}, ep)
		c01Cleanup([]*c01Party{H})
		l.End(1).Close()
	})
	if pan != "" || H == nil || H.panicked != "" {
		a.infra("handshake, %s key re-encoded (%s): %s", w.E.Name, w.encs[ei].Name, pan)
		return
	}
	a.r.Executions++
	res.err = H.err
	if H.completed {
		res.accepted, res.key, res.id = true, H.remoteKey, H.remotePeer
	}
	a.c01JudgeReenc(w, ei, res, accepted)
}

func (a *c01Acct) c01JudgeReenc(w *c01ReencWorld, ei int, res c01ReencRes, accepted map[string]int) {
	enc := w.encs[ei]
	desc := map[string]any{"scenario": "tls-reenc", "driver": res.driver, "remote": w.E.Name, "remote_peer_id": w.canonID.String(),
		"encoding": enc.Name, "identity_key_bytes_in_extension": fmt.Sprintf("%x", enc.Bytes), "expected": res.expLabel, "err": fmt.Sprint(res.err)}
	role := ""
	if res.driver == "handshake" {
		role = " H=server/" + res.entry
		if res.hClient {
			role = " H=client/" + res.entry
		}
		desc["honest"] = map[string]any{"key": res.hkey, "entry": res.entry, "client": res.hClient}
		desc["endpoint_err"] = fmt.Sprint(res.epErr)
	}
	if res.expected != "" {
		desc["expected_id"] = res.expected.String()
	}
	bad := func(key, f string, args ...any) {
		a.r.Violate("tls-reenc/"+key, fmt.Sprintf(f, args...), desc)
	}
	if !enc.Canonical || res.expLabel != "canonical" {
		a.nontrivial(fmt.Sprintf("%s|%s|%s|%s|%s|%v", w.E.Name, enc.Name, res.driver, role, res.expLabel, res.hkey))
	}
	out := "rejected (" + c01ErrClass(res.err) + ")"
	if res.accepted {
		out = "ACCEPTED"
		desc["accepted_as"] = res.id.String()
		if !enc.Canonical {
			accepted[enc.Name]++
		}
		if res.key == nil {
			bad("no-remote-key", "accepted without a public key")
		} else {
			if !res.key.Equals(w.E.Pub) {
				bad("remote-public-key-not-the-key-used/reencoded-key", "the remote used the key of %s, the reported public key is another one [%s]", w.E.Name, enc.Name)
			}
			kid, err := c01reenc.CanonID(res.key)
			if err != nil || kid != res.id || res.id != w.canonID {
				bad("remote-peer-not-derived-from-remote-key/reencoded-key", "the remote holds and used the %s key whose peer ID is %s; the honest side reports remote peer %s (the reported public key has peer ID %s, err=%v) [identity key sent as: %s]", c01wire.TypeName(w.E.Typ), w.canonID, res.id, kid, err, enc.Name)
			}
		}
		if res.expected != "" && res.expected != w.canonID {
			bad("completed-although-expected-peer-differs/reencoded-key", "named %s, which is not the peer ID %s of the key the remote used, and accepted (reporting %s) [identity key sent as: %s]", res.expected, w.canonID, res.id, enc.Name)
		}
	} else if enc.Canonical {
		bad("honest-baseline-failed", "a correct certificate of %s with the canonical key encoding was rejected by a side expecting %q: %v (endpoint: %v)", w.E.Name, res.expected, res.err, res.epErr)
	}
	kind := "non-canonical encoding"
	if enc.Canonical {
		kind = "canonical encoding"
	}
	a.r.Outcome(fmt.Sprintf("%s; %s, honest side names %s: %s", res.driver, kind, res.expLabel, out))
	if w.E.Typ == c01wire.KeyTypes[ei%4] && res.expLabel != "canonical" && (res.driver != "handshake" || res.hClient) {
		a.r.Sample(desc)
	}
}
