//go:build verif

package libp2ptls

import (
	"fmt"
	"io"
	"net"
	"sync"
	"testing"
	"time"

	"github.com/libp2p/go-libp2p/x/verif/c01wire"
	"github.com/libp2p/go-libp2p/x/verif/vrep"
)

// Whole-transcript replay: a passive observer recorded every record the victim T sent in an earlier, genuine
// session with the SAME honest identity H; an endpoint that holds no key at all now plays T's recorded records
// against a fresh session of H in the same role.

func c01ReadRecord(c net.Conn) ([]byte, error) {
	var h [5]byte
	if _, err := io.ReadFull(c, h[:]); err != nil {
		return nil, err
	}
	b := make([]byte, int(h[3])<<8|int(h[4]))
	_, err := io.ReadFull(c, b)
	return append(h[:], b...), err
}

func TestVerifC01TLSReplay(t *testing.T) {
	a := c01NewAcct(t, "tls-replay")
	defer a.flush()
	a.r.Bounds["scenario"] = "every record the victim sent in an earlier genuine session with the same honest identity is replayed, flight by flight, by a key-less endpoint against a fresh session of that identity in the same role"
	a.r.Bounds["key types"] = "honest x victim: all 16 pairs; victim as client and as server; honest side naming the victim / nobody, through Transport and crypto/tls+ConfigForPeer"
	shard, nshards := vrep.Shard()
	n := 0
	for _, th := range c01wire.KeyTypes {
		for _, tt := range c01wire.KeyTypes {
			for _, victimClient := range []bool{true, false} {
				for _, cfg := range []c01Cfg{{"T", "match"}, {"T", "empty"}, {"CFP", "match"}, {"CFP", "empty"}} {
					n++
					if !c01Mine(n, shard, nshards) {
						continue
					}
					if a.expired() {
						return
					}
					a.c01ReplayCase(t, th, tt, victimClient, cfg)
				}
			}
		}
	}
}

func (a *c01Acct) c01ReplayCase(t *testing.T, th, tt int, victimClient bool, cfg c01Cfg) {
	// key roles as in every wire run: index 0 = client identity, 1 = server identity
	b := c01Base{tc: th, ts: tt, cc: c01Cfg{"T", "match"}, cs: c01Cfg{"T", "empty"}}
	hIdx, tIdx := 0, 1
	if victimClient {
		b.tc, b.ts = tt, th
		hIdx, tIdx = 1, 0
	}
	Hk, T := c01Key(t, th, hIdx), c01Key(t, tt, tIdx)
	desc := map[string]any{"scenario": "tls-replay", "honest": map[string]any{"key": Hk.Name, "cfg": cfg.String(), "client": !victimClient}, "victim": T.Name}
	rec := c01RunWire(t, b, -1, 0, c01wire.Edit{}, 0)
	if rec.panic != "" {
		a.infra("replay recording %v: %s", desc, rec.panic)
		return
	}
	a.r.Executions++
	if !rec.A.completed || !rec.B.completed {
		a.r.Violate("tls-replay/honest-baseline-failed", fmt.Sprintf("the genuine session to be recorded did not complete: client err=%v server err=%v", rec.A.err, rec.B.err), desc)
		return
	}
	v := rec.B
	if victimClient {
		v = rec.A
	}
	records, _ := c01wire.FrameTLS.Split(v.end.Sent())
	need := len(c01FlightTypes[1])
	if victimClient {
		need = len(c01FlightTypes[0])
	}
	if len(records) < need {
		a.infra("replay recording %v: %d records recorded, expected at least %d", desc, len(records), need)
		return
	}
	var H *c01Party
	var rerr error
	tp := c01Transport(t, Hk)
	pan := c01Bubble(t, func() {
		l := c01wire.NewLink(c01wire.FrameTLS)
		H = &c01Party{name: "honest", key: Hk, cfg: cfg, client: !victimClient, end: l.End(0), app: []byte("c01 application data from the honest side")}
		if cfg.named() {
			H.expected = T.ID
		}
		H.secure = c01Build(tp, cfg.Entry, !victimClient, H.expected)
		var wg sync.WaitGroup
		wg.Add(1)
		go func() {
			defer wg.Done()
			rerr = c01Replayer(l.End(1), records, victimClient)
		}()
		c01HandshakePhase([]*c01Party{H})
		c01DataPhase([]*c01Party{H})
		wg.Wait()
		c01Cleanup([]*c01Party{H})
		l.End(1).Close()
	})
	if pan != "" || H == nil || H.panicked != "" {
		a.infra("replay run %v: %s", desc, pan)
		return
	}
	a.r.Executions++
	a.nontrivial(fmt.Sprintf("%s|%s|%v|%s", Hk.Name, T.Name, victimClient, cfg))
	desc["honest_result"] = c01Describe(H)
	desc["replayer_err"] = fmt.Sprint(rerr)
	if H.completed {
		a.r.Violate("tls-replay/completed-on-replayed-transcript", fmt.Sprintf("honest side completed (RemotePeer()=%s) against an endpoint that holds no key and only replayed the records %s sent in an earlier session", H.remotePeer, T.Name), desc)
	}
	if H.completed && H.readErr == nil && H.readN > 0 {
		a.r.Violate("tls-replay/read-replayed-data", fmt.Sprintf("honest side read %q from the replaying endpoint", H.readData), desc)
	}
	a.r.Outcome(fmt.Sprintf("victim client=%v, honest %s: %s (%s)", victimClient, cfg, H.resultClass(), c01ErrClass(H.err)))
	if Hk.Typ == T.Typ {
		a.r.Sample(desc)
	}
}

// c01Replayer plays the recorded records. As the client: ClientHello, wait for the 7 records of the server
// flight, then everything else. As the server: wait for the ClientHello, then everything.
func c01Replayer(c net.Conn, records [][]byte, client bool) error {
	c.SetDeadline(time.Now().Add(2 * c01HandshakeTimeout))
	next := 0
	if client {
		if _, err := c.Write(records[0]); err != nil {
			return err
		}
		next = 1
		for i := 0; i < len(c01FlightTypes[1]); i++ {
			if _, err := c01ReadRecord(c); err != nil {
				return err
			}
		}
	} else if _, err := c01ReadRecord(c); err != nil {
		return err
	}
	for ; next < len(records); next++ {
		if _, err := c.Write(records[next]); err != nil {
			return err
		}
	}
	_, err := c01ReadRecord(c)
	return err
}
