//go:build verif

package libp2ptls

import (
	"context"
	"crypto"
	"crypto/ecdsa"
	"crypto/elliptic"
	"crypto/rand"
	"crypto/tls"
	"crypto/x509"
	"crypto/x509/pkix"
	"encoding/asn1"
	"fmt"
	"math/big"
	"net"
	"testing"
	"time"

	ic "github.com/libp2p/go-libp2p/core/crypto"
	"github.com/libp2p/go-libp2p/core/peer"
	"github.com/libp2p/go-libp2p/x/verif/c01wire"
	"github.com/libp2p/go-libp2p/x/verif/vrep"
)

// The certificate space. The endpoint E ("owner") holds its identity key and the TLS certificate key c1 it
// handshakes with. O ("other") is another peer. Its private key is used by the harness only to build the
// combinations that say so (a signature "by O"); the endpoint never holds O's genuine certificate key.

// c01SelfSigIsViolation: PubKeyFromCertChain puts the certificate into its own root pool, and
// x509.Certificate.Verify does not check the signature of a certificate that IS a root, so a certificate whose
// X.509 self-signature is invalid is accepted (measured). The identity binding of the statement (identity key
// signs the certificate key; the certificate key signs the TLS transcript) is intact in that case, so by
// default this is recorded as an outcome class and a note, not as a violation. Set to true to report it.
const c01SelfSigIsViolation = false

type c01CertSpec struct {
	Ext     string `json:"ext"`      // present | absent | dup-X-then-valid | dup-valid-then-X  (DER level) | dupstruct-... (parsed struct level, direct calls only)
	ExtKey  string `json:"ext_key"`  // owner | other | garbage
	Sig     string `json:"sig"`      // valid | other-certkey | other-signer | truncated   (relative to the key named in the extension) | genuine-transplanted (tls-history only)
	SelfSig string `json:"self_sig"` // valid | invalid
	Chain   string `json:"chain"`    // 1 | 2-genuine-other-after | 2-genuine-other-before | 0 | 1-genuine-other-replayed
}

func (s c01CertSpec) String() string {
	return fmt.Sprintf("ext=%s key=%s sig=%s selfsig=%s chain=%s", s.Ext, s.ExtKey, s.Sig, s.SelfSig, s.Chain)
}

func c01CertSpecs(structDups bool) []c01CertSpec {
	var bodies []c01CertSpec
	exts := []string{"present", "dup-X-then-valid", "dup-valid-then-X"}
	if structDups {
		exts = append(exts, "dupstruct-X-then-valid", "dupstruct-valid-then-X")
	}
	for _, ext := range exts {
		for _, k := range []string{"owner", "other", "garbage"} {
			for _, sg := range []string{"valid", "other-certkey", "other-signer", "truncated"} {
				bodies = append(bodies, c01CertSpec{Ext: ext, ExtKey: k, Sig: sg})
			}
		}
	}
	bodies = append(bodies, c01CertSpec{Ext: "absent", ExtKey: "-", Sig: "-"})
	var out []c01CertSpec
	for _, chain := range []string{"1", "2-genuine-other-after", "2-genuine-other-before"} {
		for _, ss := range []string{"valid", "invalid"} {
			for _, b := range bodies {
				b.SelfSig, b.Chain = ss, chain
				out = append(out, b)
			}
		}
	}
	out = append(out, c01CertSpec{Ext: "-", ExtKey: "-", Sig: "-", SelfSig: "-", Chain: "0"})
	out = append(out, c01CertSpec{Ext: "-", ExtKey: "-", Sig: "-", SelfSig: "-", Chain: "1-genuine-other-replayed"})
	return out
}

type c01CertWorld struct {
	E, O     *c01wire.Key
	c1, c2   *ecdsa.PrivateKey
	genuineO []byte // DER of the certificate of O's real Transport (what anyone who ever talked to O has seen)
}

type c01Built struct {
	spec    c01CertSpec
	chain   [][]byte            // DER
	parsed  []*x509.Certificate // nil when some certificate does not parse
	certKey crypto.PrivateKey
	// replayedLeaf: the leaf is another peer's genuine certificate whose key the endpoint does not hold
	replayedLeaf bool
	parseErr     error
	// authentic: the identities for which the leaf really carries an extension signed by that identity's
	// private key over the leaf's certificate key (what the handshake proves possession of).
	authentic map[peer.ID]bool
}

func c01Ext(pub, sig []byte) pkix.Extension {
	v, err := asn1.Marshal(signedKey{PubKey: pub, Signature: sig})
	if err != nil {
		panic(err)
	}
	return pkix.Extension{Id: extensionID, Value: v}
}

func c01SignCertKey(k *c01wire.Key, certKey crypto.PublicKey) []byte {
	b, err := x509.MarshalPKIXPublicKey(certKey)
	if err != nil {
		panic(err)
	}
	s, err := k.Priv.Sign(append([]byte(certificatePrefix), b...))
	if err != nil {
		panic(err)
	}
	return s
}

func (w *c01CertWorld) build(spec c01CertSpec) *c01Built {
	b := &c01Built{spec: spec, authentic: map[peer.ID]bool{}, certKey: w.c1}
	switch spec.Chain {
	case "0":
		return b
	case "1-genuine-other-replayed":
		// O's real certificate. As a certificate it IS authentic for O - which is all the direct drivers can
		// see; what makes it a replay is that the endpoint does not hold its certificate key, and that only
		// shows in a handshake (the TLS stack checks CertificateVerify against the leaf).
		b.chain = [][]byte{w.genuineO}
		b.authentic[w.O.ID] = true
		b.replayedLeaf = true
	default:
		var x pkix.Extension
		if spec.Ext != "absent" {
			var pub []byte
			named, otherOne := w.E, w.O
			switch spec.ExtKey {
			case "owner":
				pub = w.E.PubBytes
			case "other":
				pub = w.O.PubBytes
				named, otherOne = w.O, w.E
			default:
				pub = append([]byte{}, w.E.PubBytes...)
				for i := range pub {
					pub[i] ^= 0x5a
				}
			}
			var sig []byte
			switch spec.Sig {
			case "valid":
				sig = c01SignCertKey(named, w.c1.Public())
				if spec.ExtKey != "garbage" {
					b.authentic[named.ID] = true
				}
			case "other-certkey":
				sig = c01SignCertKey(named, w.c2.Public())
			case "other-signer":
				sig = c01SignCertKey(otherOne, w.c1.Public())
			default:
				sig = c01SignCertKey(named, w.c1.Public())
				sig = sig[:len(sig)-1]
			}
			x = c01Ext(pub, sig)
			if spec.Sig == "genuine-transplanted" {
				// the extension of the named peer's GENUINE certificate, byte for byte: its signature is valid -
				// over the key of that certificate, which the endpoint does not hold (history cases only;
				// authentic for nobody)
				delete(b.authentic, named.ID)
				if g, ok := c01GenuineExt(w.genuineO); ok && spec.ExtKey == "other" {
					x = g
				}
			}
		}
		valid := c01Ext(w.E.PubBytes, c01SignCertKey(w.E, w.c1.Public()))
		var exts, later []pkix.Extension
		switch spec.Ext {
		case "present":
			exts = []pkix.Extension{x}
		case "dup-X-then-valid":
			exts = []pkix.Extension{x, valid}
			b.authentic[w.E.ID] = true
		case "dup-valid-then-X":
			exts = []pkix.Extension{valid, x}
			b.authentic[w.E.ID] = true
		case "dupstruct-X-then-valid":
			exts, later = []pkix.Extension{x}, []pkix.Extension{valid}
			b.authentic[w.E.ID] = true
		case "dupstruct-valid-then-X":
			exts, later = []pkix.Extension{valid}, []pkix.Extension{x}
			b.authentic[w.E.ID] = true
		}
		tmpl := &x509.Certificate{
			SerialNumber:    big.NewInt(0x5eed0001),
			NotBefore:       time.Date(1999, 1, 1, 0, 0, 0, 0, time.UTC),
			NotAfter:        time.Date(2099, 1, 1, 0, 0, 0, 0, time.UTC),
			Subject:         pkix.Name{SerialNumber: "1234567890123456789"},
			ExtraExtensions: exts,
		}
		der, err := x509.CreateCertificate(rand.Reader, tmpl, tmpl, w.c1.Public(), w.c1)
		if err != nil {
			panic(err)
		}
		if spec.SelfSig == "invalid" {
			der = append([]byte{}, der...)
			der[len(der)-1] ^= 0x01
		}
		switch spec.Chain {
		case "1":
			b.chain = [][]byte{der}
		case "2-genuine-other-after":
			b.chain = [][]byte{der, w.genuineO}
		default:
			b.chain = [][]byte{w.genuineO, der}
		}
		defer func() {
			// struct-level duplicate: the second extension is added to the PARSED leaf (x509.ParseCertificate
			// refuses a DER certificate with the same extension twice)
			if len(later) > 0 && b.parsed != nil {
				for _, c := range b.parsed {
					if string(c.Raw) == string(der) {
						c.Extensions = append(c.Extensions, later...)
					}
				}
			}
		}()
	}
	for _, d := range b.chain {
		c, err := x509.ParseCertificate(d)
		if err != nil {
			b.parsed, b.parseErr = nil, err
			return b
		}
		b.parsed = append(b.parsed, c)
	}
	return b
}

func c01NewCertWorld(t *testing.T, E, O *c01wire.Key) *c01CertWorld {
	w := &c01CertWorld{E: E, O: O}
	var err error
	if w.c1, err = ecdsa.GenerateKey(elliptic.P256(), rand.Reader); err != nil {
		t.Fatal(err)
	}
	if w.c2, err = ecdsa.GenerateKey(elliptic.P256(), rand.Reader); err != nil {
		t.Fatal(err)
	}
	w.genuineO = c01Transport(t, O).identity.config.Certificates[0].Certificate[0]
	return w
}

// c01Endpoint drives crypto/tls directly with a hand-built certificate chain and the private key c1.
func c01Endpoint(client bool, chain [][]byte, key crypto.PrivateKey, c net.Conn, result *error) func(ctx context.Context) {
	crt := &tls.Certificate{Certificate: chain, PrivateKey: key}
	conf := &tls.Config{
		MinVersion:         tls.VersionTLS13,
		InsecureSkipVerify: true,
		ClientAuth:         tls.RequireAnyClientCert,
		NextProtos:         []string{alpn},
		GetClientCertificate: func(*tls.CertificateRequestInfo) (*tls.Certificate, error) {
			return crt, nil
		},
		GetCertificate: func(*tls.ClientHelloInfo) (*tls.Certificate, error) { return crt, nil },
	}
	return func(ctx context.Context) {
		defer func() {
			if r := recover(); r != nil {
				*result = fmt.Errorf("endpoint panic: %v", r)
				c.Close()
			}
		}()
		var tc *tls.Conn
		if client {
			tc = tls.Client(c, conf)
		} else {
			tc = tls.Server(c, conf)
		}
		*result = tc.HandshakeContext(ctx)
		if *result != nil {
			c.Close()
			return
		}
		// a TLS 1.3 client learns of a rejection by reading
		c.SetReadDeadline(time.Now().Add(c01ReadTimeout))
		var one [1]byte
		_, *result = tc.Read(one[:])
	}
}

type c01CertResult struct {
	driver    string
	accepted  bool
	err       error
	key       ic.PubKey
	id        peer.ID
	idNote    string
	hcfg      c01Cfg
	hClient   bool
	expected  peer.ID
	endpointE error
}

func TestVerifC01TLSCerts(t *testing.T) {
	a := c01NewAcct(t, "tls-certs")
	defer a.flush()
	kt := c01wire.KeyTypes
	type pair struct{ te, to int }
	var pairs []pair
	for _, te := range kt {
		for _, to := range kt {
			if vrep.Thorough() || te == to || (te == kt[0] && to == kt[3]) || (te == kt[3] && to == kt[0]) {
				pairs = append(pairs, pair{te, to})
			}
		}
	}
	a.r.Bounds["certificate space"] = "{extension present, absent, duplicated (DER level, both orders; parsed-struct level for the direct calls)} x {key in extension: owner, other peer, garbage} x {signature: valid, over another certificate key, by another key, truncated} x {X.509 self-signature valid, invalid} x {chain: 1, 2 with another peer's genuine certificate after / before}; plus chain length 0 and another peer's genuine certificate replayed as the only certificate"
	a.r.Bounds["drivers"] = "PubKeyFromCertChain; ConfigForPeer(p).VerifyPeerCertificate called directly; full TLS 1.3 handshake of a crypto/tls endpoint holding the certificate key against the real Transport and against crypto/tls+ConfigForPeer, honest side as client and as server"
	a.r.Bounds["expected peer of the honest side"] = "owner, other peer, nobody"
	a.r.Bounds["identity key types (owner x other)"] = fmt.Sprintf("%d pairs (quick: same type, ed25519/rsa, rsa/ed25519; thorough: all 16); the honest side uses an ed25519 identity (all honest key types are covered by tls-matrix)", len(pairs))
	shard, nshards := vrep.Shard()
	hk := c01Key(t, kt[0], 0)
	n := 0
	for _, p := range pairs {
		E, O := c01Key(t, p.te, 2), c01Key(t, p.to, 1)
		var w *c01CertWorld
		built := map[string]*c01Built{}
		get := func(s c01CertSpec) *c01Built {
			if w == nil {
				w = c01NewCertWorld(t, E, O)
			}
			if b, ok := built[s.String()]; ok {
				return b
			}
			b := w.build(s)
			built[s.String()] = b
			return b
		}
		// direct calls
		for _, s := range c01CertSpecs(true) {
			n++
			if !c01Mine(n, shard, nshards) {
				continue
			}
			if a.expired() {
				return
			}
			b := get(s)
			a.c01CertDirect(t, E, O, b)
			if len(s.Ext) > 9 && s.Ext[:9] == "dupstruct" {
				delete(built, s.String()) // PubKeyFromCertChain mutates the parsed certificate; do not reuse
			}
		}
		// full handshakes
		for _, s := range c01CertSpecs(false) {
			for _, hClient := range []bool{true, false} {
				for _, entry := range []string{"T", "CFP"} {
					for _, exp := range []string{"owner", "other", "nobody"} {
						n++
						if !c01Mine(n, shard, nshards) {
							continue
						}
						if a.expired() {
							return
						}
						a.c01CertHandshake(t, hk, E, O, get(s), hClient, entry, exp)
					}
				}
			}
		}
	}
}

func c01ExpectedID(exp string, E, O *c01wire.Key) peer.ID {
	switch exp {
	case "owner":
		return E.ID
	case "other":
		return O.ID
	}
	return ""
}

// c01JudgeCert applies the oracle to one acceptance decision.
func (a *c01Acct) c01JudgeCert(E, O *c01wire.Key, b *c01Built, res c01CertResult) {
	desc := map[string]any{"scenario": "tls-certs", "driver": res.driver, "owner": E.Name, "other": O.Name, "spec": b.spec, "err": fmt.Sprint(res.err)}
	if res.driver == "handshake" {
		desc["honest"] = map[string]any{"cfg": res.hcfg.String(), "client": res.hClient}
		desc["endpoint_err"] = fmt.Sprint(res.endpointE)
	}
	if res.expected != "" {
		desc["expected"] = res.expected.String()
	}
	bad := func(key, f string, args ...any) {
		a.r.Violate("tls-certs/"+key, fmt.Sprintf(f, args...), desc)
	}
	fullyValid := b.spec.Chain == "1" && b.spec.Ext == "present" && b.spec.ExtKey == "owner" && b.spec.Sig == "valid" && b.spec.SelfSig == "valid"
	if !fullyValid {
		a.nontrivial(fmt.Sprintf("%s|%s|%s|%s|%v|%s|%s", E.Name, O.Name, b.spec, res.driver, res.hClient, res.hcfg, res.expected))
	}
	out := "rejected (" + c01ErrClass(res.err) + ")"
	if res.accepted {
		out = "ACCEPTED as " + res.idNote
		desc["accepted_as"] = res.id.String()
		// (i)
		if res.key == nil {
			bad("no-remote-key", "accepted without a public key")
		} else if id, err := peer.IDFromPublicKey(res.key); err != nil || id != res.id {
			bad("remote-peer-not-derived-from-remote-key", "reported peer %s but the key hashes to %s (err=%v)", res.id, id, err)
		}
		// (ii)
		if !b.authentic[res.id] || (b.replayedLeaf && res.driver == "handshake") {
			bad("authenticated-as-someone-else", "accepted as %s (%s), but no extension of the certificate is signed by that identity over the certificate key the endpoint handshakes with [%s]", res.id, res.idNote, b.spec)
		}
		// (iv) replayed certificate of another session in the chain / chain length != 1
		if b.spec.Chain != "1" && !(b.replayedLeaf && res.driver != "handshake") {
			bad("completed-on-chain-with-replayed-certificate", "accepted a chain of %d certificates that contains another peer's certificate replayed from another session [%s]", len(b.chain), b.spec)
		}
		// (iii)
		if res.expected != "" && res.id != res.expected {
			bad("completed-although-expected-peer-differs", "named %s but accepted %s [%s]", res.expected, res.id, b.spec)
		}
		if b.spec.SelfSig == "invalid" {
			out += " despite an invalid X.509 self-signature"
			if c01SelfSigIsViolation {
				bad("accepted-invalid-self-signature", "accepted a certificate whose X.509 self-signature is invalid [%s]", b.spec)
			}
		}
	} else if fullyValid && (res.expected == "" || res.expected == E.ID) {
		bad("honest-baseline-failed", "a correct certificate of %s was rejected by a side expecting %q: %v (endpoint: %v)", E.Name, res.expected, res.err, res.endpointE)
	}
	exp := "nobody"
	switch res.expected {
	case E.ID:
		exp = "owner"
	case O.ID:
		exp = "other"
	}
	role := ""
	if res.driver == "handshake" {
		role = " H=server"
		if res.hClient {
			role = " H=client"
		}
		role += "/" + res.hcfg.Entry
	}
	auth := "nobody"
	switch {
	case b.authentic[E.ID] && b.authentic[O.ID]:
		auth = "owner+other"
	case b.authentic[E.ID]:
		auth = "owner"
	case b.authentic[O.ID]:
		auth = "other"
	}
	chain := b.spec.Chain
	if len(chain) > 1 && chain[0] == '2' {
		chain = "2"
	}
	_ = exp
	if res.accepted {
		if len(role) > 9 {
			role = role[:9] // " H=client" / " H=server"
		}
		a.r.Outcome(fmt.Sprintf("%s%s; chain=%s, extension(s) authentic for %s: %s", res.driver, role, chain, auth, out))
	} else {
		a.r.Outcome(fmt.Sprintf("%s: %s", res.driver, out))
	}
	if b.spec.ExtKey == "owner" && (b.spec.Sig == "other-certkey" || b.spec.Sig == "valid") && b.spec.Chain != "2-genuine-other-before" && b.spec.Ext == "present" && E.Typ == O.Typ {
		a.r.Sample(desc)
	}
}

func c01IDNote(id peer.ID, E, O *c01wire.Key) string {
	switch id {
	case E.ID:
		return "owner"
	case O.ID:
		return "other"
	}
	return "unknown " + id.String()
}

func (a *c01Acct) c01CertDirect(t *testing.T, E, O *c01wire.Key, b *c01Built) {
	// 1. PubKeyFromCertChain on the parsed chain (x509.ParseCertificate is what ConfigForPeer does first)
	res := c01CertResult{driver: "PubKeyFromCertChain"}
	if b.parseErr != nil {
		res.err = b.parseErr
	} else {
		var k ic.PubKey
		pan := c01Bubble(t, func() { k, res.err = PubKeyFromCertChain(b.parsed) })
		if pan != "" {
			a.infra("PubKeyFromCertChain %s: %s", b.spec, pan)
			return
		}
		if res.err == nil {
			res.accepted, res.key = true, k
			if k != nil {
				res.id, _ = peer.IDFromPublicKey(k)
			}
			res.idNote = c01IDNote(res.id, E, O)
		}
	}
	a.r.Executions++
	a.c01JudgeCert(E, O, b, res)
	if len(b.spec.Ext) > 9 && b.spec.Ext[:9] == "dupstruct" {
		return // only exists as a parsed struct
	}
	// 2. the callback installed by ConfigForPeer, for each expected-peer setting
	hk := c01Key(t, c01wire.KeyTypes[0], 0)
	tp := c01Transport(t, hk)
	for _, exp := range []string{"owner", "other", "nobody"} {
		res := c01CertResult{driver: "VerifyPeerCertificate", expected: c01ExpectedID(exp, E, O)}
		pan := c01Bubble(t, func() {
			conf, keyCh := tp.identity.ConfigForPeer(res.expected)
			res.err = conf.VerifyPeerCertificate(b.chain, nil)
			if res.err == nil {
				res.accepted = true
				select {
				case res.key = <-keyCh:
				default:
				}
				if res.key != nil {
					res.id, _ = peer.IDFromPublicKey(res.key)
				}
				res.idNote = c01IDNote(res.id, E, O)
			}
		})
		if pan != "" {
			a.infra("VerifyPeerCertificate %s: %s", b.spec, pan)
			continue
		}
		a.r.Executions++
		a.c01JudgeCert(E, O, b, res)
	}
}

func (a *c01Acct) c01CertHandshake(t *testing.T, hk, E, O *c01wire.Key, b *c01Built, hClient bool, entry, exp string) {
	res := c01CertResult{driver: "handshake", hcfg: c01Cfg{Entry: entry, Expect: map[string]string{"owner": "match", "other": "different", "nobody": "empty"}[exp]}, hClient: hClient, expected: c01ExpectedID(exp, E, O)}
	tp := c01Transport(t, hk)
	var H *c01Party
	c1 := b.certKey // the endpoint always handshakes with the key of the certificate it built
	pan := c01Bubble(t, func() {
		l := c01wire.NewLink(c01wire.FrameTLS)
		H = &c01Party{name: "honest", key: hk, cfg: res.hcfg, client: hClient, end: l.End(0), expected: res.expected}
		H.secure = c01Build(tp, entry, hClient, res.expected)
		ep := c01Endpoint(!hClient, b.chain, c1, l.End(1), &res.endpointE)
		c01HandshakePhase([]*c01Party{H}, ep)
		c01Cleanup([]*c01Party{H})
		l.End(1).Close()
	})
	if pan != "" || H == nil || H.panicked != "" {
		a.infra("certificate handshake %s: %s", b.spec, pan)
		return
	}
	a.r.Executions++
	res.err = H.err
	if H.completed {
		res.accepted, res.key, res.id = true, H.remoteKey, H.remotePeer
		res.idNote = c01IDNote(res.id, E, O)
	}
	a.c01JudgeCert(E, O, b, res)
}
