//go:build verif

package libp2ptls

import (
	"fmt"
	"os"
	"sync"
	"testing"

	"github.com/libp2p/go-libp2p/x/verif/c01wire"
	"github.com/libp2p/go-libp2p/x/verif/vrep"
)

type c01Base struct {
	tc, ts int // key type of the client / server identity
	cc, cs c01Cfg
}

func (b c01Base) id() string {
	return fmt.Sprintf("C[%s %s] S[%s %s]", c01wire.TypeName(b.tc), b.cc, c01wire.TypeName(b.ts), b.cs)
}

// The flights of a libp2p TLS 1.3 handshake (mutual authentication, no session tickets), one record each:
//
//	client -> server: ClientHello | ChangeCipherSpec, {Certificate}, {CertificateVerify}, {Finished}
//	server -> client: ServerHello, ChangeCipherSpec, {EncryptedExtensions}, {CertificateRequest}, {Certificate}, {CertificateVerify}, {Finished}
var (
	c01FlightTypes = [2][]byte{{22, 20, 23, 23, 23}, {22, 20, 23, 23, 23, 23, 23}}
	c01RecNames    = [2][]string{{"ClientHello", "client CCS", "client {Certificate}", "client {CertificateVerify}", "client {Finished}"},
		{"ServerHello", "server CCS", "{EncryptedExtensions}", "{CertificateRequest}", "server {Certificate}", "server {CertificateVerify}", "server {Finished}"}}
	c01CVIndex = [2]int{3, 5}
)

// {CertificateVerify} record with a 71-byte ECDSA P-256 signature (the certificate key made by NewIdentity is
// always ECDSA P-256): header 5 + handshake header 4 + algorithm 2 + length 2 + 71 + content type 1 + tag 16.
const c01CanonCVLen = 5 + 4 + 2 + 2 + 71 + 1 + 16

type c01WireRun struct {
	A, B    *c01Party // session 1: A = client at end 0, B = server at end 1
	A2, B2  *c01Party
	recs    [2][]int  // framed lengths of the records each side of session 1 SENT during the handshake phase
	types   [2][]byte // their record types
	applied bool
	panic   string
}

func c01MakeParties(t *testing.T, b c01Base, tag string, l *c01wire.Link) (*c01Party, *c01Party) {
	kc, ks := c01Key(t, b.tc, 0), c01Key(t, b.ts, 1)
	thirdForC, thirdForS := c01Key(t, b.ts, 2), c01Key(t, b.tc, 2)
	A := &c01Party{name: "client" + tag, key: kc, cfg: b.cc, client: true, end: l.End(0), app: []byte("c01 application data from the client" + tag)}
	B := &c01Party{name: "server" + tag, key: ks, cfg: b.cs, client: false, end: l.End(1), app: []byte("c01 application data from the server" + tag)}
	switch b.cc.Expect {
	case "match":
		A.expected = ks.ID
	case "different":
		A.expected = thirdForC.ID
	}
	switch b.cs.Expect {
	case "match":
		B.expected = kc.ID
	case "different":
		B.expected = thirdForS.ID
	}
	A.secure = c01Build(c01Transport(t, kc), b.cc.Entry, true, A.expected)
	B.secure = c01Build(c01Transport(t, ks), b.cs.Entry, false, B.expected)
	return A, B
}

// c01RunWire executes one run of baseline b with the single edit ed applied to record rec of direction dir
// (dir < 0: no edit). canonLen > 0: a positional edit is applied only to a record of exactly that length.
func c01RunWire(t *testing.T, b c01Base, dir, rec int, ed c01wire.Edit, canonLen int) *c01WireRun {
	run := &c01WireRun{}
	// transports are created (in their own bubble) before the run's bubble
	c01Transport(t, c01Key(t, b.tc, 0))
	c01Transport(t, c01Key(t, b.ts, 1))
	run.panic = c01Bubble(t, func() {
		l1 := c01wire.NewLink(c01wire.FrameTLS)
		run.A, run.B = c01MakeParties(t, b, "", l1)
		links := []*c01wire.Link{l1}
		parties := []*c01Party{run.A, run.B}
		if ed.Kind == "swap" {
			l2 := c01wire.NewLink(c01wire.FrameTLS)
			run.A2, run.B2 = c01MakeParties(t, b, "#2", l2)
			links = append(links, l2)
			parties = append(parties, run.A2, run.B2)
		}
		var mu sync.Mutex
		var held []byte
		heldLink := -1
		handshaking := true
		for ln, l := range links {
			for from := 0; from < 2; from++ {
				l.SetHook(from, func(idx int, frame []byte) [][]byte {
					mu.Lock()
					defer mu.Unlock()
					if !handshaking {
						return [][]byte{frame}
					}
					if ln == 0 {
						run.recs[from] = append(run.recs[from], len(frame))
						run.types[from] = append(run.types[from], frame[0])
					}
					if from != dir || idx != rec {
						return [][]byte{frame}
					}
					if ed.Kind == "swap" {
						if heldLink < 0 {
							held, heldLink = frame, ln
							return nil
						}
						links[heldLink].Inject(1-from, frame)
						out := held
						held = nil
						run.applied = true
						return [][]byte{out}
					}
					if ed.Kind == "xor" && canonLen > 0 && len(frame) != canonLen {
						return [][]byte{frame}
					}
					out, ok := c01wire.FrameTLS.Apply(frame, ed)
					run.applied = ok
					return out
				})
			}
		}
		c01HandshakePhase(parties)
		mu.Lock()
		handshaking = false
		mu.Unlock()
		c01DataPhase(parties)
		c01Cleanup(parties)
	})
	return run
}

// ---------- baseline matrix ----------

func TestVerifC01TLSMatrix(t *testing.T) {
	a := c01NewAcct(t, "tls-matrix")
	defer a.flush()
	cfgs := c01SideCfgs()
	a.r.Bounds["key types"] = "ed25519, ecdsa(P-256), secp256k1, rsa2048 on either side (all 16 pairs)"
	a.r.Bounds["side configurations"] = "entry {Transport.SecureInbound/Outbound, crypto/tls + Identity.ConfigForPeer} x expect {match, different, empty}; all 36 pairs (TLS has no check-disabled mode other than the empty peer ID)"
	shard, nshards := vrep.Shard()
	n := 0
	for _, tc := range c01wire.KeyTypes {
		for _, ts := range c01wire.KeyTypes {
			for _, cc := range cfgs {
				for _, cs := range cfgs {
					n++
					if !c01Mine(n, shard, nshards) {
						continue
					}
					if a.expired() {
						return
					}
					b := c01Base{tc, ts, cc, cs}
					run := c01RunWire(t, b, -1, 0, c01wire.Edit{}, 0)
					if run.panic != "" {
						a.infra("matrix %s: %s", b.id(), run.panic)
						continue
					}
					a.r.Executions++
					desc := map[string]any{"scenario": "tls-matrix", "baseline": b.id()}
					keys := a.c01Judge("tls-matrix", desc, run.A, run.B)
					if c01Compatible(cc, cs) && !(run.A.completed && run.B.completed && run.A.readErr == nil && run.B.readErr == nil) {
						desc["A"], desc["B"] = c01Describe(run.A), c01Describe(run.B)
						a.r.Violate("tls-matrix/honest-baseline-failed", fmt.Sprintf("unedited handshake between compatible honest configurations %s did not complete and carry data both ways: client err=%v read=%v, server err=%v read=%v", b.id(), run.A.err, run.A.readErr, run.B.err, run.B.readErr), desc)
					}
					if !(cc.Expect == "match" && cs.Expect == "match" && cc.Entry == "T" && cs.Entry == "T") {
						a.nontrivial(b.id())
					}
					a.r.Outcome(fmt.Sprintf("C[%s] S[%s]: C=%s(%s) S=%s(%s)", cc, cs, run.A.resultClass(), c01ErrClass(run.A.err), run.B.resultClass(), c01ErrClass(run.B.err)))
					if len(keys) == 0 && n%97 == 1 {
						a.r.Sample(map[string]any{"baseline": b.id(), "client": c01Describe(run.A), "server": c01Describe(run.B)})
					}
				}
			}
		}
	}
}

// ---------- wire edits ----------

func c01WireBases() []c01Base {
	std := [2]c01Cfg{{"T", "match"}, {"T", "empty"}}      // TCP path: the listener does not know who dials
	both := [2]c01Cfg{{"T", "match"}, {"T", "match"}}     // both sides name the other
	quic := [2]c01Cfg{{"CFP", "match"}, {"CFP", "empty"}} // QUIC-style use of ConfigForPeer
	kt := c01wire.KeyTypes
	var out []c01Base
	add := func(tc, ts int, c [2]c01Cfg) { out = append(out, c01Base{tc, ts, c[0], c[1]}) }
	if vrep.Thorough() {
		for _, tc := range kt {
			for _, ts := range kt {
				add(tc, ts, std)
			}
		}
		for i := range kt {
			add(kt[i], kt[(i+1)%4], both)
			add(kt[i], kt[(i+2)%4], quic)
		}
		return out
	}
	add(kt[0], kt[0], std)  // ed25519 / ed25519
	add(kt[1], kt[3], both) // ecdsa / rsa
	add(kt[2], kt[0], quic) // secp256k1 / ed25519
	return out
}

// c01Masks: XOR masks applied at every byte position. Thorough tier: every single-bit flip and the complement
// for the TCP-path baselines whose two identities have the same key type; 0x01 and 0x80 everywhere else.
func c01Masks(b c01Base) []byte {
	if vrep.Thorough() && b.tc == b.ts && b.cc == (c01Cfg{"T", "match"}) && b.cs == (c01Cfg{"T", "empty"}) {
		return []byte{0x01, 0x02, 0x04, 0x08, 0x10, 0x20, 0x40, 0x80, 0xff}
	}
	return []byte{0x01, 0x80}
}

// c01DryRun runs the unedited baseline until both {CertificateVerify} records have the canonical length,
// checks the flight structure and the positive control, and returns the record lengths.
func (a *c01Acct) c01DryRun(t *testing.T, b c01Base) (recs [2][]int, ok bool) {
	var first *[2][]int
	for try := 0; try < c01MaxRetries; try++ {
		run := c01RunWire(t, b, -1, 0, c01wire.Edit{}, 0)
		if run.panic != "" {
			a.infra("dry run %s: %s", b.id(), run.panic)
			return recs, false
		}
		if !(run.A.completed && run.B.completed && run.A.readErr == nil && run.B.readErr == nil) {
			a.r.Executions++
			desc := map[string]any{"scenario": "tls-wire", "baseline": b.id(), "edit": "none", "A": c01Describe(run.A), "B": c01Describe(run.B)}
			a.r.Violate("tls-wire/honest-baseline-failed", fmt.Sprintf("unedited handshake %s did not complete and carry data both ways: client err=%v read=%v, server err=%v read=%v", b.id(), run.A.err, run.A.readErr, run.B.err, run.B.readErr), desc)
			return recs, false
		}
		for d := 0; d < 2; d++ {
			if string(run.types[d]) != string(c01FlightTypes[d]) {
				a.infra("dry run %s: direction %d carries record types %v, expected %v (the harness knows the flights of this Go version only)", b.id(), d, run.types[d], c01FlightTypes[d])
				return recs, false
			}
			cv := run.recs[d][c01CVIndex[d]]
			if cv < c01CanonCVLen-4 || cv > c01CanonCVLen+1 {
				a.infra("dry run %s: {CertificateVerify} record of direction %d has length %d, expected about %d", b.id(), d, cv, c01CanonCVLen)
				return recs, false
			}
		}
		// every record except {CertificateVerify} must have the same length in every run
		cmp := run.recs
		cmp[0] = append([]int{}, cmp[0]...)
		cmp[1] = append([]int{}, cmp[1]...)
		cmp[0][c01CVIndex[0]], cmp[1][c01CVIndex[1]] = c01CanonCVLen, c01CanonCVLen
		if first == nil {
			first = &cmp
		} else if fmt.Sprint(*first) != fmt.Sprint(cmp) {
			a.infra("dry run %s: record lengths are not stable: %v vs %v", b.id(), *first, cmp)
			return recs, false
		}
		if run.recs[0][c01CVIndex[0]] != c01CanonCVLen || run.recs[1][c01CVIndex[1]] != c01CanonCVLen {
			a.retries++
			continue
		}
		a.r.Executions++
		a.c01Judge("tls-wire", map[string]any{"scenario": "tls-wire", "baseline": b.id(), "edit": "none"}, run.A, run.B)
		a.r.Outcome(fmt.Sprintf("unedited: C=%s S=%s", run.A.resultClass(), run.B.resultClass()))
		return run.recs, true
	}
	a.infra("dry run %s: canonical {CertificateVerify} lengths not observed in %d runs", b.id(), c01MaxRetries)
	return recs, false
}

func TestVerifC01TLSWire(t *testing.T) {
	a := c01NewAcct(t, "tls-wire")
	defer a.flush()
	bases := c01WireBases()
	a.r.Bounds["baselines"] = fmt.Sprintf("%d (quick: ed25519/ed25519 TCP path, ecdsa/rsa both sides naming the peer, secp256k1/ed25519 through crypto/tls+ConfigForPeer; thorough: all 16 key pairs on the TCP path plus 4 pairs each for the other two configurations)", len(bases))
	a.r.Bounds["records"] = "each of the 5 records of the client flights and the 7 records of the server flight (see c01RecNames)"
	a.r.Bounds["edits per record"] = "every byte position of the record (5-byte header included) XOR 0x01 and XOR 0x80 (thorough: all 8 single-bit masks and 0xff for the 4 same-key-type TCP-path baselines); " + fmt.Sprint(c01wire.StructuralKinds) + "; swap with the same-index record of a second concurrent session between the same identities"
	a.r.Bounds["edits per run"] = 1
	shard, nshards := vrep.Shard()
	for bi, b := range bases {
		dry := 0
		var recs [2][]int
		for dir := 0; dir < 2; dir++ {
			for rec := range c01FlightTypes[dir] {
				masks := c01Masks(b)
				for grp := 0; grp <= len(masks); grp++ { // one group per XOR mask, the last one: structural + swap
					// structural unit index: the partition over shards does not depend on anything measured
					unit := ((bi*2+dir)*8+rec)*16 + grp
					if !c01Mine(unit, shard, nshards) || dry == 2 {
						continue
					}
					if a.expired() {
						return
					}
					if dry == 0 {
						dry = 1
						var ok bool
						if recs, ok = a.c01DryRun(t, b); !ok {
							dry = 2
							continue
						}
						if os.Getenv("VERIF_C01_DEBUG") != "" {
							fmt.Printf("c01 dry %s: records %v\n", b.id(), recs)
						}
					}
					canon := recs[dir][rec]
					var edits []c01wire.Edit
					switch {
					case grp < len(masks):
						for p := 0; p < canon; p++ {
							edits = append(edits, c01wire.Edit{Kind: "xor", Pos: p, Mask: masks[grp]})
						}
					default:
						for _, k := range c01wire.StructuralKinds {
							edits = append(edits, c01wire.Edit{Kind: k})
						}
						edits = append(edits, c01wire.Edit{Kind: "swap"})
					}
					for _, ed := range edits {
						if a.expired() {
							return
						}
						a.c01WireCase(t, b, dir, rec, ed, canon)
					}
				}
			}
		}
	}
}

func (a *c01Acct) c01WireCase(t *testing.T, b c01Base, dir, rec int, ed c01wire.Edit, canon int) {
	var run *c01WireRun
	for try := 0; ; try++ {
		run = c01RunWire(t, b, dir, rec, ed, canon)
		if run.panic != "" {
			a.infra("wire %s %s %s: %s", b.id(), c01RecNames[dir][rec], ed, run.panic)
			return
		}
		if run.applied {
			break
		}
		if len(run.recs[dir]) <= rec || ed.Kind != "xor" {
			a.infra("wire %s %s %s: the edit could not be applied (records seen: %v)", b.id(), c01RecNames[dir][rec], ed, run.recs)
			return
		}
		a.retries++
		if try >= c01MaxRetries {
			a.infra("wire %s %s %s: record never had the canonical length %d", b.id(), c01RecNames[dir][rec], ed, canon)
			return
		}
	}
	a.r.Executions++
	a.nontrivial(fmt.Sprintf("%s|%d/%d|%s", b.id(), dir, rec, ed))
	desc := map[string]any{"scenario": "tls-wire", "baseline": b.id(), "record": c01RecNames[dir][rec], "edit": ed.String()}
	keys := a.c01Judge("tls-wire", desc, run.A, run.B)
	grp := ed.Kind
	switch {
	case len(grp) > 5 && grp[:5] == "trunc":
		grp = "truncated"
	case len(grp) > 6 && grp[:6] == "append" && grp[len(grp)-3:] == "fix":
		grp = "appended (length fixed up)"
	case len(grp) > 6 && grp[:6] == "append":
		grp = "appended (raw)"
	}
	oc := fmt.Sprintf("%s flight, record %s: C=%s S=%s", []string{"client", "server"}[dir], grp, run.A.resultClass(), run.B.resultClass())
	if run.A2 != nil {
		desc2 := map[string]any{"scenario": "tls-wire", "baseline": b.id(), "record": c01RecNames[dir][rec], "edit": ed.String(), "session": 2}
		keys = append(keys, a.c01Judge("tls-wire", desc2, run.A2, run.B2)...)
		oc += fmt.Sprintf(" C2=%s S2=%s", run.A2.resultClass(), run.B2.resultClass())
	}
	// an edit after which the side that RECEIVED the edited record still completed (and the oracle had nothing
	// to say) was absorbed by c01Norm: unauthenticated record-layer framing. Listed explicitly.
	recv := run.B
	if dir == 1 {
		recv = run.A
	}
	if recv.completed && len(keys) == 0 {
		oc = fmt.Sprintf("%s %s: C=%s S=%s [receiver completed: edit outside the authenticated handshake data]", c01RecNames[dir][rec], ed, run.A.resultClass(), run.B.resultClass())
		a.r.Sample(map[string]any{"note": "receiver completed", "baseline": b.id(), "record": c01RecNames[dir][rec], "edit": ed.String(), "client": c01Describe(run.A), "server": c01Describe(run.B)})
	}
	a.r.Outcome(oc)
	if len(keys) == 0 && ed.Kind != "xor" && dir == 1 && rec == 4 {
		a.r.Sample(map[string]any{"baseline": b.id(), "record": c01RecNames[dir][rec], "edit": ed.String(), "client": c01Describe(run.A), "server": c01Describe(run.B)})
	}
}
