//go:build verif

package libp2ptls

// C01 (TLS part), the HISTORY dimension: "what this process has verified / seen before".
//
// Every other C01 test decides a case on whatever the process happens to hold at that moment (the identities
// #0/#1/#2 and their cached Transports are shared by all cases of a worker, so a certificate is often seen
// many times - but never one identity under two different certificate keys, and never attributably). Here the
// history is part of the case: one case = one bubble =
//
//	fresh identities (honest verifier H, victim V, attacker M: keys that no other case of the process uses, so
//	no entry of any process-wide or per-Transport state made by another case can concern them), fresh real
//	Transports of H and V, fresh certificate keys of the attacker;
//	a PRELUDE on H's Transport (none | an honest completed handshake with V, H dialing / H listening | a
//	FAILED handshake in which the attacker presented V's genuine certificate without holding its key, H
//	dialing / H listening | an honest completed handshake with the attacker under its OWN identity and the
//	very certificate key it attacks with, H dialing / H listening);
//	then ONE attack of the certificate space against the SAME Transport object of H (hence the same
//	process-wide state): the endpoint holds only M's identity key and the certificate key c1.
//
// The oracle is the one of the certificate space (c01JudgeCert), applied to the prelude as well: a completed
// handshake reports exactly an identity whose private key signed the certificate key the endpoint handshakes
// with; a named expected peer is honoured; chains of length != 1 never pass; honest preludes and the attacker's
// correct own certificate must complete (positive controls).

import (
	"crypto"
	"crypto/ecdsa"
	"crypto/elliptic"
	"crypto/rand"
	"crypto/x509"
	"crypto/x509/pkix"
	"fmt"
	"strings"
	"testing"

	ic "github.com/libp2p/go-libp2p/core/crypto"
	"github.com/libp2p/go-libp2p/core/peer"
	"github.com/libp2p/go-libp2p/x/verif/c01wire"
	"github.com/libp2p/go-libp2p/x/verif/vrep"
)

var c01HistPreludes = []string{
	"none",
	"honest-victim/H-dials",
	"honest-victim/H-listens",
	"failed-replay-of-victim-certificate/H-dials",
	"failed-replay-of-victim-certificate/H-listens",
	"honest-attacker-identity/H-dials",
	"honest-attacker-identity/H-listens",
}

// c01HistOwnCert: the attacker's correct certificate for its OWN identity (positive control; with the victim
// named it is the expected-peer case).
var c01HistOwnCert = c01CertSpec{Ext: "present", ExtKey: "owner", Sig: "valid", SelfSig: "valid", Chain: "1"}

func c01HistVariants() []c01CertSpec {
	out := []c01CertSpec{
		// the victim's GENUINE extension (its key, its signature - over the victim's certificate key) in a
		// certificate for the attacker's key: "certified with a substituted key"
		{Ext: "present", ExtKey: "other", Sig: "genuine-transplanted", SelfSig: "valid", Chain: "1"},
		{Ext: "present", ExtKey: "other", Sig: "other-signer", SelfSig: "valid", Chain: "1"},  // victim's key, attacker's signature
		{Ext: "present", ExtKey: "other", Sig: "other-certkey", SelfSig: "valid", Chain: "1"}, // victim's signature over yet another certificate key
		{Ext: "-", ExtKey: "-", Sig: "-", SelfSig: "-", Chain: "1-genuine-other-replayed"},    // the victim's certificate itself, without its key
		{Ext: "present", ExtKey: "owner", Sig: "valid", SelfSig: "valid", Chain: "2-genuine-other-after"},
		{Ext: "present", ExtKey: "owner", Sig: "valid", SelfSig: "valid", Chain: "2-genuine-other-before"},
		c01HistOwnCert,
	}
	if vrep.Thorough() {
		out = append(out,
			c01CertSpec{Ext: "present", ExtKey: "other", Sig: "genuine-transplanted", SelfSig: "invalid", Chain: "1"},
			c01CertSpec{Ext: "present", ExtKey: "other", Sig: "genuine-transplanted", SelfSig: "valid", Chain: "2-genuine-other-after"},
			c01CertSpec{Ext: "present", ExtKey: "other", Sig: "truncated", SelfSig: "valid", Chain: "1"},
			c01CertSpec{Ext: "present", ExtKey: "garbage", Sig: "other-signer", SelfSig: "valid", Chain: "1"},
			c01CertSpec{Ext: "absent", ExtKey: "-", Sig: "-", SelfSig: "valid", Chain: "1"},
		)
	}
	return out
}

// c01HistCfg: how the attack reaches H.
type c01HistCfg struct {
	Driver  string `json:"driver"` // "handshake" | "PubKeyFromCertChain" (the process-wide function the QUIC listener also calls directly)
	HClient bool   `json:"h_client"`
	Entry   string `json:"entry"`  // T | CFP
	Expect  string `json:"expect"` // victim | nobody
}

func (c c01HistCfg) String() string {
	if c.Driver != "handshake" {
		return c.Driver
	}
	role := "server"
	if c.HClient {
		role = "client"
	}
	return fmt.Sprintf("H=%s/%s expects %s", role, c.Entry, c.Expect)
}

func c01HistCfgs() []c01HistCfg {
	out := []c01HistCfg{{Driver: "PubKeyFromCertChain"}}
	for _, hClient := range []bool{true, false} {
		for _, entry := range []string{"T", "CFP"} {
			for _, exp := range []string{"victim", "nobody"} {
				out = append(out, c01HistCfg{"handshake", hClient, entry, exp})
			}
		}
	}
	return out
}

// c01HistRSAQuick: an RSA-2048 victim costs a key generation (~0.1 s) per case, so the quick tier runs RSA
// victims on this stated subset only (all preludes x 3 variants x 3 ways to reach H); the thorough tier runs
// the full product.
func c01HistRSAQuick(spec c01CertSpec, hc c01HistCfg) bool {
	v := spec.Sig == "genuine-transplanted" || spec.Sig == "other-signer" || spec == c01HistOwnCert
	c := hc.Driver != "handshake" || (hc.Entry == "T" && (hc.HClient && hc.Expect == "victim" || !hc.HClient && hc.Expect == "nobody"))
	return v && c
}

func TestVerifC01TLSHistory(t *testing.T) {
	a := c01NewAcct(t, "tls-history")
	defer a.flush()
	kt := c01wire.KeyTypes
	variants, cfgs := c01HistVariants(), c01HistCfgs()
	var vn []string
	for _, v := range variants {
		vn = append(vn, v.String())
	}
	a.r.Bounds["identities"] = "fresh per case (honest verifier ed25519, victim of the enumerated type, attacker ed25519; thorough: attacker also of the victim's type): no other case of the process ever shows these keys, certificates or extensions to the code, so the prelude is the only history that concerns them"
	a.r.Bounds["preludes (history length 1, on the same Transport object and process state as the attack)"] = c01HistPreludes
	a.r.Bounds["attack certificates (owner = attacker, other = victim)"] = vn
	a.r.Bounds["ways to reach H"] = "full TLS 1.3 handshake against Transport.SecureOutbound/SecureInbound and against crypto/tls+ConfigForPeer, H as client and as server, naming the victim / nobody; PubKeyFromCertChain called directly"
	a.r.Bounds["victim key types"] = "ed25519, ecdsa, secp256k1: full product in both tiers; rsa2048: quick = all preludes x {transplanted extension, victim key + attacker signature, attacker's own certificate} x {H dials naming the victim, H listens naming nobody (Transport), direct call}, thorough = full product"
	shard, nshards := vrep.Shard()
	n, nRSA := 0, 0
	for _, tv := range kt {
		mtypes := []int{kt[0]}
		if vrep.Thorough() && tv != kt[0] {
			mtypes = append(mtypes, tv)
		}
		for _, tm := range mtypes {
			for _, prelude := range c01HistPreludes {
				for _, spec := range variants {
					for _, hc := range cfgs {
						n++ // n is also the index of the case's fresh keys: it must not depend on tier-specific skips below
						if tv == ic.RSA && !vrep.Thorough() && !c01HistRSAQuick(spec, hc) {
							continue
						}
						if !c01HistMine(&nRSA, tv == ic.RSA, n, shard, nshards) {
							continue
						}
						if a.expired() {
							return
						}
						a.c01HistCase(t, n, tv, tm, prelude, spec, hc)
					}
				}
			}
		}
	}
}

// c01GenuineExt returns the libp2p extension of a genuine certificate, byte for byte.
func c01GenuineExt(der []byte) (pkix.Extension, bool) {
	c, err := x509.ParseCertificate(der)
	if err != nil {
		return pkix.Extension{}, false
	}
	for _, e := range c.Extensions {
		if extensionIDEqual(e.Id, extensionID) {
			return pkix.Extension{Id: extensionID, Critical: e.Critical, Value: append([]byte{}, e.Value...)}, true
		}
	}
	return pkix.Extension{}, false
}

// c01HistEndpointRun: one full handshake of H (the given Transport) against the crypto/tls endpoint that
// presents chain and holds key.
func c01HistEndpointRun(tpH *Transport, Hk *c01wire.Key, hClient bool, entry string, expected peer.ID, chain [][]byte, key crypto.PrivateKey) (H *c01Party, endpointErr error) {
	l := c01wire.NewLink(c01wire.FrameTLS)
	cfg := c01Cfg{Entry: entry, Expect: "empty"}
	if expected != "" {
		cfg.Expect = "named" // descriptive only: these runs are judged by c01HistJudge on res.expected
	}
	H = &c01Party{name: "honest", key: Hk, cfg: cfg, client: hClient, end: l.End(0), expected: expected}
	H.secure = c01Build(tpH, entry, hClient, expected)
	ep := c01Endpoint(!hClient, chain, key, l.End(1), &endpointErr)
	c01HandshakePhase([]*c01Party{H}, ep)
	c01Cleanup([]*c01Party{H})
	l.End(1).Close()
	if H.panicked != "" {
		panic("harness goroutine of H panicked: " + H.panicked) // caught by c01Bubble: infrastructure, no verdict
	}
	return H, endpointErr
}

func c01HistResult(H *c01Party, epErr error, hClient bool, entry string, expected peer.ID, M, V *c01wire.Key) c01CertResult {
	res := c01CertResult{driver: "handshake", hcfg: H.cfg, hClient: hClient, expected: expected, err: H.err, endpointE: epErr}
	if H.completed {
		res.accepted, res.key, res.id = true, H.remoteKey, H.remotePeer
		res.idNote = c01HistIDNote(res.id, M, V)
	}
	return res
}

func c01HistIDNote(id peer.ID, M, V *c01wire.Key) string {
	switch id {
	case M.ID:
		return "the attacker itself"
	case V.ID:
		return "THE VICTIM"
	}
	return "unknown " + id.String()
}

func (a *c01Acct) c01HistCase(t *testing.T, n, tv, tm int, prelude string, spec c01CertSpec, hc c01HistCfg) {
	base := 1000 + 4*n
	Hk, V, M := c01Key(t, c01wire.KeyTypes[0], base), c01Key(t, tv, base+1), c01Key(t, tm, base+2)
	desc := map[string]any{"scenario": "tls-history", "case": n, "prelude": prelude, "honest": Hk.Name, "victim": V.Name, "attacker": M.Name, "certificate": spec, "reach": hc}
	pKind, pRole, _ := strings.Cut(prelude, "/")
	hDials := pRole == "H-dials"
	entry := hc.Entry
	if entry == "" {
		entry = "T"
	}
	var infra string
	type judged struct {
		stage string
		b     *c01Built
		res   c01CertResult
	}
	var results []judged
	var honestH, honestV *c01Party
	pan := c01Bubble(t, func() {
		tpH, err := New(ID, Hk.Priv, c01Muxers)
		if err != nil {
			infra = "New(H): " + err.Error()
			return
		}
		tpV, err := New(ID, V.Priv, c01Muxers)
		if err != nil {
			infra = "New(V): " + err.Error()
			return
		}
		w := &c01CertWorld{E: M, O: V, genuineO: tpV.identity.config.Certificates[0].Certificate[0]}
		if w.c1, err = ecdsa.GenerateKey(elliptic.P256(), rand.Reader); err == nil {
			w.c2, err = ecdsa.GenerateKey(elliptic.P256(), rand.Reader)
		}
		if err != nil {
			infra = "certificate key: " + err.Error()
			return
		}
		own := w.build(c01HistOwnCert) // ONE certificate object: the prelude and the control present the same bytes
		b := own
		if spec != c01HistOwnCert {
			b = w.build(spec)
		}
		// ---- prelude ----
		switch pKind {
		case "honest-victim":
			l := c01wire.NewLink(c01wire.FrameTLS)
			honestH = &c01Party{name: "honest", key: Hk, client: hDials, end: l.End(0), app: []byte("c01 history: application data from H")}
			honestV = &c01Party{name: "victim", key: V, client: !hDials, end: l.End(1), app: []byte("c01 history: application data from V")}
			if hDials {
				honestH.cfg, honestH.expected = c01Cfg{entry, "match"}, V.ID
				honestV.cfg = c01Cfg{"T", "empty"}
			} else {
				honestH.cfg = c01Cfg{entry, "empty"}
				honestV.cfg, honestV.expected = c01Cfg{"T", "match"}, Hk.ID
			}
			honestH.secure = c01Build(tpH, entry, honestH.client, honestH.expected)
			honestV.secure = c01Build(tpV, "T", honestV.client, honestV.expected)
			ps := []*c01Party{honestH, honestV}
			c01HandshakePhase(ps)
			c01DataPhase(ps)
			c01Cleanup(ps)
		case "failed-replay-of-victim-certificate":
			exp := peer.ID("")
			if hDials {
				exp = V.ID
			}
			rb := w.build(c01CertSpec{Ext: "-", ExtKey: "-", Sig: "-", SelfSig: "-", Chain: "1-genuine-other-replayed"})
			H, epErr := c01HistEndpointRun(tpH, Hk, hDials, entry, exp, rb.chain, w.c1)
			results = append(results, judged{"prelude", rb, c01HistResult(H, epErr, hDials, entry, exp, M, V)})
		case "honest-attacker-identity":
			exp := peer.ID("")
			if hDials {
				exp = M.ID
			}
			H, epErr := c01HistEndpointRun(tpH, Hk, hDials, entry, exp, own.chain, w.c1)
			results = append(results, judged{"prelude", own, c01HistResult(H, epErr, hDials, entry, exp, M, V)})
		}
		// ---- attack, against the same Transport object ----
		if hc.Driver == "handshake" {
			exp := peer.ID("")
			if hc.Expect == "victim" {
				exp = V.ID
			}
			H, epErr := c01HistEndpointRun(tpH, Hk, hc.HClient, hc.Entry, exp, b.chain, b.certKey)
			results = append(results, judged{"attack", b, c01HistResult(H, epErr, hc.HClient, hc.Entry, exp, M, V)})
			return
		}
		res := c01CertResult{driver: "PubKeyFromCertChain"}
		if b.parseErr != nil {
			res.err = b.parseErr
		} else {
			var k ic.PubKey
			k, res.err = PubKeyFromCertChain(b.parsed)
			if res.err == nil {
				res.accepted, res.key = true, k
				if k != nil {
					res.id, _ = peer.IDFromPublicKey(k)
				}
				res.idNote = c01HistIDNote(res.id, M, V)
			}
		}
		results = append(results, judged{"attack", b, res})
	})
	if pan != "" || infra != "" {
		a.infra("history case %v: %s %s", desc, infra, pan)
		return
	}
	a.nontrivial(fmt.Sprintf("%s|%s|%s|%s|%s", c01wire.TypeName(tv), c01wire.TypeName(tm), prelude, spec, hc))
	viol := false
	if honestH != nil {
		a.r.Executions++
		d := map[string]any{"stage": "prelude"}
		for k, v := range desc {
			d[k] = v
		}
		keys := a.c01Judge("tls-history", d, honestH, honestV)
		if !(honestH.completed && honestV.completed && honestH.readErr == nil && honestV.readErr == nil) {
			d["A"], d["B"] = c01Describe(honestH), c01Describe(honestV)
			a.r.Violate("tls-history/honest-baseline-failed", fmt.Sprintf("prelude %s: the honest handshake between fresh identities did not complete and carry data both ways: H err=%v read=%v, victim err=%v read=%v", prelude, honestH.err, honestH.readErr, honestV.err, honestV.readErr), d)
			keys = append(keys, "honest-baseline-failed")
		}
		viol = viol || len(keys) > 0
	}
	out := ""
	for _, j := range results {
		if j.res.driver == "handshake" && j.res.err == nil && !j.res.accepted {
			a.infra("history case %v: %s run has no verdict", desc, j.stage)
			return
		}
		a.r.Executions++
		v, o := a.c01HistJudge(desc, j.stage, M, V, j.b, j.res)
		viol = viol || v
		if j.stage == "attack" {
			out = o
		}
	}
	reach := "handshake"
	if hc.Driver != "handshake" {
		reach = hc.Driver
	} else if hc.Expect == "victim" {
		reach += ", H names the victim"
	} else {
		reach += ", H names nobody"
	}
	a.r.Outcome(fmt.Sprintf("after %s: [%s] %s: %s", pKind, spec, reach, out))
	if !viol && tv == c01wire.KeyTypes[1] && spec.Sig == "genuine-transplanted" && spec.Chain == "1" && hc.Driver == "handshake" && hc.Entry == "T" && hc.HClient == hDials && hc.Expect == "victim" {
		desc["outcome"] = out
		a.r.Sample(desc)
	}
}

// c01HistJudge: the certificate-space oracle (c01JudgeCert) for one acceptance decision of a history case.
// owner of the certificate key = the attacker M, other = the victim V.
func (a *c01Acct) c01HistJudge(desc map[string]any, stage string, M, V *c01wire.Key, b *c01Built, res c01CertResult) (violated bool, out string) {
	d := map[string]any{"stage": stage, "stage_certificate": b.spec, "stage_driver": res.driver, "err": fmt.Sprint(res.err)}
	for k, v := range desc {
		d[k] = v
	}
	if res.driver == "handshake" {
		d["stage_honest"] = map[string]any{"entry": res.hcfg.Entry, "client": res.hClient}
		d["endpoint_err"] = fmt.Sprint(res.endpointE)
	}
	if res.expected != "" {
		d["stage_expected"] = res.expected.String()
	}
	bad := func(key, f string, args ...any) {
		violated = true
		a.r.Violate("tls-history/"+key, fmt.Sprintf("%s after prelude %q: ", stage, desc["prelude"])+fmt.Sprintf(f, args...), d)
	}
	if !res.accepted {
		if b.spec == c01HistOwnCert && (res.expected == "" || res.expected == M.ID) {
			bad("honest-baseline-failed", "a correct certificate of the endpoint's own identity %s was rejected by a side expecting %q: %v (endpoint: %v)", M.Name, res.expected, res.err, res.endpointE)
		}
		return violated, "rejected (" + c01ErrClass(res.err) + ")"
	}
	out = "ACCEPTED as " + res.idNote
	d["accepted_as"] = res.id.String()
	// (i)
	if res.key == nil {
		bad("no-remote-key", "accepted without a public key")
	} else if id, err := peer.IDFromPublicKey(res.key); err != nil || id != res.id {
		bad("remote-peer-not-derived-from-remote-key", "reported peer %s but the key hashes to %s (err=%v)", res.id, id, err)
	}
	// (ii)
	if !b.authentic[res.id] || (b.replayedLeaf && res.driver == "handshake") {
		bad("authenticated-as-someone-else", "accepted as %s (%s), but the endpoint holds only the identity key of %s and no extension of the certificate is signed by the accepted identity over the certificate key the endpoint handshakes with [%s]", res.id, res.idNote, M.Name, b.spec)
	}
	// (iv)
	if b.spec.Chain != "1" && !(b.replayedLeaf && res.driver != "handshake") {
		bad("completed-on-chain-with-replayed-certificate", "accepted a chain of %d certificates that contains the victim's certificate replayed from another session [%s]", len(b.chain), b.spec)
	}
	// (iii)
	if res.expected != "" && res.id != res.expected {
		bad("completed-although-expected-peer-differs", "named %s but accepted %s [%s]", res.expected, res.id, b.spec)
	}
	if b.spec.SelfSig == "invalid" {
		out += " despite an invalid X.509 self-signature"
		if c01SelfSigIsViolation {
			bad("accepted-invalid-self-signature", "accepted a certificate whose X.509 self-signature is invalid [%s]", b.spec)
		}
	}
	return violated, out
}

// c01HistMine deals the cases out. Cases with an RSA victim cost a key generation each and are dealt round
// robin, so that no worker gets more than its share of them; the others are dealt by c01Mine.
func c01HistMine(nRSA *int, rsa bool, n, shard, nshards int) bool {
	if !rsa {
		return c01Mine(n, shard, nshards)
	}
	*nRSA++
	return *nRSA%nshards == shard
}
