//go:build verif

package noise

import (
	"fmt"
	"net"
	"sync"
	"testing"
	"time"

	"github.com/libp2p/go-libp2p/x/verif/c01wire"
	"github.com/libp2p/go-libp2p/x/verif/vrep"
)

// Whole-transcript replay: a passive observer recorded every frame the victim T sent in an earlier, genuine
// session with the SAME honest identity H; an endpoint that holds no key at all now plays T's recorded frames,
// in order, against a fresh session of H in the same role.

// c01RecordTranscript runs one genuine session between T and H and returns the frames T sent (handshake
// messages and its application message).
func c01RecordTranscript(t *testing.T, th, tt int, victimInitiator bool) (frames [][]byte, err error) {
	b := c01Base{ti: th, tr: tt, ci: c01Cfg{Entry: "T", Expect: "match"}, cr: c01Cfg{Entry: "T", Expect: "empty"}}
	if victimInitiator {
		b.ti, b.tr = tt, th
	}
	// key roles: index 0 = initiator identity, 1 = responder identity (as in every wire run)
	run := c01RunWire(t, b, -1, c01wire.Edit{}, [3]int{})
	if run.panic != "" {
		return nil, fmt.Errorf("recording panicked: %s", run.panic)
	}
	if !run.A.completed || !run.B.completed {
		return nil, fmt.Errorf("recording session failed: initiator err=%v responder err=%v", run.A.err, run.B.err)
	}
	v := run.B
	if victimInitiator {
		v = run.A
	}
	frames, _ = c01wire.FrameNoise.Split(v.end.Sent())
	want := 2
	if victimInitiator {
		want = 3
	}
	if len(frames) < want {
		return nil, fmt.Errorf("recorded %d frames, expected at least %d", len(frames), want)
	}
	return frames, nil
}

func TestVerifC01NoiseReplay(t *testing.T) {
	a := c01NewAcct(t, "noise-replay")
	defer a.flush()
	a.r.Bounds["scenario"] = "every frame the victim sent in an earlier genuine session with the same honest identity is replayed in order by a key-less endpoint against a fresh session of that identity in the same role"
	a.r.Bounds["key types"] = "honest x victim: all 16 pairs; victim as initiator and as responder; honest side naming the victim / (inbound) nobody, through Transport and SessionTransport"
	shard, nshards := vrep.Shard()
	n := 0
	for _, th := range c01wire.KeyTypes {
		for _, tt := range c01wire.KeyTypes {
			for _, victimInitiator := range []bool{true, false} {
				cfgs := []c01Cfg{{Entry: "T", Expect: "match"}, {Entry: "ST", Expect: "match"}, {Entry: "ST", Expect: "disabled"}}
				if victimInitiator {
					cfgs = append(cfgs, c01Cfg{Entry: "T", Expect: "empty"})
				}
				for _, cfg := range cfgs {
					n++
					if !c01Mine(n, shard, nshards) {
						continue
					}
					if a.expired() {
						return
					}
					a.c01ReplayCase(t, th, tt, victimInitiator, cfg)
				}
			}
		}
	}
}

func (a *c01Acct) c01ReplayCase(t *testing.T, th, tt int, victimInitiator bool, cfg c01Cfg) {
	frames, err := c01RecordTranscript(t, th, tt, victimInitiator)
	// the identities: H plays the role opposite to the victim's, with the key index of that role
	hIdx, tIdx := 0, 1
	if victimInitiator {
		hIdx, tIdx = 1, 0
	}
	Hk, T := c01Key(t, th, hIdx), c01Key(t, tt, tIdx)
	desc := map[string]any{"scenario": "noise-replay", "honest": map[string]any{"key": Hk.Name, "cfg": cfg.String(), "initiator": !victimInitiator}, "victim": T.Name}
	a.r.Executions++
	if err != nil {
		a.r.Violate("noise-replay/honest-baseline-failed", fmt.Sprintf("the genuine session to be recorded did not complete: %v", err), desc)
		return
	}
	var H *c01Party
	var rerr error
	pan := c01Bubble(t, func() {
		l := c01wire.NewLink(c01wire.FrameNoise)
		H = &c01Party{name: "honest", key: Hk, cfg: cfg, initiator: !victimInitiator, end: l.End(0), app: []byte("c01 application data from the honest side")}
		H.secure = c01Build(t, Hk, cfg, !victimInitiator, T.ID, T.ID)
		if cfg.named() {
			H.expected = T.ID
		}
		var wg sync.WaitGroup
		wg.Add(1)
		go func() {
			defer wg.Done()
			rerr = c01Replayer(l.End(1), frames, victimInitiator)
		}()
		c01HandshakePhase([]*c01Party{H})
		c01DataPhase([]*c01Party{H})
		wg.Wait()
		c01Cleanup([]*c01Party{H})
		l.End(1).Close()
	})
	if pan != "" || H == nil || H.panicked != "" {
		a.infra("replay run %v: %s", desc, pan)
		return
	}
	a.r.Executions++
	a.nontrivial(fmt.Sprintf("%s|%s|%v|%s", Hk.Name, T.Name, victimInitiator, cfg))
	desc["honest_result"] = c01Describe(H)
	desc["replayer_err"] = fmt.Sprint(rerr)
	if H.completed {
		a.r.Violate("noise-replay/completed-on-replayed-transcript", fmt.Sprintf("honest side completed (RemotePeer()=%s) against an endpoint that holds no key and only replayed the frames %s sent in an earlier session", H.remotePeer, T.Name), desc)
	}
	if H.completed && H.readErr == nil && H.readN > 0 {
		a.r.Violate("noise-replay/read-replayed-data", fmt.Sprintf("honest side read %q from the replaying endpoint", H.readData), desc)
	}
	a.r.Outcome(fmt.Sprintf("victim initiator=%v, honest %s: %s (%s)", victimInitiator, cfg, H.resultClass(), c01ErrClass(H.err)))
	if Hk.Typ == T.Typ {
		a.r.Sample(desc)
	}
}

// c01Replayer plays recorded frames: as the initiator frame 0, (wait for the answer), frames 1..; as the
// responder (wait for message 1), frames 0...
func c01Replayer(c net.Conn, frames [][]byte, initiator bool) error {
	c.SetDeadline(time.Now().Add(2 * c01HandshakeTimeout))
	next := 0
	if initiator {
		if _, err := c.Write(frames[0]); err != nil {
			return err
		}
		next = 1
	}
	if _, err := c01ReadFrame(c); err != nil {
		return err
	}
	for ; next < len(frames); next++ {
		if _, err := c.Write(frames[next]); err != nil {
			return err
		}
	}
	_, err := c01ReadFrame(c)
	return err
}
