//go:build verif

package noise

// TestVerifC01NoiseReenc: the remote E drives flynn/noise directly, holds its identity private key and signs
// its real static key with it - a correct foreign endpoint - but writes its identity public key into the
// identity_key field of the handshake payload in ANOTHER, parseable wire encoding (package c01reenc: unknown
// protobuf fields appended / prepended / in between, fields in reverse order, repeated fields with the genuine
// one last, non-minimal varints for tag, type and length, and for secp256k1 the other SEC1 point forms). The
// payload signature is over the static key, so it stays valid whatever the encoding of the identity key is.
//
// Oracle ("reports as its remote peer exactly the peer ID derived from a public key whose private key the
// remote used in that handshake, and when the local side named the peer it expects, the handshake succeeds
// only if that peer ID matches"): IF the honest side completes, RemotePeer() is the peer ID of E's key as the
// harness derives it from the key itself (c01reenc.CanonID; not through MarshalPublicKey / IDFromPublicKey),
// RemotePublicKey() is E's key, and a side that named a peer (and checks it) named exactly that ID. Refusing
// a non-canonical encoding is fine. The canonical encoding is the positive control.

import (
	"fmt"
	"sync"
	"testing"

	"github.com/libp2p/go-libp2p/core/peer"
	"github.com/libp2p/go-libp2p/x/verif/c01reenc"
	"github.com/libp2p/go-libp2p/x/verif/c01wire"
	"github.com/libp2p/go-libp2p/x/verif/vrep"
)

type c01ReencCfg struct {
	initiator bool
	cfg       c01Cfg
	exp       string // canonical | alias | nobody | alias-unchecked
}

func c01ReencCfgs() []c01ReencCfg {
	return []c01ReencCfg{
		{true, c01Cfg{Entry: "T", Expect: "match"}, "canonical"},
		{true, c01Cfg{Entry: "T", Expect: "different"}, "alias"},
		{true, c01Cfg{Entry: "ST", Expect: "disabled"}, "alias-unchecked"},
		{true, c01Cfg{Entry: "ST", Expect: "match", Prologue: "A", EDH: true}, "canonical"},
		{true, c01Cfg{Entry: "ST", Expect: "different", Prologue: "A", EDH: true}, "alias"},
		{false, c01Cfg{Entry: "T", Expect: "empty"}, "nobody"},
		{false, c01Cfg{Entry: "T", Expect: "match"}, "canonical"},
		{false, c01Cfg{Entry: "T", Expect: "different"}, "alias"},
		{false, c01Cfg{Entry: "ST", Expect: "match", Prologue: "A", EDH: true}, "canonical"},
		{false, c01Cfg{Entry: "ST", Expect: "different", Prologue: "A", EDH: true}, "alias"},
		{false, c01Cfg{Entry: "ST", Expect: "disabled", Prologue: "A"}, "alias-unchecked"},
		{false, c01Cfg{Entry: "ST", Expect: "empty"}, "nobody"},
	}
}

func TestVerifC01NoiseReenc(t *testing.T) {
	a := c01NewAcct(t, "noise-reenc")
	defer a.flush()
	kt := c01wire.KeyTypes
	htypes := []int{kt[0]}
	if vrep.Thorough() {
		htypes = kt
	}
	var encNames []string
	for _, e := range c01reenc.Encodings(kt[0], make([]byte, 32)) {
		encNames = append(encNames, e.Name)
	}
	var cfgNames []string
	for _, hc := range c01ReencCfgs() {
		cfgNames = append(cfgNames, fmt.Sprintf("initiator=%v %s names %s", hc.initiator, hc.cfg, hc.exp))
	}
	a.r.Bounds["encodings of the remote's genuine identity key in the payload"] = append(encNames, "secp256k1 only: the point uncompressed; in hybrid form")
	a.r.Bounds["identity key type of the remote"] = "ed25519, ecdsa, secp256k1, rsa2048 (all encodings each)"
	a.r.Bounds["identity key type of the honest side"] = fmt.Sprintf("%d (quick: ed25519; thorough: all 4)", len(htypes))
	a.r.Bounds["honest side"] = cfgNames
	a.r.Bounds["expected peer"] = "canonical = the remote's peer ID; alias = the ID that hashing the identity_key bytes as received gives (non-canonical encodings only); alias-unchecked = alias named with DisablePeerIDCheck"
	shard, nshards := vrep.Shard()
	n, cases, acc := 0, 0, 0
	for _, te := range kt {
		E := c01Key(t, te, 2)
		raw, err := E.Pub.Raw()
		var canonID peer.ID
		if err == nil {
			canonID, err = c01reenc.CanonID(E.Pub)
		}
		if err != nil || canonID != E.ID {
			a.infra("the peer ID of the locally generated key %s is %s, the harness derives %s (err=%v)", E.Name, E.ID, canonID, err)
			continue
		}
		for _, enc := range c01reenc.Encodings(te, raw) {
			alias, err := c01reenc.HashID(enc.Bytes)
			if err != nil {
				a.infra("alias ID: %v", err)
				continue
			}
			for _, th := range htypes {
				Hk := c01Key(t, th, 0)
				for _, hc := range c01ReencCfgs() {
					if enc.Canonical && hc.exp == "alias" {
						continue // the same as "canonical"
					}
					cases++
					n++
					if !c01Mine(n, shard, nshards) {
						continue
					}
					if a.expired() {
						return
					}
					if a.c01ReencRun(t, Hk, E, canonID, alias, enc, hc) && !enc.Canonical {
						acc++
					}
				}
			}
		}
	}
	a.r.Bounds["cases (all shards)"] = cases
	a.r.Note("non-canonical encodings accepted by the honest side in this shard: %d runs (the oracle is exercised on them; a rejection is never a violation)", acc)
}

func (a *c01Acct) c01ReencRun(t *testing.T, Hk, E *c01wire.Key, canonID, alias peer.ID, enc c01reenc.Enc, hc c01ReencCfg) (completed bool) {
	var H *c01Party
	var at *c01Attacker
	cfg := hc.cfg
	pan := c01Bubble(t, func() {
		l := c01wire.NewLink(c01wire.FrameNoise)
		H = &c01Party{name: "honest", key: Hk, cfg: cfg, initiator: hc.initiator, end: l.End(0)}
		// "match" names the remote's real peer ID, "different" / "disabled" the alias
		H.secure = c01Build(t, Hk, cfg, hc.initiator, canonID, alias)
		switch cfg.Expect {
		case "match":
			H.expected = canonID
		case "different":
			H.expected = alias
		}
		st := c01NewStatic()
		payload := c01Payload(enc.Bytes, c01Sign(E, append([]byte(payloadSigPrefix), st.Public...)), nil)
		at = &c01Attacker{initiator: !hc.initiator, static: st, payload: payload, prologue: c01Prologue(cfg.Prologue)}
		var wg sync.WaitGroup
		wg.Add(1)
		go func() { defer wg.Done(); at.run(l.End(1)) }()
		c01HandshakePhase([]*c01Party{H})
		wg.Wait()
		c01Cleanup([]*c01Party{H})
		l.End(1).Close()
	})
	desc := map[string]any{"scenario": "noise-reenc", "honest": map[string]any{"key": Hk.Name, "cfg": cfg.String(), "initiator": hc.initiator, "names": hc.exp},
		"remote": E.Name, "remote_peer_id": canonID.String(), "encoding": enc.Name, "identity_key_bytes_in_payload": fmt.Sprintf("%x", enc.Bytes)}
	if pan != "" || H == nil || H.panicked != "" {
		a.infra("re-encoded key run %v: %s", desc, pan)
		return false
	}
	a.r.Executions++
	if !enc.Canonical || hc.exp != "canonical" {
		a.nontrivial(fmt.Sprintf("%s|%s|%s|%s|%v|%s", Hk.Name, E.Name, enc.Name, cfg, hc.initiator, hc.exp))
	}
	desc["honest_result"] = c01Describe(H)
	desc["endpoint_err"] = fmt.Sprint(at.err)
	if H.expected != "" {
		desc["expected_id"] = H.expected.String()
	}
	bad := func(key, f string, args ...any) {
		a.r.Violate("noise-reenc/"+key, fmt.Sprintf(f, args...), desc)
	}
	out := "rejected (" + c01ErrClass(H.err) + ")"
	if H.completed {
		out = "COMPLETED"
		if H.remoteKey == nil {
			bad("no-remote-key", "honest side completed but RemotePublicKey() is nil")
		} else {
			if !H.remoteKey.Equals(E.Pub) {
				bad("remote-public-key-not-the-key-used/reencoded-key", "the remote used the key of %s, RemotePublicKey() is another one [%s]", E.Name, enc.Name)
			}
			kid, err := c01reenc.CanonID(H.remoteKey)
			if err != nil || kid != H.remotePeer || H.remotePeer != canonID {
				bad("remote-peer-not-derived-from-remote-key/reencoded-key", "the remote holds and used the %s key whose peer ID is %s; the honest side reports RemotePeer()=%s (RemotePublicKey() has peer ID %s, err=%v) [identity key sent as: %s]", c01wire.TypeName(E.Typ), canonID, H.remotePeer, kid, err, enc.Name)
			}
		}
		if cfg.named() && H.expected != canonID {
			bad("completed-although-expected-peer-differs/reencoded-key", "honest side named %s, which is not the peer ID %s of the key the remote used, and completed with RemotePeer()=%s [identity key sent as: %s]", H.expected, canonID, H.remotePeer, enc.Name)
		}
	} else if enc.Canonical {
		// every configuration run with the canonical encoding names the right peer, nobody, or does not check
		bad("honest-baseline-failed", "a correct foreign endpoint %s sending the canonical key encoding was rejected by a side that names %s: %v (endpoint side: %v)", E.Name, hc.exp, H.err, at.err)
	}
	kind := "non-canonical encoding"
	if enc.Canonical {
		kind = "canonical encoding"
	}
	a.r.Outcome(fmt.Sprintf("%s, honest side names %s: %s", kind, hc.exp, out))
	if hc.initiator && cfg.Entry == "T" && len(enc.Name)%4 == int(E.Typ) {
		a.r.Sample(desc)
	}
	return H.completed
}
