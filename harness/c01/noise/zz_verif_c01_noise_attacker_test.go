//go:build verif

package noise

import (
	"crypto/rand"
	"encoding/binary"
	"fmt"
	"io"
	"net"
	"sync"
	"testing"
	"time"

	"github.com/flynn/noise"
	"github.com/libp2p/go-libp2p/core/peer"
	"github.com/libp2p/go-libp2p/p2p/security/noise/pb"
	"github.com/libp2p/go-libp2p/x/verif/c01wire"
	"github.com/libp2p/go-libp2p/x/verif/vrep"

	"google.golang.org/protobuf/proto"
)

// An active attacker M: an endpoint that owns a libp2p identity key K_M and Noise static keys of its own and
// speaks Noise XX by driving github.com/flynn/noise directly. It tries to make the honest side H report the
// identity of a victim T whose private key it does not have.

func c01ReadFrame(c net.Conn) ([]byte, error) {
	var l [2]byte
	if _, err := io.ReadFull(c, l[:]); err != nil {
		return nil, err
	}
	b := make([]byte, binary.BigEndian.Uint16(l[:]))
	_, err := io.ReadFull(c, b)
	return b, err
}

func c01WriteFrame(c net.Conn, body []byte) error {
	b := make([]byte, 2+len(body))
	binary.BigEndian.PutUint16(b, uint16(len(body)))
	copy(b[2:], body)
	_, err := c.Write(b)
	return err
}

type c01Attacker struct {
	initiator bool
	static    noise.DHKey
	prologue  []byte
	payload   []byte // sent in message 2 (as responder) or message 3 (as initiator)

	peerPayload []byte // plaintext payload of the honest side, as decrypted by the attacker
	peerStatic  []byte
	sentAll     bool
	finished    bool // the attacker's own handshake state reached the end
	err         error
}

func (at *c01Attacker) run(c net.Conn) {
	c.SetDeadline(time.Now().Add(2 * c01HandshakeTimeout))
	hs, err := noise.NewHandshakeState(noise.Config{CipherSuite: cipherSuite, Pattern: noise.HandshakeXX, Initiator: at.initiator, StaticKeypair: at.static, Prologue: at.prologue})
	if err != nil {
		at.err = err
		return
	}
	send := func(payload []byte) bool {
		out, _, _, err := hs.WriteMessage(nil, payload)
		if err == nil {
			err = c01WriteFrame(c, out)
		}
		at.err = err
		return err == nil
	}
	recv := func() ([]byte, bool) {
		f, err := c01ReadFrame(c)
		if err != nil {
			at.err = err
			return nil, false
		}
		p, _, _, err := hs.ReadMessage(nil, f)
		at.err = err
		return p, err == nil
	}
	if at.initiator {
		if !send(nil) {
			return
		}
		p, ok := recv()
		if !ok {
			return
		}
		at.peerPayload, at.peerStatic = p, append([]byte{}, hs.PeerStatic()...)
		if !send(at.payload) {
			return
		}
		at.sentAll, at.finished = true, true
		return
	}
	if _, ok := recv(); !ok {
		return
	}
	if !send(at.payload) {
		return
	}
	at.sentAll = true
	p, ok := recv()
	if !ok {
		return
	}
	at.peerPayload, at.peerStatic = p, append([]byte{}, hs.PeerStatic()...)
	at.finished = true
}

func c01Payload(key, sig []byte, ext *pb.NoiseExtensions) []byte {
	p := &pb.NoiseHandshakePayload{Extensions: ext}
	if key != nil {
		p.IdentityKey = key
	}
	if sig != nil {
		p.IdentitySig = sig
	}
	b, err := proto.Marshal(p)
	if err != nil {
		panic(err)
	}
	return b
}

func c01Sign(k *c01wire.Key, msg []byte) []byte {
	s, err := k.Priv.Sign(msg)
	if err != nil {
		panic(err)
	}
	return s
}

func c01NewStatic() noise.DHKey {
	kp, err := noise.DH25519.GenerateKeypair(rand.Reader)
	if err != nil {
		panic(err)
	}
	return kp
}

// c01Capture: what any endpoint learns from a completed handshake with the victim T: T's payload
// (identity key + signature over T's static key of THAT session) and that static key.
type c01Capture struct {
	payload []byte
	static  []byte
}

var (
	c01CapMu    sync.Mutex
	c01CapCache = map[string]*c01Capture{}
)

// c01CaptureFrom runs one genuine handshake between the honest victim T (real Transport, in the given role)
// and the attacker behaving honestly under its own identity M, and returns what the attacker saw.
func c01CaptureFrom(t *testing.T, T, M *c01wire.Key, victimInitiator bool) (*c01Capture, error) {
	ck := fmt.Sprintf("%s/%s/%v", T.Name, M.Name, victimInitiator)
	c01CapMu.Lock()
	defer c01CapMu.Unlock()
	if c, ok := c01CapCache[ck]; ok {
		return c, nil
	}
	var cpt *c01Capture
	var err error
	pan := c01Bubble(t, func() { cpt, err = c01CaptureIn(t, T, M, victimInitiator) })
	if pan != "" {
		return nil, fmt.Errorf("capture panicked: %s", pan)
	}
	if err != nil {
		return nil, err
	}
	c01CapCache[ck] = cpt
	return cpt, nil
}

// c01CaptureIn is the capture handshake itself; it must be called inside a bubble.
func c01CaptureIn(t testing.TB, T, M *c01wire.Key, victimInitiator bool) (cpt *c01Capture, err error) {
	l := c01wire.NewLink(c01wire.FrameNoise)
	cfg := c01Cfg{Entry: "T", Expect: "empty"}
	if victimInitiator {
		cfg.Expect = "match"
	}
	V := &c01Party{name: "victim", key: T, cfg: cfg, initiator: victimInitiator, end: l.End(0)}
	V.secure = c01Build(t, T, cfg, victimInitiator, M.ID, M.ID)
	st := c01NewStatic()
	at := &c01Attacker{initiator: !victimInitiator, static: st,
		payload: c01Payload(M.PubBytes, c01Sign(M, append([]byte(payloadSigPrefix), st.Public...)), nil)}
	var wg sync.WaitGroup
	wg.Add(1)
	go func() { defer wg.Done(); at.run(l.End(1)) }()
	c01HandshakePhase([]*c01Party{V})
	wg.Wait()
	if !V.completed || !at.finished || V.remotePeer != M.ID {
		err = fmt.Errorf("capture handshake with the victim failed: victim err=%v attacker err=%v", V.err, at.err)
	} else {
		cpt = &c01Capture{payload: at.peerPayload, static: at.peerStatic}
	}
	c01Cleanup([]*c01Party{V})
	l.End(1).Close()
	return cpt, err
}

// c01AttackVariant builds the attacker's static key and payload. honest = the payload is a correct one for
// the attacker's OWN identity (positive control: H may accept it, as M).
type c01AttackVariant struct {
	name   string
	honest bool
	build  func(T, M *c01wire.Key, capI, capR *c01Capture) (noise.DHKey, []byte)
}

func c01AttackVariants() []c01AttackVariant {
	pre := []byte(payloadSigPrefix)
	cat := func(a, b []byte) []byte { return append(append([]byte{}, a...), b...) }
	return []c01AttackVariant{
		{"attacker-key+attacker-sig (honest foreign endpoint)", true, func(T, M *c01wire.Key, _, _ *c01Capture) (noise.DHKey, []byte) {
			st := c01NewStatic()
			return st, c01Payload(M.PubBytes, c01Sign(M, cat(pre, st.Public)), nil)
		}},
		{"victim payload replayed (captured while victim was responder)", false, func(T, M *c01wire.Key, _, capR *c01Capture) (noise.DHKey, []byte) {
			return c01NewStatic(), capR.payload
		}},
		{"victim payload replayed (captured while victim was initiator)", false, func(T, M *c01wire.Key, capI, _ *c01Capture) (noise.DHKey, []byte) {
			return c01NewStatic(), capI.payload
		}},
		{"victim payload AND victim static key replayed (responder capture; attacker lacks the static private key)", false, func(T, M *c01wire.Key, _, capR *c01Capture) (noise.DHKey, []byte) {
			st := c01NewStatic()
			st.Public = append([]byte{}, capR.static...)
			return st, capR.payload
		}},
		{"victim payload AND victim static key replayed (initiator capture; attacker lacks the static private key)", false, func(T, M *c01wire.Key, capI, _ *c01Capture) (noise.DHKey, []byte) {
			st := c01NewStatic()
			st.Public = append([]byte{}, capI.static...)
			return st, capI.payload
		}},
		{"victim key + attacker's signature over the attacker's static key", false, func(T, M *c01wire.Key, _, _ *c01Capture) (noise.DHKey, []byte) {
			st := c01NewStatic()
			return st, c01Payload(T.PubBytes, c01Sign(M, cat(pre, st.Public)), nil)
		}},
		{"victim key + victim's signature over the static key WITHOUT the domain prefix", false, func(T, M *c01wire.Key, _, _ *c01Capture) (noise.DHKey, []byte) {
			st := c01NewStatic()
			return st, c01Payload(T.PubBytes, c01Sign(T, st.Public), nil)
		}},
		{"victim key + victim's signature under the TLS domain prefix", false, func(T, M *c01wire.Key, _, _ *c01Capture) (noise.DHKey, []byte) {
			st := c01NewStatic()
			return st, c01Payload(T.PubBytes, c01Sign(T, cat([]byte("libp2p-tls-handshake:"), st.Public)), nil)
		}},
		{"victim key + victim's signature over prefix+static with the last byte of the static key changed", false, func(T, M *c01wire.Key, _, _ *c01Capture) (noise.DHKey, []byte) {
			st := c01NewStatic()
			other := append([]byte{}, st.Public...)
			other[31] ^= 0x01
			return st, c01Payload(T.PubBytes, c01Sign(T, cat(pre, other)), nil)
		}},
		{"victim key + empty signature", false, func(T, M *c01wire.Key, _, _ *c01Capture) (noise.DHKey, []byte) {
			return c01NewStatic(), c01Payload(T.PubBytes, []byte{}, nil)
		}},
		{"victim key + signature field absent", false, func(T, M *c01wire.Key, _, _ *c01Capture) (noise.DHKey, []byte) {
			return c01NewStatic(), c01Payload(T.PubBytes, nil, nil)
		}},
		{"empty key + attacker's signature", false, func(T, M *c01wire.Key, _, _ *c01Capture) (noise.DHKey, []byte) {
			st := c01NewStatic()
			return st, c01Payload([]byte{}, c01Sign(M, cat(pre, st.Public)), nil)
		}},
		{"empty payload", false, func(T, M *c01wire.Key, _, _ *c01Capture) (noise.DHKey, []byte) {
			return c01NewStatic(), nil
		}},
		{"garbage key + attacker's signature", false, func(T, M *c01wire.Key, _, _ *c01Capture) (noise.DHKey, []byte) {
			st := c01NewStatic()
			g := append([]byte{}, T.PubBytes...)
			for i := range g {
				g[i] ^= 0x5a
			}
			return st, c01Payload(g, c01Sign(M, cat(pre, st.Public)), nil)
		}},
		{"victim key appended to the attacker's honest payload (duplicate identity_key field, last one wins in protobuf)", false, func(T, M *c01wire.Key, _, _ *c01Capture) (noise.DHKey, []byte) {
			st := c01NewStatic()
			honest := c01Payload(M.PubBytes, c01Sign(M, cat(pre, st.Public)), nil)
			return st, cat(honest, c01Payload(T.PubBytes, nil, nil))
		}},
		{"attacker's honest payload appended to the victim key (duplicate identity_key field)", false, func(T, M *c01wire.Key, _, _ *c01Capture) (noise.DHKey, []byte) {
			st := c01NewStatic()
			honest := c01Payload(M.PubBytes, c01Sign(M, cat(pre, st.Public)), nil)
			return st, cat(c01Payload(T.PubBytes, nil, nil), honest)
		}},
	}
}

func TestVerifC01NoiseAttacker(t *testing.T) {
	a := c01NewAcct(t, "noise-attacker")
	defer a.flush()
	variants := c01AttackVariants()
	type hcfg struct {
		initiator bool
		cfg       c01Cfg
	}
	hcfgs := []hcfg{
		{true, c01Cfg{Entry: "T", Expect: "match"}},
		{true, c01Cfg{Entry: "ST", Expect: "disabled"}},
		{false, c01Cfg{Entry: "T", Expect: "match"}},
		{false, c01Cfg{Entry: "T", Expect: "empty"}},
		{true, c01Cfg{Entry: "ST", Expect: "match", Prologue: "A", EDH: true}},
		{false, c01Cfg{Entry: "ST", Expect: "match", Prologue: "A", EDH: true}},
		{false, c01Cfg{Entry: "ST", Expect: "disabled", Prologue: "A"}},
	}
	var names []string
	for _, v := range variants {
		names = append(names, v.name)
	}
	a.r.Bounds["payload variants"] = names
	a.r.Bounds["honest side"] = "both roles; Transport naming the victim, Transport naming nobody (inbound), SessionTransport naming the victim with prologue+early data (the attacker knows the prologue), SessionTransport with the peer-ID check disabled"
	a.r.Bounds["key types"] = "honest side x victim: all 16 pairs; attacker identity: quick = ed25519 and the victim's type, thorough = all 4"
	shard, nshards := vrep.Shard()
	n := 0
	for _, th := range c01wire.KeyTypes {
		for _, tt := range c01wire.KeyTypes {
			mtypes := []int{c01wire.KeyTypes[0]}
			if tt != c01wire.KeyTypes[0] {
				mtypes = append(mtypes, tt)
			}
			if vrep.Thorough() {
				mtypes = c01wire.KeyTypes
			}
			for _, tm := range mtypes {
				for _, hc := range hcfgs {
					for vi, v := range variants {
						n++
						if !c01Mine(n, shard, nshards) {
							continue
						}
						if a.expired() {
							return
						}
						a.c01AttackCase(t, th, tt, tm, hc.initiator, hc.cfg, vi, v)
					}
				}
			}
		}
	}
}

func (a *c01Acct) c01AttackCase(t *testing.T, th, tt, tm int, hInit bool, cfg c01Cfg, vi int, v c01AttackVariant) {
	H, T, M := c01Key(t, th, 0), c01Key(t, tt, 1), c01Key(t, tm, 2)
	capI, err := c01CaptureFrom(t, T, M, true)
	if err == nil {
		var capR *c01Capture
		capR, err = c01CaptureFrom(t, T, M, false)
		if err == nil {
			a.c01AttackRun(t, H, T, M, hInit, cfg, v, capI, capR)
			return
		}
	}
	// The capture is a plain honest handshake of the real code with a correct foreign endpoint: if that does
	// not complete, the baseline is broken.
	a.r.Executions++
	a.r.Violate("noise-attacker/honest-baseline-failed", fmt.Sprintf("victim %s could not complete an honest handshake with a correct foreign endpoint %s: %v", T.Name, M.Name, err),
		map[string]any{"scenario": "noise-attacker/capture", "victim": T.Name, "endpoint": M.Name})
}

func (a *c01Acct) c01AttackRun(t *testing.T, Hk, T, M *c01wire.Key, hInit bool, cfg c01Cfg, v c01AttackVariant, capI, capR *c01Capture) {
	var H *c01Party
	var at *c01Attacker
	pan := c01Bubble(t, func() {
		l := c01wire.NewLink(c01wire.FrameNoise)
		H = &c01Party{name: "honest", key: Hk, cfg: cfg, initiator: hInit, end: l.End(0)}
		// the honest side names the VICTIM wherever its configuration names anybody
		H.secure = c01Build(t, Hk, cfg, hInit, T.ID, T.ID)
		if cfg.named() {
			H.expected = T.ID
		}
		st, payload := v.build(T, M, capI, capR)
		at = &c01Attacker{initiator: !hInit, static: st, payload: payload, prologue: c01Prologue(cfg.Prologue)}
		var wg sync.WaitGroup
		wg.Add(1)
		go func() { defer wg.Done(); at.run(l.End(1)) }()
		c01HandshakePhase([]*c01Party{H})
		wg.Wait()
		c01Cleanup([]*c01Party{H})
		l.End(1).Close()
	})
	desc := map[string]any{"scenario": "noise-attacker", "honest": map[string]any{"key": Hk.Name, "cfg": cfg.String(), "initiator": hInit},
		"victim": T.Name, "attacker": M.Name, "variant": v.name}
	if pan != "" || H == nil || H.panicked != "" {
		a.infra("attacker run %v: %s %s", desc, pan, H.panicked)
		return
	}
	a.r.Executions++
	a.nontrivial(fmt.Sprintf("%s|%s|%s|%s|%v|%s", Hk.Name, T.Name, M.Name, cfg, hInit, v.name))
	viol := a.c01JudgeAttack("noise-attacker", desc, H, at, T, M, cfg.named(), v.name, v.honest)
	res := "rejected"
	if H.completed {
		res = "completed"
	}
	exp := "names-nobody"
	if cfg.named() {
		exp = "names-victim"
	}
	a.r.Outcome(fmt.Sprintf("honest side %s; %s: %s (%s)", exp, v.name, res, c01ErrClass(H.err)))
	if !viol && Hk.Typ == c01wire.KeyTypes[0] && T.Typ == c01wire.KeyTypes[1] && M.Typ == c01wire.KeyTypes[0] && hInit && cfg.Entry == "T" && (v.honest || len(v.name)%5 == 0) {
		a.r.Sample(desc)
	}
}

// c01JudgeAttack: the oracle for one honest side H against a harness-driven endpoint that holds exactly one
// identity private key, the one of M (T = the victim it may try to pass for). named: H named a peer
// (H.expected) and its configuration checks it. honest: the endpoint behaved as a correct foreign
// implementation under its own identity (positive control).
func (a *c01Acct) c01JudgeAttack(scn string, desc map[string]any, H *c01Party, at *c01Attacker, T, M *c01wire.Key, named bool, vname string, honest bool) (viol bool) {
	desc["honest_result"] = c01Describe(H)
	desc["attacker_err"] = fmt.Sprint(at.err)
	bad := func(key, f string, args ...any) {
		a.r.Violate(scn+"/"+key, fmt.Sprintf(f, args...), desc)
	}
	v := struct {
		name   string
		honest bool
	}{vname, honest}
	if H.completed {
		// (i)
		if H.remoteKey == nil {
			bad("no-remote-key", "honest side completed but RemotePublicKey() is nil")
			viol = true
		} else if id, err := peer.IDFromPublicKey(H.remoteKey); err != nil || id != H.remotePeer {
			bad("remote-peer-not-derived-from-remote-key", "RemotePeer()=%s but RemotePublicKey() hashes to %s (err=%v)", H.remotePeer, id, err)
			viol = true
		}
		// (ii) the endpoint holds exactly one identity key: K_M
		if H.remotePeer != M.ID || (H.remoteKey != nil && !H.remoteKey.Equals(M.Pub)) {
			bad("authenticated-as-someone-else", "honest side completed with RemotePeer()=%s (victim is %s) but the endpoint only holds the private key of %s [%s]", H.remotePeer, T.ID, M.ID, v.name)
			viol = true
		}
		// (iii)
		if named && H.remotePeer != H.expected {
			bad("completed-although-expected-peer-differs", "honest side named %s but completed with RemotePeer()=%s [%s]", H.expected, H.remotePeer, v.name)
			viol = true
		}
		// a payload that is not a correct one for the attacker's own identity was accepted (as the attacker):
		// the identity is right, so the statement holds; recorded as an outcome class only.
	} else if v.honest && (!named || H.expected == M.ID) {
		// positive control: a correct foreign endpoint must be accepted (as itself) by a side that names nobody
		// (or names exactly that endpoint)
		bad("honest-baseline-failed", "a correct foreign endpoint %s (driving flynn/noise directly) was rejected by a side that expects %q: %v (endpoint side: %v)", M.Name, H.expected, H.err, at.err)
		viol = true
	}
	return viol
}
