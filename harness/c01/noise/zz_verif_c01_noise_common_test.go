//go:build verif

package noise

// C01 (Noise part): security handshakes authenticate the remote peer's identity.
//
// Engine E3 (exhaustive fault / wire-mutation enumeration). Every execution is one or two complete runs of
// the REAL Transport / SessionTransport handshake between fresh sessions over the in-memory wire of package
// c01wire, inside its own testing/synctest bubble (a handshake that stalls because a message was dropped or
// its framing slipped is ended by a virtual-time deadline).
//
//   TestVerifC01NoiseMatrix    honest baseline matrix: (key type x key type) x per-side configuration
//                              {entry point, expected-peer setting, prologue, early data}.
//   TestVerifC01NoiseWire      man-in-the-middle edits of each of the three handshake messages.
//   TestVerifC01NoiseAttacker  an active endpoint with its own static key driving flynn/noise directly.
//
// Oracle, for every HONEST side H of every run (c01Judge / c01JudgeAttack), phrases of the statement quoted:
//   (i)   "reports as its remote peer exactly the peer ID derived from a public key": RemotePeer() ==
//         IDFromPublicKey(RemotePublicKey()).
//   (ii)  "whose private key the remote used in that handshake": the key reported is the identity key of the
//         endpoint that terminated H's link in this run (the harness built the run, so it knows).
//   (iii) "when the local side named the peer it expects, the handshake succeeds only if that peer ID
//         matches" / "a dial for peer P never hands the application a connection authenticated as anyone
//         other than P".
//   (iv)  "No side that received handshake data which was altered, truncated, replayed from another session
//         ... completes the handshake": the bytes H had consumed from its connection when its
//         SecureInbound/SecureOutbound returned a connection must be a prefix of the bytes its peer wrote.
//   (v)   a side that completes before the edit can reach it (the initiator, after sending message 3) is
//         "instead required to fail on its first Read": a first Read that returns data requires that the
//         peer completed too and that the data is what the peer wrote.
//   (p)   prologue pairing: both sides completing with different prologues (mechanism clause "the handshake
//         hash binds all messages and the prologue"; SessionTransport documents "will only complete
//         successfully if both parties set the same prologue").
//   (+)   positive control: an unedited run between compatible honest configurations must complete on both
//         sides and carry one message each way (otherwise every other clause would be vacuous).

import (
	"context"
	"crypto/sha1"
	"encoding/hex"
	"fmt"
	"net"
	"runtime"
	"strings"
	"sync"
	"testing"
	"testing/synctest"
	"time"

	"github.com/libp2p/go-libp2p/core/crypto"
	"github.com/libp2p/go-libp2p/core/peer"
	"github.com/libp2p/go-libp2p/core/sec"
	tptu "github.com/libp2p/go-libp2p/p2p/net/upgrader"
	"github.com/libp2p/go-libp2p/p2p/security/noise/pb"
	"github.com/libp2p/go-libp2p/x/verif/c01wire"
	"github.com/libp2p/go-libp2p/x/verif/vrep"

	"google.golang.org/protobuf/proto"
)

const (
	c01HandshakeTimeout = 10 * time.Second // virtual
	c01ReadTimeout      = 3 * time.Second  // virtual
	c01MaxRetries       = 200
)

var c01Muxers = []tptu.StreamMuxer{{ID: "/yamux/1.0.0"}, {ID: "/mplex/6.7.0"}}

// ---------- keys ----------

// roles of the three keys of each type: #0 = initiator-side identity, #1 = responder-side identity,
// #2 = the third party (the "different" expected peer; the attacker's own identity).
func c01Key(t testing.TB, typ, idx int) *c01wire.Key {
	k, err := c01wire.GenKey(vrep.Seed(), typ, idx)
	if err != nil {
		t.Fatalf("c01: %v", err) // infrastructure, not a verdict
	}
	return k
}

// ---------- per-side configuration ----------

type c01Cfg struct {
	Entry    string `json:"entry"`    // "T" = Transport, "ST" = SessionTransport
	Expect   string `json:"expect"`   // "match", "different", "empty", "disabled" (ST only: DisablePeerIDCheck, p = different)
	Prologue string `json:"prologue"` // "", "A", "B" (ST only)
	EDH      bool   `json:"edh"`      // early data handlers installed (ST only)
}

func (c c01Cfg) String() string {
	s := c.Entry + "/" + c.Expect
	if c.Entry == "ST" {
		s += "/pro=" + c.Prologue
		if c.EDH {
			s += "/edh"
		}
	}
	return s
}

// named: the side told the handshake which peer it expects, and the API checks it in this role.
func (c c01Cfg) named() bool { return c.Expect == "match" || c.Expect == "different" }

func c01SideCfgs() []c01Cfg {
	var out []c01Cfg
	for _, e := range []string{"match", "different", "empty"} {
		out = append(out, c01Cfg{Entry: "T", Expect: e})
	}
	for _, e := range []string{"match", "different", "empty", "disabled"} {
		for _, p := range []string{"", "A", "B"} {
			for _, edh := range []bool{false, true} {
				out = append(out, c01Cfg{Entry: "ST", Expect: e, Prologue: p, EDH: edh})
			}
		}
	}
	return out
}

func c01Prologue(p string) []byte {
	if p == "" {
		return nil
	}
	return []byte("c01-prologue-" + p + "-0123456789abcdef")
}

// c01EDH is a minimal early-data handler (what WebTransport does with its certificate hashes).
type c01EDH struct {
	mu  sync.Mutex
	got *pb.NoiseExtensions
}

func (h *c01EDH) Send(context.Context, net.Conn, peer.ID) *pb.NoiseExtensions {
	return &pb.NoiseExtensions{WebtransportCerthashes: [][]byte{[]byte("c01-certhash-0123456789abcdef0123")}}
}

func (h *c01EDH) Received(_ context.Context, _ net.Conn, e *pb.NoiseExtensions) error {
	h.mu.Lock()
	h.got = e
	h.mu.Unlock()
	return nil
}

// c01SentExt is the extension block a side with this configuration puts into its payload.
func c01SentExt(c c01Cfg) *pb.NoiseExtensions {
	if c.Entry == "T" {
		var ms []string
		for _, m := range c01Muxers {
			ms = append(ms, string(m.ID))
		}
		return &pb.NoiseExtensions{StreamMuxers: ms}
	}
	if c.EDH {
		return (&c01EDH{}).Send(nil, nil, "")
	}
	return nil
}

// c01PayloadLen is the length of the handshake payload of a side whose signature has the canonical length.
func c01PayloadLen(k *c01wire.Key, c c01Cfg) int {
	b, err := proto.Marshal(&pb.NoiseHandshakePayload{IdentityKey: k.PubBytes, IdentitySig: make([]byte, c01wire.CanonSigLen(k.Typ)), Extensions: c01SentExt(c)})
	if err != nil {
		panic(err)
	}
	return len(b)
}

// c01CanonLens: framed lengths of the three handshake messages when both signatures have canonical length.
//
//	msg 0 (-> e):          2 + 32
//	msg 1 (<- e,ee,s,es):  2 + 32 + (32+16) + payload_R + 16
//	msg 2 (-> s,se):       2 + (32+16) + payload_I + 16
func c01CanonLens(ki, kr *c01wire.Key, ci, cr c01Cfg) [3]int {
	return [3]int{2 + 32, 2 + 32 + 48 + c01PayloadLen(kr, cr) + 16, 2 + 48 + c01PayloadLen(ki, ci) + 16}
}

type c01Secure func(ctx context.Context, c net.Conn) (sec.SecureConn, error)

// c01Build returns the handshake entry point of one honest side. other = the identity of the real peer,
// third = the identity named when the setting is "different"/"disabled".
func c01Build(t testing.TB, own *c01wire.Key, c c01Cfg, initiator bool, other, third peer.ID) c01Secure {
	tpt, err := New(ID, own.Priv, c01Muxers)
	if err != nil {
		t.Fatalf("c01: noise.New: %v", err)
	}
	var p peer.ID
	switch c.Expect {
	case "match":
		p = other
	case "different", "disabled":
		p = third
	}
	return c01SecureVia(c01SecTransport(t, tpt, c), initiator, p)
}

// c01SecTransport returns the object the application would hold for configuration c on top of the Transport
// tpt: the Transport itself, or a SessionTransport made from it (prologue, early data, DisablePeerIDCheck are
// properties of that object; the expected peer is an argument of each call).
func c01SecTransport(t testing.TB, tpt *Transport, c c01Cfg) sec.SecureTransport {
	if c.Entry != "ST" {
		return tpt
	}
	var opts []SessionOption
	if c.Prologue != "" {
		opts = append(opts, Prologue(c01Prologue(c.Prologue)))
	}
	if c.EDH {
		opts = append(opts, EarlyData(&c01EDH{}, &c01EDH{}))
	}
	if c.Expect == "disabled" {
		opts = append(opts, DisablePeerIDCheck())
	}
	s, err := tpt.WithSessionOptions(opts...)
	if err != nil {
		t.Fatalf("c01: WithSessionOptions: %v", err)
	}
	return s
}

// c01SecureVia: one handshake call on st naming p.
func c01SecureVia(st sec.SecureTransport, initiator bool, p peer.ID) c01Secure {
	if initiator {
		return func(ctx context.Context, c net.Conn) (sec.SecureConn, error) { return st.SecureOutbound(ctx, c, p) }
	}
	return func(ctx context.Context, c net.Conn) (sec.SecureConn, error) { return st.SecureInbound(ctx, c, p) }
}

// ---------- one honest party of a run ----------

type c01Party struct {
	name      string
	key       *c01wire.Key
	cfg       c01Cfg
	initiator bool
	secure    c01Secure
	end       *c01wire.End
	expected  peer.ID // the ID it named ("" when it named nobody or the check is disabled)
	app       []byte  // what it writes after completing

	// results
	completed  bool
	err        error
	conn       sec.SecureConn
	remotePeer peer.ID
	remoteKey  crypto.PubKey
	consumed   int
	received   []byte // bytes delivered to it up to the end of the handshake phase
	wrote      bool
	readN      int
	readData   []byte
	readErr    error
	panicked   string
}

func (p *c01Party) resultClass() string {
	if p.panicked != "" {
		return "harness-panic"
	}
	if !p.completed {
		return "fail"
	}
	if p.readErr != nil {
		return "ok,read-fails"
	}
	return "ok,read-ok"
}

// c01HandshakePhase runs the handshake calls of all parties concurrently and waits for all of them.
func c01HandshakePhase(parties []*c01Party) {
	ctx, cancel := context.WithTimeout(context.Background(), c01HandshakeTimeout)
	defer cancel()
	var wg sync.WaitGroup
	for _, p := range parties {
		wg.Add(1)
		go func() {
			defer wg.Done()
			defer func() {
				if r := recover(); r != nil {
					buf := make([]byte, 2048)
					p.panicked = fmt.Sprintf("%v\n%s", r, buf[:runtime.Stack(buf, false)])
				}
			}()
			conn, err := p.secure(ctx, p.end)
			p.err = err
			if err == nil && conn != nil {
				p.completed = true
				p.conn = conn
				p.remotePeer = conn.RemotePeer()
				p.remoteKey = conn.RemotePublicKey()
				p.consumed = p.end.Consumed()
			}
		}()
	}
	wg.Wait()
	for _, p := range parties {
		p.received = p.end.Received()
	}
}

// c01DataPhase: every completed party writes one message, then every completed party reads once.
func c01DataPhase(parties []*c01Party) {
	for _, p := range parties {
		if p.completed {
			if _, err := p.conn.Write(p.app); err == nil {
				p.wrote = true
			}
		}
	}
	for _, p := range parties {
		if !p.completed {
			continue
		}
		p.conn.SetReadDeadline(time.Now().Add(c01ReadTimeout))
		buf := make([]byte, 512)
		n, err := p.conn.Read(buf)
		p.readN, p.readErr, p.readData = n, err, append([]byte{}, buf[:n]...)
	}
}

func c01Cleanup(parties []*c01Party) {
	for _, p := range parties {
		if p.conn != nil {
			p.conn.Close()
		}
		p.end.Close()
	}
}

// c01Bubble runs f inside a fresh synctest bubble; a panic of the harness itself is reported as an error
// string (infrastructure), never as a verdict.
func c01Bubble(t *testing.T, f func()) (panicked string) {
	synctest.Test(t, func(*testing.T) {
		defer func() {
			if r := recover(); r != nil {
				buf := make([]byte, 4096)
				panicked = fmt.Sprintf("%v\n%s", r, buf[:runtime.Stack(buf, false)])
			}
		}()
		f()
	})
	return panicked
}

// ---------- accounting ----------

type c01Acct struct {
	r        *vrep.Result
	t        *testing.T
	distinct map[[8]byte]struct{}
	retries  int64
	stop     bool
}

func c01NewAcct(t *testing.T, part string) *c01Acct {
	return &c01Acct{r: vrep.New("C01", part), t: t, distinct: map[[8]byte]struct{}{}}
}

// nontrivial records a case that is not the plain honest all-matching baseline.
func (a *c01Acct) nontrivial(class string) {
	h := sha1.Sum([]byte(class))
	var k [8]byte
	copy(k[:], h[:8])
	a.distinct[k] = struct{}{}
}

func (a *c01Acct) expired() bool {
	if a.stop {
		return true
	}
	if time.Now().After(vrep.Deadline()) {
		a.stop = true
		a.r.Cap("deadline reached; the remaining cases of this shard were not run")
	}
	return a.stop
}

func (a *c01Acct) flush() {
	a.r.Distinct = int64(len(a.distinct))
	if a.retries > 0 {
		a.r.Note("runs repeated because a signature made by the code under test did not have the canonical length: %d (not counted as executions)", a.retries)
	}
	a.r.Flush()
}

func (a *c01Acct) infra(f string, args ...any) {
	a.r.Cap("INFRASTRUCTURE (no verdict for this case): "+f, args...)
}

// c01Mine deals case number n to a shard. The multiplier mixes the index so that a shard does not always get
// the same position of an inner loop whose length divides the number of shards.
func c01Mine(n, shard, nshards int) bool {
	return int((uint64(n)*0x9e3779b97f4a7c15)>>33)%nshards == shard
}

func c01Hex(b []byte) string {
	if len(b) > 48 {
		return hex.EncodeToString(b[:48]) + fmt.Sprintf("...(%d bytes)", len(b))
	}
	return hex.EncodeToString(b)
}

func c01IsPrefix(pre, full []byte) bool {
	return len(pre) <= len(full) && string(full[:len(pre)]) == string(pre)
}

// ---------- the oracle for a link between two honest parties ----------

// c01Judge checks clauses (i)-(v), (p) for both honest ends of one link. desc identifies the case (JSON-able),
// keyPrefix the scenario. It returns the violation keys raised.
func (a *c01Acct) c01Judge(scn string, desc map[string]any, A, B *c01Party) []string {
	var keys []string
	bad := func(key, f string, args ...any) {
		keys = append(keys, key)
		d := map[string]any{}
		for k, v := range desc {
			d[k] = v
		}
		d["A"] = c01Describe(A)
		d["B"] = c01Describe(B)
		a.r.Violate(scn+"/"+key, fmt.Sprintf(f, args...), d)
	}
	for _, hp := range [][2]*c01Party{{A, B}, {B, A}} {
		H, P := hp[0], hp[1]
		if H.panicked != "" {
			a.infra("%s: harness goroutine of %s panicked: %s", scn, H.name, H.panicked)
			continue
		}
		if !H.completed {
			continue
		}
		// (i)
		if H.remoteKey == nil {
			bad("no-remote-key", "%s completed but RemotePublicKey() is nil (RemotePeer=%s)", H.name, H.remotePeer)
		} else if id, err := peer.IDFromPublicKey(H.remoteKey); err != nil || id != H.remotePeer {
			bad("remote-peer-not-derived-from-remote-key", "%s: RemotePeer()=%s but RemotePublicKey() hashes to %s (err=%v)", H.name, H.remotePeer, id, err)
		}
		// (ii)
		if H.remotePeer != P.key.ID || (H.remoteKey != nil && !H.remoteKey.Equals(P.key.Pub)) {
			bad("authenticated-as-someone-else", "%s completed with RemotePeer()=%s, but the endpoint that terminated its link is %s (%s)", H.name, H.remotePeer, P.key.ID, P.key.Name)
		}
		// (iii)
		if H.cfg.named() && H.expected != "" && H.remotePeer != H.expected {
			bad("completed-although-expected-peer-differs", "%s named %s but completed with RemotePeer()=%s", H.name, H.expected, H.remotePeer)
		}
		// (iv)
		sent := P.end.Sent()
		if H.consumed > len(H.received) || !c01IsPrefix(H.received[:min(H.consumed, len(H.received))], sent) {
			bad("completed-on-altered-handshake-data", "%s completed after consuming %d bytes that are not what its peer sent: consumed=%s sent=%s", H.name, H.consumed, c01Hex(H.received[:min(H.consumed, len(H.received))]), c01Hex(sent))
		}
		// (p)
		if H.cfg.Prologue != P.cfg.Prologue {
			bad("completed-despite-prologue-mismatch", "%s (prologue %q) completed with a peer using prologue %q", H.name, H.cfg.Prologue, P.cfg.Prologue)
		}
		// (v)
		if H.readErr == nil && H.readN > 0 {
			if !P.completed {
				bad("read-data-although-peer-did-not-complete", "%s read %q although %s never completed its handshake (err=%v)", H.name, H.readData, P.name, P.err)
			} else if string(H.readData) != string(P.app) {
				bad("read-data-peer-did-not-write", "%s read %q, peer wrote %q", H.name, H.readData, P.app)
			}
		} else if H.readErr == nil && !P.completed {
			bad("read-data-although-peer-did-not-complete", "%s: first Read returned (0, nil) although %s never completed", H.name, P.name)
		}
	}
	return keys
}

func c01Describe(p *c01Party) map[string]any {
	m := map[string]any{"name": p.name, "key": p.key.Name, "cfg": p.cfg.String(), "initiator": p.initiator, "completed": p.completed,
		"err": fmt.Sprint(p.err), "consumed": p.consumed}
	if p.completed {
		m["remote_peer"] = p.remotePeer.String()
		m["read"] = fmt.Sprintf("%q/%v", p.readData, p.readErr)
	}
	return m
}

// c01Compatible: an unedited run between these two honest configurations is expected to complete on both
// sides (used only for the positive control).
func c01Compatible(ci, cr c01Cfg) bool {
	if ci.Prologue != cr.Prologue {
		return false
	}
	iok := ci.Expect == "match" || ci.Expect == "disabled"
	rok := cr.Expect == "match" || cr.Expect == "empty" || cr.Expect == "disabled"
	return iok && rok
}

func c01ErrClass(err error) string {
	if err == nil {
		return "nil"
	}
	s := err.Error()
	for _, k := range []string{"peer id mismatch", "signature invalid", "error verifying signature", "proto:", "chacha20poly1305: message authentication failed", "EOF", "timeout", "deadline exceeded", "unmarshal", "closed"} {
		if strings.Contains(s, k) {
			return k
		}
	}
	if len(s) > 40 {
		s = s[:40]
	}
	return s
}
