//go:build verif

package noise

// C01 (Noise part), the HISTORY dimension: "what this process has verified / seen before".
//
// Every other C01 test decides a case on a fresh Transport, i.e. at first contact. Here the history is part of
// the case: one case = one bubble =
//
//	fresh identities (honest verifier H, victim V, attacker M, observer X: keys that no other case of the
//	process uses, so no entry of any process-wide or per-Transport state made by another case can concern
//	them); ONE real Transport of H and, on top of it, ONE object of the attack's configuration (the Transport
//	itself or a SessionTransport) that serves the prelude AND the attack;
//	what the attacker knows of V: V's payload and static key as seen by X in two genuine sessions with V's real
//	Transport (V initiating / responding) - or, for the "host-wide static key" preludes, the one payload a
//	victim implementation that keeps one static key per host presents to everybody (go-libp2p makes a static
//	key per session, other implementations keep one per host; the verifier must be safe against both);
//	a PRELUDE (none | an honest completed handshake with V's real Transport, H dialing / listening | an honest
//	completed handshake with a V that uses a host-wide static key, H dialing / listening | a FAILED handshake in
//	which the attacker presented V's genuine payload under a static key of its own, H dialing / listening | an
//	honest completed handshake with the attacker under its OWN identity, H dialing / listening);
//	then ONE attack variant of TestVerifC01NoiseAttacker, judged by the same oracle (c01JudgeAttack): the
//	endpoint holds only M's identity key, so a completed handshake must report M, and never completes when H
//	named V. Honest preludes and the correct foreign endpoint are positive controls.

import (
	"fmt"
	"strings"
	"sync"
	"testing"

	"github.com/flynn/noise"
	"github.com/libp2p/go-libp2p/core/crypto"
	"github.com/libp2p/go-libp2p/core/peer"
	"github.com/libp2p/go-libp2p/core/sec"
	"github.com/libp2p/go-libp2p/x/verif/c01wire"
	"github.com/libp2p/go-libp2p/x/verif/vrep"
)

var c01HistPreludes = []string{
	"none",
	"honest-victim/H-dials",
	"honest-victim/H-listens",
	"honest-victim-with-host-wide-static-key/H-dials",
	"honest-victim-with-host-wide-static-key/H-listens",
	"failed-replay-of-victim-payload/H-dials",
	"failed-replay-of-victim-payload/H-listens",
	"honest-attacker-identity/H-dials",
	"honest-attacker-identity/H-listens",
}

type c01HistHCfg struct {
	initiator bool
	cfg       c01Cfg
}

func c01HistHCfgs() []c01HistHCfg {
	out := []c01HistHCfg{
		{true, c01Cfg{Entry: "T", Expect: "match"}},
		{false, c01Cfg{Entry: "T", Expect: "empty"}},
		{false, c01Cfg{Entry: "T", Expect: "match"}},
		{true, c01Cfg{Entry: "ST", Expect: "disabled"}},
	}
	if vrep.Thorough() {
		out = append(out,
			c01HistHCfg{true, c01Cfg{Entry: "ST", Expect: "match", Prologue: "A", EDH: true}},
			c01HistHCfg{false, c01Cfg{Entry: "ST", Expect: "match", Prologue: "A", EDH: true}},
			c01HistHCfg{false, c01Cfg{Entry: "ST", Expect: "disabled", Prologue: "A"}})
	}
	return out
}

// c01HistVariantQuick: the quick tier leaves out the three variants that carry no usable key at all (nothing
// a history could vouch for); the thorough tier runs all 16.
func c01HistVariantQuick(v c01AttackVariant) bool {
	return !strings.HasPrefix(v.name, "empty ") && !strings.HasPrefix(v.name, "garbage ")
}

// c01HistRSAQuick: an RSA-2048 victim costs a key generation (~0.1 s) per case, so the quick tier runs RSA
// victims on this stated subset only; the thorough tier runs the full product.
func c01HistRSAQuick(v c01AttackVariant, hc c01HistHCfg) bool {
	vv := v.honest || strings.HasPrefix(v.name, "victim payload replayed (captured while victim was responder)") || strings.HasPrefix(v.name, "victim key + attacker's signature")
	cc := hc.cfg.Entry == "T" && (hc.initiator && hc.cfg.Expect == "match" || !hc.initiator && hc.cfg.Expect == "empty")
	return vv && cc
}

func TestVerifC01NoiseHistory(t *testing.T) {
	a := c01NewAcct(t, "noise-history")
	defer a.flush()
	kt := c01wire.KeyTypes
	variants, hcfgs := c01AttackVariants(), c01HistHCfgs()
	var vn, hn []string
	for _, v := range variants {
		if vrep.Thorough() || c01HistVariantQuick(v) {
			vn = append(vn, v.name)
		}
	}
	for _, h := range hcfgs {
		hn = append(hn, fmt.Sprintf("initiator=%v %s", h.initiator, h.cfg))
	}
	a.r.Bounds["identities"] = "fresh per case (honest verifier ed25519, victim of the enumerated type, attacker ed25519 - thorough: also of the victim's type -, observer ed25519): no other case of the process ever shows these keys or payloads to the code, so the prelude is the only history that concerns them"
	a.r.Bounds["preludes (history length 1, on the same Transport / SessionTransport object and process state as the attack)"] = c01HistPreludes
	a.r.Bounds["payload variants"] = vn
	a.r.Bounds["honest side (the victim is named wherever the configuration names anybody)"] = hn
	a.r.Bounds["victim key types"] = "ed25519, ecdsa, secp256k1: full product in both tiers; rsa2048: quick = all preludes x {correct foreign endpoint, victim payload replayed, victim key + attacker signature} x {H dials naming the victim, H listens naming nobody (Transport)}, thorough = full product"
	shard, nshards := vrep.Shard()
	n, nRSA := 0, 0
	for _, tv := range kt {
		mtypes := []int{kt[0]}
		if vrep.Thorough() && tv != kt[0] {
			mtypes = append(mtypes, tv)
		}
		for _, tm := range mtypes {
			for _, prelude := range c01HistPreludes {
				for _, hc := range hcfgs {
					for _, v := range variants {
						n++ // n is also the index of the case's fresh keys
						if !vrep.Thorough() && (!c01HistVariantQuick(v) || tv == crypto.RSA && !c01HistRSAQuick(v, hc)) {
							continue
						}
						if !c01HistMine(&nRSA, tv == crypto.RSA, n, shard, nshards) {
							continue
						}
						if a.expired() {
							return
						}
						a.c01HistCase(t, n, tv, tm, prelude, hc, v)
					}
				}
			}
		}
	}
}

// c01HistEndpointRun: one handshake of H (object st, naming p) against a harness-driven endpoint.
func c01HistEndpointRun(st sec.SecureTransport, Hk *c01wire.Key, cfg c01Cfg, hInit bool, p peer.ID, static noise.DHKey, payload []byte) (*c01Party, *c01Attacker) {
	l := c01wire.NewLink(c01wire.FrameNoise)
	H := &c01Party{name: "honest", key: Hk, cfg: cfg, initiator: hInit, end: l.End(0)}
	if cfg.named() {
		H.expected = p
	}
	H.secure = c01SecureVia(st, hInit, p)
	at := &c01Attacker{initiator: !hInit, static: static, payload: payload, prologue: c01Prologue(cfg.Prologue)}
	var wg sync.WaitGroup
	wg.Add(1)
	go func() { defer wg.Done(); at.run(l.End(1)) }()
	c01HandshakePhase([]*c01Party{H})
	wg.Wait()
	c01Cleanup([]*c01Party{H})
	l.End(1).Close()
	if H.panicked != "" {
		panic("harness goroutine of H panicked: " + H.panicked) // caught by c01Bubble: infrastructure, no verdict
	}
	return H, at
}

func (a *c01Acct) c01HistCase(t *testing.T, n, tv, tm int, prelude string, hc c01HistHCfg, v c01AttackVariant) {
	base := 1000 + 4*n
	Hk, V, M, X := c01Key(t, c01wire.KeyTypes[0], base), c01Key(t, tv, base+1), c01Key(t, tm, base+2), c01Key(t, c01wire.KeyTypes[0], base+3)
	cfg := hc.cfg
	desc := map[string]any{"scenario": "noise-history", "case": n, "prelude": prelude, "honest": map[string]any{"key": Hk.Name, "cfg": cfg.String(), "initiator": hc.initiator},
		"victim": V.Name, "attacker": M.Name, "variant": v.name}
	pKind, pRole, _ := strings.Cut(prelude, "/")
	hDials := pRole == "H-dials"
	// the configuration of the prelude call on H's object: same entry point, prologue, early data and
	// check-disabled flag (they belong to the object); the peer named is an argument of the call
	pcfg := func(names bool) c01Cfg {
		c := cfg
		switch {
		case cfg.Expect == "disabled":
		case names:
			c.Expect = "match"
		default:
			c.Expect = "empty"
		}
		return c
	}
	pre := []byte(payloadSigPrefix)
	cat := func(x, y []byte) []byte { return append(append([]byte{}, x...), y...) }
	var infra string
	type judged struct {
		stage  string
		H      *c01Party
		at     *c01Attacker
		holder *c01wire.Key // the one identity whose private key the endpoint holds
		name   string
		honest bool
	}
	var results []judged
	var honestH, honestV *c01Party
	pan := c01Bubble(t, func() {
		tptH, err := New(ID, Hk.Priv, c01Muxers)
		if err != nil {
			infra = "noise.New(H): " + err.Error()
			return
		}
		st := c01SecTransport(t, tptH, cfg)
		// what the attacker knows of the victim
		var capI, capR *c01Capture
		stV := c01NewStatic() // the host-wide static key of the victim (host-wide preludes only)
		payloadV := c01Payload(V.PubBytes, c01Sign(V, cat(pre, stV.Public)), nil)
		if pKind == "honest-victim-with-host-wide-static-key" {
			capI = &c01Capture{payload: payloadV, static: append([]byte{}, stV.Public...)}
			capR = capI
		} else {
			if capI, err = c01CaptureIn(t, V, X, true); err == nil {
				capR, err = c01CaptureIn(t, V, X, false)
			}
			if err != nil {
				infra = "capture: " + err.Error()
				return
			}
		}
		// ---- prelude ----
		switch pKind {
		case "honest-victim":
			l := c01wire.NewLink(c01wire.FrameNoise)
			honestH = &c01Party{name: "honest", key: Hk, cfg: pcfg(hDials), initiator: hDials, end: l.End(0), app: []byte("c01 history: application data from H")}
			vcfg := c01Cfg{Entry: cfg.Entry, Prologue: cfg.Prologue, EDH: cfg.EDH, Expect: "match"}
			if hDials {
				vcfg.Expect = "empty"
			}
			honestV = &c01Party{name: "victim", key: V, cfg: vcfg, initiator: !hDials, end: l.End(1), app: []byte("c01 history: application data from V")}
			if hDials {
				honestH.secure = c01SecureVia(st, true, V.ID)
			} else {
				honestH.secure = c01SecureVia(st, false, "")
				honestV.expected = Hk.ID
			}
			if honestH.cfg.named() {
				honestH.expected = V.ID
			}
			honestV.secure = c01Build(t, V, vcfg, !hDials, Hk.ID, Hk.ID)
			ps := []*c01Party{honestH, honestV}
			c01HandshakePhase(ps)
			c01DataPhase(ps)
			c01Cleanup(ps)
		case "honest-victim-with-host-wide-static-key":
			p := peer.ID("")
			if hDials {
				p = V.ID
			}
			H, at := c01HistEndpointRun(st, Hk, pcfg(hDials), hDials, p, stV, payloadV)
			results = append(results, judged{"prelude", H, at, V, "correct foreign endpoint under the victim's identity (host-wide static key)", true})
		case "failed-replay-of-victim-payload":
			p := peer.ID("")
			if hDials {
				p = V.ID
			}
			cp := capI // the attacker answers as responder what it saw the victim send as responder, and vice versa
			if hDials {
				cp = capR
			}
			H, at := c01HistEndpointRun(st, Hk, pcfg(hDials), hDials, p, c01NewStatic(), cp.payload)
			results = append(results, judged{"prelude", H, at, M, "victim payload replayed under the attacker's static key", false})
		case "honest-attacker-identity":
			p := peer.ID("")
			if hDials {
				p = M.ID
			}
			stM := c01NewStatic()
			H, at := c01HistEndpointRun(st, Hk, pcfg(hDials), hDials, p, stM, c01Payload(M.PubBytes, c01Sign(M, cat(pre, stM.Public)), nil))
			results = append(results, judged{"prelude", H, at, M, "correct foreign endpoint under the attacker's own identity", true})
		}
		// ---- attack: the honest side names the VICTIM wherever its configuration names anybody ----
		stA, payload := v.build(V, M, capI, capR)
		p := peer.ID("")
		if cfg.Expect != "empty" {
			p = V.ID
		}
		H, at := c01HistEndpointRun(st, Hk, cfg, hc.initiator, p, stA, payload)
		results = append(results, judged{"attack", H, at, M, v.name, v.honest})
	})
	if pan != "" || infra != "" {
		a.infra("history case %v: %s %s", desc, infra, pan)
		return
	}
	a.nontrivial(fmt.Sprintf("%s|%s|%s|%s|%v|%s", c01wire.TypeName(tv), c01wire.TypeName(tm), prelude, cfg, hc.initiator, v.name))
	viol := false
	if honestH != nil {
		a.r.Executions++
		d := map[string]any{"stage": "prelude"}
		for k, x := range desc {
			d[k] = x
		}
		keys := a.c01Judge("noise-history", d, honestH, honestV)
		if !(honestH.completed && honestV.completed && honestH.readErr == nil && honestV.readErr == nil) {
			d["A"], d["B"] = c01Describe(honestH), c01Describe(honestV)
			a.r.Violate("noise-history/honest-baseline-failed", fmt.Sprintf("prelude %s: the honest handshake between fresh identities did not complete and carry data both ways: H err=%v read=%v, victim err=%v read=%v", prelude, honestH.err, honestH.readErr, honestV.err, honestV.readErr), d)
			keys = append(keys, "honest-baseline-failed")
		}
		viol = viol || len(keys) > 0
	}
	res := "rejected"
	var last *c01Party
	for _, j := range results {
		a.r.Executions++
		d := map[string]any{"stage": j.stage, "stage_variant": j.name}
		for k, x := range desc {
			d[k] = x
		}
		// the victim an endpoint could pass for: V (for the honest host-wide-static victim itself: nobody else)
		if a.c01JudgeAttack("noise-history", d, j.H, j.at, V, j.holder, j.H.cfg.named(), j.stage+" after prelude \""+prelude+"\": "+j.name, j.honest) {
			viol = true
		}
		last = j.H
	}
	if last.completed {
		res = "completed as " + map[peer.ID]string{M.ID: "the attacker itself", V.ID: "THE VICTIM"}[last.remotePeer]
	}
	exp := "names-nobody"
	if cfg.named() {
		exp = "names-victim"
	}
	a.r.Outcome(fmt.Sprintf("after %s: honest side %s; %s: %s (%s)", pKind, exp, v.name, res, c01ErrClass(last.err)))
	if !viol && tv == c01wire.KeyTypes[1] && hc.initiator && cfg.Entry == "T" && hDials && strings.HasPrefix(v.name, "victim payload replayed (captured while victim was responder)") {
		desc["outcome"] = res
		desc["honest_result"] = c01Describe(last)
		a.r.Sample(desc)
	}
}

// c01HistMine deals the cases out. Cases with an RSA victim cost a key generation each and are dealt round
// robin, so that no worker gets more than its share of them; the others are dealt by c01Mine.
func c01HistMine(nRSA *int, rsa bool, n, shard, nshards int) bool {
	if !rsa {
		return c01Mine(n, shard, nshards)
	}
	*nRSA++
	return *nRSA%nshards == shard
}
