//go:build verif

package noise

import (
	"fmt"
	"sync"
	"testing"

	"github.com/libp2p/go-libp2p/x/verif/c01wire"
	"github.com/libp2p/go-libp2p/x/verif/vrep"
)

// c01Base is one honest baseline: identity key types and per-side configuration.
type c01Base struct {
	ti, tr int // key type of the initiator / responder identity
	ci, cr c01Cfg
}

func (b c01Base) id() string {
	return fmt.Sprintf("I[%s %s] R[%s %s]", c01wire.TypeName(b.ti), b.ci, c01wire.TypeName(b.tr), b.cr)
}

// message index -> (end the message starts from, frame index in that direction)
var c01MsgDir = [3][2]int{{0, 0}, {1, 0}, {0, 1}}

type c01WireRun struct {
	A, B   *c01Party // session 1 (A = initiator at end 0, B = responder at end 1)
	A2, B2 *c01Party // second concurrent session (swap only)
	lens   [3]int    // observed framed lengths of the three handshake messages of session 1 as SENT
	seen   [3]bool
	// applied: the edit was applied to the frame. false for a positional edit when the frame did not have
	// the canonical length (the run is then repeated).
	applied bool
	panic   string
}

func c01MakeParties(t *testing.T, b c01Base, tag string, l *c01wire.Link) (*c01Party, *c01Party) {
	ki, kr, third := c01Key(t, b.ti, 0), c01Key(t, b.tr, 1), c01Key(t, b.tr, 2)
	thirdForR := c01Key(t, b.ti, 2)
	A := &c01Party{name: "initiator" + tag, key: ki, cfg: b.ci, initiator: true, end: l.End(0), app: []byte("c01 application data from the initiator" + tag)}
	B := &c01Party{name: "responder" + tag, key: kr, cfg: b.cr, initiator: false, end: l.End(1), app: []byte("c01 application data from the responder" + tag)}
	A.secure = c01Build(t, ki, b.ci, true, kr.ID, third.ID)
	B.secure = c01Build(t, kr, b.cr, false, ki.ID, thirdForR.ID)
	switch b.ci.Expect {
	case "match":
		A.expected = kr.ID
	case "different":
		A.expected = third.ID
	}
	switch b.cr.Expect {
	case "match":
		B.expected = ki.ID
	case "different":
		B.expected = thirdForR.ID
	}
	return A, B
}

// c01RunWire executes one run: the baseline b, with the single edit ed applied to handshake message msg
// (msg < 0: no edit). canon are the canonical message lengths (positional edits are applied only to a frame
// of exactly that length).
func c01RunWire(t *testing.T, b c01Base, msg int, ed c01wire.Edit, canon [3]int) *c01WireRun {
	run := &c01WireRun{}
	run.panic = c01Bubble(t, func() {
		l1 := c01wire.NewLink(c01wire.FrameNoise)
		run.A, run.B = c01MakeParties(t, b, "", l1)
		links := []*c01wire.Link{l1}
		parties := []*c01Party{run.A, run.B}
		if ed.Kind == "swap" {
			l2 := c01wire.NewLink(c01wire.FrameNoise)
			run.A2, run.B2 = c01MakeParties(t, b, "#2", l2)
			links = append(links, l2)
			parties = append(parties, run.A2, run.B2)
		}
		var mu sync.Mutex
		var held []byte
		heldLink := -1
		for ln, l := range links {
			for from := 0; from < 2; from++ {
				l.SetHook(from, func(idx int, frame []byte) [][]byte {
					mu.Lock()
					defer mu.Unlock()
					m := -1
					for i, d := range c01MsgDir {
						if d[0] == from && d[1] == idx {
							m = i
						}
					}
					if m < 0 {
						return [][]byte{frame}
					}
					if ln == 0 {
						run.lens[m], run.seen[m] = len(frame), true
					}
					if m != msg {
						return [][]byte{frame}
					}
					if ed.Kind == "swap" {
						if heldLink < 0 {
							held, heldLink = frame, ln
							return nil
						}
						links[heldLink].Inject(1-from, frame)
						out := held
						held = nil
						run.applied = true
						return [][]byte{out}
					}
					if ed.Kind == "xor" && len(frame) != canon[m] {
						return [][]byte{frame}
					}
					out, ok := c01wire.FrameNoise.Apply(frame, ed)
					run.applied = ok
					return out
				})
			}
		}
		c01HandshakePhase(parties)
		c01DataPhase(parties)
		c01Cleanup(parties)
	})
	return run
}

// ---------- baseline matrix ----------

func TestVerifC01NoiseMatrix(t *testing.T) {
	a := c01NewAcct(t, "noise-matrix")
	defer a.flush()
	cfgs := c01SideCfgs()
	types := c01wire.KeyTypes
	a.r.Bounds["key types"] = "ed25519, ecdsa(P-256), secp256k1, rsa2048 on either side (all 16 pairs)"
	a.r.Bounds["side configurations"] = fmt.Sprintf("%d per side: Transport x expect{match,different,empty}; SessionTransport x expect{match,different,empty,disabled(DisablePeerIDCheck, p=third party)} x prologue{none,A,B} x early-data{off,on}; all %d pairs (covers prologue none/none, same, different, one-sided)", len(cfgs), len(cfgs)*len(cfgs))
	a.r.Bounds["edits"] = "none (honest runs)"
	shard, nshards := vrep.Shard()
	n := 0
	for _, ti := range types {
		for _, tr := range types {
			for _, ci := range cfgs {
				for _, cr := range cfgs {
					n++
					if !c01Mine(n, shard, nshards) {
						continue
					}
					if a.expired() {
						return
					}
					b := c01Base{ti: ti, tr: tr, ci: ci, cr: cr}
					run := c01RunWire(t, b, -1, c01wire.Edit{}, [3]int{})
					if run.panic != "" {
						a.infra("matrix %s: %s", b.id(), run.panic)
						continue
					}
					a.r.Executions++
					desc := map[string]any{"scenario": "noise-matrix", "baseline": b.id()}
					keys := a.c01Judge("noise-matrix", desc, run.A, run.B)
					compat := c01Compatible(ci, cr)
					if compat {
						if !(run.A.completed && run.B.completed && run.A.readErr == nil && run.B.readErr == nil) {
							desc["A"], desc["B"] = c01Describe(run.A), c01Describe(run.B)
							a.r.Violate("noise-matrix/honest-baseline-failed", fmt.Sprintf("unedited handshake between compatible honest configurations %s did not complete and carry data both ways: initiator err=%v read=%v, responder err=%v read=%v", b.id(), run.A.err, run.A.readErr, run.B.err, run.B.readErr), desc)
						}
					}
					if !(ci.Expect == "match" && cr.Expect == "match" && ci.Prologue == "" && cr.Prologue == "" && ci.Entry == "T" && cr.Entry == "T") {
						a.nontrivial(b.id())
					}
					cls := fmt.Sprintf("I expects %s, R expects %s, prologue pairing %s: I=%s R=%s", ci.Expect, cr.Expect, c01ProPair(ci, cr), run.A.resultClass(), run.B.resultClass())
					a.r.Outcome(cls)
					if len(keys) == 0 && (n%977 == 0 || n == 1) {
						a.r.Sample(map[string]any{"baseline": b.id(), "initiator": c01Describe(run.A), "responder": c01Describe(run.B)})
					}
				}
			}
		}
	}
}

func c01ProPair(ci, cr c01Cfg) string {
	switch {
	case ci.Prologue == "" && cr.Prologue == "":
		return "none"
	case ci.Prologue == cr.Prologue:
		return "same"
	case ci.Prologue == "" || cr.Prologue == "":
		return "one-sided"
	}
	return "different"
}

// ---------- wire edits ----------

func c01WireBases() []c01Base {
	std := [2]c01Cfg{{Entry: "T", Expect: "match"}, {Entry: "T", Expect: "empty"}}                                                      // the TCP path: the listener does not know who dials
	both := [2]c01Cfg{{Entry: "T", Expect: "match"}, {Entry: "T", Expect: "match"}}                                                     // both sides name the other
	wt := [2]c01Cfg{{Entry: "ST", Expect: "match", Prologue: "A", EDH: true}, {Entry: "ST", Expect: "empty", Prologue: "A", EDH: true}} // WebTransport-like
	off := [2]c01Cfg{{Entry: "ST", Expect: "disabled"}, {Entry: "ST", Expect: "disabled"}}                                              // peer-ID check disabled on both sides
	ed := c01wire.KeyTypes[0]
	var out []c01Base
	add := func(ti, tr int, c [2]c01Cfg) { out = append(out, c01Base{ti: ti, tr: tr, ci: c[0], cr: c[1]}) }
	if vrep.Thorough() {
		for _, ti := range c01wire.KeyTypes {
			for _, tr := range c01wire.KeyTypes {
				for _, c := range [][2]c01Cfg{std, both, wt, off} {
					add(ti, tr, c)
				}
			}
		}
		return out
	}
	for _, tr := range c01wire.KeyTypes {
		add(ed, tr, std)
	}
	for _, ti := range c01wire.KeyTypes[1:] {
		add(ti, ed, std)
	}
	add(ed, ed, both)
	add(ed, ed, wt)
	add(ed, ed, off)
	return out
}

// c01Masks: XOR masks applied at every byte position. Thorough tier: every single-bit flip and the complement
// for the TCP-path baselines whose two identities have the same key type; 0x01 and 0x80 everywhere else.
func c01Masks(b c01Base) []byte {
	if vrep.Thorough() && b.ti == b.tr && b.ci == (c01Cfg{Entry: "T", Expect: "match"}) && b.cr == (c01Cfg{Entry: "T", Expect: "empty"}) {
		return []byte{0x01, 0x02, 0x04, 0x08, 0x10, 0x20, 0x40, 0x80, 0xff}
	}
	return []byte{0x01, 0x80}
}

// c01DryRun runs the unedited baseline until the observed message lengths are the canonical ones, and
// asserts the positive control on it.
func (a *c01Acct) c01DryRun(t *testing.T, b c01Base, canon [3]int) bool {
	for try := 0; try < c01MaxRetries; try++ {
		run := c01RunWire(t, b, -1, c01wire.Edit{}, canon)
		if run.panic != "" {
			a.infra("dry run %s: %s", b.id(), run.panic)
			return false
		}
		if !(run.A.completed && run.B.completed && run.A.readErr == nil && run.B.readErr == nil) {
			a.r.Executions++
			desc := map[string]any{"scenario": "noise-wire", "baseline": b.id(), "edit": "none", "A": c01Describe(run.A), "B": c01Describe(run.B)}
			a.r.Violate("noise-wire/honest-baseline-failed", fmt.Sprintf("unedited handshake %s did not complete and carry data both ways: initiator err=%v read=%v, responder err=%v read=%v", b.id(), run.A.err, run.A.readErr, run.B.err, run.B.readErr), desc)
			return false
		}
		for m := 0; m < 3; m++ {
			d := run.lens[m] - canon[m]
			if !run.seen[m] || d < -4 || d > 1 {
				a.infra("dry run %s: message %d has length %d, canonical length computed as %d", b.id(), m, run.lens[m], canon[m])
				return false
			}
		}
		if run.lens != canon {
			a.retries++
			continue
		}
		a.r.Executions++
		a.c01Judge("noise-wire", map[string]any{"scenario": "noise-wire", "baseline": b.id(), "edit": "none"}, run.A, run.B)
		a.r.Outcome(fmt.Sprintf("unedited: I=%s R=%s", run.A.resultClass(), run.B.resultClass()))
		return true
	}
	a.infra("dry run %s: canonical message lengths %v not observed in %d runs", b.id(), canon, c01MaxRetries)
	return false
}

func TestVerifC01NoiseWire(t *testing.T) {
	a := c01NewAcct(t, "noise-wire")
	defer a.flush()
	bases := c01WireBases()
	a.r.Bounds["baselines"] = fmt.Sprintf("%d (quick: ed25519 x {all 4} and {all 4} x ed25519 on the TCP-path configuration, plus ed25519/ed25519 with both sides naming the peer, WebTransport-like SessionTransport (prologue + early data) and peer-ID check disabled; thorough: all 16 key pairs x those 4 configurations)", len(bases))
	a.r.Bounds["edits per handshake message"] = "every byte position of the framed message (2-byte length prefix included) XOR 0x01 and XOR 0x80 (thorough: all 8 single-bit masks and 0xff for the 4 same-key-type TCP-path baselines); " + fmt.Sprint(c01wire.StructuralKinds) + "; swap with the same-index message of a second concurrent session between the same identities"
	a.r.Bounds["edits per run"] = 1
	shard, nshards := vrep.Shard()
	// The canonical message lengths are computed (not measured), so the enumeration below is the same in
	// every shard and can be dealt out case by case.
	n := 0
	for _, b := range bases {
		ki, kr := c01Key(t, b.ti, 0), c01Key(t, b.tr, 1)
		canon := c01CanonLens(ki, kr, b.ci, b.cr)
		dry := 0 // 0: not yet run by this shard, 1: baseline completes, 2: it does not (reported) - skip
		for msg := 0; msg < 3; msg++ {
			var edits []c01wire.Edit
			for _, mask := range c01Masks(b) {
				for p := 0; p < canon[msg]; p++ {
					edits = append(edits, c01wire.Edit{Kind: "xor", Pos: p, Mask: mask})
				}
			}
			for _, k := range c01wire.StructuralKinds {
				edits = append(edits, c01wire.Edit{Kind: k})
			}
			edits = append(edits, c01wire.Edit{Kind: "swap"})
			for _, ed := range edits {
				n++
				if !c01Mine(n, shard, nshards) || dry == 2 {
					continue
				}
				if a.expired() {
					return
				}
				if dry == 0 {
					// every shard that works on a baseline first proves that the baseline itself completes
					dry = 1
					if !a.c01DryRun(t, b, canon) {
						dry = 2
						continue
					}
				}
				a.c01WireCase(t, b, msg, ed, canon)
			}
		}
	}
}

func (a *c01Acct) c01WireCase(t *testing.T, b c01Base, msg int, ed c01wire.Edit, canon [3]int) {
	var run *c01WireRun
	for try := 0; ; try++ {
		run = c01RunWire(t, b, msg, ed, canon)
		if run.panic != "" {
			a.infra("wire %s m%d %s: %s", b.id(), msg, ed, run.panic)
			return
		}
		if run.applied {
			break
		}
		// the edit was not applied: positional edit on a frame of non-canonical length, or the frame was never sent
		if !run.seen[msg] || ed.Kind != "xor" {
			a.infra("wire %s m%d %s: the edit could not be applied (message seen=%v)", b.id(), msg, ed, run.seen[msg])
			return
		}
		a.retries++
		if try >= c01MaxRetries {
			a.infra("wire %s m%d %s: message never had the canonical length %d", b.id(), msg, ed, canon[msg])
			return
		}
	}
	a.r.Executions++
	class := fmt.Sprintf("%s|m%d|%s", b.id(), msg, ed)
	a.nontrivial(class)
	desc := map[string]any{"scenario": "noise-wire", "baseline": b.id(), "message": msg, "edit": ed.String()}
	keys := a.c01Judge("noise-wire", desc, run.A, run.B)
	oc := fmt.Sprintf("m%d %s: I=%s R=%s", msg, ed.Kind, run.A.resultClass(), run.B.resultClass())
	if run.A2 != nil {
		desc2 := map[string]any{"scenario": "noise-wire", "baseline": b.id(), "message": msg, "edit": ed.String(), "session": 2}
		keys = append(keys, a.c01Judge("noise-wire", desc2, run.A2, run.B2)...)
		oc += fmt.Sprintf(" I2=%s R2=%s", run.A2.resultClass(), run.B2.resultClass())
	}
	a.r.Outcome(oc)
	if len(keys) == 0 && (ed.Kind != "xor" && msg == 1 && b.ti == c01wire.KeyTypes[0] && b.tr == c01wire.KeyTypes[0] || ed.Kind == "xor" && ed.Pos == 40) {
		a.r.Sample(map[string]any{"baseline": b.id(), "message": msg, "edit": ed.String(), "initiator": c01Describe(run.A), "responder": c01Describe(run.B)})
	}
}
