//go:build verif

package swarm

// C01 part "swarmdial": "a dial for peer P never hands the application a connection authenticated as anyone other
// than P", decided for the swarm's own wiring (swarm_dial.go dialAddr: the re-check of RemotePeer() after the
// transport returns; dialPeer; the dial worker handing connections to addConn).
//
// A REAL Swarm on the scripted fake transports of harness/swarmfix (tcp with dial updates, quic, relay). The fakes
// play a transport whose security wiring is broken: their Dial(ctx, addr, P) returns, on chosen addresses, a
// connection that reports another RemotePeer - an identity the swarm has never seen (M) or a peer it knows and may
// already be connected to (Q). Sequential; every case runs in its own testing/synctest bubble (virtual time for
// the dial ranker's delays, the late outcomes and the dial timeouts).
//
// Space: every non-empty set of at most 3 (thorough: 4) of the 4 addresses of P {quic, tcp-1, tcp-2, relay} x per
// address an outcome {honest connection, failure, connection authenticated as M, connection authenticated as Q} x
// per address a delivery time {at once, 3 s later} (quick: both times for sets of up to 2, "at once" for sets of 3)
// x entry {DialPeer, NewStream, two concurrent DialPeer callers joined on one dial worker} x prior state {nothing,
// an inbound connection of Q is open} x metrics tracer {absent, present (the connection is then wrapped)}.
//
// Oracle:
//   * whatever DialPeer(P) returns is a connection whose RemotePeer() is P AND whose underlying transport
//     connection really has the identity P; the same for the connection of the stream NewStream(P) returns;
//   * ConnsToPeer(P) lists only such connections; a transport connection with another identity that came out of a
//     dial for P is in no connection table of the swarm, is announced by no Connected notification (a notification
//     hands the connection to the application), and is closed when everything has settled;
//   * positive control: when every address answers honestly the call succeeds.

import (
	"context"
	"encoding/json"
	"fmt"
	"os"
	"sort"
	"strings"
	"testing"
	"testing/synctest"
	"time"

	"github.com/libp2p/go-libp2p/core/crypto"
	"github.com/libp2p/go-libp2p/core/network"
	"github.com/libp2p/go-libp2p/core/peer"
	"github.com/libp2p/go-libp2p/core/peerstore"
	"github.com/libp2p/go-libp2p/core/transport"
	"github.com/libp2p/go-libp2p/x/verif/vrep"
	ma "github.com/multiformats/go-multiaddr"
)

const (
	c01sOK     = "honest"
	c01sFail   = "fail"
	c01sWrongM = "authenticated-as-M"
	c01sWrongQ = "authenticated-as-Q"
)

var c01sOutcomes = []string{c01sOK, c01sFail, c01sWrongM, c01sWrongQ}

func c01sPool() []string {
	return []string{
		"/ip4/1.2.3.4/udp/4001/quic-v1",
		"/ip4/1.2.3.4/tcp/4001",
		"/ip4/1.2.3.5/tcp/4001",
		"/ip4/9.9.9.9/tcp/4001/p2p/" + fxID("relay").ID.String() + "/p2p-circuit",
	}
}

var c01sPoolNames = []string{"quic", "tcp-1", "tcp-2", "relay"}

type c01sAddr struct {
	Name    string `json:"address"`
	Outcome string `json:"outcome"`
	Late    bool   `json:"late"`
}

type c01sCase struct {
	Addrs   []c01sAddr `json:"addresses"`
	Entry   string     `json:"entry"`
	Prior   string     `json:"prior_state"`
	Metrics bool       `json:"metrics_tracer"`
}

func (c c01sCase) String() string {
	var l []string
	for _, a := range c.Addrs {
		s := a.Name + "=" + a.Outcome
		if a.Late {
			s += "(late)"
		}
		l = append(l, s)
	}
	return fmt.Sprintf("%s [%s] prior=%s metrics=%v", c.Entry, strings.Join(l, " "), c.Prior, c.Metrics)
}

type c01sNopTracer struct{}

func (c01sNopTracer) OpenedConnection(network.Direction, crypto.PubKey, network.ConnectionState, ma.Multiaddr) {
}
func (c01sNopTracer) ClosedConnection(network.Direction, time.Duration, network.ConnectionState, ma.Multiaddr) {
}
func (c01sNopTracer) CompletedHandshake(time.Duration, network.ConnectionState, ma.Multiaddr) {}
func (c01sNopTracer) FailedDialing(ma.Multiaddr, error, error)                                {}
func (c01sNopTracer) DialCompleted(bool, int, time.Duration)                                  {}
func (c01sNopTracer) DialRankingDelay(time.Duration)                                          {}
func (c01sNopTracer) UpdatedBlackHoleSuccessCounter(string, BlackHoleState, int, float64)     {}

// c01sUnderlying finds the fake transport connection behind whatever the swarm hands out.
func c01sUnderlying(c any) *fxConn {
	for i := 0; i < 4; i++ {
		switch x := c.(type) {
		case *fxConn:
			return x
		case *Conn:
			if x == nil {
				return nil
			}
			c = x.conn
		case *connWithMetrics:
			c = x.CapableConn
		default:
			return nil
		}
	}
	return nil
}

type c01sObs struct {
	Results  []string
	Findings [][2]string
	Dials    int
	Wrong    int
	Infra    string
}

func c01sRun(t *testing.T, cs c01sCase) (o c01sObs) {
	defer func() {
		if r := recover(); r != nil {
			o.Infra = fmt.Sprint("panic: ", r)
		}
	}()
	synctest.Test(t, func(t *testing.T) {
		P, Q := fxID("P"), fxID("Q")
		pool := c01sPool()
		var opts []Option
		if cs.Metrics {
			opts = append(opts, WithMetricsTracer(c01sNopTracer{}))
		}
		e := fxNewEnv(0, 0, opts...)
		defer e.Close()
		bad := func(key, f string, a ...any) { o.Findings = append(o.Findings, [2]string{key, fmt.Sprintf(f, a...)}) }

		asQ := map[string]bool{}
		for _, tr := range []*fxTransport{e.TCP, e.QUIC, e.Relay} {
			tr.hook = func(rec *fxDial, begin bool) {
				if !begin && rec.Conn != nil && asQ[rec.Addr] {
					rec.Conn.remote = Q // the connection is authenticated as Q
				}
			}
		}
		var prior *fxConn
		if cs.Prior == "Q-connected" {
			fc, _, err := e.Inbound(e.TCP, Q, "/ip4/7.7.7.7/tcp/5555")
			if err != nil {
				o.Infra = "prior inbound connection refused: " + err.Error()
				return
			}
			prior = fc
		}
		var addrs []ma.Multiaddr
		for _, a := range cs.Addrs {
			var s string
			for i, n := range c01sPoolNames {
				if n == a.Name {
					s = pool[i]
				}
			}
			m := ma.StringCast(s)
			addrs = append(addrs, m)
			script := map[string]string{c01sOK: fxOK, c01sFail: fxFail, c01sWrongM: fxWrongPeer, c01sWrongQ: fxWrongPeer}[a.Outcome]
			if a.Outcome == c01sWrongQ {
				asQ[s] = true
			}
			tr := e.TransportFor(m)
			if a.Late {
				go func() {
					time.Sleep(3 * time.Second)
					tr.Complete(m, script)
				}()
			} else {
				tr.Complete(m, script)
			}
		}
		e.PS.AddAddrs(P.ID, addrs, peerstore.PermanentAddrTTL)

		ctx, cancel := context.WithTimeout(network.WithAllowLimitedConn(context.Background(), "c01"), 90*time.Second)
		defer cancel()
		judgeConn := func(who string, c network.Conn) {
			if c == nil {
				return
			}
			u := c01sUnderlying(c)
			if c.RemotePeer() != P.ID {
				bad("dial-returned-connection-of-another-peer/"+cs.Entry, "%s for P returned a connection whose RemotePeer() is %s", who, c01sName(c.RemotePeer()))
			}
			if u == nil {
				o.Infra = fmt.Sprintf("cannot find the transport connection behind %T", c)
				return
			}
			if u.remote.ID != P.ID {
				bad("dial-returned-connection-of-another-peer/"+cs.Entry, "%s for P returned a connection whose transport connection is authenticated as %s", who, c01sName(u.remote.ID))
			}
		}
		callers := 1
		if cs.Entry == "DialPeer-x2" {
			callers = 2
		}
		type res struct {
			c   network.Conn
			s   network.Stream
			err error
		}
		resCh := make(chan res, callers)
		for i := 0; i < callers; i++ {
			go func() {
				var r res
				if cs.Entry == "NewStream" {
					r.s, r.err = e.Swarm.NewStream(ctx, P.ID)
					if r.s != nil {
						r.c = r.s.Conn()
					}
				} else {
					r.c, r.err = e.Swarm.DialPeer(ctx, P.ID)
				}
				resCh <- r
			}()
		}
		var streams []network.Stream
		for i := 0; i < callers; i++ {
			r := <-resCh
			switch {
			case r.err != nil && r.c == nil:
				o.Results = append(o.Results, "error")
			case r.err != nil:
				o.Results = append(o.Results, "error+connection")
			default:
				o.Results = append(o.Results, "connection")
			}
			judgeConn(cs.Entry, r.c)
			if r.s != nil {
				streams = append(streams, r.s)
			}
		}
		sort.Strings(o.Results)
		// let the late outcomes arrive and everything settle
		synctest.Wait()
		time.Sleep(10 * time.Second)
		synctest.Wait()

		wrong := map[*fxConn]bool{}
		for _, d := range e.AllDials() {
			o.Dials++
			if d.Peer != P.ID {
				bad("dial-for-another-peer", "the swarm called Dial(%s) for %s while dialing P", d.Addr, c01sName(d.Peer))
			}
			if d.Conn != nil && d.Conn.remote.ID != P.ID {
				wrong[d.Conn] = true
				o.Wrong++
				if !d.Conn.isClosed() {
					bad("connection-of-another-peer-left-open", "the transport connection to %s authenticated as %s (returned by a dial for P) is still open after everything settled", d.Addr, c01sName(d.Conn.remote.ID))
				}
			}
		}
		for _, c := range e.Swarm.ConnsToPeer(P.ID) {
			u := c01sUnderlying(c)
			if u == nil || u.remote.ID != P.ID || c.RemotePeer() != P.ID {
				who := "?"
				if u != nil {
					who = c01sName(u.remote.ID)
				}
				bad("connection-of-another-peer-listed-for-P", "ConnsToPeer(P) lists a connection authenticated as %s (RemotePeer()=%s)", who, c01sName(c.RemotePeer()))
			}
		}
		for _, c := range e.Swarm.Conns() {
			if u := c01sUnderlying(c); u != nil && wrong[u] {
				bad("connection-of-another-peer-admitted", "the swarm's connection table holds the connection authenticated as %s that a dial for P returned (listed under %s)", c01sName(u.remote.ID), c01sName(c.RemotePeer()))
			}
		}
		for _, n := range e.Note.Notes() {
			if n.Kind != "connected" {
				continue
			}
			if u := c01sUnderlying(n.Conn); u != nil && wrong[u] && u != prior {
				bad("connection-of-another-peer-admitted", "Connected notification for the connection authenticated as %s that a dial for P returned", c01sName(u.remote.ID))
			}
		}
		allHonest := true
		for _, a := range cs.Addrs {
			allHonest = allHonest && a.Outcome == c01sOK
		}
		if allHonest {
			for _, r := range o.Results {
				if r != "connection" {
					bad("honest-dial-failed", "positive control: every address answers honestly as P, but %s returned %v", cs.Entry, o.Results)
					break
				}
			}
		}
		for _, s := range streams {
			s.Reset()
		}
	})
	return
}

func c01sName(p peer.ID) string {
	for _, n := range []string{"P", "Q", "local", "relay"} {
		if fxID(n).ID == p {
			return n
		}
	}
	if fxID("mallory").ID == p {
		return "M"
	}
	return p.String()
}

// ---------- enumeration ----------

func c01sCases(thorough bool) []c01sCase {
	var out []c01sCase
	maxSet := 3
	if thorough {
		maxSet = 4
	}
	for mask := 1; mask < 1<<len(c01sPoolNames); mask++ {
		var names []string
		for i, n := range c01sPoolNames {
			if mask&(1<<i) != 0 {
				names = append(names, n)
			}
		}
		if len(names) > maxSet {
			continue
		}
		alpha := len(c01sOutcomes) * 2
		if !thorough && len(names) == 3 {
			alpha = len(c01sOutcomes) // delivery "at once" only
		}
		total := 1
		for range names {
			total *= alpha
		}
		for code := 0; code < total; code++ {
			var as []c01sAddr
			x := code
			for _, n := range names {
				d := x % alpha
				x /= alpha
				as = append(as, c01sAddr{Name: n, Outcome: c01sOutcomes[d%len(c01sOutcomes)], Late: d >= len(c01sOutcomes)})
			}
			for _, entry := range []string{"DialPeer", "NewStream", "DialPeer-x2"} {
				for _, prior := range []string{"none", "Q-connected"} {
					for _, metrics := range []bool{false, true} {
						out = append(out, c01sCase{Addrs: as, Entry: entry, Prior: prior, Metrics: metrics})
					}
				}
			}
		}
	}
	return out
}

var _ transport.CapableConn = (*connWithMetrics)(nil)

func TestVerifC01SwarmDial(t *testing.T) {
	r := vrep.New("C01", "swarmdial")
	defer r.Flush()
	// the identity cache of the fixture is a plain map: fill it before any goroutine reads it
	for _, n := range []string{"local", "P", "Q", "mallory", "relay"} {
		fxID(n)
	}
	var replay *c01sCase
	if p := vrep.ReplayPath(); p != "" {
		var rf struct {
			Part   string   `json:"part"`
			Replay c01sCase `json:"replay"`
		}
		b, err := os.ReadFile(p)
		if err != nil || json.Unmarshal(b, &rf) != nil || rf.Part != "swarmdial" {
			return
		}
		if s, _ := vrep.Shard(); s != 0 {
			return
		}
		replay = &rf.Replay
	}
	cases := c01sCases(vrep.Thorough() || replay != nil)
	r.Bounds["addresses_of_P"] = c01sPoolNames
	r.Bounds["address_set_size"] = map[string]int{"quick": 3, "thorough": 4}
	r.Bounds["outcome_per_address"] = c01sOutcomes
	r.Bounds["delivery_per_address"] = "at once / 3 s later (quick: sets of 3 addresses at once only)"
	r.Bounds["entries"] = []string{"DialPeer", "NewStream", "DialPeer-x2 (two concurrent callers)"}
	r.Bounds["prior_state"] = []string{"none", "Q-connected (inbound)"}
	r.Bounds["metrics_tracer"] = []bool{false, true}
	r.Bounds["cases"] = len(cases)
	deadline := vrep.Deadline().Add(-5 * time.Second)
	shard, nshards := vrep.Shard()
	distinct := map[string]struct{}{}
	nsamples := 0
	for idx, cs := range cases {
		if replay != nil {
			if cs.String() != replay.String() {
				continue
			}
		} else if idx%nshards != shard {
			continue
		}
		if time.Now().After(deadline) {
			r.Cap("deadline reached after %d cases", r.Executions)
			break
		}
		o := c01sRun(t, cs)
		if replay != nil {
			fmt.Printf("REPLAY %s\n  results=%v transport-dials=%d connections-of-another-peer=%d findings=%v infra=%q\n", cs, o.Results, o.Dials, o.Wrong, o.Findings, o.Infra)
		}
		if o.Infra != "" {
			r.Cap("infrastructure (no verdict): %s in %s", o.Infra, cs)
			continue
		}
		r.Executions++
		nOK, nWrong := 0, 0
		for _, a := range cs.Addrs {
			if a.Outcome == c01sOK {
				nOK++
			}
			if a.Outcome == c01sWrongM || a.Outcome == c01sWrongQ {
				nWrong++
			}
		}
		class := fmt.Sprintf("%s: honest-addresses=%d wrong-identity-addresses=%d -> %s; connections of another identity returned by the transports=%d", cs.Entry, nOK, nWrong, strings.Join(o.Results, "+"), o.Wrong)
		r.Outcome(class)
		distinct[cs.String()] = struct{}{}
		if len(o.Findings) == 0 && o.Wrong > 0 && nOK > 0 && nsamples < 2 && shard == 0 && idx%11 == 0 {
			nsamples++
			r.Sample(map[string]any{"case": cs, "results": o.Results, "transport_dials": o.Dials, "connections_of_another_identity_closed_and_not_admitted": o.Wrong, "verdict": "ok"})
		}
		seen := map[string]bool{}
		for _, fd := range o.Findings {
			if !seen[fd[0]] {
				seen[fd[0]] = true
				r.Violate(fd[0], fmt.Sprintf("%s: %s (results=%v)", cs, fd[1], o.Results), cs)
			}
		}
	}
	r.Distinct = int64(len(distinct))
}
