//go:build verif

package libp2pquic

// C01 part "quic": "a dial for peer P never hands the application a connection authenticated as anyone other than
// P" for the QUIC transport's own wiring (transport.go Dial / dialWithScope / holePunch, listener.go Accept /
// wrapConnWithScope): which tls.Config a dial uses, which peer ID a connection is labelled with, and how the accept
// loop matches an inbound connection with a pending hole punch.
//
// REAL transports over loopback UDP (127.0.0.1, port 0), one quicreuse.ConnManager each: A (the side under test,
// listening), and X, an honest endpoint with the identity P or Q, listening too, so that its outgoing connections
// come from its listen address (reuseport) - the address A dials / punches. Real sockets mean real time, so the
// oracle is timing-independent: it judges ONLY connections that Dial and Accept actually returned. Every wait has a
// generous timeout; an expired wait, a failed honest handshake, a source address that is not the listen address
// are "no verdict": the run is repeated (at most 3 times) and then recorded as a cap, never as a violation.
//
// Space: scenario {ordinary Dial(addrX, P); hole punch = Dial(simultaneous-connect server ctx, addrX, P) with X
// connecting to A's listener; two hole punches pending at once for P and for Q towards addrX} x X in {P, Q} x
// (hole punches) X connects {before the punch starts, after it is registered} x identity key type of P {ed25519,
// ecdsa, secp256k1, rsa2048} (Q: the next one) x environment {bare, connection gater + real resource manager}.
//
// Oracle:
//   * a connection returned by A's Dial(.., P) reports RemotePeer() == P, its RemotePublicKey() is P's key, and the
//     endpoint that owns its remote UDP address really is P (known by construction); likewise for the dial for Q;
//   * every connection Accept returns (on A and on X) reports the identity of the endpoint that owns its remote
//     address, with that endpoint's key - a connection authenticated as somebody else than the dialled peer may
//     surface there, and only there;
//   * for every returned connection RemotePeer() is the ID derived from RemotePublicKey().
//   Positive controls (asserted as "no verdict" when they fail, because they depend on the network): an honest dial
//   succeeds; a hole punch that the right peer answers returns its connection.

import (
	"context"
	"encoding/json"
	"fmt"
	"os"
	"sync"
	"testing"
	"time"

	"github.com/libp2p/go-libp2p/core/connmgr"
	"github.com/libp2p/go-libp2p/core/control"
	ic "github.com/libp2p/go-libp2p/core/crypto"
	"github.com/libp2p/go-libp2p/core/network"
	"github.com/libp2p/go-libp2p/core/peer"
	tpt "github.com/libp2p/go-libp2p/core/transport"
	rcmgr "github.com/libp2p/go-libp2p/p2p/host/resource-manager"
	"github.com/libp2p/go-libp2p/p2p/transport/quicreuse"
	"github.com/libp2p/go-libp2p/x/rate"
	"github.com/libp2p/go-libp2p/x/verif/c01wire"
	"github.com/libp2p/go-libp2p/x/verif/vrep"
	ma "github.com/multiformats/go-multiaddr"
	"github.com/quic-go/quic-go"
)

const (
	c01qWait  = 40 * time.Second       // generous: every wait; expiry = no verdict
	c01qGrace = 150 * time.Millisecond // time given to a wrong hand-over to happen before a pending punch is cancelled
)

type c01qCase struct {
	Scenario string `json:"scenario"` // dial | punch | punch-P-and-Q
	X        string `json:"endpoint_at_the_address"`
	Order    string `json:"x_connects"` // - | before | after
	KeyP     string `json:"P_key_type"`
	KeyQ     string `json:"Q_key_type"`
	KeyA     string `json:"A_key_type"`
	Env      string `json:"environment"` // bare | gater+rcmgr
}

type c01qGater struct{}

func (c01qGater) InterceptPeerDial(peer.ID) bool               { return true }
func (c01qGater) InterceptAddrDial(peer.ID, ma.Multiaddr) bool { return true }
func (c01qGater) InterceptAccept(network.ConnMultiaddrs) bool  { return true }
func (c01qGater) InterceptSecured(network.Direction, peer.ID, network.ConnMultiaddrs) bool {
	return true
}
func (c01qGater) InterceptUpgraded(network.Conn) (bool, control.DisconnectReason) { return true, 0 }

// c01qNode is one real transport with its listener and an accept loop that collects what Accept returns.
type c01qNode struct {
	name string
	key  *c01wire.Key
	cm   *quicreuse.ConnManager
	rm   network.ResourceManager
	tr   *transport
	ln   tpt.Listener
	mu   sync.Mutex
	acc  []tpt.CapableConn
	sig  chan struct{}
	done chan struct{}
}

func c01qNewNode(name string, k *c01wire.Key, env string) (*c01qNode, error) {
	n := &c01qNode{name: name, key: k, sig: make(chan struct{}, 64), done: make(chan struct{})}
	cm, err := quicreuse.NewConnManager(quic.StatelessResetKey{}, quic.TokenGeneratorKey{})
	if err != nil {
		return nil, err
	}
	n.cm = cm
	var g connmgr.ConnectionGater
	if env != "bare" {
		g = c01qGater{}
		n.rm, err = rcmgr.NewResourceManager(rcmgr.NewFixedLimiter(rcmgr.InfiniteLimits), rcmgr.WithMetricsDisabled(), rcmgr.WithConnRateLimiters(&rate.Limiter{}))
		if err != nil {
			cm.Close()
			return nil, err
		}
	}
	t, err := NewTransport(k.Priv, cm, nil, g, n.rm)
	if err != nil {
		n.close()
		return nil, err
	}
	n.tr = t.(*transport)
	n.ln, err = n.tr.Listen(ma.StringCast("/ip4/127.0.0.1/udp/0/quic-v1"))
	if err != nil {
		n.close()
		return nil, err
	}
	go func() {
		defer close(n.done)
		for {
			c, err := n.ln.Accept()
			if err != nil {
				return
			}
			n.mu.Lock()
			n.acc = append(n.acc, c)
			n.mu.Unlock()
			select {
			case n.sig <- struct{}{}:
			default:
			}
		}
	}()
	return n, nil
}

func (n *c01qNode) accepted() []tpt.CapableConn {
	n.mu.Lock()
	defer n.mu.Unlock()
	return append([]tpt.CapableConn(nil), n.acc...)
}

func (n *c01qNode) close() {
	if n.ln != nil {
		n.ln.Close()
		select {
		case <-n.done:
		case <-time.After(c01qWait):
		}
	}
	for _, c := range n.accepted() {
		c.Close()
	}
	if n.tr != nil {
		n.tr.Close()
	}
	if n.cm != nil {
		n.cm.Close()
	}
	if n.rm != nil {
		n.rm.Close()
	}
}

func (n *c01qNode) punches() int {
	n.tr.holePunchingMx.Lock()
	defer n.tr.holePunchingMx.Unlock()
	return len(n.tr.holePunching)
}

type c01qDialRes struct {
	c   tpt.CapableConn
	err error
}

type c01qObs struct {
	Findings  [][2]string
	NoVerdict string // a wait expired / the network did not cooperate: repeat
	Class     string
	Detail    map[string]string
}

func c01qUDP(m ma.Multiaddr) string {
	a, _, err := quicreuse.FromQuicMultiaddr(m)
	if err != nil || a == nil {
		return m.String()
	}
	return a.String()
}

func c01qRun(cs c01qCase, A, P, Q *c01wire.Key) (o c01qObs) {
	o.Detail = map[string]string{}
	bad := func(key, f string, a ...any) { o.Findings = append(o.Findings, [2]string{key, fmt.Sprintf(f, a...)}) }
	xk := P
	if cs.X == "Q" {
		xk = Q
	}
	nA, err := c01qNewNode("A", A, cs.Env)
	if err != nil {
		o.NoVerdict = "setup A: " + err.Error()
		return
	}
	defer nA.close()
	nX, err := c01qNewNode("X", xk, cs.Env)
	if err != nil {
		o.NoVerdict = "setup X: " + err.Error()
		return
	}
	defer nX.close()
	owner := map[string]*c01wire.Key{c01qUDP(nA.ln.Multiaddr()): A, c01qUDP(nX.ln.Multiaddr()): xk}
	names := map[peer.ID]string{A.ID: "A", P.ID: "P", Q.ID: "Q"}
	name := func(p peer.ID) string {
		if n, ok := names[p]; ok {
			return n
		}
		return p.String()
	}
	var toClose []tpt.CapableConn
	defer func() {
		for _, c := range toClose {
			c.Close()
		}
	}()

	// judge one returned connection: consistent, and (when the owner of the remote address is known) truthful
	judge := func(where string, c tpt.CapableConn, dialled *c01wire.Key) {
		if c == nil {
			return
		}
		rp, rk := c.RemotePeer(), c.RemotePublicKey()
		if rk == nil {
			bad("quic-connection-without-remote-key/"+where, "%s returned a connection with no RemotePublicKey (RemotePeer=%s)", where, name(rp))
		} else if id, err := peer.IDFromPublicKey(rk); err != nil || id != rp {
			bad("quic-remote-peer-not-derived-from-remote-key/"+where, "%s returned a connection whose RemotePeer()=%s is not the ID of its RemotePublicKey() (%s)", where, name(rp), name(id))
		}
		own := owner[c01qUDP(c.RemoteMultiaddr())]
		if own != nil && (rp != own.ID || rk == nil || !rk.Equals(own.Pub)) {
			bad("quic-wrong-remote-peer-reported/"+where, "%s returned a connection from %s, whose endpoint holds the key of %s, reporting RemotePeer()=%s", where, c.RemoteMultiaddr(), name(own.ID), name(rp))
		}
		if own == nil {
			o.Detail["unknown-remote-address@"+where] = c.RemoteMultiaddr().String()
		}
		if dialled != nil {
			if rp != dialled.ID {
				bad("quic-dial-returned-connection-of-another-peer/"+where, "Dial for %s returned a connection whose RemotePeer() is %s", name(dialled.ID), name(rp))
			}
			if own != nil && own.ID != dialled.ID {
				bad("quic-dial-returned-connection-of-another-peer/"+where, "Dial for %s returned a connection to %s, whose endpoint holds the key of %s (the connection reports RemotePeer()=%s)", name(dialled.ID), c.RemoteMultiaddr(), name(own.ID), name(rp))
			}
		}
	}

	addrX := nX.ln.Multiaddr()
	switch cs.Scenario {
	case "dial":
		ctx, cancel := context.WithTimeout(context.Background(), c01qWait)
		c, err := nA.tr.Dial(ctx, addrX, P.ID)
		cancel()
		if c != nil {
			toClose = append(toClose, c)
		}
		judge("ordinary-dial", c, P)
		switch {
		case c != nil:
			o.Class = "ordinary dial for P, endpoint is " + cs.X + " -> connection"
		default:
			o.Class = "ordinary dial for P, endpoint is " + cs.X + " -> error"
			if cs.X == "P" {
				o.NoVerdict = "honest dial failed: " + err.Error()
			}
		}
	default:
		targets := []*c01wire.Key{P}
		if cs.Scenario == "punch-P-and-Q" {
			targets = []*c01wire.Key{P, Q}
		}
		// X -> A: an honest ordinary connection from the punched address
		xDial := func() bool {
			ctx, cancel := context.WithTimeout(context.Background(), c01qWait)
			defer cancel()
			c, err := nX.tr.Dial(ctx, nA.ln.Multiaddr(), A.ID)
			if err != nil {
				o.NoVerdict = "X could not connect to A: " + err.Error()
				return false
			}
			toClose = append(toClose, c)
			judge("dial-by-X", c, A)
			if c01qUDP(c.LocalMultiaddr()) != c01qUDP(addrX) {
				o.NoVerdict = "X's connection does not come from its listen address: " + c.LocalMultiaddr().String()
				return false
			}
			return true
		}
		results := make([]chan c01qDialRes, len(targets))
		cancels := make([]context.CancelFunc, len(targets))
		startPunches := func() bool {
			for i, tg := range targets {
				ctx, cancel := context.WithCancel(context.Background())
				cancels[i] = cancel
				ch := make(chan c01qDialRes, 1)
				results[i] = ch
				go func() {
					c, err := nA.tr.Dial(network.WithSimultaneousConnect(ctx, false, "c01"), addrX, tg.ID)
					ch <- c01qDialRes{c, err}
				}()
				// registered (or already over, e.g. refused): wait for either
				deadline := time.Now().Add(c01qWait)
				for nA.punches() < i+1 && len(ch) == 0 {
					if time.Now().After(deadline) {
						o.NoVerdict = "the hole punch was not registered in time"
						return false
					}
					time.Sleep(2 * time.Millisecond)
				}
			}
			return true
		}
		defer func() {
			for _, c := range cancels {
				if c != nil {
					c()
				}
			}
		}()
		pending := func() int {
			n := 0
			for _, ch := range results {
				if ch != nil && len(ch) == 0 {
					n++
				}
			}
			return n
		}
		if cs.Order == "before" {
			if !xDial() {
				return
			}
			// wait until A's accept loop has dealt with it
			deadline := time.After(c01qWait)
			for len(nA.accepted()) == 0 {
				select {
				case <-nA.sig:
				case <-deadline:
					o.NoVerdict = "A's Accept did not return X's connection in time"
					return
				}
			}
			if !startPunches() {
				return
			}
			time.Sleep(c01qGrace)
		} else {
			if !startPunches() {
				return
			}
			want := pending()
			if !xDial() {
				return
			}
			// X's connection surfaces on A either through Accept or as the result of a punch
			deadline := time.After(c01qWait)
			for len(nA.accepted()) == 0 && pending() == want {
				select {
				case <-nA.sig:
				case <-time.After(5 * time.Millisecond):
				case <-deadline:
					o.NoVerdict = "X's connection surfaced neither at A's Accept nor at a dial in time"
					return
				}
			}
			time.Sleep(c01qGrace)
		}
		// end whatever is still pending and collect what the dials return
		for _, c := range cancels {
			c()
		}
		got := ""
		for i, tg := range targets {
			select {
			case r := <-results[i]:
				if r.c != nil {
					toClose = append(toClose, r.c)
					got += " punch-for-" + names[tg.ID] + "=connection"
				} else {
					got += " punch-for-" + names[tg.ID] + "=error"
				}
				judge("hole-punch-dial-for-"+names[tg.ID], r.c, tg)
				if r.c == nil && cs.Order == "after" && tg.ID == xk.ID {
					o.Detail["honest-punch-failed"] = fmt.Sprint(r.err)
				}
			case <-time.After(c01qWait):
				o.NoVerdict = "a cancelled hole punch did not return in time"
				return
			}
		}
		o.Class = fmt.Sprintf("%s, endpoint is %s connecting %s ->%s, accepted-on-A=%d", cs.Scenario, cs.X, cs.Order, got, len(nA.accepted()))
		if _, failed := o.Detail["honest-punch-failed"]; failed {
			// positive control of the matching: the right peer answered a registered punch, the dial must get it
			o.NoVerdict = "the hole punch for the peer that did connect returned " + o.Detail["honest-punch-failed"]
		}
	}
	for _, c := range nA.accepted() {
		judge("accept-on-A", c, nil)
	}
	// A's ordinary dial arrives at X's listener: give its accept loop a moment, then judge what it returned
	if cs.Scenario == "dial" && cs.X == "P" && o.NoVerdict == "" {
		deadline := time.After(c01qWait)
		for len(nX.accepted()) == 0 {
			select {
			case <-nX.sig:
			case <-deadline:
				o.NoVerdict = "X's Accept did not return A's connection in time"
				return
			}
		}
	}
	for _, c := range nX.accepted() {
		judge("accept-on-X", c, nil)
	}
	return
}

func c01qCases(thorough bool) []c01qCase {
	var out []c01qCase
	type shape struct{ sc, x, order string }
	var shapes []shape
	for _, x := range []string{"P", "Q"} {
		shapes = append(shapes, shape{"dial", x, "-"})
		for _, sc := range []string{"punch", "punch-P-and-Q"} {
			for _, ord := range []string{"before", "after"} {
				shapes = append(shapes, shape{sc, x, ord})
			}
		}
	}
	keyA := []int{ic.Ed25519}
	if thorough {
		keyA = c01wire.KeyTypes
	}
	for _, sh := range shapes {
		for _, ka := range keyA {
			for i, kp := range c01wire.KeyTypes {
				kq := c01wire.KeyTypes[(i+1)%len(c01wire.KeyTypes)]
				for _, env := range []string{"bare", "gater+rcmgr"} {
					out = append(out, c01qCase{Scenario: sh.sc, X: sh.x, Order: sh.order, KeyP: c01wire.TypeName(kp), KeyQ: c01wire.TypeName(kq), KeyA: c01wire.TypeName(ka), Env: env})
				}
			}
		}
	}
	return out
}

func c01qType(n string) int {
	for _, t := range c01wire.KeyTypes {
		if c01wire.TypeName(t) == n {
			return t
		}
	}
	return ic.Ed25519
}

func TestVerifC01QUIC(t *testing.T) {
	r := vrep.New("C01", "quic")
	defer r.Flush()
	var replay *c01qCase
	if p := vrep.ReplayPath(); p != "" {
		var rf struct {
			Part   string   `json:"part"`
			Replay c01qCase `json:"replay"`
		}
		b, err := os.ReadFile(p)
		if err != nil || json.Unmarshal(b, &rf) != nil || rf.Part != "quic" {
			return
		}
		if s, _ := vrep.Shard(); s != 0 {
			return
		}
		replay = &rf.Replay
	}
	// a pending punch ends when the harness cancels it, not by its own timeout
	HolePunchTimeout = 10 * time.Minute
	cases := c01qCases(vrep.Thorough() || replay != nil)
	r.Bounds["scenarios"] = []string{"dial", "punch", "punch-P-and-Q"}
	r.Bounds["endpoint_at_the_address"] = []string{"P", "Q"}
	r.Bounds["x_connects"] = []string{"before the punch starts", "after it is registered"}
	r.Bounds["identity_key_types"] = "P: ed25519, ecdsa, secp256k1, rsa2048 (Q: the next type); A: ed25519 (thorough: all four)"
	r.Bounds["environment"] = []string{"bare", "gater+rcmgr"}
	r.Bounds["network"] = "real UDP sockets on 127.0.0.1, real time; waits up to 40 s, up to 3 attempts per case"
	r.Bounds["cases"] = len(cases)
	deadline := vrep.Deadline().Add(-60 * time.Second)
	shard, nshards := vrep.Shard()
	distinct := map[string]struct{}{}
	nsamples := 0
	for idx, cs := range cases {
		if replay != nil {
			if cs != *replay {
				continue
			}
		} else if idx%nshards != shard {
			continue
		}
		var keys [3]*c01wire.Key
		var kerr error
		for i, n := range []string{cs.KeyA, cs.KeyP, cs.KeyQ} {
			keys[i], kerr = c01wire.GenKey(vrep.Seed(), c01qType(n), 200+i)
			if kerr != nil {
				break
			}
		}
		if kerr != nil {
			r.Cap("infrastructure (no verdict): %v", kerr)
			continue
		}
		var o c01qObs
		for attempt := 1; attempt <= 3; attempt++ {
			if time.Now().After(deadline) {
				o = c01qObs{NoVerdict: "deadline reached"}
				break
			}
			o = c01qRun(cs, keys[0], keys[1], keys[2])
			if replay != nil {
				fmt.Printf("REPLAY %+v attempt %d\n  class=%q no-verdict=%q detail=%v\n  findings=%v\n", cs, attempt, o.Class, o.NoVerdict, o.Detail, o.Findings)
			}
			if len(o.Findings) > 0 || o.NoVerdict == "" {
				break
			}
			r.Outcome("attempt without a verdict (repeated): " + vrep.Shape(o.NoVerdict))
		}
		seen := map[string]bool{}
		for _, fd := range o.Findings {
			if !seen[fd[0]] {
				seen[fd[0]] = true
				r.Violate(fd[0], fmt.Sprintf("%+v: %s", cs, fd[1]), cs)
			}
		}
		if o.NoVerdict != "" && len(o.Findings) == 0 {
			r.Cap("no verdict after 3 attempts (network / load; not a violation): %s in %+v", o.NoVerdict, cs)
			continue
		}
		r.Executions++
		r.Outcome(o.Class)
		for k := range o.Detail {
			r.Outcome("note: " + k)
		}
		distinct[fmt.Sprintf("%+v", cs)] = struct{}{}
		if len(o.Findings) == 0 && cs.X == "Q" && cs.Order == "after" && nsamples < 2 {
			nsamples++
			r.Sample(map[string]any{"case": cs, "outcome": o.Class, "verdict": "ok"})
		}
	}
	r.Distinct = int64(len(distinct))
}
