//go:build verif

package upgrader_test

// C01 part "upgrader": the WIRING of the expected peer through the real upgrader (p2p/net/upgrader) and, one level
// up, through the real TCP transport (p2p/transport/tcp: context -> direction, peer -> Upgrade).
//
// Every case is one complete run of the REAL code on both ends of an in-memory connection (x/verif/memnet) inside
// its own testing/synctest bubble: real upgrader.New(...) with the REAL Noise and / or TLS security transports
// (several configured => the protocol is negotiated with multistream-select, in either preference order), real
// yamux (negotiated inside the handshake or by multistream afterwards), optionally a connection gater, a real
// resource manager (connection scope with or without the peer already set, as the TCP transport does for dials)
// and a private-network PSK. The remote end is an honest endpoint with the identity P or Q in the opposite role.
//
// Entry points of the local side L (the side under test):
//   upgrade    Upgrader.Upgrade(ctx, conn, dir, expected)            dir in {outbound, inbound}; inbound WITH an
//              expected peer is what TCP simultaneous connect / hole punching does
//   listener   Upgrader.UpgradeListener(...).Accept()                (expected peer: none)
//   tcp-dial   TcpTransport.Dial(ctx, addr, expected) over an in-memory dialer (WithDialerForAddr), ctx in
//              {plain, simultaneous connect as client, simultaneous connect as server (= inbound upgrade)}
//
// Oracle (no more than the statement), for each side that is handed a connection:
//   "reports as its remote peer exactly the peer ID derived from a public key whose private key the remote used":
//       RemotePeer() == identity the harness gave the other endpoint, RemotePublicKey() is that identity's key;
//   "when the local side named the peer it expects, the handshake succeeds only if that peer ID matches" /
//   "a dial for peer P never hands the application a connection authenticated as anyone other than P":
//       expected named and != the other endpoint's identity => no connection is returned;
//   positive control (non-vacuity): expected in {none, the real remote}, a common security protocol and a legal
//       call => both sides get their connection.

import (
	"context"
	"encoding/json"
	"fmt"
	"net"
	"os"
	"strings"
	"sync"
	"testing"
	"testing/synctest"
	"time"

	"github.com/libp2p/go-libp2p/core/connmgr"
	"github.com/libp2p/go-libp2p/core/control"
	ic "github.com/libp2p/go-libp2p/core/crypto"
	"github.com/libp2p/go-libp2p/core/network"
	"github.com/libp2p/go-libp2p/core/peer"
	ipnet "github.com/libp2p/go-libp2p/core/pnet"
	"github.com/libp2p/go-libp2p/core/sec"
	"github.com/libp2p/go-libp2p/core/transport"
	rcmgr "github.com/libp2p/go-libp2p/p2p/host/resource-manager"
	"github.com/libp2p/go-libp2p/p2p/muxer/yamux"
	"github.com/libp2p/go-libp2p/p2p/net/upgrader"
	"github.com/libp2p/go-libp2p/p2p/security/noise"
	libp2ptls "github.com/libp2p/go-libp2p/p2p/security/tls"
	"github.com/libp2p/go-libp2p/p2p/transport/tcp"
	"github.com/libp2p/go-libp2p/x/rate"
	"github.com/libp2p/go-libp2p/x/verif/c01wire"
	"github.com/libp2p/go-libp2p/x/verif/memnet"
	"github.com/libp2p/go-libp2p/x/verif/vrep"
	ma "github.com/multiformats/go-multiaddr"
)

const c01uTimeout = 20 * time.Second // virtual

var (
	c01uAddrL = ma.StringCast("/ip4/10.1.1.1/tcp/4001")
	c01uAddrR = ma.StringCast("/ip4/10.2.2.2/tcp/4002")
	c01uPSK   = ipnet.PSK("0123456789abcdef0123456789abcdef")
)

// ---------- the case ----------

type c01uCase struct {
	Entry        string `json:"entry"`         // upgrade | listener | tcp-dial
	Role         string `json:"local_role"`    // outbound | inbound | (tcp-dial) plain | simconnect-client | simconnect-server
	Expect       string `json:"local_expects"` // none | P | Q
	Remote       string `json:"remote_is"`     // P | Q
	RemoteExpect string `json:"remote_expects"`
	SecL         string `json:"local_security"`
	SecR         string `json:"remote_security"`
	KeyL         string `json:"local_key_type"`
	KeyP         string `json:"P_key_type"`
	KeyQ         string `json:"Q_key_type"`
	EarlyMux     bool   `json:"muxer_in_handshake"`
	Gater        bool   `json:"gater"`
	Rcmgr        string `json:"resource_manager"` // none | real | real+peer-preset
	PSK          bool   `json:"psk"`
}

func (c c01uCase) localInbound() bool { return c.Role == "inbound" || c.Role == "simconnect-server" }

// ---------- allow-all gater that records whom it was shown ----------

type c01uGater struct {
	mu      sync.Mutex
	secured []peer.ID
}

func (g *c01uGater) InterceptPeerDial(peer.ID) bool               { return true }
func (g *c01uGater) InterceptAddrDial(peer.ID, ma.Multiaddr) bool { return true }
func (g *c01uGater) InterceptAccept(network.ConnMultiaddrs) bool  { return true }
func (g *c01uGater) InterceptSecured(_ network.Direction, p peer.ID, _ network.ConnMultiaddrs) bool {
	g.mu.Lock()
	g.secured = append(g.secured, p)
	g.mu.Unlock()
	return true
}
func (g *c01uGater) InterceptUpgraded(network.Conn) (bool, control.DisconnectReason) { return true, 0 }

var _ connmgr.ConnectionGater = (*c01uGater)(nil)

// ---------- building the real pipeline ----------

func c01uUpgrader(k *c01wire.Key, secs string, early bool, psk ipnet.PSK, rm network.ResourceManager, g connmgr.ConnectionGater) (transport.Upgrader, error) {
	muxers := []upgrader.StreamMuxer{{ID: yamux.ID, Muxer: yamux.DefaultTransport}}
	var secMuxers []upgrader.StreamMuxer
	if early {
		secMuxers = muxers
	}
	var sts []sec.SecureTransport
	for _, name := range strings.Split(secs, ",") {
		var st sec.SecureTransport
		var err error
		switch name {
		case "noise":
			st, err = noise.New(noise.ID, k.Priv, secMuxers)
		case "tls":
			st, err = libp2ptls.New(libp2ptls.ID, k.Priv, secMuxers)
		default:
			err = fmt.Errorf("unknown security transport %q", name)
		}
		if err != nil {
			return nil, err
		}
		sts = append(sts, st)
	}
	return upgrader.New(sts, muxers, psk, rm, g, upgrader.WithAcceptTimeout(15*time.Second))
}

func c01uCommonSec(a, b string) bool {
	for _, x := range strings.Split(a, ",") {
		for _, y := range strings.Split(b, ",") {
			if x == y {
				return true
			}
		}
	}
	return false
}

type c01uDialer struct {
	conn  net.Conn
	ready chan struct{}
	once  sync.Once
}

func (d *c01uDialer) DialContext(ctx context.Context, network, address string) (net.Conn, error) {
	d.once.Do(func() { close(d.ready) })
	return d.conn, nil
}

// ---------- one run ----------

type c01uSide struct {
	Got      bool    `json:"connection_returned"`
	Peer     peer.ID `json:"remote_peer_reported"`
	KeyOK    bool    `json:"remote_public_key_is_the_endpoints"`
	Security string  `json:"security,omitempty"`
	Err      string  `json:"error,omitempty"`
}

type c01uObs struct {
	Local, Remote c01uSide
	GaterSaw      []peer.ID
	Infra         string
}

type c01uKeys struct{ L, P, Q *c01wire.Key }

func (k c01uKeys) byName(n string) *c01wire.Key {
	switch n {
	case "P":
		return k.P
	case "Q":
		return k.Q
	case "L":
		return k.L
	}
	return nil
}

func c01uID(k *c01wire.Key) peer.ID {
	if k == nil {
		return ""
	}
	return k.ID
}

func c01uSideOf(c transport.CapableConn, err error, truth *c01wire.Key) (s c01uSide) {
	if err != nil {
		s.Err = err.Error()
		if len(s.Err) > 200 {
			s.Err = s.Err[:200]
		}
	}
	if c == nil {
		return
	}
	s.Got = true
	s.Peer = c.RemotePeer()
	if pk := c.RemotePublicKey(); pk != nil {
		s.KeyOK = pk.Equals(truth.Pub)
	}
	s.Security = string(c.ConnState().Security)
	return
}

func c01uRun(t *testing.T, cs c01uCase, keys c01uKeys) (o c01uObs) {
	defer func() {
		if r := recover(); r != nil {
			o.Infra = fmt.Sprint("panic: ", r)
		}
	}()
	synctest.Test(t, func(t *testing.T) {
		R := keys.byName(cs.Remote)
		var psk ipnet.PSK
		if cs.PSK {
			psk = c01uPSK
		}
		var rm network.ResourceManager
		if cs.Rcmgr != "none" {
			var err error
			rm, err = rcmgr.NewResourceManager(rcmgr.NewFixedLimiter(rcmgr.InfiniteLimits), rcmgr.WithMetricsDisabled(), rcmgr.WithConnRateLimiters(&rate.Limiter{}))
			if err != nil {
				o.Infra = err.Error()
				return
			}
			defer rm.Close()
		}
		var g *c01uGater
		var gi connmgr.ConnectionGater
		if cs.Gater {
			g = &c01uGater{}
			gi = g
		}
		lu, err := c01uUpgrader(keys.L, cs.SecL, cs.EarlyMux, psk, rm, gi)
		if err != nil {
			o.Infra = err.Error()
			return
		}
		ru, err := c01uUpgrader(R, cs.SecR, cs.EarlyMux, psk, nil, nil)
		if err != nil {
			o.Infra = err.Error()
			return
		}
		a, b := memnet.NewPair(memnet.PairConfig{NameA: "local", NameB: "remote", AddrA: c01uAddrL, AddrB: c01uAddrR})
		ctx, cancel := context.WithTimeout(context.Background(), c01uTimeout)
		defer cancel()
		expect := c01uID(keys.byName(cs.Expect))
		rexpect := c01uID(keys.byName(cs.RemoteExpect))
		rdir := network.DirInbound
		if cs.localInbound() {
			rdir = network.DirOutbound
		}

		type res struct {
			c   transport.CapableConn
			err error
		}
		remoteCh := make(chan res, 1)
		start := make(chan struct{})
		go func() {
			<-start
			c, err := ru.Upgrade(ctx, nil, b, rdir, rexpect, &network.NullScope{})
			remoteCh <- res{c, err}
		}()

		var lres res
		var ln transport.Listener
		switch cs.Entry {
		case "upgrade":
			close(start)
			dir := network.DirOutbound
			if cs.localInbound() {
				dir = network.DirInbound
			}
			var scope network.ConnManagementScope = &network.NullScope{}
			if rm != nil {
				scope, err = rm.OpenConnection(dir, true, c01uAddrR)
				if err != nil {
					o.Infra = err.Error()
					return
				}
				if cs.Rcmgr == "real+peer-preset" && expect != "" {
					if err := scope.SetPeer(expect); err != nil {
						o.Infra = err.Error()
						return
					}
				}
			}
			lres.c, lres.err = lu.Upgrade(ctx, nil, a, dir, expect, scope)
		case "listener":
			close(start)
			ml := memnet.Listen(c01uAddrL)
			ln = lu.UpgradeListener(nil, ml)
			accCh := make(chan res, 1)
			go func() {
				c, err := ln.Accept()
				accCh <- res{c, err}
			}()
			ml.Push(a)
			synctest.Wait() // quiescent: the upgrade has completed, failed, or waits for a (virtual) timeout
			select {
			case lres = <-accCh:
			default:
				time.Sleep(c01uTimeout + 10*time.Second)
				synctest.Wait()
				select {
				case lres = <-accCh:
				default:
					lres.err = fmt.Errorf("Accept yielded nothing")
				}
			}
			ln.Close()
			synctest.Wait()
			if lres.c == nil {
				select {
				case late := <-accCh:
					lres.c = late.c // a connection must not slip out unjudged
				default:
				}
			}
		case "tcp-dial":
			d := &c01uDialer{conn: a, ready: start}
			tr, err := tcp.NewTCPTransport(lu, rm, nil, tcp.WithDialerForAddr(func(ma.Multiaddr) (tcp.ContextDialer, error) { return d, nil }))
			if err != nil {
				o.Infra = err.Error()
				return
			}
			dctx := ctx
			switch cs.Role {
			case "simconnect-client":
				dctx = network.WithSimultaneousConnect(ctx, true, "c01")
			case "simconnect-server":
				dctx = network.WithSimultaneousConnect(ctx, false, "c01")
			}
			lres.c, lres.err = tr.Dial(dctx, c01uAddrR, expect)
			d.once.Do(func() { close(start) }) // the dial failed before it reached the dialer
		}
		if lres.c == nil {
			// what a transport does when the upgrade fails; lets the remote end see EOF instead of its timeout
			a.Close()
		}
		rres := <-remoteCh
		o.Local = c01uSideOf(lres.c, lres.err, R)
		o.Remote = c01uSideOf(rres.c, rres.err, keys.L)
		if g != nil {
			g.mu.Lock()
			o.GaterSaw = append([]peer.ID{}, g.secured...)
			g.mu.Unlock()
		}
		// ---- teardown ----
		if lres.c != nil {
			lres.c.Close()
		}
		if rres.c != nil {
			rres.c.Close()
		}
		a.Close()
		b.Close()
		synctest.Wait()
	})
	return
}

// ---------- the oracle ----------

func c01uLegal(cs c01uCase) bool {
	// an outbound upgrade needs a peer (ErrNilPeer)
	if !cs.localInbound() && cs.Expect == "none" {
		return false
	}
	return true
}

func c01uJudge(cs c01uCase, keys c01uKeys, o c01uObs) (class string, findings [][2]string) {
	bad := func(key, f string, a ...any) { findings = append(findings, [2]string{key, fmt.Sprintf(f, a...)}) }
	R := keys.byName(cs.Remote)
	where := cs.Entry + "/" + cs.Role
	names := map[peer.ID]string{keys.L.ID: "L", keys.P.ID: "P", keys.Q.ID: "Q"}
	name := func(p peer.ID) string {
		if n, ok := names[p]; ok {
			return n
		}
		return "unknown(" + p.String() + ")"
	}
	// local side
	if o.Local.Got {
		if o.Local.Peer != R.ID || !o.Local.KeyOK {
			bad("wrong-remote-peer-reported/"+where, "the remote endpoint used the private key of %s, the connection reports RemotePeer=%s (RemotePublicKey is the endpoint's: %v)", cs.Remote, name(o.Local.Peer), o.Local.KeyOK)
		}
		if cs.Expect != "none" && cs.Expect != cs.Remote {
			bad("connection-for-unexpected-peer/"+where, "the local side named %s, the endpoint is %s, and the call returned a connection (reporting RemotePeer=%s)", cs.Expect, cs.Remote, name(o.Local.Peer))
		}
	}
	// remote side: the same real code in the opposite role
	if o.Remote.Got {
		if o.Remote.Peer != keys.L.ID || !o.Remote.KeyOK {
			bad("wrong-remote-peer-reported/remote-end", "the local endpoint used the private key of L, the remote side's connection reports RemotePeer=%s (key ok: %v)", name(o.Remote.Peer), o.Remote.KeyOK)
		}
		if cs.RemoteExpect != "none" && cs.RemoteExpect != "L" {
			bad("connection-for-unexpected-peer/remote-end", "the remote side named %s and got a connection to L", cs.RemoteExpect)
		}
	}
	mustSucceed := c01uLegal(cs) && (cs.Expect == "none" || cs.Expect == cs.Remote) && c01uCommonSec(cs.SecL, cs.SecR)
	if mustSucceed && (!o.Local.Got || !o.Remote.Got) {
		bad("honest-upgrade-failed/"+where, "positive control: honest matching endpoints did not both get a connection: local err=%q remote err=%q", o.Local.Err, o.Remote.Err)
	}
	rel := "expects-none"
	if cs.Expect != "none" {
		rel = "expects-the-remote"
		if cs.Expect != cs.Remote {
			rel = "expects-another-peer"
		}
	}
	out := "failed"
	if o.Local.Got {
		out = "connection(" + o.Local.Security + ")"
	}
	rout := "remote-failed"
	if o.Remote.Got {
		rout = "remote-connection"
	}
	class = fmt.Sprintf("%s %s common-security=%v -> %s, %s", where, rel, c01uCommonSec(cs.SecL, cs.SecR), out, rout)
	return
}

// ---------- enumeration ----------

type c01uEnv struct {
	Gater bool
	Rcmgr string
}

func c01uCases(thorough bool) []c01uCase {
	secPairs := [][2]string{{"noise", "noise"}, {"tls", "tls"}, {"noise,tls", "tls,noise"}, {"tls,noise", "noise,tls"}, {"noise,tls", "noise"}, {"tls", "noise,tls"}, {"noise", "tls"}}
	tcpSecPairs := secPairs[:3]
	envs := []c01uEnv{{false, "none"}, {true, "real"}, {true, "real+peer-preset"}}
	tcpEnvs := []c01uEnv{{false, "none"}, {true, "real"}}
	keyL := []int{ic.Ed25519}
	psks := []bool{false}
	if thorough {
		secPairs = nil
		for _, l := range []string{"noise", "tls", "noise,tls", "tls,noise"} {
			for _, r := range []string{"noise", "tls", "noise,tls", "tls,noise"} {
				secPairs = append(secPairs, [2]string{l, r})
			}
		}
		tcpSecPairs = secPairs
		envs = []c01uEnv{{false, "none"}, {true, "none"}, {false, "real"}, {true, "real"}, {false, "real+peer-preset"}, {true, "real+peer-preset"}}
		tcpEnvs = []c01uEnv{{false, "none"}, {true, "none"}, {false, "real"}, {true, "real"}}
		keyL = c01wire.KeyTypes
		psks = []bool{false, true}
	}
	type shape struct{ entry, role, expect, rexpect string }
	var shapes []shape
	for _, role := range []string{"outbound", "inbound"} {
		for _, ex := range []string{"none", "P", "Q"} {
			if role == "outbound" {
				// the remote end accepts: as an ordinary listener (nobody named) or itself in a simultaneous connect (L named)
				shapes = append(shapes, shape{"upgrade", role, ex, "none"}, shape{"upgrade", role, ex, "L"})
			} else {
				shapes = append(shapes, shape{"upgrade", role, ex, "L"})
			}
		}
	}
	shapes = append(shapes, shape{"listener", "inbound", "none", "L"})
	for _, role := range []string{"plain", "simconnect-client", "simconnect-server"} {
		for _, ex := range []string{"P", "Q"} {
			if role == "simconnect-server" {
				shapes = append(shapes, shape{"tcp-dial", role, ex, "L"})
			} else {
				shapes = append(shapes, shape{"tcp-dial", role, ex, "none"}, shape{"tcp-dial", role, ex, "L"})
			}
		}
	}
	var out []c01uCase
	for _, sh := range shapes {
		sp, ev := secPairs, envs
		if sh.entry == "tcp-dial" {
			sp, ev = tcpSecPairs, tcpEnvs
		}
		for _, remote := range []string{"P", "Q"} {
			for _, s := range sp {
				for _, kl := range keyL {
					for i, kp := range c01wire.KeyTypes {
						kq := c01wire.KeyTypes[(i+1)%len(c01wire.KeyTypes)]
						for _, early := range []bool{false, true} {
							for _, e := range ev {
								if sh.entry != "upgrade" && e.Rcmgr == "real+peer-preset" {
									continue // the listener and the TCP transport open the scope themselves
								}
								for _, psk := range psks {
									out = append(out, c01uCase{Entry: sh.entry, Role: sh.role, Expect: sh.expect, Remote: remote, RemoteExpect: sh.rexpect,
										SecL: s[0], SecR: s[1], KeyL: c01wire.TypeName(kl), KeyP: c01wire.TypeName(kp), KeyQ: c01wire.TypeName(kq),
										EarlyMux: early, Gater: e.Gater, Rcmgr: e.Rcmgr, PSK: psk})
								}
							}
						}
					}
				}
			}
		}
	}
	return out
}

func c01uTypeByName(n string) int {
	for _, t := range c01wire.KeyTypes {
		if c01wire.TypeName(t) == n {
			return t
		}
	}
	return ic.Ed25519
}

func TestVerifC01Upgrader(t *testing.T) {
	r := vrep.New("C01", "upgrader")
	defer r.Flush()
	var replay *c01uCase
	if p := vrep.ReplayPath(); p != "" {
		var rf struct {
			Part   string   `json:"part"`
			Replay c01uCase `json:"replay"`
		}
		b, err := os.ReadFile(p)
		if err != nil || json.Unmarshal(b, &rf) != nil || rf.Part != "upgrader" {
			return
		}
		if s, _ := vrep.Shard(); s != 0 {
			return
		}
		replay = &rf.Replay
	}
	cases := c01uCases(vrep.Thorough() || replay != nil)
	r.Bounds["entries"] = "Upgrader.Upgrade x {outbound, inbound}; UpgradeListener.Accept; TcpTransport.Dial x {plain, simultaneous-connect client, simultaneous-connect server} over an in-memory dialer"
	r.Bounds["local_expects"] = []string{"none", "P", "Q"}
	r.Bounds["remote_is"] = []string{"P", "Q"}
	r.Bounds["remote_expects"] = []string{"none (ordinary listener)", "L"}
	r.Bounds["security_transports"] = "real Noise / TLS; one or both per side, both preference orders (multistream-select)"
	r.Bounds["identity_key_types"] = "remote P: ed25519, ecdsa, secp256k1, rsa2048 (Q: the next type); local: ed25519 (thorough: all four)"
	r.Bounds["muxer"] = "yamux, negotiated inside the handshake / by multistream-select"
	r.Bounds["environment"] = "connection gater x resource manager {none, real, real with the peer already set on the scope}; thorough: also a private-network PSK"
	r.Bounds["cases"] = len(cases)
	deadline := vrep.Deadline().Add(-5 * time.Second)
	shard, nshards := vrep.Shard()
	distinct := map[string]struct{}{}
	nsamples := 0
	for idx, cs := range cases {
		if replay != nil {
			if cs != *replay {
				continue
			}
		} else if idx%nshards != shard {
			continue
		}
		if time.Now().After(deadline) {
			r.Cap("deadline reached after %d cases", r.Executions)
			break
		}
		var keys c01uKeys
		var kerr error
		get := func(typ string, i int) *c01wire.Key {
			k, err := c01wire.GenKey(vrep.Seed(), c01uTypeByName(typ), 100+i)
			if err != nil {
				kerr = err
			}
			return k
		}
		keys.L, keys.P, keys.Q = get(cs.KeyL, 0), get(cs.KeyP, 1), get(cs.KeyQ, 2)
		if kerr != nil {
			r.Cap("infrastructure (no verdict): %v", kerr)
			continue
		}
		o := c01uRun(t, cs, keys)
		if replay != nil {
			fmt.Printf("REPLAY %+v\n  local: %+v\n  remote: %+v\n  gater saw: %v infra=%q\n", cs, o.Local, o.Remote, o.GaterSaw, o.Infra)
		}
		if o.Infra != "" {
			r.Cap("infrastructure (no verdict): %s in %+v", o.Infra, cs)
			continue
		}
		r.Executions++
		class, findings := c01uJudge(cs, keys, o)
		r.Outcome(class)
		if cs.Gater && o.Local.Got {
			ok := len(o.GaterSaw) > 0
			for _, p := range o.GaterSaw {
				ok = ok && p == keys.byName(cs.Remote).ID
			}
			r.Outcome(fmt.Sprintf("gater was shown the endpoint's identity: %v", ok))
		}
		distinct[fmt.Sprintf("%s|%s|%s|%s|%s|%s|%s|%v|%v|%s|%v", class, cs.Remote, cs.RemoteExpect, cs.SecL, cs.SecR, cs.KeyL, cs.KeyP, cs.EarlyMux, cs.Gater, cs.Rcmgr, cs.PSK)] = struct{}{}
		if len(findings) == 0 && cs.Expect != "none" && cs.Expect != cs.Remote && cs.localInbound() && nsamples < 2 && shard == 0 && idx%7 == 0 {
			nsamples++
			r.Sample(map[string]any{"case": cs, "local": o.Local, "remote": o.Remote, "verdict": "ok"})
		}
		seen := map[string]bool{}
		for _, fd := range findings {
			if !seen[fd[0]] {
				seen[fd[0]] = true
				r.Violate(fd[0], fmt.Sprintf("%+v: %s [local=%+v remote=%+v]", cs, fd[1], o.Local, o.Remote), cs)
			}
		}
	}
	r.Distinct = int64(len(distinct))
}
