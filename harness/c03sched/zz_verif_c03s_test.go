//go:build verif

package rcmgr

// C03, concurrent part. Engine E2: package rcmgr instrumented (every scope mutex is a scheduling point); small
// closed scenarios of 2-3 threads whose operations are forced to collide on one limit. Oracle: at every
// scheduling point every scope is within [0, limit]; at quiescence every scope reports exactly the sum of what
// the operations that succeeded still hold (the holdings follow from which calls returned nil, independent
// of their order, so this is the linearisability check of the statement specialised to these scenarios);
// after the last Done everything reads zero; no deadlock, no panic.

import (
	"fmt"
	"math"
	"net/netip"
	"os"
	"sort"
	"strings"
	"testing"
	"time"

	"github.com/libp2p/go-libp2p/core/network"
	"github.com/libp2p/go-libp2p/core/peer"
	"github.com/libp2p/go-libp2p/core/protocol"
	"github.com/libp2p/go-libp2p/x/rate"
	"github.com/libp2p/go-libp2p/x/verif/vrep"
	vs "github.com/libp2p/go-libp2p/x/verif/vsched"
	ma "github.com/multiformats/go-multiaddr"
)

// ---- ledger of what the successful operations hold ----

type c03sUse struct {
	connsIn, connsOut, streamsIn, streamsOut, fd int
	mem                                          int64
}

func (u *c03sUse) add(o c03sUse) {
	u.connsIn += o.connsIn
	u.connsOut += o.connsOut
	u.streamsIn += o.streamsIn
	u.streamsOut += o.streamsOut
	u.fd += o.fd
	u.mem += o.mem
}

func (u c03sUse) String() string {
	return fmt.Sprintf("{cIn:%d cOut:%d sIn:%d sOut:%d fd:%d mem:%d}", u.connsIn, u.connsOut, u.streamsIn, u.streamsOut, u.fd, u.mem)
}

type c03sHolder struct {
	name   string
	use    c03sUse  // what the holder's own scope holds (spans included)
	scopes []string // scopes it is charged to
	open   bool
}

type c03sLedger struct{ holders []*c03sHolder }

func (l *c03sLedger) conn(name string, dir network.Direction, fd bool) *c03sHolder {
	h := &c03sHolder{name: name, open: true, scopes: []string{"transient", "system"}}
	if dir == network.DirInbound {
		h.use.connsIn = 1
	} else {
		h.use.connsOut = 1
	}
	if fd {
		h.use.fd = 1
	}
	vs.Locked(func() { l.holders = append(l.holders, h) })
	return h
}

func (l *c03sLedger) stream(name string, p string, dir network.Direction) *c03sHolder {
	h := &c03sHolder{name: name, open: true, scopes: []string{"peer:" + p, "transient", "system"}}
	if dir == network.DirInbound {
		h.use.streamsIn = 1
	} else {
		h.use.streamsOut = 1
	}
	vs.Locked(func() { l.holders = append(l.holders, h) })
	return h
}

func (l *c03sLedger) direct(name, scope string, mem int64, chain ...string) *c03sHolder {
	h := &c03sHolder{name: name, open: true, scopes: append([]string{scope}, chain...)}
	h.use.mem = mem
	l.holders = append(l.holders, h)
	return h
}

func (l *c03sLedger) expected() map[string]c03sUse {
	out := map[string]c03sUse{}
	for _, h := range l.holders {
		if !h.open {
			continue
		}
		for _, s := range h.scopes {
			u := out[s]
			u.add(h.use)
			out[s] = u
		}
	}
	return out
}

// ---- scenario plumbing ----

type c03sEnv struct {
	x   *vs.Exec
	rm  *resourceManager
	led *c03sLedger
	// closers run in the release phase (each calls Done on one holder and marks it closed)
	closers []func()
}

type c03sScn struct {
	Name   string
	Limits func(c *ConcreteLimitConfig)
	Opts   []Option
	Setup  func(e *c03sEnv)   // sequential, under the scheduler, before the race
	Race   []func(e *c03sEnv) // one thread each
	Names  []string           // thread names
	Probe  func(e *c03sEnv)   // sequential, under the scheduler, after the race was audited
}

var (
	c03sP  = peer.ID("12D3KooWPeerA")
	c03sQ  = protocol.ID("/verif/q")
	c03sS  = "verif-svc"
	c03sA1 = ma.StringCast("/ip4/1.2.3.4/tcp/1001")
	c03sA2 = ma.StringCast("/ip4/1.2.3.5/tcp/1002")
)

func c03sStatOf(rs *resourceScope) c03sUse {
	return c03sUse{rs.rc.nconnsIn, rs.rc.nconnsOut, rs.rc.nstreamsIn, rs.rc.nstreamsOut, rs.rc.nfd, rs.rc.memory}
}

func c03sScopes(rm *resourceManager) map[string]*resourceScope {
	out := map[string]*resourceScope{"system": rm.system.resourceScope, "transient": rm.transient.resourceScope}
	if rm.allowlistedSystem != nil {
		out["alsystem"] = rm.allowlistedSystem.resourceScope
		out["altransient"] = rm.allowlistedTransient.resourceScope
	}
	for p, s := range rm.peer {
		out["peer:"+string(p)] = s.resourceScope
	}
	for q, s := range rm.proto {
		out["proto:"+string(q)] = s.resourceScope
		for p, ps := range s.peers {
			out["protopeer:"+string(q)+":"+string(p)] = ps
		}
	}
	for n, s := range rm.svc {
		out["svc:"+n] = s.resourceScope
		for p, ps := range s.peers {
			out["svcpeer:"+n+":"+string(p)] = ps
		}
	}
	return out
}

type c03sInvErr struct{ key, msg string }

func (e *c03sInvErr) Error() string { return e.msg }
func (e *c03sInvErr) VKey() string  { return e.key }

// c03sInvariant: evaluated between steps while every thread is stopped: 0 <= usage <= limit in every scope.
func c03sInvariant(rm *resourceManager) func() error {
	return func() error {
		for name, rs := range c03sScopes(rm) {
			u := c03sStatOf(rs)
			if u.connsIn < 0 || u.connsOut < 0 || u.streamsIn < 0 || u.streamsOut < 0 || u.fd < 0 || u.mem < 0 {
				return &c03sInvErr{"usage-negative", fmt.Sprintf("scope %s reports negative usage %v", name, u)}
			}
			l := rs.rc.limit
			if l == nil {
				continue
			}
			if u.connsIn > l.GetConnLimit(network.DirInbound) || u.connsOut > l.GetConnLimit(network.DirOutbound) || u.connsIn+u.connsOut > l.GetConnTotalLimit() ||
				u.streamsIn > l.GetStreamLimit(network.DirInbound) || u.streamsOut > l.GetStreamLimit(network.DirOutbound) || u.streamsIn+u.streamsOut > l.GetStreamTotalLimit() ||
				u.fd > l.GetFDLimit() || (l.GetMemoryLimit() != math.MaxInt64 && u.mem > l.GetMemoryLimit()) {
				return &c03sInvErr{"usage-above-limit", fmt.Sprintf("scope %s holds %v, above its limit %+v", name, u, l)}
			}
		}
		return nil
	}
}

func c03sBody(sc c03sScn) func(x *vs.Exec) {
	return func(x *vs.Exec) {
		s := x.S
		cfg := InfiniteLimits
		if sc.Limits != nil {
			sc.Limits(&cfg)
		}
		opts := append([]Option{WithMetricsDisabled(), WithConnRateLimiters(&rate.Limiter{})}, sc.Opts...)
		rmi, err := NewResourceManager(NewFixedLimiter(cfg), opts...)
		if err != nil {
			panic(err)
		}
		rm := rmi.(*resourceManager)
		e := &c03sEnv{x: x, rm: rm, led: &c03sLedger{}}
		s.SetInvariant(c03sInvariant(rm))
		if sc.Setup != nil {
			s.Go("setup", func() { sc.Setup(e) })
			if !s.Run() && !s.Free {
				c03sFailRun(x, s, "setup")
				return
			}
		}
		for i, f := range sc.Race {
			name := fmt.Sprintf("t%d", i)
			if i < len(sc.Names) {
				name = sc.Names[i]
			}
			s.Go(name, func() { f(e) })
		}
		ok := s.Run()
		if !ok {
			c03sFailRun(x, s, "race")
		}
		if ok {
			// quiescent: every scope reports exactly the sum of the holders
			c03sAudit(x, e, "after the race")
		}
		x.Outcome = c03sOutcome(e)
		if ok && x.VioKey == "" && sc.Probe != nil && !s.Free {
			s.Go("probe", func() { sc.Probe(e) })
			if !s.Run() {
				c03sFailRun(x, s, "probe")
				ok = false
			} else {
				c03sAudit(x, e, "after the probe")
			}
		}
		// release everything, then every scope reads zero
		if ok && x.VioKey == "" {
			s.Go("release", func() {
				for _, c := range e.closers {
					c()
				}
			})
			if !s.Run() && !s.Free {
				c03sFailRun(x, s, "release")
			} else {
				for _, h := range e.led.holders {
					if h.open {
						x.Fail("harness-holder-not-released", "holder %s was not released by the scenario", h.name)
					}
				}
				c03sAudit(x, e, "after the last Done")
				for name, rs := range c03sScopes(rm) {
					if u := c03sStatOf(rs); u != (c03sUse{}) {
						x.Fail("not-zero-after-last-done", "scope %s still holds %v after every holder was released", name, u)
					}
				}
				for i, v := range append(append([]int{}, rm.connLimiter.connsPerNetworkPrefixV4...), rm.connLimiter.connsPerNetworkPrefixV6...) {
					if v != 0 {
						x.Fail("subnet-counter-not-zero", "network prefix counter #%d = %d after every connection was released", i, v)
					}
				}
				if n := len(rm.connLimiter.ip4connsPerLimit) + len(rm.connLimiter.ip6connsPerLimit); n > 0 {
					for _, m := range append(rm.connLimiter.ip4connsPerLimit, rm.connLimiter.ip6connsPerLimit...) {
						for k, v := range m {
							if v != 0 {
								x.Fail("subnet-counter-not-zero", "subnet counter %v=%d after every connection was released", k, v)
							}
						}
					}
				}
			}
		}
		s.SetInvariant(nil)
		s.Go("teardown", func() { rm.Close() })
		s.Drain()
	}
}

func c03sFailRun(x *vs.Exec, s *vs.Sched, phase string) {
	switch {
	case s.Deadlock != "":
		x.Fail("deadlock", "%s phase: threads blocked forever: %s", phase, s.Deadlock)
	}
}

func c03sOutcome(e *c03sEnv) string {
	var parts []string
	for _, h := range e.led.holders {
		parts = append(parts, fmt.Sprintf("%s%v", h.name, h.scopes))
	}
	sort.Strings(parts)
	return strings.Join(parts, " ")
}

func c03sAudit(x *vs.Exec, e *c03sEnv, when string) {
	exp := e.led.expected()
	for name, rs := range c03sScopes(e.rm) {
		got := c03sStatOf(rs)
		if want := exp[name]; got != want && !strings.HasPrefix(name, "protopeer:") && !strings.HasPrefix(name, "svcpeer:") {
			x.Fail("usage-differs-from-sum-of-holders", "%s: scope %s reports %v, the open holders charged to it hold %v (holders: %s)", when, name, got, want, c03sOutcome(e))
			return
		}
	}
	for name, want := range exp {
		if want == (c03sUse{}) {
			continue
		}
		if _, ok := c03sScopes(e.rm)[name]; !ok {
			x.Fail("usage-differs-from-sum-of-holders", "%s: scope %s does not exist although open holders charged to it hold %v", when, name, want)
			return
		}
	}
}

// ---- helpers used by the scenario threads ----

func (e *c03sEnv) openConn(name string, dir network.Direction, fd bool, addr ma.Multiaddr) (network.ConnManagementScope, *c03sHolder) {
	c, err := e.rm.OpenConnection(dir, fd, addr)
	if err != nil {
		return nil, nil
	}
	h := e.led.conn(name, dir, fd)
	return c, h
}

// openConnAny is openConn for scenarios with an allow list: a connection admitted through the allow-list
// fallback is charged to the allow-listed transient / system scopes.
func (e *c03sEnv) openConnAny(name string, dir network.Direction, fd bool, addr ma.Multiaddr) (network.ConnManagementScope, *c03sHolder) {
	c, h := e.openConn(name, dir, fd, addr)
	if c != nil && c.(*connectionScope).isAllowlisted {
		h.scopes = []string{"altransient", "alsystem"}
	}
	if h != nil {
		h.name += "@" + addr.String()
	}
	return c, h
}

// c03sSubnetProbe: with k connections from the IP of addr open, keeps opening connections from it until one is
// refused; the number open at the same time must never exceed cap.
func c03sSubnetProbe(cap int, addr ma.Multiaddr) func(e *c03sEnv) {
	return func(e *c03sEnv) {
		ip, _ := addr.ValueForProtocol(ma.P_IP4)
		open := func() int {
			n := 0
			for _, h := range e.led.holders {
				if h.open && strings.Contains(h.name, "@/ip4/"+ip+"/") {
					n++
				}
			}
			return n
		}
		for i := 0; i <= cap+1; i++ {
			if n := open(); n > cap {
				e.x.Fail("subnet-cap-exceeded", "%d connections from %s are open at the same time, the per-subnet cap is %d (holders: %s)", n, ip, cap, c03sOutcome(e))
				return
			}
			c, h := e.openConnAny(fmt.Sprintf("probe%d", i), network.DirInbound, false, addr)
			if c == nil {
				return
			}
			e.closeLater(c, h)
		}
	}
}

func (e *c03sEnv) setPeer(c network.ConnManagementScope, h *c03sHolder, p peer.ID) bool {
	if c == nil {
		return false
	}
	if err := c.SetPeer(p); err != nil {
		return false
	}
	h.scopes = []string{"peer:" + string(p), "system"}
	return true
}

func (e *c03sEnv) openStream(name string, p peer.ID, dir network.Direction) (network.StreamManagementScope, *c03sHolder) {
	st, err := e.rm.OpenStream(p, dir)
	if err != nil {
		return nil, nil
	}
	return st, e.led.stream(name, string(p), dir)
}

func (e *c03sEnv) setProtocol(st network.StreamManagementScope, h *c03sHolder, p peer.ID, q protocol.ID) bool {
	if st == nil {
		return false
	}
	if err := st.SetProtocol(q); err != nil {
		return false
	}
	h.scopes = []string{"peer:" + string(p), "proto:" + string(q), "system"}
	return true
}

func (e *c03sEnv) setService(st network.StreamManagementScope, h *c03sHolder, p peer.ID, q protocol.ID, svc string) bool {
	if st == nil {
		return false
	}
	if err := st.SetService(svc); err != nil {
		return false
	}
	h.scopes = []string{"peer:" + string(p), "proto:" + string(q), "svc:" + svc, "system"}
	return true
}

type c03sDoner interface{ Done() }

func (e *c03sEnv) closeLater(d c03sDoner, h *c03sHolder) {
	if d == nil || h == nil {
		return
	}
	vs.Locked(func() {
		e.closers = append(e.closers, func() {
			if h.open {
				d.Done()
				h.open = false
			}
		})
	})
}

func (e *c03sEnv) done(d c03sDoner, h *c03sHolder) {
	if d == nil || h == nil {
		return
	}
	d.Done()
	h.open = false
}

func c03sOne(b *BaseLimit) {
	b.Streams, b.StreamsInbound, b.StreamsOutbound = 1, 1, 1
	b.Conns, b.ConnsInbound, b.ConnsOutbound, b.FD = 1, 1, 1, 1
}

func c03sScenarios(thorough bool) []c03sScn {
	streamThread := func(i int, limitHit *int) func(e *c03sEnv) {
		return func(e *c03sEnv) {
			st, h := e.openStream(fmt.Sprintf("stream%d", i), c03sP, network.DirOutbound)
			e.setProtocol(st, h, c03sP, c03sQ)
			e.closeLater(st, h)
		}
	}
	scs := []c03sScn{
		{Name: "two streams of one peer and protocol, protocol stream limit 1",
			Limits: func(c *ConcreteLimitConfig) { c03sOne(&c.protocolDefault) },
			Race:   []func(*c03sEnv){streamThread(0, nil), streamThread(1, nil)}},
		{Name: "two streams of one peer, system stream limit 1, one sets protocol and service",
			Limits: func(c *ConcreteLimitConfig) { c03sOne(&c.system) },
			Race: []func(*c03sEnv){
				func(e *c03sEnv) {
					st, h := e.openStream("streamA", c03sP, network.DirInbound)
					if e.setProtocol(st, h, c03sP, c03sQ) {
						e.setService(st, h, c03sP, c03sQ, c03sS)
					}
					e.closeLater(st, h)
				},
				func(e *c03sEnv) {
					st, h := e.openStream("streamB", c03sP, network.DirInbound)
					e.done(st, h)
					st2, h2 := e.openStream("streamB2", c03sP, network.DirOutbound)
					e.closeLater(st2, h2)
				}}},
		{Name: "new connection attaches to the peer while the peer's only allowed connection closes (peer conn limit 1)",
			Limits: func(c *ConcreteLimitConfig) { c03sOne(&c.peerDefault) },
			Setup: func(e *c03sEnv) {
				c, h := e.openConn("conn0", network.DirInbound, true, c03sA1)
				e.setPeer(c, h, c03sP)
				e.x.Data = []any{c, h}
			},
			Race: []func(*c03sEnv){
				func(e *c03sEnv) {
					d := e.x.Data.([]any)
					e.done(d[0].(network.ConnManagementScope), d[1].(*c03sHolder))
				},
				func(e *c03sEnv) {
					c, h := e.openConn("conn1", network.DirInbound, true, c03sA2)
					e.setPeer(c, h, c03sP)
					e.closeLater(c, h)
				}}},
		{Name: "two spans of one stream reserve memory, stream memory limit admits one",
			Limits: func(c *ConcreteLimitConfig) { c.stream.Memory = 100 },
			Setup: func(e *c03sEnv) {
				st, h := e.openStream("stream", c03sP, network.DirOutbound)
				e.x.Data = []any{st, h}
				e.closeLater(st, h)
			},
			Race: []func(*c03sEnv){
				func(e *c03sEnv) { c03sSpanReserve(e, 60, true) },
				func(e *c03sEnv) { c03sSpanReserve(e, 60, false) }}},
		{Name: "two connections attach to one peer (peer conn limit 1) while a third thread opens a stream",
			Limits: func(c *ConcreteLimitConfig) {
				c03sOne(&c.peerDefault)
				c.peerDefault.Streams, c.peerDefault.StreamsOutbound = 1, 1
			},
			Race: []func(*c03sEnv){
				func(e *c03sEnv) {
					c, h := e.openConn("connA", network.DirOutbound, true, c03sA1)
					if !e.setPeer(c, h, c03sP) {
						e.done(c, h)
					}
					e.closeLater(c, h)
				},
				func(e *c03sEnv) {
					c, h := e.openConn("connB", network.DirOutbound, true, c03sA2)
					if !e.setPeer(c, h, c03sP) {
						e.done(c, h)
					}
					e.closeLater(c, h)
				},
				func(e *c03sEnv) {
					st, h := e.openStream("stream", c03sP, network.DirOutbound)
					e.setProtocol(st, h, c03sP, c03sQ)
					e.closeLater(st, h)
				}}},
		{Name: "two connections from one allow-listed IP race through the allow-list fallback, network prefix cap 1",
			Limits: func(c *ConcreteLimitConfig) { c.system.Conns, c.system.ConnsInbound, c.system.ConnsOutbound = 0, 0, 0 },
			Opts: []Option{WithAllowlistedMultiaddrs([]ma.Multiaddr{ma.StringCast("/ip4/1.2.3.4")}),
				// (an allow-listed network without a prefix limit of its own gets one with the allow-listed system
				// connection limit, which takes precedence over the per-subnet limits: the cap must be given this way)
				WithNetworkPrefixLimit([]NetworkPrefixLimit{{Network: netip.MustParsePrefix("1.2.3.4/32"), ConnCount: 1}}, nil)},
			Race: []func(*c03sEnv){
				func(e *c03sEnv) {
					c, h := e.openConnAny("connA", network.DirInbound, false, c03sA1)
					e.closeLater(c, h)
				},
				func(e *c03sEnv) {
					c, h := e.openConnAny("connB", network.DirInbound, false, ma.StringCast("/ip4/1.2.3.4/tcp/1003"))
					e.closeLater(c, h)
				}},
			Probe: c03sSubnetProbe(1, c03sA1)},
		{Name: "scope garbage collection races a stream open and close on an idle peer and protocol",
			Setup: func(e *c03sEnv) {
				st, h := e.openStream("warm", c03sP, network.DirOutbound)
				e.setProtocol(st, h, c03sP, c03sQ)
				e.done(st, h)
			},
			Race: []func(*c03sEnv){
				func(e *c03sEnv) { e.rm.gc() },
				func(e *c03sEnv) {
					st, h := e.openStream("stream", c03sP, network.DirOutbound)
					e.setProtocol(st, h, c03sP, c03sQ)
					e.closeLater(st, h)
				}}},
	}
	if thorough {
		scs = append(scs,
			c03sScn{Name: "allow-listed IP, system admits one connection, network prefix cap 2: two opens race a close",
				Limits: func(c *ConcreteLimitConfig) { c.system.Conns, c.system.ConnsInbound, c.system.ConnsOutbound = 1, 1, 1 },
				Opts: []Option{WithAllowlistedMultiaddrs([]ma.Multiaddr{ma.StringCast("/ip4/1.2.3.4")}),
					WithNetworkPrefixLimit([]NetworkPrefixLimit{{Network: netip.MustParsePrefix("1.2.3.4/32"), ConnCount: 2}}, nil)},
				Setup: func(e *c03sEnv) {
					c, h := e.openConnAny("conn0", network.DirInbound, false, c03sA1)
					e.x.Data = []any{c, h}
				},
				Race: []func(*c03sEnv){
					func(e *c03sEnv) {
						d := e.x.Data.([]any)
						e.done(d[0].(network.ConnManagementScope), d[1].(*c03sHolder))
					},
					func(e *c03sEnv) {
						c, h := e.openConnAny("connA", network.DirInbound, false, ma.StringCast("/ip4/1.2.3.4/tcp/1003"))
						e.closeLater(c, h)
					},
					func(e *c03sEnv) {
						c, h := e.openConnAny("connB", network.DirInbound, false, ma.StringCast("/ip4/1.2.3.4/tcp/1004"))
						e.closeLater(c, h)
					}},
				Probe: c03sSubnetProbe(2, c03sA1)},
			c03sScn{Name: "stream Done races a memory reservation on its span",
				Setup: func(e *c03sEnv) {
					st, h := e.openStream("stream", c03sP, network.DirOutbound)
					e.setProtocol(st, h, c03sP, c03sQ)
					e.x.Data = []any{st, h}
				},
				Race: []func(*c03sEnv){
					func(e *c03sEnv) {
						d := e.x.Data.([]any)
						e.done(d[0].(network.StreamManagementScope), d[1].(*c03sHolder))
					},
					func(e *c03sEnv) { c03sSpanReserve(e, 10, true) }}},
			c03sScn{Name: "three streams, peer stream limit 2, transient limit 1",
				Limits: func(c *ConcreteLimitConfig) {
					c.peerDefault.Streams, c.peerDefault.StreamsOutbound = 2, 2
					c.transient.Streams, c.transient.StreamsOutbound = 1, 1
				},
				Race: []func(*c03sEnv){streamThread(0, nil), streamThread(1, nil), streamThread(2, nil)}},
		)
	}
	return scs
}

// c03sSpanReserve: a span on the shared stream reserves memory; the span's memory counts inside the stream
// holder while the span (and the stream) is open.
func c03sSpanReserve(e *c03sEnv, n int, keep bool) {
	d := e.x.Data.([]any)
	st := d[0].(network.StreamManagementScope)
	h := d[1].(*c03sHolder)
	span, err := st.BeginSpan()
	if err != nil {
		return
	}
	if err := span.ReserveMemory(n, network.ReservationPriorityAlways); err == nil {
		if h.open {
			h.use.mem += int64(n)
		}
		if !keep {
			span.ReleaseMemory(n)
			if h.open {
				h.use.mem -= int64(n)
			}
		} else {
			e.closers = append([]func(){func() {
				if h.open {
					h.use.mem -= int64(n)
				}
				span.Done()
			}}, e.closers...)
			return
		}
	}
	span.Done()
}

func c03sScenario(sc c03sScn) *vs.Scenario {
	return &vs.Scenario{Name: sc.Name, Body: c03sBody(sc), LeakIsViolation: true,
		Opt: vs.Options{Horizon: 2 * time.Second, IdleStep: time.Second, MaxSteps: 5000}}
}

func TestVerifC03Sched(t *testing.T) {
	scs := c03sScenarios(vrep.Thorough())
	if p := vrep.ReplayPath(); p != "" {
		rp, err := vs.LoadReplay(p)
		if err != nil {
			t.Skip("not a scheduler replay")
		}
		for _, sc := range c03sScenarios(true) {
			if sc.Name == rp.Scenario {
				x := vs.Replay(t, c03sScenario(sc), rp.Choices)
				fmt.Fprintf(os.Stdout, "REPLAY %s choices=%v\n%s\nverdict: key=%q %s\npanic=%s outcome=%s\n", sc.Name, rp.Choices, strings.Join(x.S.Log, "\n"), x.VioKey, x.VioDesc, x.Panic, x.Outcome)
				return
			}
		}
		return
	}
	if vs.FreeMode() {
		// free-running pass for the race detector (validates the data-race-freedom assumption of the scheduler)
		r := vrep.New("C03", "race-pass")
		dl := vrep.Deadline()
		n := 0
		for time.Now().Before(dl) {
			for _, sc := range scs {
				runs, _ := vs.FreeRun(t, c03sScenario(sc), 3, dl)
				n += runs
			}
		}
		r.Executions = int64(n)
		r.Note("free-running executions: %d", n)
		r.Flush()
		return
	}
	si, sn := vrep.Shard()
	bound := 3
	if vrep.Thorough() {
		bound = 4
	}
	r := vrep.New("C03", "rcmgr-schedules")
	r.Bounds["deviation_bound"] = bound
	r.Bounds["scenarios"] = len(scs)
	for i, sc := range scs {
		left := time.Until(vrep.Deadline())
		share := left / time.Duration(len(scs)-i)
		vs.Explore(t, c03sScenario(sc), vs.Config{MaxBound: bound, Deadline: time.Now().Add(share), ShardI: si, ShardN: sn, Property: "C03"}, r)
	}
	r.Flush()
}
