//go:build verif

package pstoreds

// C08 section (6): "for peer records consumed by a peerstore, only if the record's peer ID is the ID of the
// signing key". Both address books (pstoremem; pstoreds over an in-memory datastore, with and without its
// cache), a fresh instance per case. The record is really sealed by the signer and really passes
// ConsumeEnvelope before it is handed to the store, so the only thing wrong with it is the peer ID it names.

import (
	"context"
	"fmt"
	"testing"
	"time"

	"github.com/libp2p/go-libp2p/core/crypto"
	"github.com/libp2p/go-libp2p/core/peer"
	"github.com/libp2p/go-libp2p/core/record"
	"github.com/libp2p/go-libp2p/p2p/host/peerstore/pstoremem"
	"github.com/libp2p/go-libp2p/x/verif/vrep"

	ds "github.com/ipfs/go-datastore"
	dssync "github.com/ipfs/go-datastore/sync"
	ma "github.com/multiformats/go-multiaddr"
	mh "github.com/multiformats/go-multihash"
)

type c08Book interface {
	ConsumePeerRecord(*record.Envelope, time.Duration) (bool, error)
	GetPeerRecord(peer.ID) *record.Envelope
	Addrs(peer.ID) []ma.Multiaddr
	PeersWithAddrs() peer.IDSlice
	Close() error
}

type c08Store struct {
	name string
	mk   func(t testing.TB) c08Book
}

func c08Stores() []c08Store {
	dsBook := func(cache uint) func(t testing.TB) c08Book {
		return func(t testing.TB) c08Book {
			opts := DefaultOpts()
			opts.CacheSize = cache
			opts.GCPurgeInterval = 0 // no background GC goroutine; nothing here depends on time
			ab, err := NewAddrBook(context.Background(), dssync.MutexWrap(ds.NewMapDatastore()), opts)
			if err != nil {
				t.Fatalf("c08: pstoreds.NewAddrBook: %v", err)
			}
			return ab
		}
	}
	return []c08Store{
		{"pstoremem", func(testing.TB) c08Book { return pstoremem.NewAddrBook() }},
		{"pstoreds", dsBook(1024)},
		{"pstoreds-nocache", dsBook(0)},
	}
}

type c08Cand struct {
	kind string
	id   peer.ID
}

func TestVerifC08Peerstores(t *testing.T) {
	a := c08New(t, "peerstore-consume-peer-record")
	defer a.flush()
	keys := c08Keys(t, c08KeysPerType())
	stores := c08Stores()
	a.r.Bounds["signers"] = len(keys)
	a.r.Bounds["stores"] = []string{stores[0].name, stores[1].name, stores[2].name}
	a.r.Bounds["record_peer_ids"] = "the ID of every generated key; every single-bit edit and every truncation of the signer's own ID; the signer's key under the other multihash (sha2-256 for keys that are normally embedded, identity for keys that are normally hashed); identity multihashes over protobuf-level edits of the signer's marshalled key"
	addrs := []ma.Multiaddr{ma.StringCast("/ip4/1.2.3.4/tcp/4001"), ma.StringCast("/ip6/2001:db8::1/udp/4001/quic-v1")}
	for _, k := range keys {
		if a.stop {
			break
		}
		var cands []c08Cand
		for _, o := range keys {
			kind := "id-of-other-key"
			if o == k {
				kind = "id-of-signer"
			}
			cands = append(cands, c08Cand{kind, o.ID})
		}
		masks := []byte{0x01, 0x02, 0x04, 0x08, 0x10, 0x20, 0x40, 0x80}
		if k.Typ == crypto.RSA && !vrep.Thorough() {
			masks = []byte{0x01, 0x80} // RSA signing dominates the quick tier
		}
		for pos := range []byte(k.ID) {
			for _, m := range masks {
				b := []byte(k.ID)
				b[pos] ^= m
				cands = append(cands, c08Cand{"signer-id-bit-edit", peer.ID(b)})
			}
		}
		for n := 0; n < len(k.ID); n++ {
			cands = append(cands, c08Cand{"signer-id-truncated", k.ID[:n]})
		}
		alt := uint64(mh.SHA2_256)
		if dm, err := mh.Decode([]byte(k.ID)); err == nil && dm.Code == mh.SHA2_256 {
			alt = mh.IDENTITY
		}
		if h, err := mh.Sum(k.PubBytes, alt, -1); err == nil {
			cands = append(cands, c08Cand{"signer-key-under-other-multihash", peer.ID(h)})
		}
		c08StructMuts(k.PubBytes, nil, func(m c08Mut) bool {
			if h, err := mh.Sum(m.Data, mh.IDENTITY, -1); err == nil && peer.ID(h) != k.ID {
				cands = append(cands, c08Cand{"identity-multihash-of-edited-signer-key", peer.ID(h)})
			}
			return len(cands) < 4000
		})

		for ci, c := range cands {
			if a.over("peerstore cases") {
				break
			}
			if !a.mine() {
				continue
			}
			own := c.id == k.ID
			rec := &peer.PeerRecord{PeerID: c.id, Addrs: addrs, Seq: uint64(ci + 1)}
			env0, err := record.Seal(rec, k.Priv)
			if err != nil {
				t.Fatalf("c08: Seal: %v", err)
			}
			wire, err := env0.Marshal()
			if err != nil {
				t.Fatalf("c08: Marshal: %v", err)
			}
			var env *record.Envelope
			var cerr error
			if a.guard("ConsumeEnvelope", func() { env, _, cerr = record.ConsumeEnvelope(wire, peer.PeerRecordEnvelopeDomain) }) {
				continue
			}
			if cerr != nil {
				// the named ID is not even a multihash: refused before any store sees it
				a.exec("ConsumeEnvelope", wire, !own)
				a.r.Outcome(c.kind + ":rejected-by-ConsumeEnvelope")
				if own {
					a.baseline("ConsumeEnvelope rejects the honest peer record of %s: %v", k.Name, cerr)
				}
				continue
			}
			for _, st := range stores {
				a.exec(st.name, wire, !own)
				a.guard(st.name+".ConsumePeerRecord", func() {
					book := st.mk(t)
					defer book.Close()
					acc, err := book.ConsumePeerRecord(env, time.Hour)
					accepted := acc && err == nil
					// whatever it answered: what does the store now believe?
					stored := len(book.PeersWithAddrs()) > 0 || len(book.Addrs(c.id)) > 0 || len(book.Addrs(k.ID)) > 0 ||
						book.GetPeerRecord(c.id) != nil || book.GetPeerRecord(k.ID) != nil
					rp := map[string]any{"section": "peerstores", "store": st.name, "signer": k.Name, "signer_id": k.ID.String(), "record_peer_id": c08Hex([]byte(c.id)), "candidate": c.kind, "envelope": c08Hex(wire)}
					switch {
					case !own && (accepted || stored):
						a.r.Outcome(c.kind + ":ACCEPTED")
						a.r.Violate("peerstore-accepts-record-naming-foreign-peer-id", fmt.Sprintf("%s: record signed by %s (%s) naming peer ID %s [%s]: ConsumePeerRecord=(%v,%v), stored=%v", st.name, k.Name, k.ID, c.id, c.kind, acc, err, stored), rp)
					case !own:
						a.r.Outcome(c.kind + ":rejected-by-store")
					case !accepted:
						a.r.Outcome(c.kind + ":rejected-by-store")
						a.baseline("%s rejects the honest peer record of %s: (%v, %v)", st.name, k.Name, acc, err)
					default:
						a.r.Outcome(c.kind + ":accepted")
						got := book.GetPeerRecord(k.ID)
						var pr *peer.PeerRecord
						if got != nil {
							if r, err := got.Record(); err == nil {
								pr, _ = r.(*peer.PeerRecord)
							}
						}
						if got == nil || pr == nil || !got.PublicKey.Equals(k.Pub) || !pr.Equal(rec) || len(book.Addrs(k.ID)) != len(addrs) {
							a.r.Violate("peerstore-stores-different-record", fmt.Sprintf("%s: after accepting the honest record of %s the store returns a different record / signer / address set", st.name, k.Name), rp)
						}
					}
					if !own && st.name == "pstoreds" {
						a.sample(1, "", map[string]any{"signer": k.Name, "signer_id": k.ID.String(), "record_names": c.id.String(), "candidate": c.kind, "accepted": accepted})
					}
				})
			}
		}
	}
}

// TestVerifC08PeerstoreHistories: the same clause ("for peer records consumed by a peerstore, only if the record's peer
// ID is the ID of the signing key") against a store that already HOLDS the victim's genuine record: for every ordered
// pair (attacker k, victim o) of generated keys, every store, every relation of the forged record's sequence number to
// the stored one (lower, equal, higher) and both orders (genuine first / forged first): a record naming o's ID but
// sealed by k is never accepted, never changes what the store returns for o, and never keeps the genuine record out.
func TestVerifC08PeerstoreHistories(t *testing.T) {
	a := c08New(t, "peerstore-consume-after-history")
	defer a.flush()
	keys := c08Keys(t, c08KeysPerType())
	stores := c08Stores()
	a.r.Bounds["pairs"] = "every ordered (attacker, victim) pair of the generated keys"
	a.r.Bounds["forged_seq"] = "stored-1, stored, stored+1"
	a.r.Bounds["orders"] = "genuine record first, forged record first"
	good := []ma.Multiaddr{ma.StringCast("/ip4/1.2.3.4/tcp/4001")}
	evil := []ma.Multiaddr{ma.StringCast("/ip4/6.6.6.6/tcp/666"), ma.StringCast("/ip4/1.2.3.4/tcp/4001")}
	const seq0 = 5
	sameAddrs := func(x, y []ma.Multiaddr) bool {
		if len(x) != len(y) {
			return false
		}
		for _, a := range x {
			found := false
			for _, b := range y {
				found = found || a.Equal(b)
			}
			if !found {
				return false
			}
		}
		return true
	}
	seal := func(id peer.ID, addrs []ma.Multiaddr, seq uint64, k *c08Key) *record.Envelope {
		env0, err := record.Seal(&peer.PeerRecord{PeerID: id, Addrs: addrs, Seq: seq}, k.Priv)
		if err != nil {
			t.Fatalf("c08: Seal: %v", err)
		}
		wire, err := env0.Marshal()
		if err != nil {
			t.Fatalf("c08: Marshal: %v", err)
		}
		env, _, err := record.ConsumeEnvelope(wire, peer.PeerRecordEnvelopeDomain)
		if err != nil {
			t.Fatalf("c08: ConsumeEnvelope of a freshly sealed record: %v", err)
		}
		return env
	}
	for _, o := range keys {
		if a.stop {
			break
		}
		genuine := seal(o.ID, good, seq0, o)
		for _, k := range keys {
			if k == o || a.over("peerstore history cases") {
				continue
			}
			if (k.Typ == crypto.RSA || o.Typ == crypto.RSA) && !vrep.Thorough() && k.Typ != o.Typ {
				continue // RSA signing dominates the quick tier: RSA pairs only among themselves there
			}
			for _, ds := range []int{-1, 0, 1} {
				if !a.mine() {
					continue
				}
				forged := seal(o.ID, evil, uint64(seq0+ds), k)
				for _, st := range stores {
					for _, forgedFirst := range []bool{false, true} {
						a.exec(st.name, []byte(fmt.Sprintf("%s>%s seq%+d forgedFirst=%v", k.Name, o.Name, ds, forgedFirst)), true)
						a.guard(st.name+".ConsumePeerRecord", func() {
							book := st.mk(t)
							defer book.Close()
							rp := map[string]any{"section": "peerstore-histories", "store": st.name, "attacker": k.Name, "victim": o.Name, "forged_seq_minus_stored": ds, "forged_first": forgedFirst}
							consumeGenuine := func() bool {
								acc, err := book.ConsumePeerRecord(genuine, time.Hour)
								if !acc || err != nil {
									if forgedFirst {
										a.r.Violate("forged-record-keeps-genuine-record-out", fmt.Sprintf("%s: after a (refused) record naming %s sealed by %s, the genuine record of %s is refused: (%v,%v)", st.name, o.Name, k.Name, o.Name, acc, err), rp)
									} else {
										a.baseline("%s rejects the honest peer record of %s: (%v, %v)", st.name, o.Name, acc, err)
									}
									return false
								}
								return true
							}
							if !forgedFirst && !consumeGenuine() {
								return
							}
							acc, err := book.ConsumePeerRecord(forged, time.Hour)
							if acc && err == nil {
								a.r.Outcome(fmt.Sprintf("forged seq%+d forgedFirst=%v: ACCEPTED", ds, forgedFirst))
								a.r.Violate("peerstore-accepts-record-naming-foreign-peer-id", fmt.Sprintf("%s: %s's genuine record (seq %d) %s; a record naming %s with seq %d sealed by %s is accepted", st.name, o.Name, seq0,
									map[bool]string{false: "is stored", true: "is not yet stored"}[forgedFirst], o.Name, seq0+ds, k.Name), rp)
								return
							}
							a.r.Outcome(fmt.Sprintf("forged seq%+d forgedFirst=%v: rejected", ds, forgedFirst))
							if forgedFirst && !consumeGenuine() {
								return
							}
							got := book.GetPeerRecord(o.ID)
							if got == nil || !got.PublicKey.Equals(o.Pub) || !sameAddrs(book.Addrs(o.ID), good) || len(book.Addrs(k.ID)) != 0 {
								a.r.Violate("refused-forged-record-changed-the-store", fmt.Sprintf("%s: after the refused record naming %s sealed by %s (seq %d, forged first: %v) the store returns record=%v addrs(victim)=%v addrs(attacker)=%v", st.name, o.Name, k.Name, seq0+ds, forgedFirst,
									got != nil, book.Addrs(o.ID), book.Addrs(k.ID)), rp)
							}
						})
					}
				}
			}
		}
	}
}

