//go:build verif

package pstoreds

// C08 section (7): the SIZE boundaries of every key type belong to the input space of "for every supported key
// type, marshalling then unmarshalling a key yields an equal key" (and of the signature / peer-ID / envelope
// clauses that consume such keys).
//
//   RSA      every modulus size from MinRsaKeyBits-9 to MinRsaKeyBits+9, 3072, 4096, and from the maximum-136 to
//            the maximum+9 bits x 3 modulus patterns (only the top and the low bit set / all ones / seeded) x public
//            exponents {3, 65537, 2^31-1}: SYNTHETIC public keys (the key object a private key of that size hands
//            out through GetPublic - marshalling and unmarshalling never look at the factorisation), because real
//            generation near the maximum takes minutes; plus ONE real key of exactly the maximum size (generated
//            once, embedded below) for the private-key path, signatures, the peer ID and an envelope;
//   ECDSA    every curve GenerateECDSAKeyPairWithCurve / ECDSAKeyPairFromKey can be given (P-224, P-256, P-384,
//            P-521), a seeded key and the extreme scalars 1 and n-1 on each;
//   secp256k1 the extreme scalars 1 and n-1 (0 and n: recorded only);  Ed25519: the all-zero and all-0xff seeds.
//
// Which RSA sizes are "supported" is asked of the library itself: GenerateRSAKeyPair(bits, <failing reader>) says
// ErrRsaKeyTooSmall / ErrRsaKeyTooBig before it reads anything, and any other answer means a key of that size can
// be generated. Oracle: a key of a size the library can generate (and, for the real key, that it accepts as a
// private key) must marshal, and unmarshalling the result must give an Equals() key with the same bytes and the
// same peer ID. For sizes the generator refuses nothing is demanded except that an ACCEPTED key is the same key.

import (
	"bytes"
	"crypto/ecdsa"
	"crypto/elliptic"
	"encoding/base64"
	"errors"
	"fmt"
	"math/big"
	"testing"

	"github.com/libp2p/go-libp2p/core/crypto"
	"github.com/libp2p/go-libp2p/core/peer"
	"github.com/libp2p/go-libp2p/core/record"
)

// c08RealMaxRSA: PKCS#1 DER (base64) of a genuine RSA key whose modulus has exactly 8192 bits, generated once
// with crypto/rsa.GenerateKey by a throw-away program (43 s). A test key: it protects nothing.
const c08RealMaxRSA = "" +
	"MIISJwIBAAKCBAEAwHNIPe3tA4ZVYchJx5U4bJXcY2e1KILZL0wXHEcIlEy8K1IDnb+5lylYTs5SrYGgDxYrMmMTvj3QnX48KmB/JrDCHbZu+bA0Qdu77+Hu" +
	"QJSQ9jEbVMutAMr4wBI//pkOdSd6LBwq7AoOmU84eNsV14cyg0dw5xNVTemFNTL3QrG5oF1gXI9i6xZmx6xoUqXdYcVMlTGcwOIPcKbBUF5Lqm1s3zVmpcua" +
	"Z5vdS9CCmqc1q+OfSahwRoTNVdt2tQs5SQE6Js91FNPMfrlpqewHNzeuO0pcLsJYXupy/SHw0d2I3LKbizkg83Iv84DtDIVKsUlmjg8Bl+ym37YVUzOM2f7D" +
	"yJOaw3ZZ/NKc3FGXwfrD0dcTZpODgoedxUY9POWVBEs9X4PyHkXHFr18J9uMaKL3pBZoybp8T74WnDG+lrXIJUz3SShwjpbDcUHTUpDnBlJSyfGo+FpECj64" +
	"y/eB9F7LWIz5Mcah+hdDU+8YkBf3tsYbH0GbWPttdrWg/5Sefz9+RwlrdMkKwj3X0mxqOhO/kYQYEwqvEF+lJpwv6Qe/qz6nYf0Ll/TCe+9XBIUwI1aRVqEt" +
	"+PyFFPIZ30CS+X9hhOH+QbKwRZ0JwIer11WJ8Loc+3b+ZtR+MWDRtntyXnmgwuCrkZSotRmGcJeZXVDx3jvau8xfJuKl1gDNHiqmaKx/cH842E2ufI+e+0NH" +
	"s1wZYQEbjX4EIX//H6DrG16+C1KODV80NCIDw/mIoNw02cZgM6P0HfxVVDJsLwcbrU9VgZTmVYik6gTTSGBidLZtnVfwY2JnszCYbZbdUWaIfBcBzeqzKwvb" +
	"TeqFhi3nJKNuRSXvpX0cCBDtLZqNGn9BkR/5r1l7+FYbuPOmFDMhLEcZ+iTQLav+KhwCJ2DNcbIDzOoCBX1Cq3h/FFQLRjAZaFpPnqc+moNlBF59ZuhjKTvd" +
	"uKmRuopZlfIvwXImi60sJodFxbDTiQbIYZRIsIzvF0zWIYji9j4WuebJE/nibyki0ZHoV+7SP5T3bmo8HAK7j6hPpNOH+swmrgqKUf5ZySV7jHwNGNOD3udn" +
	"4ggthes/Jwn+PGngAFaLgauf5SyWaoSOxtnNhXrhWrhxHKkbGzmiZjpkWXsf84J5yIKAIN0RhCssUW1EMHS0cxMrF7kDcy5Z761X0ogNvDnqYzh05vjdyVcv" +
	"f1GFCVq96VREZ5BjTRjrGQQRRgoyaVdkc72pA0BmnErhh6bw0y8I/hqj86mNRMNm1sisBuuqHFNVKPIOPMKMJT7WSX3TTnKcquPIOHLeYFd+Vtw55LyWhNwa" +
	"6gaQ6S/DQ+s/gyW7VOwsWCf8+g6WyRd9iZATRdekaFgUdFrozli11yb+ajfqMwIDAQABAoIEAFl33rBnwYWfeGcmiWI/NYWJn/UYnAgy2Iwb+Cx9u3fSOrJ7" +
	"BNJb9QhYwMSWN6qQ9hu9ZyScGewZ6bemHYtn5ATVLNFKZEoxCAJMCJGLO8uLJd9GUhn4PDv/oGgOs/CFMEr3qN0D1VJ5lHLiePL6iytxH2MXnd3XR5OaigKC" +
	"6J95Zz4t2uP9BvQarHqMZM1zbbmL00AS2fhzv9DTvVBDHjMjfvc/6LIQNv6O3/DkhSsnrBR2lDFWnKe0Co+tIQEmsCGH8ARl8tzVYB7TzNMhtvMNMDNBLRzR" +
	"3ep2XTHgCwhN0NglMpmlW/PBdJhkKg/lkaVc5dAKGugJrUSYbk6JSyR3Q4amVE8lYM1gDmuAhSg5j7qonczUrFFNAeRZ9JMwejgOUIBso20+bEFeou8Wqq5k" +
	"gPMoNdv+ldcunG1N1PhUlzD8GIRKyBUJ8t9exkL+uWBfejyG29JliHco1JmCPcihHzDSDPF+kgPlt7e4Ene+pLs0WxyLUBCshqWm56uZ6JtopaiZsPqQki9e" +
	"N80L+NB6KNeaDOUhVOSsSmdqOf3AS/NtA7zSuoaQ069xQ8eGsavkDVo0QV6c6rOjn7KB3zIdbXUs6Rqa20bprER07kcD7cZbh6jCF6AvjmEfTS9kMXXJXprq" +
	"fuiFr27N6InEeJiAzojN07D14JB/0q/sHG+2fcf0Q3qDqbfLX7vsk3aYTviHdtjLQt1cPvEzS+Q5DHIFK4pUD7JdrflyVtcmsEwDtXXd8vDUyxok3yog7nIi" +
	"csz9/1XSuOiYYVLz2CBbrBJTtFvtnzyxkC3nxtirR3AE4VO5UsKWBmRilkHD8jLjDcYp+SCKQP5Oi/chRo/BPyh4ntExsZwtBTZW1RqHQ6Eu4FFJYhxLoqlv" +
	"z8SPEVcIob6WKY8l/Gh5aBc4esc2RWnBdWBZuVPgXqZAV4M9DG3N7AyJRHeMpHp1x4WqIk3CK9huoWGOHw+hFJQbkuFCZdcA3F3WYKvno9TvibSMkc9UotEr" +
	"9NbclWVa6O9zYschyJbAe1+k7t/xV5l+l8dlbJM3LqF43yEPbNpj1iygm5WR0Cr8bkPVF1cMlMMw7KHT8+GjsVlV35Sjl3s215CLyuHJR9Ra3FEeCVBZWMsL" +
	"zuYOVW2q6ak16VRJbFP0EhgPo/Yv43v8xW3pW9pGBVBvCtY6u7kUUVc0D1cfilhIVyuX2Ttmp/YNIU7+gk8i4e8GtK9ks5ExUZcLHBQpeOz9Mjg6ie5CFPnM" +
	"HskqWMinWzysDTfRcxXy8mM3KD/VvbSnTkgdgYncMGzgHK5pY3Q5csurlIy050//5DYB3c3xOT/ivkEvww14e8rDEAg4DmP2elTwUY1smVLIB7UtMaJqHCEC" +
	"ggIBAPWso3kmN5eI/IFgHcMMcVefvRl5uKbqEHxBgJtznRw+7cj9ASW2vZmXfN+G4xqKDMQQ3ArtqFcwZXBEaYy6Y7eh64GapjUMBhfdXXr/JdXePFkgKIAL" +
	"jd0wgHM4mV/OA2M/OzhelrZfcCvhXGc5rWNDOrEezGf+CA0a7ChRtLyxfYTuG4mpMzAvXzSB8M0PJ7tmLVp75s2AdqPi1T5TTUUuI15aFSsewF5ZXQRCFcuN" +
	"Lv9/mIhv6aCru8KIPnNz+2K00TvTzs2sEW2vwDEwjCOTIDqcVwtPCY232qdy6zDTyQIH9V13kgEHlBOJbWsBqZy43maCP6N3BmaH1u092HPIJgy4NVrsYaDg" +
	"Op6yX0A1vJRZWMOtwBy/kPouzDHZ+CX8nPJIf0/dN/VHPWYxekVbESNFbR9y5uSBbM452YkYxIaUuY8vcBpNbd36JrrWD3O5WGyWG6Kp8euA/VzNJUKaNzp3" +
	"RQD+tFW9XGK7JSEitxQnaw73pGMQnf9ya3lte3n6cd+SRMvIc3G/lxURD07RtEpedPYkCMa7QT0sEkOI12czSjR4alNmHJ7bO9JWg2Js7kfLuwnOwkqfKVcA" +
	"r3pVEqRRu9MNRGd+OBxaZb5JptJUsxQk3Q5L5K5sVADTktI8sHlMpoVmn0P8pieTVKzl8no2JLa0fyohXyZLtBCTAoICAQDIifkw2aPqdzTqHcYgsDHZwLpR" +
	"HVjrNTESrtqsnxJM/05WwCdjEQbgC0XI2IkwvdMe+4/C1pgzW1EI32choeCsmYSnNQC1ow1Hh4dnCfkUCvciskNuUuh6ECWgIm61HRO5HWT+cTDmNeCsA4+x" +
	"sNzASJNsv0Y6tFigYxtnJIEiFGNbkMJDEFt/KrafApO7rdG3EM354CyeK7TqhgBu/RN2dRcSEFAcTAr7swdEj6mDSlIUBDtgQ9ZjEIUMNidX5R4hvtJALx0v" +
	"wfDv7+CzlGkwXkDcg/Qr2G08Uh9nP8ZhAYyhhU4ZMHeiegxgzLoYtNZdarbbhro3liL4bfzUOJJ9nPmS1MZGIM4ZAcnHWqKudYJbiBheTRQBTmcFP+kyvqKL" +
	"UjtFXAuaEx7PuU6E7i6s/c2rPTI2ycDSkPby8JRDpIY6jBUDtSR38jV4axRrHQFub2No9xalU2r9fbVCXSEGIZPeq/GafbXcxDxN0nDRy4Bdp074oz8ikFhv" +
	"mQmymQURkTZu4ss4nhMJ067ROEvzuFVT47mzEo/101qhgQGp1wsZfQGR6Qun0vQrbXwghTmQIiciHM2uVv6V5kf8lYKc18MEyuA/R7oQvM2ocH+c57kU5/oH" +
	"9jgPpw4o70TZIHto8CgUjtRz0RAs61W+V0zsohbmy5KE50TCqgoDwZHj4QKCAgAnTfB1cHTSbJshQ7RfQT1c7HR/f+bX5XivuHcP58ZJ/5NhZYDqfLsGuKLE" +
	"zDrHQzDZqWza3rzg/iAsfvV4C1Xqyh/4gzp2IC9VYBgVln6CIeT7yVZRbgfLTHgwduyq1DXcigA6e3+XO9uhWZPD/AlOaTIZpjjDpnO5TQZdSP0mdysCumlz" +
	"c7t5yQptRyC0XelYZPd6k3oQhK32eFLvfrpNCB2mebkLRgc20Qs9pCkCgNr1C3/mzCjPiMooTE3ZgMPGPfF/pdpfM1kyeDzCYeb5xg8Q8XRHneSEZNa5lXwl" +
	"OqzdA1LxGjEkswawvXrg9MojBbynH814pJFElBUBrbRUib/0pv/6RPk1mMooG5d7mV1LSqQV4lVrBAb4z8Xhb+LwiOK/LHQZ3eWW+0fKcr4CHJi4UOItdt+T" +
	"zVUQBVdVRL4kXeT2EHvZ6WtbaSsLFzYvqIaKENXpB1FqASAH2dZNOoj9dJl4mEdXtEz0isZc78Xklo3dPidxpfXxKWgibC6mDDhtsWQKSk6V8zYDq9AMJya2" +
	"AzipLIiu6sR8OfHOFjWIED+d92njX+HSVHbUpvysIYtZtzF8VzTkZWRiw/xPEQ9DdMQc9vFrsVjeyGOgtv3WhrCD14X6RJAYi8JAw5ioxAbj0SyPCSUP5nra" +
	"uAqDAuLxRHpJNMVngyFK6i+ruwKCAgByaf3JeDLEH/UJqakTl1MpyILEqrjDoVp5LVfH6w3W7ka0yfbu15UTmHrdJ2XGcFcWszIHWMYHbw8hv8wobSIxd3ku" +
	"qNfZychWyiVfjVoVrFfp7Mj6FcVbdwDwhxSgspFBKVsorE3Y2l5v5axDFgQslHvALLUV4zU5dLH6u+INHpK9eC7NcnSxbh45RJAjIP2os6bA7LyoFYmn0IJI" +
	"0I0dJZrfDH2YV25gwnjgDhMJvApuLyftOWcEqDUwjWkPBcKWQDfWtMqzJ7SeQD70VjVZijz5UzOpHFbedoBCOSmmyOqCcPro9jUbdwS+6a83T12KeMsRHqH5" +
	"+ufC04XPUuOJVVkzA8CH3EmaDOIhoj10ychxDonQq6tBP4kZfqg+8nLsiCMW5HgeFNCcdT4uK3Jn8no4O7b9eUhRGrI6UzZUDXcjyi5nKh8/a+pD5NwGbMsX" +
	"RefyyB6cfqZpMCKNVXL0+41RGsrCePyckz1QrUL+/1sik8VDqGfqAW7jZO4afqFcr3vd8fk+OTnlfmecKMF0sPPF5ARb/bgy6b4orODVFMLZbO/LXqnuuzXh" +
	"3RpXt4rrCAFJviM/V5Ty0yq5GlglwhgbEOC2Web3i7DObDjyvWZkXiHSDxFXJNm4UyL1ukmOyo4jhIYD+gB/kFkgOtDBpYzparYSq5wYcEk8cWEaIQKCAgAU" +
	"mTRCqU1gfFYdekT1YoQ38OsCWR/3U97RoiRkJ9iaHWREZJx3jNufWa2BHS/aQ4p6Fiydku4RiQOOnpl3vDYD96wYt9/uuGzzOz+HOWRE4Pjra+1rKaegvidQ" +
	"dAp9BPUx86rjq/2ViAO1k7xk+FKqix4zraGgCAemVgkfiaQWysTBh8oo4ZrUqDleASjUlgkMh04yttkcCH8UZ0FOJfKfJorNwimX4CsmL9s9Egg2TQ/tLsuO" +
	"CsKYPN4jZu3z2YBqvoIUbR4tNh8SEDYUFPSG9GxW2qooE5JqriAG5jHBxP17LtRfeRWoNA5H+k2hlfv+ldPBNrsEqp7UPoM7mal4akVjLsbb1Is4ufbH9rAG" +
	"szlJ80g85qQp3S5L6S3v5QENqa9PWazn+VQr1Y2rrf9ihpsvuHO1Xx+gLbSWhVUhR5EUm9QTsi0fm1UnOlvQDo/utnPT4T60xuc+3Eul1VxyQCfMIZaO6CmH" +
	"cXswWgiqd97T25pfXf5KxxhZG+X1cXM/vfwIKLB3CRgYM3A+/LaCdNkq8mT14Si0WkXRU3NCCEoQFbp0sD5vLTP6fCPe9ZdWRHF7uGYqXLzRTRlHnSPQl7s2" +
	"EElrt4XYxCPtnRzgpWODfG1e7GKwBWz8qvDdtFIvw5OaRyQQMvQes2BoZbImmEqvZDVXKlo/6IH2Z4Ftew=="

type c08FailingReader struct{}

func (c08FailingReader) Read([]byte) (int, error) {
	return 0, errors.New("c08: no randomness on purpose")
}

// c08GenAdmits: can GenerateRSAKeyPair produce a key of this size? (The size checks come before the first read.)
func c08GenAdmits(bits int) bool {
	_, _, err := crypto.GenerateRSAKeyPair(bits, c08FailingReader{})
	return !errors.Is(err, crypto.ErrRsaKeyTooSmall) && !errors.Is(err, crypto.ErrRsaKeyTooBig)
}

type c08ConstReader byte

func (c c08ConstReader) Read(p []byte) (int, error) {
	for i := range p {
		p[i] = byte(c)
	}
	return len(p), nil
}

func TestVerifC08Bounds(t *testing.T) {
	a := c08New(t, "key-size-boundaries")
	defer a.flush()
	min, max := crypto.MinRsaKeyBits, crypto.VerifC08MaxRsaKeyBits()
	a.r.Bounds["rsa_sizes"] = fmt.Sprintf("modulus bits %d..%d, 3072, 4096, %d..%d (MinRsaKeyBits = %d, maximum = %d)", min-9, min+9, max-136, max+9, min, max)
	a.r.Bounds["rsa_modulus_patterns"] = "2^(bits-1)+1, 2^bits-1, top bit | seeded bits | 1"
	a.r.Bounds["rsa_public_exponents"] = "3, 65537, 2^31-1"
	a.r.Bounds["rsa_real_key"] = "one genuine key of exactly 8192 bits (embedded): private and public round trips, peer ID, signatures against a 2048-bit key, peer-record envelope"
	a.r.Bounds["ecdsa_curves"] = "P-224, P-256, P-384, P-521: seeded key, scalar 1, scalar n-1"
	a.r.Bounds["secp256k1_scalars"] = "1, n-1 (0, n recorded only)"
	a.r.Bounds["ed25519_seeds"] = "all-zero, all-0xff"

	viol := func(key, name, form string, pubBytes []byte, f string, args ...any) {
		a.r.Violate(key, fmt.Sprintf("%s %s: ", name, form)+fmt.Sprintf(f, args...),
			map[string]any{"section": "key-size-boundaries", "key": name, "form": form, "pub": c08Hex(pubBytes)})
	}
	probe, probe2 := []byte("c08 boundary probe"), []byte("c08 boundary probe.")

	// pubRT: round trip of a public-key object. supported = the statement demands that it works; otherwise only
	// "never a different key". Returns the receiver's copy (nil when the round trip is broken or refused).
	pubRT := func(name, cls string, pub crypto.PubKey, supported bool) crypto.PubKey {
		var recv crypto.PubKey
		a.guard("public round trip "+name, func() {
			wire, err := crypto.MarshalPublicKey(pub)
			if err != nil {
				a.r.Outcome(cls + ":pub-marshal-refused")
				if supported {
					viol("key-roundtrip-rejected", name, "public/protobuf", nil, "marshalling a key of a supported size fails: %v", err)
				}
				return
			}
			id, iderr := peer.IDFromPublicKey(pub)
			type form struct {
				name string
				dec  func() (crypto.PubKey, error)
			}
			forms := []form{{"protobuf", func() (crypto.PubKey, error) { return crypto.UnmarshalPublicKey(append([]byte{}, wire...)) }}}
			if raw, err := pub.Raw(); err == nil {
				forms = append(forms, form{"raw", func() (crypto.PubKey, error) { return crypto.PubKeyUnmarshallers[pub.Type()](append([]byte{}, raw...)) }})
			}
			good := true
			for _, f := range forms {
				a.exec("bounds/pub/"+f.name, wire, true)
				got, err := f.dec()
				switch {
				case err != nil || got == nil:
					good = false
					a.r.Outcome(cls + ":pub-" + f.name + "-rejected")
					if supported {
						viol("key-roundtrip-rejected", name, "public/"+f.name, wire, "unmarshalling the marshalled key (%d bytes) fails: %v", len(wire), err)
					}
				case !got.Equals(pub) || !pub.Equals(got) || got.Type() != pub.Type():
					good = false
					a.r.Outcome(cls + ":pub-" + f.name + "-not-equal")
					viol("key-roundtrip-not-equal", name, "public/"+f.name, wire, "round-tripped key is not Equals() to the original")
				default:
					b, err := crypto.MarshalPublicKey(got)
					id2, err2 := peer.IDFromPublicKey(got)
					if err != nil || !bytes.Equal(b, wire) {
						good = false
						a.r.Outcome(cls + ":pub-" + f.name + "-remarshal-differs")
						viol("key-roundtrip-not-equal", name, "public/"+f.name, wire, "re-marshalling the round-tripped key gives different bytes (err=%v)", err)
					} else if iderr == nil && (err2 != nil || id2 != id) {
						good = false
						a.r.Outcome(cls + ":pub-" + f.name + "-other-peer-id")
						viol("peer-id-not-deterministic", name, "public/"+f.name, wire, "peer ID of the round-tripped key is %q (err=%v), of the original %q", id2, err2, id)
					} else {
						a.r.Outcome(cls + ":pub-" + f.name + "-equal")
						if f.name == "protobuf" {
							recv = got
						}
					}
				}
			}
			if !good {
				recv = nil
			}
		})
		return recv
	}

	// privRT: round trip of a private key (and agreement with its public half), then signatures.
	privRT := func(name, cls string, priv crypto.PrivKey, supported bool) {
		pub := priv.GetPublic()
		recv := pubRT(name, cls, pub, supported)
		a.guard("private round trip "+name, func() {
			wire, err := crypto.MarshalPrivateKey(priv)
			if err != nil {
				a.r.Outcome(cls + ":priv-marshal-refused")
				if supported {
					viol("key-roundtrip-rejected", name, "private/protobuf", nil, "marshalling a key of a supported size fails: %v", err)
				}
				return
			}
			a.exec("bounds/priv", wire, true)
			got, err := crypto.UnmarshalPrivateKey(append([]byte{}, wire...))
			switch {
			case err != nil || got == nil:
				a.r.Outcome(cls + ":priv-rejected")
				if supported {
					viol("key-roundtrip-rejected", name, "private/protobuf", nil, "unmarshalling the marshalled private key fails: %v", err)
				}
				return
			case !got.Equals(priv) || !priv.Equals(got) || got.Type() != priv.Type() || !got.GetPublic().Equals(pub):
				a.r.Outcome(cls + ":priv-not-equal")
				viol("key-roundtrip-not-equal", name, "private/protobuf", nil, "round-tripped private key (or its public half) is not Equals() to the original")
				return
			}
			if b, err := crypto.MarshalPrivateKey(got); err != nil || !bytes.Equal(b, wire) {
				a.r.Outcome(cls + ":priv-remarshal-differs")
				viol("key-roundtrip-not-equal", name, "private/protobuf", nil, "re-marshalling the round-tripped private key gives different bytes (err=%v)", err)
				return
			}
			a.r.Outcome(cls + ":priv-equal")
			if !supported {
				return
			}
			if idp, err := peer.IDFromPrivateKey(got); err == nil {
				if id, err2 := peer.IDFromPublicKey(pub); err2 != nil || id != idp {
					viol("peer-id-not-deterministic", name, "private/protobuf", nil, "ID from the round-tripped private key %q, from the public key %q (err=%v)", idp, id, err2)
				}
			}
			// the round-tripped private key signs for the original identity, for exactly the message signed
			sig, err := got.Sign(probe)
			if err != nil {
				a.r.Outcome(cls + ":sign-error")
				viol("own-signature-rejected", name, "sign", nil, "round-tripped key cannot sign: %v", err)
				return
			}
			for _, v := range []struct {
				vn string
				vk crypto.PubKey
			}{{"in-memory", pub}, {"wire-copy", recv}} {
				vn, vk := v.vn, v.vk
				if vk == nil {
					continue
				}
				a.exec("bounds/verify/"+vn, append(append([]byte{}, sig...), name...), false)
				if ok, err := vk.Verify(probe, sig); !ok || err != nil {
					a.r.Outcome(cls + ":own-signature-rejected")
					viol("own-signature-rejected", name, "verify/"+vn, nil, "own signature does not verify (%v %v)", ok, err)
				} else if ok, _ := vk.Verify(probe2, sig); ok {
					a.r.Outcome(cls + ":signature-for-other-message")
					viol("signature-verifies-for-other-message", name, "verify/"+vn, nil, "signature verifies for another message")
				} else {
					a.r.Outcome(cls + ":signature-exact")
				}
			}
		})
	}

	// ---- RSA: the one real key of maximum size ----
	small := c08GenKey(t, crypto.RSA, 0)
	if a.mine() {
		a.guard("real maximum-size RSA key", func() {
			der, err := base64.StdEncoding.DecodeString(c08RealMaxRSA)
			if err != nil {
				t.Fatalf("c08: embedded key: %v", err)
			}
			const bits = 8192
			supported := c08GenAdmits(bits)
			name := fmt.Sprintf("rsa%d-real", bits)
			a.exec("bounds/priv-raw", der, true)
			sk, err := crypto.UnmarshalRsaPrivateKey(append([]byte{}, der...))
			if err != nil || sk == nil {
				a.r.Outcome("rsa-real-max:priv-raw-rejected")
				if supported {
					viol("key-roundtrip-rejected", name, "private/raw", nil, "GenerateRSAKeyPair admits %d bits but the PKCS#1 form of a genuine key of that size is refused: %v", bits, err)
				}
				return
			}
			if raw, err := sk.Raw(); err != nil || !bytes.Equal(raw, der) {
				a.r.Outcome("rsa-real-max:priv-raw-differs")
				viol("key-roundtrip-not-equal", name, "private/raw", nil, "Raw() of the unmarshalled key differs from the bytes it was read from (err=%v)", err)
			}
			privRT(name, "rsa-real-max", sk, supported)
			pub := sk.GetPublic()
			recv, err := crypto.UnmarshalPublicKey(c08MustPub(pub))
			if err != nil || recv == nil {
				return // reported above
			}
			// against a key of the minimum size: no signature crosses over
			sigBig, err1 := sk.Sign(probe)
			sigSmall, err2 := small.Priv.Sign(probe)
			if err1 == nil && err2 == nil {
				a.exec("bounds/verify/cross", append(append([]byte{}, sigBig...), 1), true)
				a.exec("bounds/verify/cross", append(append([]byte{}, sigSmall...), 2), true)
				ok1, _ := c08Receiver(small).Verify(probe, sigBig)
				ok2, _ := recv.Verify(probe, sigSmall)
				if ok1 || ok2 {
					a.r.Outcome("rsa-real-max:signature-crosses-keys")
					viol("signature-verifies-under-other-key", name, "verify/cross", nil, "signature of the %d-bit key verifies under %s: %v; the converse: %v", bits, small.Name, ok1, ok2)
				} else {
					a.r.Outcome("rsa-real-max:no-cross-verification")
				}
			}
			// a peer record sealed by the big key is consumed as sealed
			id, err := peer.IDFromPublicKey(pub)
			if err != nil {
				return
			}
			k := &c08Key{Name: name, Typ: crypto.RSA, Priv: sk, Pub: pub, ID: id}
			env, err := record.Seal(c08PeerRecord(k), sk)
			if err != nil {
				a.baseline("Seal with the %d-bit key: %v", bits, err)
				return
			}
			wire, err := env.Marshal()
			if err != nil {
				a.baseline("Envelope.Marshal with the %d-bit key: %v", bits, err)
				return
			}
			for _, dom := range []string{peer.PeerRecordEnvelopeDomain, c08TestDomain} {
				own := dom == peer.PeerRecordEnvelopeDomain
				a.exec("bounds/ConsumeEnvelope/"+dom, wire, !own)
				got, rec, err := record.ConsumeEnvelope(append([]byte{}, wire...), dom)
				switch {
				case err != nil && own:
					a.r.Outcome("rsa-real-max:honest-envelope-rejected")
					a.baseline("ConsumeEnvelope rejects the honest peer record of the %d-bit key: %v", bits, err)
				case err != nil:
					a.r.Outcome("rsa-real-max:envelope-other-domain-rejected")
				case !own:
					a.r.Outcome("rsa-real-max:envelope-other-domain-accepted")
					a.r.Violate("envelope-accepted-for-other-domain", fmt.Sprintf("peer record sealed by %s is accepted for domain %q", name, dom),
						map[string]any{"section": "key-size-boundaries", "wire": c08Hex(wire), "ask_domain": dom})
				default:
					pr, _ := rec.(*peer.PeerRecord)
					if got.PublicKey == nil || !got.PublicKey.Equals(pub) || pr == nil || pr.PeerID != id || !id.MatchesPublicKey(got.PublicKey) {
						a.r.Outcome("rsa-real-max:envelope-decodes-differently")
						a.r.Violate("accepted-envelope-decodes-differently", fmt.Sprintf("peer record sealed by %s accepted with another signer / peer ID", name),
							map[string]any{"section": "key-size-boundaries", "wire": c08Hex(wire)})
					} else {
						a.r.Outcome("rsa-real-max:envelope-accepted-as-sealed")
					}
				}
			}
			a.sample(1, "rsa-real", map[string]any{"key": name, "peer_id": id.String(), "marshalled_public_len": len(c08MustPub(pub)), "generator_admits_size": supported})
		})
	}

	// ---- RSA: synthetic public keys of every boundary size ----
	var sizes []int
	for b := min - 9; b <= min+9; b++ {
		sizes = append(sizes, b)
	}
	for _, b := range []int{3072, 4096} {
		if b > min+9 && b < max-136 {
			sizes = append(sizes, b)
		}
	}
	for b := max - 136; b <= max+9; b++ {
		if b > min+9 {
			sizes = append(sizes, b)
		}
	}
	one := big.NewInt(1)
	nSupported, nRefused := 0, 0
	for _, bits := range sizes {
		if !a.mine() {
			continue
		}
		if a.over("rsa boundary sizes") {
			return
		}
		supported := c08GenAdmits(bits)
		if supported != (bits >= min && bits <= max) {
			a.r.Note("GenerateRSAKeyPair admits=%v for %d bits although MinRsaKeyBits=%d and the maximum is %d", supported, bits, min, max)
		}
		if supported {
			nSupported++
		} else {
			nRefused++
		}
		zone := "inside"
		switch {
		case bits < min:
			zone = "below-min"
		case bits == min:
			zone = "at-min"
		case bits > max:
			zone = "above-max"
		case bits == max:
			zone = "at-max"
		case bits >= max-136:
			zone = "just-below-max"
		case bits <= min+9:
			zone = "just-above-min"
		}
		top := new(big.Int).Lsh(one, uint(bits-1))
		seeded := make([]byte, (bits+7)/8)
		c08NewStream(fmt.Sprint("rsa-modulus/", bits)).Read(seeded)
		sd := new(big.Int).SetBytes(seeded)
		sd.Mod(sd, top) // below the top bit
		mods := []struct {
			name string
			n    *big.Int
		}{
			{"sparse", new(big.Int).Or(top, one)},
			{"dense", new(big.Int).Sub(new(big.Int).Lsh(one, uint(bits)), one)},
			{"seeded", new(big.Int).Or(new(big.Int).Or(top, sd), one)},
		}
		for _, m := range mods {
			if m.n.BitLen() != bits {
				t.Fatalf("c08: synthetic modulus has %d bits, want %d", m.n.BitLen(), bits)
			}
			for _, e := range []int{3, 65537, 1<<31 - 1} {
				name := fmt.Sprintf("rsa%d-synthetic-%s-e%d", bits, m.name, e)
				pubRT(name, "rsa-"+zone, crypto.VerifC08RsaPublicKey(m.n, e), supported)
			}
		}
		if bits == max {
			a.sample(1, "rsa-synthetic", map[string]any{"key": fmt.Sprintf("rsa%d-synthetic", bits), "generator_admits_size": supported, "patterns": 3, "exponents": 3})
		}
	}
	a.r.Note("RSA sizes on this shard: %d the generator admits, %d it refuses", nSupported, nRefused)

	// ---- ECDSA: every curve, seeded key and extreme scalars ----
	for _, curve := range []elliptic.Curve{elliptic.P224(), elliptic.P256(), elliptic.P384(), elliptic.P521()} {
		if !a.mine() {
			continue
		}
		cn := curve.Params().Name
		cls := "ecdsa-" + cn
		if sk, _, err := crypto.GenerateECDSAKeyPairWithCurve(curve, c08NewStream("ecdsa-curve/"+cn)); err != nil {
			a.r.Outcome(cls + ":generation-refused")
			a.r.Note("GenerateECDSAKeyPairWithCurve(%s): %v", cn, err)
		} else {
			privRT("ecdsa-"+cn+"-seeded", cls, sk, true)
		}
		n := curve.Params().N
		for _, sc := range []struct {
			sn string
			d  *big.Int
		}{{"scalar-1", big.NewInt(1)}, {"scalar-n-1", new(big.Int).Sub(n, one)}} {
			sn, d := sc.sn, sc.d
			raw := &ecdsa.PrivateKey{D: d}
			raw.Curve = curve
			raw.X, raw.Y = curve.ScalarBaseMult(d.FillBytes(make([]byte, (n.BitLen()+7)/8)))
			sk, _, err := crypto.ECDSAKeyPairFromKey(raw)
			if err != nil {
				a.r.Outcome(cls + ":from-key-refused")
				continue
			}
			privRT("ecdsa-"+cn+"-"+sn, cls, sk, true)
		}
	}

	// ---- secp256k1: extreme scalars ----
	if a.mine() {
		order, _ := new(big.Int).SetString("FFFFFFFFFFFFFFFFFFFFFFFFFFFFFFFEBAAEDCE6AF48A03BBFD25E8CD0364141", 16)
		for _, c := range []struct {
			name  string
			d     *big.Int
			valid bool
		}{{"scalar-1", big.NewInt(1), true}, {"scalar-n-1", new(big.Int).Sub(order, one), true}, {"scalar-0", big.NewInt(0), false}, {"scalar-n", order, false}} {
			var sk crypto.PrivKey
			var err error
			if a.guard("secp256k1 "+c.name, func() { sk, err = crypto.UnmarshalSecp256k1PrivateKey(c.d.FillBytes(make([]byte, 32))) }) {
				continue
			}
			if err != nil || sk == nil {
				a.r.Outcome("secp256k1-" + c.name + ":refused")
				if c.valid {
					viol("key-roundtrip-rejected", "secp256k1-"+c.name, "private/raw", nil, "a valid scalar is refused: %v", err)
				}
				continue
			}
			if !c.valid {
				// outside the scalar range: nothing is demanded, except that what comes back from a round trip is never
				// a DIFFERENT key (supported=false)
				a.r.Outcome("secp256k1-" + c.name + ":accepted (outside the scalar range; recorded only)")
				pubRT("secp256k1-"+c.name, "secp256k1-out-of-range", sk.GetPublic(), false)
				continue
			}
			privRT("secp256k1-"+c.name, "secp256k1-extreme", sk, true)
		}
	}

	// ---- Ed25519: extreme seeds ----
	if a.mine() {
		for _, c := range []struct {
			name string
			b    byte
		}{{"seed-00", 0x00}, {"seed-ff", 0xff}} {
			sk, _, err := crypto.GenerateEd25519Key(c08ConstReader(c.b))
			if err != nil {
				a.r.Outcome("ed25519-" + c.name + ":generation-refused")
				continue
			}
			privRT("ed25519-"+c.name, "ed25519-extreme", sk, true)
		}
	}
}

func c08MustPub(pub crypto.PubKey) []byte {
	b, err := crypto.MarshalPublicKey(pub)
	if err != nil {
		return nil
	}
	return b
}
