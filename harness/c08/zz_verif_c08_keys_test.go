//go:build verif

package pstoreds

// C08 sections (1) key round trips, (2) sign/verify cross product, (3) peer IDs.

import (
	"bytes"
	"crypto/sha256"
	"encoding/json"
	"errors"
	"fmt"
	"testing"

	"github.com/libp2p/go-libp2p/core/crypto"
	"github.com/libp2p/go-libp2p/core/peer"
	"github.com/libp2p/go-libp2p/x/verif/vrep"

	ma "github.com/multiformats/go-multiaddr"
	mb "github.com/multiformats/go-multibase"
	mh "github.com/multiformats/go-multihash"
)

// ---------- (1) "marshalling then unmarshalling a key yields an equal key" ----------

func TestVerifC08Keys(t *testing.T) {
	a := c08New(t, "key-roundtrip")
	defer a.flush()
	per := c08KeysPerType()
	keys := c08Keys(t, per)
	a.r.Bounds["key_types"] = "ed25519, secp256k1, ecdsa(P-256), rsa-2048"
	a.r.Bounds["keys_per_type"] = per
	a.r.Bounds["forms"] = "public & private: protobuf (Marshal*Key/Unmarshal*Key), proto message (PublicKeyToProto/FromProto), raw (Raw + type unmarshaller), base64 config form; ed25519 legacy 96-byte private form"

	viol := func(key string, k *c08Key, form, f string, args ...any) {
		a.r.Violate(key, fmt.Sprintf("%s %s: ", k.Name, form)+fmt.Sprintf(f, args...),
			map[string]any{"section": "key-roundtrip", "key": k.Name, "form": form, "pub": c08Hex(k.PubBytes)})
	}
	samePub := func(k *c08Key, form string, got crypto.PubKey, err error) {
		a.exec("pub/"+form, k.PubBytes, true)
		switch {
		case err != nil || got == nil:
			a.r.Outcome("pub-roundtrip:rejected")
			viol("key-roundtrip-rejected", k, "public/"+form, "unmarshalling the marshalled key fails: %v", err)
		case !got.Equals(k.Pub) || !k.Pub.Equals(got) || got.Type() != k.Pub.Type():
			a.r.Outcome("pub-roundtrip:not-equal")
			viol("key-roundtrip-not-equal", k, "public/"+form, "round-tripped key is not Equals() to the original")
		default:
			if b, err := crypto.MarshalPublicKey(got); err != nil || !bytes.Equal(b, k.PubBytes) {
				a.r.Outcome("pub-roundtrip:remarshal-differs")
				viol("key-roundtrip-not-equal", k, "public/"+form, "re-marshalling the round-tripped key gives different bytes (err=%v)", err)
				return
			}
			a.r.Outcome("pub-roundtrip:equal")
		}
	}
	probe := []byte("c08 round trip probe")
	samePriv := func(k *c08Key, form string, got crypto.PrivKey, err error) {
		a.exec("priv/"+form, k.PrivBytes, true)
		switch {
		case err != nil || got == nil:
			a.r.Outcome("priv-roundtrip:rejected")
			viol("key-roundtrip-rejected", k, "private/"+form, "unmarshalling the marshalled key fails: %v", err)
		case !got.Equals(k.Priv) || !k.Priv.Equals(got) || got.Type() != k.Priv.Type() || !got.GetPublic().Equals(k.Pub):
			a.r.Outcome("priv-roundtrip:not-equal")
			viol("key-roundtrip-not-equal", k, "private/"+form, "round-tripped key (or its public half) is not Equals() to the original")
		default:
			// Equals of RSA/secp256k1 private keys compares public halves only: also require that the key
			// still signs for the original identity, and that its serialization is unchanged.
			b, err := crypto.MarshalPrivateKey(got)
			if err != nil || !bytes.Equal(b, k.PrivBytes) {
				a.r.Outcome("priv-roundtrip:remarshal-differs")
				viol("key-roundtrip-not-equal", k, "private/"+form, "re-marshalling the round-tripped key gives different bytes (err=%v)", err)
				return
			}
			sig, err := got.Sign(probe)
			if err != nil {
				a.r.Outcome("priv-roundtrip:cannot-sign")
				viol("key-roundtrip-not-equal", k, "private/"+form, "round-tripped key cannot sign: %v", err)
				return
			}
			if ok, err := k.Pub.Verify(probe, sig); !ok || err != nil {
				a.r.Outcome("priv-roundtrip:signs-for-other-identity")
				viol("key-roundtrip-not-equal", k, "private/"+form, "signature of the round-tripped key does not verify under the original public key (%v)", err)
				return
			}
			a.r.Outcome("priv-roundtrip:equal")
		}
	}

	for _, k := range keys {
		if !a.mine() {
			continue
		}
		a.guard("key round trip "+k.Name, func() {
			// public key forms
			pk, err := crypto.UnmarshalPublicKey(append([]byte{}, k.PubBytes...))
			samePub(k, "protobuf", pk, err)
			pm, err := crypto.PublicKeyToProto(k.Pub)
			if err != nil {
				viol("key-roundtrip-rejected", k, "public/proto-message", "PublicKeyToProto: %v", err)
			} else {
				pk, err = crypto.PublicKeyFromProto(pm)
				samePub(k, "proto-message", pk, err)
			}
			raw, err := k.Pub.Raw()
			if err != nil {
				viol("key-roundtrip-rejected", k, "public/raw", "Raw: %v", err)
			} else {
				pk, err = crypto.PubKeyUnmarshallers[k.Pub.Type()](append([]byte{}, raw...))
				samePub(k, "raw", pk, err)
			}
			dec, err := crypto.ConfigDecodeKey(crypto.ConfigEncodeKey(k.PubBytes))
			if err == nil {
				pk, err = crypto.UnmarshalPublicKey(dec)
			}
			samePub(k, "base64", pk, err)
			samePub(k, "GetPublic", k.Priv.GetPublic(), nil)

			// private key forms
			sk, err := crypto.UnmarshalPrivateKey(append([]byte{}, k.PrivBytes...))
			samePriv(k, "protobuf", sk, err)
			raw, err = k.Priv.Raw()
			if err != nil {
				viol("key-roundtrip-rejected", k, "private/raw", "Raw: %v", err)
			} else {
				sk, err = crypto.PrivKeyUnmarshallers[k.Priv.Type()](append([]byte{}, raw...))
				samePriv(k, "raw", sk, err)
				if k.Typ == crypto.Ed25519 && len(raw) == 64 {
					// legacy form: private key followed by a redundant copy of the public key
					sk, err = crypto.UnmarshalEd25519PrivateKey(append(append([]byte{}, raw...), raw[32:]...))
					samePriv(k, "raw-legacy96", sk, err)
				}
			}
			dec, err = crypto.ConfigDecodeKey(crypto.ConfigEncodeKey(k.PrivBytes))
			if err == nil {
				sk, err = crypto.UnmarshalPrivateKey(dec)
			}
			samePriv(k, "base64", sk, err)
		})
	}
	// "an equal key" must mean something: Equals is the identity relation on the generated keys.
	if a.shard == 0 {
		for i, x := range keys {
			for j, y := range keys {
				a.exec("equals", []byte(x.Name+"|"+y.Name), i != j)
				pe, se := x.Pub.Equals(y.Pub), x.Priv.Equals(y.Priv)
				if pe != (i == j) || se != (i == j) {
					a.r.Outcome("equals:wrong")
					a.r.Violate("distinct-keys-equal", fmt.Sprintf("%s vs %s: public Equals=%v private Equals=%v", x.Name, y.Name, pe, se),
						map[string]any{"section": "key-roundtrip", "a": x.Name, "b": y.Name})
				} else if i == j {
					a.r.Outcome("equals:same-key-true")
				} else {
					a.r.Outcome("equals:other-key-false")
				}
			}
			if x.Pub.Equals(x.Priv) || x.Priv.Equals(x.Pub) {
				a.r.Violate("distinct-keys-equal", fmt.Sprintf("%s: public key Equals its private key", x.Name), map[string]any{"key": x.Name})
			}
		}
	}
	for _, k := range keys[:1] {
		a.sample(1, "", map[string]any{"key": k.Name, "peer_id": k.ID.String(), "marshalled_public_len": len(k.PubBytes), "marshalled_private_len": len(k.PrivBytes)})
	}
}

// ---------- (2) "a signature verifies under the signer's public key for exactly the message that was signed
// and under no other key or message" ----------

func c08Messages() [][]byte {
	big := bytes.Repeat([]byte("x"), 4096)
	hab := sha256.Sum256([]byte("ab"))
	m := [][]byte{
		{}, {0}, {0, 0}, []byte("a"), []byte("ab"), []byte("abc"), []byte("b"),
		hab[:],          // the digest of another message (signing hashes internally: pre-hash confusion)
		big, big[:4095], // long prefix pair
	}
	if vrep.Thorough() {
		he := sha256.Sum256(nil)
		m = append(m, []byte("a\x00"), []byte("A"), []byte("ab "), he[:], append(append([]byte{}, big...), 'x'), bytes.Repeat([]byte{0}, 64))
	}
	return m
}

func TestVerifC08Sign(t *testing.T) {
	a := c08New(t, "sign-verify")
	defer a.flush()
	keys := c08Keys(t, c08KeysPerType())
	msgs := c08Messages()
	a.r.Bounds["keys"] = len(keys)
	a.r.Bounds["messages"] = len(msgs)
	a.r.Bounds["message_alphabet"] = "empty, 1 byte, prefix chains (\"\"<00<0000, a<ab<abc, 4095<4096 bytes), sha256 of another message"
	a.r.Bounds["verifier"] = "public key unmarshalled from its wire form (what a receiver holds); the in-memory key as well on the diagonal"
	recv := make([]crypto.PubKey, len(keys))
	for i, k := range keys {
		recv[i] = c08Receiver(k)
	}
	for i, k := range keys {
		for mi, m := range msgs {
			if !a.mine() {
				continue
			}
			if a.over("sign/verify") {
				return
			}
			var sig []byte
			var err error
			if a.guard("Sign "+k.Name, func() { sig, err = k.Priv.Sign(m) }) {
				continue
			}
			if err != nil {
				a.r.Outcome("sign:error")
				a.r.Violate("own-signature-rejected", fmt.Sprintf("%s cannot sign message #%d: %v", k.Name, mi, err),
					map[string]any{"section": "sign-verify", "signer": k.Name, "message": c08Hex(m)})
				continue
			}
			for j, vk := range keys {
				for mj, m2 := range msgs {
					diag := i == j && mi == mj
					var ok bool
					var verr error
					a.exec("verify/"+vk.Name, append(append(append([]byte{}, sig...), 0xfe), m2...), !diag)
					if a.guard("Verify "+vk.Name, func() { ok, verr = recv[j].Verify(m2, sig) }) {
						continue
					}
					rel := "other-key-other-type"
					switch {
					case diag:
						rel = "signer-and-message"
					case i == j:
						rel = "signer-other-message"
					case mi == mj && k.Typ == vk.Typ:
						rel = "other-key-same-type-same-message"
					case k.Typ == vk.Typ:
						rel = "other-key-same-type"
					}
					res := "false"
					if ok {
						res = "true"
					} else if verr != nil {
						res = "error"
					}
					a.r.Outcome(rel + ":" + res)
					rp := map[string]any{"section": "sign-verify", "signer": k.Name, "signed": c08Hex(m), "verifier": vk.Name, "verified": c08Hex(m2), "signature": c08Hex(sig)}
					if diag {
						ok2, err2 := k.Pub.Verify(m2, sig)
						if !ok || verr != nil || !ok2 || err2 != nil {
							a.r.Violate("own-signature-rejected", fmt.Sprintf("signature of %s over message #%d does not verify under its own public key (wire copy: %v %v, in-memory: %v %v)", k.Name, mi, ok, verr, ok2, err2), rp)
						}
						if len(m) > 0 {
							a.sample(1, "", map[string]any{"signer": k.Name, "message": c08Short(m), "signature_len": len(sig), "verified_against": fmt.Sprintf("%d keys x %d messages", len(keys), len(msgs))})
						}
					} else if ok {
						key := "signature-verifies-under-other-key"
						if i == j {
							key = "signature-verifies-for-other-message"
						}
						a.r.Violate(key, fmt.Sprintf("signature of %s over %s verifies under %s for %s", k.Name, c08Short(m), vk.Name, c08Short(m2)), rp)
					}
				}
			}
		}
	}
}

// ---------- (3) "a peer ID is a deterministic function of the public key whose binary, base58 and CID text
// forms round-trip (with the key recoverable from IDs that embed it)" ----------

func TestVerifC08IDs(t *testing.T) {
	a := c08New(t, "peer-ids")
	defer a.flush()
	keys := c08Keys(t, c08KeysPerType())
	a.r.Bounds["keys"] = len(keys)
	a.r.Bounds["text_forms"] = "base58 multihash (String), CIDv1 libp2p-key in base32 / base36 / base58btc / base16, MarshalText, MarshalJSON, /p2p multiaddr component"
	embedded, hashed := 0, 0
	for _, k := range keys {
		if !a.mine() {
			continue
		}
		viol := func(key, f string, args ...any) {
			a.r.Violate(key, k.Name+": "+fmt.Sprintf(f, args...), map[string]any{"section": "peer-ids", "key": k.Name, "pub": c08Hex(k.PubBytes), "id": c08Hex([]byte(k.ID))})
		}
		a.guard("peer ID "+k.Name, func() {
			// deterministic function of the public key, however the key object was obtained
			a.exec("id/derive", k.PubBytes, true)
			srcs := map[string]func() (peer.ID, error){
				"same key again":          func() (peer.ID, error) { return peer.IDFromPublicKey(k.Pub) },
				"key from wire":           func() (peer.ID, error) { return peer.IDFromPublicKey(c08Receiver(k)) },
				"private key":             func() (peer.ID, error) { return peer.IDFromPrivateKey(k.Priv) },
				"private key's GetPublic": func() (peer.ID, error) { return peer.IDFromPublicKey(k.Priv.GetPublic()) },
				"private key from wire": func() (peer.ID, error) {
					sk, err := crypto.UnmarshalPrivateKey(append([]byte{}, k.PrivBytes...))
					if err != nil {
						return k.ID, nil // reported by the key section
					}
					return peer.IDFromPrivateKey(sk)
				},
			}
			det := true
			for name, f := range srcs {
				id, err := f()
				if err != nil || id != k.ID {
					det = false
					viol("peer-id-not-deterministic", "ID derived from %s is %q (err=%v), first derivation gave %q", name, id, err, k.ID)
				}
			}
			if det {
				a.r.Outcome("derive:deterministic")
			}
			if err := k.ID.Validate(); err != nil {
				viol("peer-id-roundtrip", "Validate: %v", err)
			}

			// round trips
			rt := func(form string, enc []byte, dec func() (peer.ID, error)) {
				a.exec("id/"+form, enc, true)
				id, err := dec()
				if err != nil || id != k.ID {
					a.r.Outcome("roundtrip:" + form + ":broken")
					viol("peer-id-roundtrip", "%s form %q decodes to %q (err=%v)", form, c08Trunc(string(enc), 100), id, err)
					return
				}
				a.r.Outcome("roundtrip:" + form + ":ok")
			}
			bin, _ := k.ID.Marshal()
			rt("binary/IDFromBytes", bin, func() (peer.ID, error) { return peer.IDFromBytes(bin) })
			bin2, _ := k.ID.MarshalBinary()
			rt("binary/UnmarshalBinary", bin2, func() (peer.ID, error) { var id peer.ID; err := id.UnmarshalBinary(bin2); return id, err })
			b58 := k.ID.String()
			rt("base58", []byte(b58), func() (peer.ID, error) { return peer.Decode(b58) })
			c := peer.ToCid(k.ID)
			rt("cid/FromCid", c.Bytes(), func() (peer.ID, error) { return peer.FromCid(c) })
			rt("cid-base32", []byte(c.String()), func() (peer.ID, error) { return peer.Decode(c.String()) })
			for name, base := range map[string]mb.Encoding{"cid-base36": mb.Base36, "cid-base58btc": mb.Base58BTC, "cid-base16": mb.Base16} {
				s, err := c.StringOfBase(base)
				if err != nil {
					t.Fatalf("c08: StringOfBase: %v", err)
				}
				rt(name, []byte(s), func() (peer.ID, error) { return peer.Decode(s) })
			}
			txt, _ := k.ID.MarshalText()
			rt("text", txt, func() (peer.ID, error) { var id peer.ID; err := id.UnmarshalText(txt); return id, err })
			js, err := json.Marshal(k.ID)
			if err != nil {
				viol("peer-id-roundtrip", "MarshalJSON: %v", err)
			} else {
				rt("json", js, func() (peer.ID, error) { var id peer.ID; err := json.Unmarshal(js, &id); return id, err })
			}
			// inside a multiaddr (core/peer/addrinfo.go)
			tr := ma.StringCast("/ip4/1.2.3.4/tcp/4001")
			p2p, err := peer.AddrInfoToP2pAddrs(&peer.AddrInfo{ID: k.ID, Addrs: []ma.Multiaddr{tr}})
			if err != nil || len(p2p) != 1 {
				viol("peer-id-roundtrip", "AddrInfoToP2pAddrs: %v", err)
			} else {
				rt("multiaddr/AddrInfoFromP2pAddr", p2p[0].Bytes(), func() (peer.ID, error) {
					ai, err := peer.AddrInfoFromP2pAddr(p2p[0])
					if err != nil {
						return "", err
					}
					if len(ai.Addrs) != 1 || !ai.Addrs[0].Equal(tr) {
						return "", errors.New("transport part changed")
					}
					return ai.ID, nil
				})
				rt("multiaddr/IDFromP2PAddr", p2p[0].Bytes(), func() (peer.ID, error) { return peer.IDFromP2PAddr(p2p[0]) })
				rt("multiaddr/AddrInfoFromString", []byte(p2p[0].String()), func() (peer.ID, error) {
					ai, err := peer.AddrInfoFromString(p2p[0].String())
					if err != nil {
						return "", err
					}
					return ai.ID, nil
				})
			}

			// key recoverable from IDs that embed it; nothing else may come out of an ID
			a.exec("id/extract", bin, true)
			dm, derr := mh.Decode([]byte(k.ID))
			embeds := derr == nil && dm.Code == mh.IDENTITY
			pk, err := k.ID.ExtractPublicKey()
			switch {
			case embeds:
				embedded++
				if err != nil || pk == nil || !pk.Equals(k.Pub) || !k.Pub.Equals(pk) {
					a.r.Outcome("extract:" + c08TypeName(k.Typ) + ":embedded-but-not-recovered")
					viol("embedded-key-not-recovered", "the ID embeds the key (identity multihash) but ExtractPublicKey returns err=%v / a different key", err)
				} else {
					a.r.Outcome("extract:" + c08TypeName(k.Typ) + ":embedded-recovered")
				}
			default:
				hashed++
				if err == nil && pk != nil {
					a.r.Outcome("extract:" + c08TypeName(k.Typ) + ":hashed-yet-key-returned")
					if !pk.Equals(k.Pub) {
						viol("extracted-key-differs", "ExtractPublicKey on a hashed ID returns a key that is not the key the ID was derived from")
					}
				} else if errors.Is(err, peer.ErrNoPublicKey) {
					a.r.Outcome("extract:" + c08TypeName(k.Typ) + ":hashed-ErrNoPublicKey")
				} else {
					a.r.Outcome("extract:" + c08TypeName(k.Typ) + ":hashed-other-error")
				}
			}
			a.sample(1, "", map[string]any{"key": k.Name, "id_base58": b58, "id_cid": c.String(), "embeds_key": embeds})
		})
	}
	if a.nsh == 1 && (embedded == 0 || hashed == 0) {
		a.r.Note("coverage: %d IDs embed their key, %d are hashes - one of the two classes was not exercised", embedded, hashed)
	}
	// MatchesPublicKey / MatchesPrivateKey cross product: true exactly on the diagonal
	if a.shard == 0 {
		for i, x := range keys {
			for j, y := range keys {
				a.exec("id/matches", []byte(x.Name+"|"+y.Name), i != j)
				var m1, m2, m3 bool
				a.guard("MatchesPublicKey", func() {
					m1 = x.ID.MatchesPublicKey(y.Pub)
					m2 = x.ID.MatchesPrivateKey(y.Priv)
					m3 = x.ID.MatchesPublicKey(c08Receiver(y))
				})
				if m1 != (i == j) || m2 != (i == j) || m3 != (i == j) {
					a.r.Outcome("matches:wrong")
					key := "peer-id-matches-foreign-key"
					if i == j {
						key = "peer-id-does-not-match-own-key"
					}
					a.r.Violate(key, fmt.Sprintf("ID of %s: MatchesPublicKey(%s)=%v MatchesPrivateKey=%v MatchesPublicKey(wire copy)=%v", x.Name, y.Name, m1, m2, m3),
						map[string]any{"section": "peer-ids", "id_of": x.Name, "key": y.Name})
				} else if i == j {
					a.r.Outcome("matches:own-key-true")
				} else {
					a.r.Outcome("matches:foreign-key-false")
				}
				if (x.ID == y.ID) != (i == j) {
					a.r.Violate("peer-id-collision", fmt.Sprintf("%s and %s have the same peer ID", x.Name, y.Name), map[string]any{"a": x.Name, "b": y.Name})
				}
			}
		}
	}
}
