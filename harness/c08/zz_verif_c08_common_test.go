//go:build verif

package pstoreds

// C08 "Keys, peer IDs and signed envelopes bind identity to content" - engine E3, exhaustive input enumeration.
//
// The harness lives in pstoreds only because that package can import everything the property touches
// (core/crypto, core/peer, core/record, circuitv2/proto, pstoremem and pstoreds itself) without an import
// cycle. The only white-box entry point needed from another package is core/record.makeUnsigned (export
// shim in shims/core__record).
//
// This file: deterministic keys, accounting, protobuf wire helpers and the two mutation enumerators
// (byte level and protobuf-structure level) shared by the section files:
//   zz_verif_c08_keys_test.go    (1) key round trips, (2) sign/verify cross product, (3) peer IDs
//   zz_verif_c08_env_test.go     (4) envelope triples, foreign keys, foreign domains
//   zz_verif_c08_mut_test.go     (5) byte / truncation / protobuf-field edits of every serialized artefact
//   zz_verif_c08_pstore_test.go  (6) ConsumePeerRecord on both peerstores

import (
	"crypto/sha256"
	"encoding/binary"
	"encoding/hex"
	"fmt"
	"hash/fnv"
	"runtime/debug"
	"testing"
	"time"

	"github.com/libp2p/go-libp2p/core/crypto"
	"github.com/libp2p/go-libp2p/core/peer"
	"github.com/libp2p/go-libp2p/x/verif/vrep"

	"google.golang.org/protobuf/encoding/protowire"
)

// ---------- deterministic byte stream (the only source of "randomness" in the harness) ----------

// c08Stream is SHA-256 in counter mode over (VERIF_SEED, label). One-byte reads return a constant and do
// not advance the stream: crypto/internal/randutil.MaybeReadByte (used by the stdlib RSA/ECDSA key
// generators precisely to defeat deterministic readers) consumes one byte with probability 1/2, and would
// otherwise make the generated key depend on a coin flip. No key generator reads single bytes on purpose.
type c08Stream struct {
	seed [32]byte
	ctr  uint64
	buf  []byte
}

func c08NewStream(label string) *c08Stream {
	return &c08Stream{seed: sha256.Sum256([]byte(fmt.Sprintf("verif-c08/seed=%d/%s", vrep.Seed(), label)))}
}

func (s *c08Stream) Read(p []byte) (int, error) {
	if len(p) == 1 {
		p[0] = 0
		return 1, nil
	}
	for i := range p {
		if len(s.buf) == 0 {
			var c [8]byte
			binary.BigEndian.PutUint64(c[:], s.ctr)
			s.ctr++
			h := sha256.Sum256(append(append([]byte{}, s.seed[:]...), c[:]...))
			s.buf = h[:]
		}
		p[i] = s.buf[0]
		s.buf = s.buf[1:]
	}
	return len(p), nil
}

// ---------- keys ----------

var c08Types = []int{crypto.Ed25519, crypto.Secp256k1, crypto.ECDSA, crypto.RSA}

func c08TypeName(typ int) string {
	switch typ {
	case crypto.Ed25519:
		return "ed25519"
	case crypto.Secp256k1:
		return "secp256k1"
	case crypto.ECDSA:
		return "ecdsa"
	case crypto.RSA:
		return "rsa2048"
	}
	return fmt.Sprint("type", typ)
}

type c08Key struct {
	Name      string
	Typ, Idx  int
	Priv      crypto.PrivKey
	Pub       crypto.PubKey
	ID        peer.ID
	PubBytes  []byte // crypto.MarshalPublicKey
	PrivBytes []byte // crypto.MarshalPrivateKey
}

var c08KeyCache = map[string]*c08Key{}

// c08GenKey returns the idx-th key of a type, a deterministic function of (VERIF_SEED, type, idx).
// Failures here are infrastructure failures (no verdict), never violations.
func c08GenKey(t testing.TB, typ, idx int) *c08Key {
	name := fmt.Sprintf("%s#%d", c08TypeName(typ), idx)
	if k, ok := c08KeyCache[name]; ok {
		return k
	}
	src := c08NewStream("key/" + name)
	var priv crypto.PrivKey
	var pub crypto.PubKey
	var err error
	switch typ {
	case crypto.Secp256k1:
		// GenerateSecp256k1Key ignores its reader (always crypto/rand): derive the scalar ourselves.
		b := make([]byte, 32)
		src.Read(b)
		priv, err = crypto.UnmarshalSecp256k1PrivateKey(b)
		if err == nil {
			pub = priv.GetPublic()
		}
	default:
		priv, pub, err = crypto.GenerateKeyPairWithReader(typ, 2048, src)
	}
	if err != nil {
		t.Fatalf("c08: cannot generate %s: %v", name, err)
	}
	k := &c08Key{Name: name, Typ: typ, Idx: idx, Priv: priv, Pub: pub}
	if k.PubBytes, err = crypto.MarshalPublicKey(pub); err != nil {
		t.Fatalf("c08: cannot marshal public key %s: %v", name, err)
	}
	if k.PrivBytes, err = crypto.MarshalPrivateKey(priv); err != nil {
		t.Fatalf("c08: cannot marshal private key %s: %v", name, err)
	}
	if k.ID, err = peer.IDFromPublicKey(pub); err != nil {
		t.Fatalf("c08: cannot derive the peer ID of %s: %v", name, err)
	}
	c08KeyCache[name] = k
	return k
}

// c08Keys returns perType keys of every supported type, ordered by type then index.
func c08Keys(t testing.TB, perType int) []*c08Key {
	var out []*c08Key
	for _, typ := range c08Types {
		for i := 0; i < perType; i++ {
			out = append(out, c08GenKey(t, typ, i))
		}
	}
	return out
}

// c08Receiver is the public key as a receiver holds it: unmarshalled from its wire form. When the round
// trip itself is broken (reported by the "keys" section) the in-memory key is used instead.
func c08Receiver(k *c08Key) crypto.PubKey {
	pk, err := crypto.UnmarshalPublicKey(append([]byte{}, k.PubBytes...))
	if err != nil || pk == nil {
		return k.Pub
	}
	return pk
}

func c08KeysPerType() int {
	if vrep.Thorough() {
		return 6
	}
	return 3
}

// ---------- accounting ----------

type c08Acct struct {
	r      *vrep.Result
	t      testing.TB
	seen   map[uint64]struct{}
	tick   int
	stop   bool
	npan   int
	shard  int
	nsh    int
	item   int
	nsamp  int
	sclass map[string]bool
}

func c08New(t testing.TB, part string) *c08Acct {
	a := &c08Acct{r: vrep.New("C08", part), t: t, seen: map[uint64]struct{}{}}
	a.shard, a.nsh = vrep.Shard()
	a.r.Bounds["tier"] = vrep.Tier()
	return a
}

// mine splits work items round-robin over the worker processes of a sharded part.
func (a *c08Acct) mine() bool {
	i := a.item
	a.item++
	return i%a.nsh == a.shard
}

// exec counts one execution of real code on one input. A case is non-trivial when its input differs from
// the honest artefact / the diagonal of a cross product; distinct = distinct (consumer, input) pairs.
func (a *c08Acct) exec(consumer string, input []byte, nontrivial bool) {
	a.r.Executions++
	if !nontrivial {
		return
	}
	h := fnv.New64a()
	h.Write([]byte(consumer))
	h.Write([]byte{0})
	h.Write(input)
	a.seen[h.Sum64()] = struct{}{}
}

// over reports whether the internal deadline has passed (checked every 64 calls); the first time it
// records the cap.
func (a *c08Acct) over(where string) bool {
	if a.stop {
		return true
	}
	a.tick++
	if a.tick%64 != 0 {
		return false
	}
	if time.Now().After(vrep.Deadline()) {
		a.stop = true
		a.r.Cap("deadline reached in %s after %d executions", where, a.r.Executions)
	}
	return a.stop
}

// baseline records that an honest case failed where the statement only gives an "only if": the run is then
// vacuous, which is reported as "no verdict" (test failure => infrastructure exit), not as a violation.
func (a *c08Acct) baseline(f string, args ...any) {
	msg := fmt.Sprintf(f, args...)
	a.r.Cap("baseline failed (run is vacuous): %s", msg)
	a.t.Errorf("c08 baseline failed: %s", msg)
}

// guard runs f and converts a panic of the code under test into an outcome class: a panic is not an
// acceptance, so it cannot violate C08; it is surfaced as a note and as lost coverage.
func (a *c08Acct) guard(what string, f func()) (panicked bool) {
	defer func() {
		if p := recover(); p != nil {
			panicked = true
			a.npan++
			a.r.Outcome("panic:" + what)
			if a.npan <= 3 {
				a.r.Note("panic in %s: %v\n%s", what, p, c08Trunc(string(debug.Stack()), 1500))
			}
			if a.npan == 1 {
				a.r.Cap("code under test (or harness) panicked in %s; see notes", what)
			}
		}
	}()
	f()
	return false
}

// sample keeps at most `limit` samples per section and one per class (the merged evidence shows 12 samples
// over all sections, so every section contributes one or two).
func (a *c08Acct) sample(limit int, class string, v any) {
	if a.nsamp >= limit || a.sclass[class] {
		return
	}
	if a.sclass == nil {
		a.sclass = map[string]bool{}
	}
	a.sclass[class] = true
	a.nsamp++
	a.r.Sample(v)
}

func (a *c08Acct) flush() {
	a.r.Distinct = int64(len(a.seen))
	a.r.Flush()
}

func c08Trunc(s string, n int) string {
	if len(s) > n {
		return s[:n] + "..."
	}
	return s
}

func c08Hex(b []byte) string {
	if len(b) > 2048 {
		return hex.EncodeToString(b[:2048]) + fmt.Sprintf("...(%d bytes)", len(b))
	}
	return hex.EncodeToString(b)
}

// c08Short renders a field value for samples / descriptions: printable strings as Go literals, long runs
// compressed.
func c08Short(b []byte) string {
	if len(b) > 16 {
		same := true
		for _, c := range b {
			if c != b[0] {
				same = false
				break
			}
		}
		if same {
			return fmt.Sprintf("%q*%d", string(b[:1]), len(b))
		}
		return fmt.Sprintf("%q...(%d bytes)", string(b[:8]), len(b))
	}
	return fmt.Sprintf("%q", string(b))
}

// ---------- protobuf wire helpers ----------

type c08Field struct {
	num protowire.Number
	typ protowire.Type
	raw []byte // the complete field, tag included
	val []byte // payload of a length-delimited field
}

// c08Split cuts a serialized message into its top-level fields (honest artefacts always parse).
func c08Split(b []byte) ([]c08Field, bool) {
	var out []c08Field
	for len(b) > 0 {
		num, typ, n := protowire.ConsumeTag(b)
		if n < 0 {
			return nil, false
		}
		m := protowire.ConsumeFieldValue(num, typ, b[n:])
		if m < 0 {
			return nil, false
		}
		f := c08Field{num: num, typ: typ, raw: b[:n+m]}
		if typ == protowire.BytesType {
			v, k := protowire.ConsumeBytes(b[n:])
			if k < 0 {
				return nil, false
			}
			f.val = v
		}
		out = append(out, f)
		b = b[n+m:]
	}
	return out, true
}

func c08Join(fs []c08Field) []byte {
	var out []byte
	for _, f := range fs {
		out = append(out, f.raw...)
	}
	if out == nil {
		out = []byte{}
	}
	return out
}

func c08LD(num protowire.Number, val []byte) c08Field {
	raw := protowire.AppendTag(nil, num, protowire.BytesType)
	raw = protowire.AppendBytes(raw, val)
	return c08Field{num: num, typ: protowire.BytesType, raw: raw, val: append([]byte{}, val...)}
}

// c08Overlong re-encodes a varint with one redundant continuation byte (same value, non-canonical).
func c08Overlong(v uint64) []byte {
	b := protowire.AppendVarint(nil, v)
	b[len(b)-1] |= 0x80
	return append(b, 0x00)
}

// c08Schema says which length-delimited fields are nested messages (edited recursively).
type c08Schema map[protowire.Number]c08Schema

// ---------- mutation enumerators ----------

// c08Mut is one edited serialization. Cat is the coarse class used in outcome histograms.
type c08Mut struct {
	Cat  string // "xor" | "truncate" | "extend" | "indel" | "struct"
	Kind string // full description, e.g. "xor@17^80", "3{drop#1}"
	Data []byte
}

// c08Masks: the XOR masks applied at every position of an artefact of n bytes. quick: every single-bit flip
// plus the full complement; thorough: all 255 non-zero masks (= every possible substitution of every byte) for
// artefacts up to 300 bytes (everything except RSA material), the quick set for longer ones.
func c08Masks(n int) []byte {
	if vrep.Thorough() && n <= 300 {
		m := make([]byte, 0, 255)
		for x := 1; x < 256; x++ {
			m = append(m, byte(x))
		}
		return m
	}
	return []byte{0x01, 0x02, 0x04, 0x08, 0x10, 0x20, 0x40, 0x80, 0xff}
}

const c08MaskBound = "quick: 01 02 04 08 10 20 40 80 ff; thorough: all 255 masks for artefacts <= 300 bytes, the quick set for longer (RSA) ones"

// c08ByteMuts: every single-byte XOR edit (masks above) at every position, every truncation (every proper
// prefix, the empty string included), trailing garbage; thorough adds every single-byte deletion and
// insertion. f returns false to stop.
func c08ByteMuts(orig []byte, f func(m c08Mut) bool) bool {
	cp := func() []byte { return append(make([]byte, 0, len(orig)+1), orig...) }
	for pos := range orig {
		for _, mask := range c08Masks(len(orig)) {
			d := cp()
			d[pos] ^= mask
			if !f(c08Mut{"xor", fmt.Sprintf("xor@%d^%02x", pos, mask), d}) {
				return false
			}
		}
	}
	for n := 0; n < len(orig); n++ {
		if !f(c08Mut{"truncate", fmt.Sprintf("truncate@%d", n), cp()[:n]}) {
			return false
		}
	}
	for _, x := range []byte{0x00, 0xff} {
		if !f(c08Mut{"extend", fmt.Sprintf("append-%02x", x), append(cp(), x)}) {
			return false
		}
	}
	if !f(c08Mut{"extend", "append-self", append(cp(), orig...)}) {
		return false
	}
	if vrep.Thorough() {
		for pos := range orig {
			d := append(append([]byte{}, orig[:pos]...), orig[pos+1:]...)
			if !f(c08Mut{"indel", fmt.Sprintf("delete@%d", pos), d}) {
				return false
			}
			for _, x := range []byte{0x00, orig[pos]} {
				d := append(append(append([]byte{}, orig[:pos]...), x), orig[pos:]...)
				if !f(c08Mut{"indel", fmt.Sprintf("insert@%d:%02x", pos, x), d}) {
					return false
				}
			}
		}
	}
	return true
}

// c08StructMuts: protobuf-level edits of a serialized message, recursively inside the nested messages
// named by sch (the enclosing length prefixes are recomputed, so the edit is not masked by a framing error):
// drop / duplicate (adjacent and at the end) / reorder (every transposition, full reversal) of fields,
// exchange of the values of two length-delimited fields, every re-framed truncation of a length-delimited
// value, one-byte extension, and the harmless re-encodings a decoder may tolerate (non-minimal varints in tag
// and length, unknown fields in front and at the end).
func c08StructMuts(orig []byte, sch c08Schema, f func(m c08Mut) bool) bool {
	fs, ok := c08Split(orig)
	if !ok {
		return true
	}
	emit := func(kind string, nf []c08Field) bool {
		return f(c08Mut{"struct", kind, c08Join(nf)})
	}
	with := func(i int, repl ...c08Field) []c08Field {
		nf := append([]c08Field{}, fs[:i]...)
		nf = append(nf, repl...)
		return append(nf, fs[i+1:]...)
	}
	n := len(fs)
	for i := 0; i < n; i++ {
		fi := fs[i]
		if !emit(fmt.Sprintf("drop#%d(f%d)", i, fi.num), with(i)) {
			return false
		}
		if !emit(fmt.Sprintf("dup#%d(f%d)", i, fi.num), with(i, fi, fi)) {
			return false
		}
		if i != n-1 {
			if !emit(fmt.Sprintf("dup-at-end#%d(f%d)", i, fi.num), append(append([]c08Field{}, fs...), fi)) {
				return false
			}
		}
		for j := i + 1; j < n; j++ {
			nf := append([]c08Field{}, fs...)
			nf[i], nf[j] = nf[j], nf[i]
			if !emit(fmt.Sprintf("swap#%d,#%d(f%d,f%d)", i, j, fi.num, fs[j].num), nf) {
				return false
			}
			if fi.typ == protowire.BytesType && fs[j].typ == protowire.BytesType {
				nf := append([]c08Field{}, fs...)
				nf[i], nf[j] = c08LD(fi.num, fs[j].val), c08LD(fs[j].num, fi.val)
				if !emit(fmt.Sprintf("swap-values#%d,#%d(f%d,f%d)", i, j, fi.num, fs[j].num), nf) {
					return false
				}
			}
		}
		// harmless re-encodings: non-minimal tag / length varints
		tag := protowire.EncodeTag(fi.num, fi.typ)
		tl := protowire.SizeVarint(tag)
		ot := c08Field{num: fi.num, typ: fi.typ, raw: append(c08Overlong(tag), fi.raw[tl:]...), val: fi.val}
		if !emit(fmt.Sprintf("overlong-tag#%d(f%d)", i, fi.num), with(i, ot)) {
			return false
		}
		if fi.typ == protowire.BytesType {
			raw := append(protowire.AppendVarint(nil, tag), c08Overlong(uint64(len(fi.val)))...)
			raw = append(raw, fi.val...)
			if !emit(fmt.Sprintf("overlong-len#%d(f%d)", i, fi.num), with(i, c08Field{num: fi.num, typ: fi.typ, raw: raw, val: fi.val})) {
				return false
			}
			for k := 0; k < len(fi.val); k++ {
				if !emit(fmt.Sprintf("value-truncate#%d(f%d)@%d", i, fi.num, k), with(i, c08LD(fi.num, fi.val[:k]))) {
					return false
				}
			}
			for _, x := range []byte{0x00, 0xff} {
				if !emit(fmt.Sprintf("value-extend#%d(f%d)+%02x", i, fi.num, x), with(i, c08LD(fi.num, append(append([]byte{}, fi.val...), x)))) {
					return false
				}
			}
			if sub, nested := sch[fi.num]; nested {
				cont := c08StructMuts(fi.val, sub, func(m c08Mut) bool {
					return emit(fmt.Sprintf("f%d{%s}", fi.num, m.Kind), with(i, c08LD(fi.num, m.Data)))
				})
				if !cont {
					return false
				}
			}
		}
	}
	if n > 2 {
		nf := make([]c08Field, n)
		for i := range fs {
			nf[n-1-i] = fs[i]
		}
		if !emit("reverse", nf) {
			return false
		}
	}
	unkV := c08Field{num: 15, typ: protowire.VarintType, raw: protowire.AppendVarint(protowire.AppendTag(nil, 15, protowire.VarintType), 1)}
	unkB := c08LD(14, []byte("xyz"))
	if !emit("append-unknown-varint", append(append([]c08Field{}, fs...), unkV)) {
		return false
	}
	if !emit("prepend-unknown-bytes", append([]c08Field{unkB}, fs...)) {
		return false
	}
	return true
}

// c08AllMuts runs both enumerators.
func c08AllMuts(orig []byte, sch c08Schema, structural bool, f func(m c08Mut) bool) bool {
	if !c08ByteMuts(orig, f) {
		return false
	}
	if structural {
		return c08StructMuts(orig, sch, f)
	}
	return true
}
