//go:build verif

package pstoreds

// C08 section (4): "An envelope ... is accepted only if the domain asked for, the payload type, the payload and
// the signing key are exactly those it was sealed with."
//
//   a. pre-image: the real makeUnsigned over every (domain, type, payload) triple of a field alphabet built
//      so that concatenations coincide unless every field is length-prefixed correctly; any two triples
//      with the same pre-image are then pushed through the real Seal / Consume to confirm that a receiver
//      really accepts one for the other (the alarm is the acceptance, not the collision);
//   b. acceptance cross product: seal under triple s (real Seal), put (type, payload) of triple c on the
//      wire with s's signature, consume asking for c's domain => accepted iff s == c;
//   c. every pairing of an envelope with a foreign public key;
//   d. real record types (peer record, relay voucher, test record) against every domain.

import (
	"bytes"
	"crypto/sha256"
	"fmt"
	"testing"
	"time"

	"github.com/libp2p/go-libp2p/core/crypto"
	"github.com/libp2p/go-libp2p/core/peer"
	"github.com/libp2p/go-libp2p/core/record"
	recpb "github.com/libp2p/go-libp2p/core/record/pb"
	circuit "github.com/libp2p/go-libp2p/p2p/protocol/circuitv2/proto"
	"github.com/libp2p/go-libp2p/x/verif/vrep"

	ma "github.com/multiformats/go-multiaddr"
	"google.golang.org/protobuf/proto"
)

// c08Rec is a record type whose domain, codec and payload are whatever the enumeration says.
type c08Rec struct {
	domain  string
	codec   []byte
	payload []byte
}

func (r *c08Rec) Domain() string                 { return r.domain }
func (r *c08Rec) Codec() []byte                  { return r.codec }
func (r *c08Rec) MarshalRecord() ([]byte, error) { return r.payload, nil }
func (r *c08Rec) UnmarshalRecord(b []byte) error { r.payload = append([]byte{}, b...); return nil }

type c08Triple struct {
	D    string
	T, P []byte
}

func (x c08Triple) eq(y c08Triple) bool {
	return x.D == y.D && bytes.Equal(x.T, y.T) && bytes.Equal(x.P, y.P)
}
func (x c08Triple) sealable() bool { return x.D != "" && len(x.T) > 0 } // record.Seal refuses empty domain / type
func (x c08Triple) String() string {
	return fmt.Sprintf("(domain=%s type=%s payload=%s)", c08Short([]byte(x.D)), c08Short(x.T), c08Short(x.P))
}

func c08Rep(b byte, n int) []byte { return bytes.Repeat([]byte{b}, n) }

// c08PreimageAlphabet: field values for the pre-image search. Small bytes double as length prefixes
// (00, 01, 02), letters give the classic "ab"+"c" = "a"+"bc" coincidence, 127/128 and 16383/16384 are where the
// uvarint prefix changes width, 255/256 is where a one-byte length would wrap.
func c08PreimageAlphabet() [][]byte {
	sym := []byte{0, 1, 2, 'a'}
	maxLen := 3
	if vrep.Thorough() {
		sym = []byte{0, 1, 2, 'a', 0x80}
	}
	vals := [][]byte{{}}
	level := [][]byte{{}}
	for l := 1; l <= maxLen; l++ {
		var next [][]byte
		for _, p := range level {
			for _, s := range sym {
				next = append(next, append(append([]byte{}, p...), s))
			}
		}
		vals = append(vals, next...)
		level = next
	}
	for _, s := range []string{"a", "b", "c", "ab", "bc", "abc", "\x7f", "\x80", "\x80\x01"} {
		dup := false
		for _, v := range vals {
			if string(v) == s {
				dup = true
			}
		}
		if !dup {
			vals = append(vals, []byte(s))
		}
	}
	vals = append(vals, c08Rep('a', 127), c08Rep('a', 128), c08Rep(0, 255), c08Rep(0, 256))
	if vrep.Thorough() {
		vals = append(vals, c08Rep('a', 129), c08Rep(0, 257), c08Rep(1, 128), c08Rep('a', 16383), c08Rep('a', 16384))
	}
	return vals
}

// c08CrossAlphabet: (domains, types, payloads) of the acceptance cross product; the empty domain / type
// exist on the consumer side only (Seal refuses them).
func c08CrossAlphabet(full bool) (ds []string, ts, ps [][]byte) {
	if !full {
		return []string{"a", "ab", string(c08Rep('a', 128)), ""},
			[][]byte{[]byte("c"), []byte("bc"), {}},
			[][]byte{{}, []byte("c"), c08Rep('a', 127)}
	}
	ds = []string{"a", "ab", "a\x01", "\x00", string(c08Rep('a', 127)), string(c08Rep('a', 128)), ""}
	ts = [][]byte{[]byte("c"), []byte("bc"), {1}, {1, 2}, c08Rep(0, 256), {}}
	ps = [][]byte{{}, []byte("c"), {0}, {1, 0}, c08Rep(0, 256), c08Rep('a', 128)}
	if vrep.Thorough() {
		ds = append(ds, "abc", "\x01", "a\x01\x01")
		ts = append(ts, []byte("b"), []byte{0}, []byte{1, 1})
		ps = append(ps, []byte("bc"), []byte{1}, c08Rep('a', 127))
	}
	return
}

func c08Triples(ds []string, ts, ps [][]byte) []c08Triple {
	var out []c08Triple
	for _, d := range ds {
		for _, t := range ts {
			for _, p := range ps {
				out = append(out, c08Triple{d, t, p})
			}
		}
	}
	return out
}

var c08Registered = map[string]bool{}

func c08Register(t []byte) {
	if !c08Registered[string(t)] {
		c08Registered[string(t)] = true
		record.RegisterType(&c08Rec{codec: append([]byte{}, t...)})
	}
}

// c08Seal produces (signature, marshalled honest envelope) for a triple: through the real record.Seal
// whenever Seal accepts the triple, otherwise (empty domain or type, as another implementation might
// produce) by signing the real pre-image directly.
func c08Seal(t testing.TB, k *c08Key, x c08Triple) (sig, wire []byte) {
	if x.sealable() {
		env, err := record.Seal(&c08Rec{domain: x.D, codec: x.T, payload: x.P}, k.Priv)
		if err != nil {
			t.Fatalf("c08: Seal %v with %s: %v", x, k.Name, err)
		}
		wire, err = env.Marshal()
		if err != nil {
			t.Fatalf("c08: Envelope.Marshal: %v", err)
		}
		var e recpb.Envelope
		if err := proto.Unmarshal(wire, &e); err != nil {
			t.Fatalf("c08: cannot re-read own envelope: %v", err)
		}
		return e.Signature, wire
	}
	pre, err := record.C08MakeUnsigned(x.D, x.T, x.P)
	if err != nil {
		t.Fatalf("c08: makeUnsigned: %v", err)
	}
	sig, err = k.Priv.Sign(pre)
	if err != nil {
		t.Fatalf("c08: Sign: %v", err)
	}
	return sig, c08Wire(t, k.Pub, x.T, x.P, sig)
}

// c08Wire serializes an envelope with arbitrary field contents (what a man in the middle can send).
func c08Wire(t testing.TB, pub crypto.PubKey, typ, payload, sig []byte) []byte {
	pm, err := crypto.PublicKeyToProto(pub)
	if err != nil {
		t.Fatalf("c08: PublicKeyToProto: %v", err)
	}
	b, err := proto.Marshal(&recpb.Envelope{PublicKey: pm, PayloadType: typ, Payload: payload, Signature: sig})
	if err != nil {
		t.Fatalf("c08: marshal envelope: %v", err)
	}
	return b
}

// c08Consume runs both consumers on wire bytes asking for `domain`; for each it reports whether the
// envelope was accepted and, if so, what the receiver ended up with.
type c08Got struct {
	consumer string
	accepted bool
	err      error
	env      *record.Envelope
	payload  []byte // what the record's UnmarshalRecord saw
}

func c08Consume(a *c08Acct, wire []byte, domain string) []c08Got {
	out := make([]c08Got, 2)
	out[0].consumer, out[1].consumer = "ConsumeEnvelope", "ConsumeTypedEnvelope"
	a.guard("ConsumeEnvelope", func() {
		env, rec, err := record.ConsumeEnvelope(append([]byte{}, wire...), domain)
		out[0].err = err
		if err == nil {
			out[0].accepted, out[0].env = true, env
			if r, ok := rec.(*c08Rec); ok {
				out[0].payload = r.payload
			} else {
				out[0].payload = nil
			}
		}
	})
	a.guard("ConsumeTypedEnvelope", func() {
		dst := &c08Rec{domain: domain}
		env, err := record.ConsumeTypedEnvelope(append([]byte{}, wire...), dst)
		out[1].err = err
		if err == nil {
			out[1].accepted, out[1].env, out[1].payload = true, env, dst.payload
		}
	})
	return out
}

// c08SameAsSealed: the accepted envelope carries exactly what was sealed.
func c08SameAsSealed(g c08Got, k *c08Key, s c08Triple) string {
	switch {
	case g.env == nil:
		return "no envelope returned"
	case g.env.PublicKey == nil || !g.env.PublicKey.Equals(k.Pub):
		return "different signer key"
	case !bytes.Equal(g.env.PayloadType, s.T):
		return "different payload type"
	case !bytes.Equal(g.env.RawPayload, s.P):
		return "different payload"
	case !bytes.Equal(g.payload, s.P):
		return "record unmarshalled from different bytes"
	}
	if id, err := peer.IDFromPublicKey(g.env.PublicKey); err != nil || id != k.ID {
		return "signer peer ID differs"
	}
	return ""
}

func TestVerifC08Env(t *testing.T) {
	c08EnvPreimage(t)
	c08EnvCross(t)
	c08EnvForeign(t)
}

// ---------- a. pre-image search ----------

func c08EnvPreimage(t *testing.T) {
	a := c08New(t, "envelope-preimage")
	defer a.flush()
	vals := c08PreimageAlphabet()
	a.r.Bounds["field_alphabet"] = fmt.Sprintf("%d values: all strings of length <= 3 over {00,01,02,'a'} (thorough: plus 80) - small bytes double as length prefixes -, a/b/c/ab/bc/abc, 7f/80/8001, runs of length 127/128 and 255/256 (thorough: 129, 257, 16383, 16384)", len(vals))
	a.r.Bounds["triples"] = len(vals) * len(vals) * len(vals)
	// sharding: every worker computes every pre-image (cheap) but tables / counts only those whose hash falls
	// into its bucket, so equal pre-images always meet in the same worker.
	k := c08GenKey(t, crypto.Ed25519, 0)
	type ent struct{ d, t, p int32 }
	first := map[[16]byte]ent{}
	confirmed, confirmedOther := 0, 0
	idx := 0
	for di, d := range vals {
		for ti, ty := range vals {
			for pi, p := range vals {
				idx++
				if a.over("pre-image search") {
					return
				}
				pre, err := record.C08MakeUnsigned(string(d), ty, p)
				if err != nil {
					t.Fatalf("c08: makeUnsigned: %v", err)
				}
				h := sha256.Sum256(pre)
				if int(h[31])%a.nsh != a.shard {
					continue
				}
				x := c08Triple{string(d), ty, p}
				a.exec("makeUnsigned", pre, true)
				var hk [16]byte
				copy(hk[:], h[:16])
				prev, dup := first[hk]
				if !dup {
					first[hk] = ent{int32(di), int32(ti), int32(pi)}
					continue
				}
				y := c08Triple{string(vals[prev.d]), vals[prev.t], vals[prev.p]}
				a.r.Outcome("preimage:collision")
				// confirm through the real code that a receiver accepts one for the other (at most 200
				// confirmations for pairs record.Seal can produce and 200 for pairs it cannot)
				s, c := y, x
				if !s.sealable() && c.sealable() {
					s, c = c, s
				}
				if s.sealable() {
					if confirmed >= 200 {
						continue
					}
					confirmed++
				} else {
					if confirmedOther >= 200 {
						continue
					}
					confirmedOther++
				}
				sig, _ := c08Seal(t, k, s)
				wire := c08Wire(t, k.Pub, c.T, c.P, sig)
				c08Register(c.T)
				for _, g := range c08Consume(a, wire, c.D) {
					a.exec(g.consumer, append([]byte(c.D+"\x00"), wire...), true)
					if g.accepted {
						a.r.Outcome("preimage:collision-accepted")
						key, how := "envelope-accepted-under-different-triple", "sealed by record.Seal"
						if !s.sealable() {
							// record.Seal refuses an empty domain / type; such an envelope can only come from another
							// implementation (the harness signs the real pre-image directly). Separate key.
							key, how = "envelope-accepted-under-different-triple(not-sealable-by-go)", "signed over the real pre-image, record.Seal refuses it"
						}
						a.r.Violate(key,
							fmt.Sprintf("%s: envelope (ed25519, %s) for %v is accepted as %v: both have the signed pre-image %s", g.consumer, how, s, c, c08Trunc(c08Hex(pre), 96)),
							map[string]any{"section": "envelope-preimage", "consumer": g.consumer, "sealed": s.String(), "consumed": c.String(), "wire": c08Hex(wire), "ask_domain": c08Hex([]byte(c.D))})
					} else {
						a.r.Outcome("preimage:collision-rejected-anyway")
					}
				}
			}
		}
	}
	a.r.Outcome("preimage:distinct")
	a.r.Note("shard %d/%d: %d distinct pre-images among the %d triples of its hash bucket (%d triples enumerated)", a.shard, a.nsh, len(first), a.r.Executions, idx)
	a.sample(1, "", map[string]any{"triple": c08Triple{"ab", []byte("c"), nil}.String(), "vs": c08Triple{"a", []byte("bc"), nil}.String(), "note": "same concatenation, must have different pre-images"})
}

// ---------- b. acceptance cross product ----------

func c08EnvCross(t *testing.T) {
	a := c08New(t, "envelope-triples")
	defer a.flush()
	for _, typ := range c08Types {
		full := typ == crypto.Ed25519 || vrep.Thorough()
		ds, ts, ps := c08CrossAlphabet(full)
		if typ != crypto.Ed25519 && vrep.Thorough() {
			ds, ts, ps = ds[:7], ts[:6], ps[:6] // the quick Ed25519 alphabet
		}
		all := c08Triples(ds, ts, ps)
		for _, ty := range ts {
			c08Register(ty)
		}
		k := c08GenKey(t, typ, 0)
		nseal := 0
		for _, s := range all {
			if !s.sealable() {
				continue
			}
			nseal++
			if !a.mine() {
				continue
			}
			sig, honest := c08Seal(t, k, s)
			for _, c := range all {
				if a.over("envelope cross product") {
					return
				}
				same := s.eq(c)
				wire := c08Wire(t, k.Pub, c.T, c.P, sig)
				if same {
					wire = honest
				}
				for _, g := range c08Consume(a, wire, c.D) {
					a.exec(g.consumer, append([]byte(c.D+"\x00"), wire...), !same)
					rel := ""
					if s.D != c.D {
						rel += "D"
					}
					if !bytes.Equal(s.T, c.T) {
						rel += "T"
					}
					if !bytes.Equal(s.P, c.P) {
						rel += "P"
					}
					res := "rejected"
					if g.accepted {
						res = "accepted"
					}
					if rel == "" {
						a.r.Outcome("identical-triple:" + res)
					} else {
						a.r.Outcome("differs-in-" + rel + ":" + res)
					}
					rp := map[string]any{"section": "envelope-triples", "consumer": g.consumer, "key": k.Name, "sealed": s.String(), "consumed": c.String(), "wire": c08Hex(wire), "ask_domain": c08Hex([]byte(c.D))}
					switch {
					case g.accepted && !same:
						a.r.Violate("envelope-accepted-under-different-triple", fmt.Sprintf("%s (%s): sealed as %v, accepted as %v", g.consumer, k.Name, s, c), rp)
					case g.accepted:
						if why := c08SameAsSealed(g, k, s); why != "" {
							a.r.Violate("accepted-envelope-decodes-differently", fmt.Sprintf("%s (%s): honest envelope %v accepted but %s", g.consumer, k.Name, s, why), rp)
						}
						if typ == crypto.Ed25519 && len(s.P) > 0 {
							a.sample(1, "", map[string]any{"sealed": s.String(), "key": k.Name, "consumed_as": fmt.Sprintf("each of %d triples", len(all)), "envelope_len": len(wire)})
						}
					case same:
						a.baseline("%s rejects the honest envelope %v sealed by %s: %v", g.consumer, s, k.Name, g.err)
					}
				}
			}
		}
		a.r.Bounds["triples:"+c08TypeName(typ)] = fmt.Sprintf("%d sealed x %d consumed (domains %d, types %d, payloads %d incl. empty / 127 / 128 / 256-byte fields)", nseal, len(all), len(ds), len(ts), len(ps))
	}
}

// ---------- c./d. foreign keys, foreign domains, real record types ----------

func c08PeerRecord(k *c08Key) *peer.PeerRecord {
	return &peer.PeerRecord{PeerID: k.ID, Seq: 7, Addrs: []ma.Multiaddr{ma.StringCast("/ip4/1.2.3.4/tcp/4001"), ma.StringCast("/ip6/2001:db8::1/udp/4001/quic-v1")}}
}

func c08Voucher(relay, p *c08Key) *circuit.ReservationVoucher {
	return &circuit.ReservationVoucher{Relay: relay.ID, Peer: p.ID, Expiration: time.Unix(1900000000, 0)}
}

const c08TestDomain = "c08-test-domain"

var c08TestCodec = []byte{0x7f, 0x08}

func c08EnvForeign(t *testing.T) {
	a := c08New(t, "envelope-foreign-key-or-domain")
	defer a.flush()
	keys := c08Keys(t, c08KeysPerType())
	a.r.Bounds["keys"] = len(keys)
	c08Register(c08TestCodec)
	s := c08Triple{c08TestDomain, c08TestCodec, []byte("payload sealed by the signer")}
	// every pairing (signer i, public key j written into the envelope)
	for i, ki := range keys {
		if !a.mine() {
			continue
		}
		sig, _ := c08Seal(t, ki, s)
		for j, kj := range keys {
			wire := c08Wire(t, kj.Pub, s.T, s.P, sig)
			for _, g := range c08Consume(a, wire, s.D) {
				a.exec(g.consumer, wire, i != j)
				rp := map[string]any{"section": "envelope-foreign-key", "consumer": g.consumer, "signer": ki.Name, "labelled": kj.Name, "wire": c08Hex(wire), "ask_domain": c08Hex([]byte(s.D))}
				switch {
				case g.accepted && i != j:
					a.r.Outcome("foreign-key:accepted")
					a.r.Violate("envelope-accepted-with-foreign-key", fmt.Sprintf("%s: envelope signed by %s, labelled with the public key of %s, is accepted", g.consumer, ki.Name, kj.Name), rp)
				case g.accepted:
					a.r.Outcome("own-key:accepted")
					if why := c08SameAsSealed(g, ki, s); why != "" {
						a.r.Violate("accepted-envelope-decodes-differently", fmt.Sprintf("%s: honest envelope of %s accepted but %s", g.consumer, ki.Name, why), rp)
					}
				case i == j:
					a.r.Outcome("own-key:rejected")
					a.baseline("%s rejects the honest envelope of %s: %v", g.consumer, ki.Name, g.err)
				case ki.Typ == kj.Typ:
					a.r.Outcome("foreign-key-same-type:rejected")
				default:
					a.r.Outcome("foreign-key-other-type:rejected")
				}
			}
		}
	}
	// real record types against every domain, through ConsumeEnvelope (registry decides the record type)
	// and ConsumeTypedEnvelope with each destination type
	domains := []string{peer.PeerRecordEnvelopeDomain, circuit.RecordDomain, c08TestDomain, "", peer.PeerRecordEnvelopeDomain + "x", "libp2p-peer-recor", "Libp2p-peer-record"}
	a.r.Bounds["domains"] = domains
	for ki, k := range keys {
		if !a.mine() {
			continue
		}
		other := keys[(ki+1)%len(keys)]
		type art struct {
			name   string
			rec    record.Record
			domain string
		}
		arts := []art{
			{"peer-record", c08PeerRecord(k), peer.PeerRecordEnvelopeDomain},
			{"relay-voucher", c08Voucher(k, other), circuit.RecordDomain},
			{"test-record", &c08Rec{domain: c08TestDomain, codec: c08TestCodec, payload: []byte("p")}, c08TestDomain},
		}
		for _, ar := range arts {
			env, err := record.Seal(ar.rec, k.Priv)
			if err != nil {
				t.Fatalf("c08: Seal: %v", err)
			}
			wire, err := env.Marshal()
			if err != nil {
				t.Fatalf("c08: Marshal: %v", err)
			}
			payload, _ := ar.rec.MarshalRecord()
			for _, d := range domains {
				want := d == ar.domain
				check := func(consumer string, accepted bool, got *record.Envelope, err error) {
					a.exec(consumer+"/"+d, wire, !want)
					rp := map[string]any{"section": "envelope-foreign-domain", "consumer": consumer, "artefact": ar.name, "key": k.Name, "sealed_domain": ar.domain, "ask_domain": d, "wire": c08Hex(wire)}
					switch {
					case accepted && !want:
						a.r.Outcome("foreign-domain:accepted")
						a.r.Violate("envelope-accepted-under-foreign-domain", fmt.Sprintf("%s: %s sealed by %s under domain %q is accepted when asking for domain %q", consumer, ar.name, k.Name, ar.domain, d), rp)
					case accepted:
						a.r.Outcome("own-domain:accepted")
						if got == nil || !got.PublicKey.Equals(k.Pub) || !bytes.Equal(got.RawPayload, payload) || !bytes.Equal(got.PayloadType, ar.rec.Codec()) {
							a.r.Violate("accepted-envelope-decodes-differently", fmt.Sprintf("%s: honest %s of %s accepted with different content", consumer, ar.name, k.Name), rp)
						}
					case want:
						a.r.Outcome("own-domain:rejected")
						a.baseline("%s rejects the honest %s of %s: %v", consumer, ar.name, k.Name, err)
					default:
						a.r.Outcome("foreign-domain:rejected")
					}
				}
				a.guard("ConsumeEnvelope", func() {
					got, _, err := record.ConsumeEnvelope(append([]byte{}, wire...), d)
					check("ConsumeEnvelope", err == nil, got, err)
				})
			}
			// typed consumption: the destination record's Domain() is the domain asked for
			dests := map[string]func() record.Record{
				peer.PeerRecordEnvelopeDomain: func() record.Record { return &peer.PeerRecord{} },
				circuit.RecordDomain:          func() record.Record { return &circuit.ReservationVoucher{} },
				c08TestDomain:                 func() record.Record { return &c08Rec{domain: c08TestDomain} },
			}
			for d, mk := range dests {
				want := d == ar.domain
				a.guard("ConsumeTypedEnvelope", func() {
					got, err := record.ConsumeTypedEnvelope(append([]byte{}, wire...), mk())
					a.exec("ConsumeTypedEnvelope/"+d, wire, !want)
					rp := map[string]any{"section": "envelope-foreign-domain", "consumer": "ConsumeTypedEnvelope", "artefact": ar.name, "key": k.Name, "sealed_domain": ar.domain, "ask_domain": d, "wire": c08Hex(wire)}
					switch {
					case err == nil && !want:
						a.r.Outcome("typed-foreign-domain:accepted")
						a.r.Violate("envelope-accepted-under-foreign-domain", fmt.Sprintf("ConsumeTypedEnvelope: %s sealed by %s under %q accepted into a record of domain %q", ar.name, k.Name, ar.domain, d), rp)
					case err == nil:
						a.r.Outcome("typed-own-domain:accepted")
						if got == nil || !got.PublicKey.Equals(k.Pub) || !bytes.Equal(got.RawPayload, payload) {
							a.r.Violate("accepted-envelope-decodes-differently", fmt.Sprintf("ConsumeTypedEnvelope: honest %s of %s accepted with different content", ar.name, k.Name), rp)
						}
					case want:
						a.r.Outcome("typed-own-domain:rejected")
						a.baseline("ConsumeTypedEnvelope rejects the honest %s of %s: %v", ar.name, k.Name, err)
					default:
						a.r.Outcome("typed-foreign-domain:rejected")
					}
				})
			}
			if ki == 0 {
				a.sample(1, "", map[string]any{"artefact": ar.name, "key": k.Name, "sealed_domain": ar.domain, "asked_domains": domains, "accepted_only_for": ar.domain, "envelope": c08Hex(wire)})
			}
		}
	}
}
