//go:build verif

package crypto

import (
	"crypto/rsa"
	"math/big"
)

// Export shim for the C08 harness (injected by overlay only when building with -tags verif).

// VerifC08RsaPublicKey returns the public-key object an RSA private key with this modulus and exponent would
// hand out through GetPublic(): the harness needs key objects of boundary sizes that exist BEFORE any
// unmarshalling (the function under test), and generating real keys of 8192 bits takes minutes.
func VerifC08RsaPublicKey(n *big.Int, e int) PubKey {
	return &RsaPublicKey{k: rsa.PublicKey{N: new(big.Int).Set(n), E: e}}
}

// VerifC08MaxRsaKeyBits is the largest RSA key size the package supports (used only to place the enumerated
// sizes around the boundary; which sizes are "supported" is asked of GenerateRSAKeyPair itself).
func VerifC08MaxRsaKeyBits() int { return maxRsaKeyBits }
