//go:build verif

package record

import pool "github.com/libp2p/go-buffer-pool"

// C08MakeUnsigned exposes the real signed pre-image builder (makeUnsigned) to the C08 harness, which
// lives in another package. It returns a private copy and gives the pooled buffer back.
func C08MakeUnsigned(domain string, payloadType, payload []byte) ([]byte, error) {
	b, err := makeUnsigned(domain, payloadType, payload)
	if err != nil {
		return nil, err
	}
	out := make([]byte, len(b))
	copy(out, b)
	pool.Put(b)
	return out, nil
}
