//go:build verif

package pstoreds

// C08 section (5): "no edit of the serialized form can make a receiver accept different content, a different
// domain or a different signer" - every single-byte XOR edit, every truncation, trailing garbage and every
// protobuf field drop / duplicate / reorder / re-framing of marshalled keys, peer IDs (binary and text),
// envelopes, and the peer records / relay vouchers inside envelopes.
//
// The oracle never asks for rejection: a mutated artefact may be rejected, may decode to exactly the
// original, or (keys, IDs) may simply be a different key / ID. It fires only when a receiver ACCEPTS and ends
// up with something that contradicts the statement:
//   public key   -> a different key under which the ORIGINAL signer's signature verifies, or which has the
//                   original peer ID; an Equals() key with another peer ID or rejecting the signer's signature
//   private key  -> a key whose public half differs from the original but whose signatures verify under the
//                   original public key
//   peer ID      -> a different ID that still MatchesPublicKey(original key)
//   envelope     -> accepted under the right domain with another signer / payload type / payload / record
//                   content than sealed; accepted at all under a foreign domain

import (
	"bytes"
	"encoding/json"
	"fmt"
	"testing"

	"github.com/libp2p/go-libp2p/core/crypto"
	"github.com/libp2p/go-libp2p/core/peer"
	"github.com/libp2p/go-libp2p/core/record"
	circuit "github.com/libp2p/go-libp2p/p2p/protocol/circuitv2/proto"
	"github.com/libp2p/go-libp2p/x/verif/vrep"

	mb "github.com/multiformats/go-multibase"
	mh "github.com/multiformats/go-multihash"
)

var c08Probe = []byte("c08: message signed by the original key")

func TestVerifC08MutKeys(t *testing.T) {
	a := c08New(t, "mutate-keys")
	defer a.flush()
	per := c08KeysPerType()
	a.r.Bounds["keys_per_type"] = per
	a.r.Bounds["xor_masks"] = c08MaskBound
	a.r.Bounds["edits"] = "every position x every mask, every truncation, trailing 00/ff/self; protobuf: drop, duplicate, every transposition, value exchange, re-framed value truncation/extension, non-minimal varints, unknown fields; thorough: every single-byte deletion and insertion"
	a.r.Bounds["private_keys"] = "all keys of ed25519/secp256k1/ecdsa; rsa: key #0 only in the quick tier"
	for _, k := range c08Keys(t, per) {
		if a.stop {
			break
		}
		var sig0 []byte
		sign := func() []byte {
			if sig0 == nil {
				var err error
				if sig0, err = k.Priv.Sign(c08Probe); err != nil {
					t.Fatalf("c08: %s cannot sign: %v", k.Name, err)
				}
			}
			return sig0
		}

		// ----- public key -----
		pubOracle := func(form string, dec func([]byte) (crypto.PubKey, error)) func(m c08Mut) bool {
			return func(m c08Mut) bool {
				if a.over("public key mutations") {
					return false
				}
				if !a.mine() {
					return true
				}
				a.exec("pub/"+form, m.Data, true)
				a.guard("unmarshal public key", func() {
					pk, err := dec(m.Data)
					rp := map[string]any{"section": "mutate-keys", "artefact": "public-key/" + form, "key": k.Name, "edit": m.Kind, "input": c08Hex(m.Data), "original": c08Hex(k.PubBytes)}
					cls := "rejected"
					switch {
					case err != nil || pk == nil:
					case pk.Equals(k.Pub):
						cls = "same-key"
						if id, err := peer.IDFromPublicKey(pk); err != nil || id != k.ID {
							a.r.Violate("equal-key-different-peer-id", fmt.Sprintf("%s %s: decoded key Equals the original but its peer ID is %q (err=%v), not %q", k.Name, m.Kind, id, err, k.ID), rp)
						}
						if ok, err := pk.Verify(c08Probe, sign()); !ok || err != nil {
							a.r.Violate("equal-key-rejects-own-signature", fmt.Sprintf("%s %s: decoded key Equals the original but rejects the original signer's signature (%v)", k.Name, m.Kind, err), rp)
						}
					default:
						cls = "different-key"
						if ok, _ := pk.Verify(c08Probe, sign()); ok {
							a.r.Violate("signature-verifies-under-mutated-key", fmt.Sprintf("%s %s: the edited bytes decode to a key that is not Equals() to the original, yet the original signer's signature verifies under it", k.Name, m.Kind), rp)
						}
						if id, err := peer.IDFromPublicKey(pk); err == nil && (id == k.ID || k.ID.MatchesPublicKey(pk)) {
							a.r.Violate("different-key-same-peer-id", fmt.Sprintf("%s %s: a key that is not Equals() to the original has the original's peer ID", k.Name, m.Kind), rp)
						}
					}
					a.r.Outcome("pub:" + m.Cat + ":" + cls)
					if cls == "different-key" {
						a.sample(1, "pub"+cls, map[string]any{"artefact": "public-key/" + form, "key": k.Name, "edit": m.Kind, "input": c08Hex(m.Data), "outcome": cls + ": the signer's signature does not verify under it and its peer ID differs"})
					}
				})
				return true
			}
		}
		c08AllMuts(k.PubBytes, nil, true, pubOracle("protobuf", crypto.UnmarshalPublicKey))
		{
			raw, err := k.Pub.Raw()
			if err != nil {
				t.Fatalf("c08: Raw: %v", err)
			}
			c08AllMuts(raw, nil, false, pubOracle("raw", crypto.PubKeyUnmarshallers[k.Pub.Type()]))
		}

		// ----- private key -----
		if k.Typ == crypto.RSA && k.Idx > 0 && !vrep.Thorough() {
			continue
		}
		privOracle := func(form string, dec func([]byte) (crypto.PrivKey, error)) func(m c08Mut) bool {
			return func(m c08Mut) bool {
				if a.over("private key mutations") {
					return false
				}
				if !a.mine() {
					return true
				}
				a.exec("priv/"+form, m.Data, true)
				a.guard("unmarshal private key", func() {
					sk, err := dec(m.Data)
					cls := "rejected"
					if err == nil && sk != nil {
						pub2 := sk.GetPublic()
						sig, serr := sk.Sign(c08Probe)
						switch {
						case pub2.Equals(k.Pub):
							cls = "same-identity"
							if serr != nil {
								cls += "/cannot-sign"
							} else if ok, _ := k.Pub.Verify(c08Probe, sig); !ok {
								cls += "/signatures-do-not-verify" // corrupted secret half, public half intact: harmless to receivers
							}
						default:
							cls = "different-identity"
							if serr == nil {
								if ok, _ := k.Pub.Verify(c08Probe, sig); ok {
									a.r.Violate("signature-of-different-key-verifies-under-original", fmt.Sprintf("%s %s: edited private key has another public half, yet its signature verifies under the original public key", k.Name, m.Kind),
										map[string]any{"section": "mutate-keys", "artefact": "private-key/" + form, "key": k.Name, "edit": m.Kind, "input": c08Hex(m.Data)})
								}
							}
						}
					}
					a.r.Outcome("priv:" + m.Cat + ":" + cls)
					if cls != "rejected" {
						a.sample(2, "priv"+cls, map[string]any{"artefact": "private-key/" + form, "key": k.Name, "edit": m.Kind, "outcome": cls})
					}
				})
				return true
			}
		}
		c08AllMuts(k.PrivBytes, nil, true, privOracle("protobuf", crypto.UnmarshalPrivateKey))
		{
			raw, err := k.Priv.Raw()
			if err != nil {
				t.Fatalf("c08: Raw: %v", err)
			}
			c08AllMuts(raw, nil, false, privOracle("raw", crypto.PrivKeyUnmarshallers[k.Priv.Type()]))
		}
	}
}

func TestVerifC08MutIDs(t *testing.T) {
	a := c08New(t, "mutate-peer-ids")
	defer a.flush()
	per := c08KeysPerType()
	a.r.Bounds["keys_per_type"] = per
	a.r.Bounds["xor_masks"] = c08MaskBound
	a.r.Bounds["forms"] = "binary (IDFromBytes), base58, CIDv1 base32 and base36 (Decode), JSON string; identity-multihash IDs over every protobuf-level edit of the marshalled key"
	for _, k := range c08Keys(t, per) {
		if a.stop {
			break
		}
		oracle := func(form string, dec func([]byte) (peer.ID, error)) func(m c08Mut) bool {
			return func(m c08Mut) bool {
				if a.over("peer ID mutations") {
					return false
				}
				if !a.mine() {
					return true
				}
				a.exec("id/"+form, m.Data, true)
				a.guard("decode peer ID", func() {
					id, err := dec(m.Data)
					cls := "rejected"
					switch {
					case err != nil:
					case id == k.ID:
						cls = "same-id"
					default:
						cls = "other-id"
						if id.MatchesPublicKey(k.Pub) || id.MatchesPrivateKey(k.Priv) {
							a.r.Violate("mutated-id-matches-original-key", fmt.Sprintf("%s %s %s: decodes to a different ID %q that still MatchesPublicKey of the original key", k.Name, form, m.Kind, id),
								map[string]any{"section": "mutate-peer-ids", "form": form, "key": k.Name, "edit": m.Kind, "input": c08Hex(m.Data), "original_id": c08Hex([]byte(k.ID))})
						}
						if pk, err := id.ExtractPublicKey(); err == nil && pk != nil && pk.Equals(k.Pub) {
							// another byte string that embeds the same key (non-canonical key encoding inside an
							// identity multihash). MatchesPublicKey is false for it, so no receiver takes it for the
							// original peer; recorded, not an alarm.
							cls = "other-id-embedding-the-same-key"
						}
					}
					a.r.Outcome(form + ":" + m.Cat + ":" + cls)
					if cls != "rejected" && form != "binary" {
						a.sample(1, "", map[string]any{"artefact": "peer-id/" + form, "key": k.Name, "edit": m.Kind, "outcome": cls, "input": c08Trunc(fmt.Sprintf("%q", m.Data), 120)})
					}
				})
				return true
			}
		}
		text := func(b []byte) (peer.ID, error) { return peer.Decode(string(b)) }
		c08ByteMuts([]byte(k.ID), oracle("binary", peer.IDFromBytes))
		c08ByteMuts([]byte(k.ID.String()), oracle("base58", text))
		c := peer.ToCid(k.ID)
		c08ByteMuts([]byte(c.String()), oracle("cid-base32", text))
		{
			s, err := c.StringOfBase(mb.Base36)
			if err != nil {
				t.Fatalf("c08: StringOfBase: %v", err)
			}
			c08ByteMuts([]byte(s), oracle("cid-base36", text))
		}
		{
			js, err := json.Marshal(k.ID)
			if err != nil {
				t.Fatalf("c08: MarshalJSON: %v", err)
			}
			c08ByteMuts(js, oracle("json", func(b []byte) (peer.ID, error) { var id peer.ID; err := json.Unmarshal(b, &id); return id, err }))
		}
		{
			// IDs that embed an edited encoding of the key
			wrap := oracle("identity-multihash-of-edited-key", peer.IDFromBytes)
			c08StructMuts(k.PubBytes, nil, func(m c08Mut) bool {
				h, err := mh.Sum(m.Data, mh.IDENTITY, -1)
				if err != nil {
					t.Fatalf("c08: mh.Sum: %v", err)
				}
				m.Data = h
				return wrap(m)
			})
		}
	}
}

// ---------- envelopes, peer records, vouchers ----------

type c08Artefact struct {
	name    string
	k       *c08Key
	domain  string
	foreign []string // domains the artefact was NOT sealed for
	codec   []byte
	payload []byte
	wire    []byte
	schema  c08Schema
	typed   func() record.Record         // blank destination for ConsumeTypedEnvelope
	same    func(got record.Record) bool // decoded content == sealed content
}

func c08SealArtefact(t testing.TB, ar *c08Artefact, rec record.Record) {
	// ECDSA signatures are randomized and their DER length varies (70..72 bytes); re-seal until the
	// signature has the most common length so that the number of enumerated positions is the same in every
	// run. Everything else about the artefact is deterministic.
	for try := 0; ; try++ {
		env, err := record.Seal(rec, ar.k.Priv)
		if err != nil {
			t.Fatalf("c08: Seal: %v", err)
		}
		ar.wire, err = env.Marshal()
		if err != nil {
			t.Fatalf("c08: Marshal: %v", err)
		}
		ar.payload = env.RawPayload
		ar.codec = env.PayloadType
		if ar.k.Typ != crypto.ECDSA || try > 200 {
			return
		}
		fs, _ := c08Split(ar.wire)
		for _, f := range fs {
			if f.num == 5 && len(f.val) == 71 {
				return
			}
		}
	}
}

func c08Artefacts(t testing.TB, k, other *c08Key) []*c08Artefact {
	pubSchema := c08Schema{}
	var out []*c08Artefact
	{
		rec := c08PeerRecord(k)
		ar := &c08Artefact{name: "peer-record", k: k, domain: peer.PeerRecordEnvelopeDomain, foreign: []string{circuit.RecordDomain, ""},
			schema: c08Schema{1: pubSchema, 3: c08Schema{3: c08Schema{}}},
			typed:  func() record.Record { return &peer.PeerRecord{} },
			same: func(got record.Record) bool {
				pr, ok := got.(*peer.PeerRecord)
				return ok && pr.Equal(rec)
			}}
		c08SealArtefact(t, ar, rec)
		out = append(out, ar)
	}
	{
		rec := c08Voucher(k, other)
		ar := &c08Artefact{name: "relay-voucher", k: k, domain: circuit.RecordDomain, foreign: []string{peer.PeerRecordEnvelopeDomain, ""},
			schema: c08Schema{1: pubSchema, 3: c08Schema{}},
			typed:  func() record.Record { return &circuit.ReservationVoucher{} },
			same: func(got record.Record) bool {
				v, ok := got.(*circuit.ReservationVoucher)
				return ok && v.Relay == rec.Relay && v.Peer == rec.Peer && v.Expiration.Equal(rec.Expiration)
			}}
		c08SealArtefact(t, ar, rec)
		out = append(out, ar)
	}
	{
		c08Register(c08TestCodec)
		rec := &c08Rec{domain: c08TestDomain, codec: c08TestCodec, payload: []byte("opaque test payload \x00\x01\x02")}
		ar := &c08Artefact{name: "test-record", k: k, domain: c08TestDomain, foreign: []string{peer.PeerRecordEnvelopeDomain, c08TestDomain + "\x00"},
			schema: c08Schema{1: pubSchema},
			typed:  func() record.Record { return &c08Rec{domain: c08TestDomain} },
			same: func(got record.Record) bool {
				r, ok := got.(*c08Rec)
				return ok && bytes.Equal(r.payload, rec.payload)
			}}
		c08SealArtefact(t, ar, rec)
		out = append(out, ar)
	}
	return out
}

func TestVerifC08MutEnvelopes(t *testing.T) {
	a := c08New(t, "mutate-envelopes")
	defer a.flush()
	per := 1
	if vrep.Thorough() {
		per = 3
	}
	a.r.Bounds["keys_per_type"] = per
	a.r.Bounds["xor_masks"] = c08MaskBound
	a.r.Bounds["artefacts"] = "signed peer record, relay reservation voucher, opaque test record - each sealed by each key"
	a.r.Bounds["consumers"] = "ConsumeEnvelope(sealed domain), ConsumeTypedEnvelope(record of the sealed type), ConsumeEnvelope(2 foreign domains)"
	a.r.Bounds["edits"] = "envelope bytes: every position x every mask, every truncation, trailing 00/ff/self; protobuf edits of the envelope, of the public key inside it and of the peer record / voucher inside it (and of the address entries inside the peer record), enclosing lengths recomputed; thorough: byte deletions and insertions"
	keys := c08Keys(t, per)
	for ki, k := range keys {
		other := keys[(ki+1)%len(keys)]
		for _, ar := range c08Artefacts(t, k, other) {
			if a.stop {
				return
			}
			if !a.mine() {
				continue
			}
			// baseline: the honest artefact is accepted by both consumers with the sealed content
			honest := c08ConsumeArtefact(a, ar, ar.wire)
			for _, g := range honest[:2] {
				a.exec(g.consumer, ar.wire, false)
				if !g.accepted {
					a.baseline("%s rejects the honest %s of %s: %v", g.consumer, ar.name, k.Name, g.err)
				} else if g.diff != "" {
					a.r.Violate("accepted-envelope-decodes-differently", fmt.Sprintf("%s: honest %s of %s accepted with %s", g.consumer, ar.name, k.Name, g.diff), map[string]any{"artefact": ar.name, "key": k.Name, "wire": c08Hex(ar.wire)})
				}
			}
			c08AllMuts(ar.wire, ar.schema, true, func(m c08Mut) bool {
				if a.over("envelope mutations") {
					return false
				}
				if bytes.Equal(m.Data, ar.wire) {
					return true
				}
				for _, g := range c08ConsumeArtefact(a, ar, m.Data) {
					a.exec(g.consumer+"/"+g.domain, m.Data, true)
					rp := map[string]any{"section": "mutate-envelopes", "artefact": ar.name, "key": k.Name, "consumer": g.consumer, "ask_domain": g.domain, "edit": m.Kind, "input": c08Hex(m.Data), "original": c08Hex(ar.wire)}
					cls := "rejected"
					switch {
					case !g.accepted:
					case g.domain != ar.domain:
						cls = "ACCEPTED-under-foreign-domain"
						a.r.Violate("envelope-accepted-under-foreign-domain", fmt.Sprintf("%s: %s of %s after %s is accepted when asking for domain %q (sealed for %q)", g.consumer, ar.name, k.Name, m.Kind, g.domain, ar.domain), rp)
					case g.diff != "":
						cls = "ACCEPTED-with-" + g.diff
						a.r.Violate("mutated-envelope-accepted-with-"+g.diff, fmt.Sprintf("%s: %s of %s after %s is accepted with %s", g.consumer, ar.name, k.Name, m.Kind, g.diff), rp)
					default:
						cls = "accepted-identical-content"
					}
					own := "own-domain"
					if g.domain != ar.domain {
						own = "foreign-domain"
					}
					a.r.Outcome(m.Cat + ":" + own + ":" + cls)
					a.sample(2, cls, map[string]any{"artefact": ar.name, "key": k.Name, "edit": m.Kind, "consumer": g.consumer, "ask_domain": g.domain, "input": c08Hex(m.Data), "outcome": cls})
				}
				return true
			})
		}
	}
}

type c08ArtGot struct {
	consumer, domain string
	accepted         bool
	err              error
	diff             string // what differs from the sealed artefact ("" = nothing)
}

// c08ConsumeArtefact: [0] ConsumeEnvelope(own domain) [1] ConsumeTypedEnvelope(own type) [2..] foreign domains.
func c08ConsumeArtefact(a *c08Acct, ar *c08Artefact, wire []byte) []c08ArtGot {
	diff := func(env *record.Envelope, rec record.Record) string {
		switch {
		case env == nil || env.PublicKey == nil:
			return "no-envelope"
		case !env.PublicKey.Equals(ar.k.Pub) || !ar.k.ID.MatchesPublicKey(env.PublicKey):
			return "different-signer"
		case !bytes.Equal(env.PayloadType, ar.codec):
			return "different-payload-type"
		case !bytes.Equal(env.RawPayload, ar.payload):
			return "different-payload"
		case rec == nil || !ar.same(rec):
			return "different-record-content"
		}
		if r2, err := env.Record(); err != nil || !ar.same(r2) {
			return "different-record-content"
		}
		return ""
	}
	out := []c08ArtGot{{consumer: "ConsumeEnvelope", domain: ar.domain}, {consumer: "ConsumeTypedEnvelope", domain: ar.domain}}
	a.guard("ConsumeEnvelope", func() {
		env, rec, err := record.ConsumeEnvelope(append([]byte{}, wire...), ar.domain)
		out[0].err = err
		if err == nil {
			out[0].accepted, out[0].diff = true, diff(env, rec)
		}
	})
	a.guard("ConsumeTypedEnvelope", func() {
		dst := ar.typed()
		env, err := record.ConsumeTypedEnvelope(append([]byte{}, wire...), dst)
		out[1].err = err
		if err == nil {
			out[1].accepted, out[1].diff = true, diff(env, dst)
		}
	})
	for _, d := range ar.foreign {
		g := c08ArtGot{consumer: "ConsumeEnvelope", domain: d}
		a.guard("ConsumeEnvelope", func() {
			_, _, err := record.ConsumeEnvelope(append([]byte{}, wire...), d)
			g.err, g.accepted = err, err == nil
		})
		out = append(out, g)
	}
	return out
}
