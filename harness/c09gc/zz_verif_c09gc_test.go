//go:build verif

package pstoremem

// C09, expiry-order part. Engine E1 (seqmc) on the real in-memory address book alone, with a deliberately tiny
// alphabet so that the search goes DEEP where the main C09 part (176 / 51 operations per peer) stays shallow:
// three (peer, address) entries over two peers, three lifetimes (temporary 2 min, recently-connected 15 min,
// connected), AddAddrs / SetAddrs (0 and 2 min) / the two TTL-class updates identify performs / ClearAddrs, clock
// steps of 1 and 14 minutes, and a collection run. The point of the part is the interaction the statement's last
// clause of its first sentence depends on - refreshes, class changes and deletions re-ordering the expiry heap
// that the collector pops from - which only shows after a history of six or more steps.
// Reference model: DESIGN Appendix D.2 (eager: expired = absent). Oracles: after every operation Addrs(p) is
// exactly the model's live set and PeersWithAddrs lists every peer with a live address; after a collection run
// PeersWithAddrs lists exactly those peers and no expired entry is still stored (white box: "removed by garbage
// collection ... memory stays bounded"). The canonical key contains the heap array in its concrete order, so two
// histories are merged only if the collector will see the same structure.

import (
	"fmt"
	"sort"
	"strings"
	"testing"
	"time"

	"github.com/libp2p/go-libp2p/core/peer"
	"github.com/libp2p/go-libp2p/core/peerstore"
	"github.com/libp2p/go-libp2p/x/verif/seqmc"
	"github.com/libp2p/go-libp2p/x/verif/vrep"
	ma "github.com/multiformats/go-multiaddr"
)

type c09gClock struct{ now time.Time }

func (c *c09gClock) Now() time.Time { return c.now }

type c09gEntry struct {
	p int
	a int
}

var (
	c09gPeers   = []peer.ID{peer.ID("12D3KooWVerifGcPeer1"), peer.ID("12D3KooWVerifGcPeer2")}
	c09gAddrs   = []ma.Multiaddr{ma.StringCast("/ip4/1.2.3.4/tcp/1"), ma.StringCast("/ip4/1.2.3.4/tcp/2")}
	c09gEntries = []c09gEntry{{0, 0}, {0, 1}, {1, 0}}
	c09gT0      = time.Date(2030, 1, 1, 0, 0, 0, 0, time.UTC)
)

func c09gTTLName(d time.Duration) string {
	switch {
	case d == 0:
		return "0"
	case d == peerstore.TempAddrTTL:
		return "temp"
	case d == peerstore.RecentlyConnectedAddrTTL:
		return "recent"
	case d == peerstore.PermanentAddrTTL:
		return "permanent"
	case d >= peerstore.ConnectedAddrTTL:
		return "connected"
	}
	return d.String()
}

type c09gOp struct {
	K      string // add | set | upd | clear | adv | gc
	E      int    // entry index (add, set)
	P      int    // peer (upd, clear)
	TTL    time.Duration
	OldTTL time.Duration
	D      time.Duration
}

func (o c09gOp) String() string {
	en := func() string { return fmt.Sprintf("p%d,a%d", c09gEntries[o.E].p+1, c09gEntries[o.E].a+1) }
	switch o.K {
	case "add":
		return fmt.Sprintf("AddAddr(%s,%s)", en(), c09gTTLName(o.TTL))
	case "set":
		return fmt.Sprintf("SetAddr(%s,%s)", en(), c09gTTLName(o.TTL))
	case "upd":
		return fmt.Sprintf("UpdateAddrs(p%d,%s->%s)", o.P+1, c09gTTLName(o.OldTTL), c09gTTLName(o.TTL))
	case "clear":
		return fmt.Sprintf("ClearAddrs(p%d)", o.P+1)
	case "adv":
		return fmt.Sprintf("Advance(%s)", o.D)
	}
	return "GC"
}

type c09gModelEntry struct {
	ttl    time.Duration
	expiry time.Time
}

type c09gInst struct {
	clk   *c09gClock
	ab    *memoryAddrBook
	model map[c09gEntry]*c09gModelEntry
}

func c09gOps() []c09gOp {
	var ops []c09gOp
	ttls := []time.Duration{peerstore.TempAddrTTL, peerstore.RecentlyConnectedAddrTTL, peerstore.ConnectedAddrTTL, peerstore.PermanentAddrTTL}
	for e := range c09gEntries {
		for _, t := range ttls {
			ops = append(ops, c09gOp{K: "add", E: e, TTL: t})
		}
	}
	ops = append(ops, c09gOp{K: "adv", D: time.Minute}, c09gOp{K: "adv", D: 14 * time.Minute}, c09gOp{K: "gc"})
	for e := range c09gEntries {
		ops = append(ops, c09gOp{K: "set", E: e, TTL: 0}, c09gOp{K: "set", E: e, TTL: peerstore.TempAddrTTL})
		// the two never-expiring classes are distinct classes for UpdateAddrs: overriding one with the other counts
		ops = append(ops, c09gOp{K: "set", E: e, TTL: peerstore.ConnectedAddrTTL}, c09gOp{K: "set", E: e, TTL: peerstore.PermanentAddrTTL})
	}
	for p := range c09gPeers {
		ops = append(ops, c09gOp{K: "upd", P: p, OldTTL: peerstore.ConnectedAddrTTL, TTL: peerstore.RecentlyConnectedAddrTTL},
			c09gOp{K: "upd", P: p, OldTTL: peerstore.TempAddrTTL, TTL: peerstore.ConnectedAddrTTL},
			c09gOp{K: "clear", P: p})
	}
	return ops
}

func (in *c09gInst) dropExpired() {
	for e, m := range in.model {
		if !m.expiry.After(in.clk.now) {
			delete(in.model, e)
		}
	}
}

func (in *c09gInst) live(p int) []string {
	var out []string
	for e, m := range in.model {
		if e.p == p && m.expiry.After(in.clk.now) {
			out = append(out, c09gAddrs[e.a].String())
		}
	}
	sort.Strings(out)
	return out
}

func (in *c09gInst) apply(o c09gOp) error {
	now := in.clk.now
	in.dropExpired()
	switch o.K {
	case "add":
		e := c09gEntries[o.E]
		in.ab.AddAddrs(c09gPeers[e.p], []ma.Multiaddr{c09gAddrs[e.a]}, o.TTL)
		if m := in.model[e]; m == nil {
			in.model[e] = &c09gModelEntry{o.TTL, now.Add(o.TTL)}
		} else {
			if o.TTL > m.ttl {
				m.ttl = o.TTL
			}
			if x := now.Add(o.TTL); x.After(m.expiry) {
				m.expiry = x
			}
		}
	case "set":
		e := c09gEntries[o.E]
		in.ab.SetAddrs(c09gPeers[e.p], []ma.Multiaddr{c09gAddrs[e.a]}, o.TTL)
		if o.TTL <= 0 {
			delete(in.model, e)
		} else {
			in.model[e] = &c09gModelEntry{o.TTL, now.Add(o.TTL)}
		}
	case "upd":
		in.ab.UpdateAddrs(c09gPeers[o.P], o.OldTTL, o.TTL)
		for e, m := range in.model {
			if e.p == o.P && m.ttl == o.OldTTL {
				m.ttl, m.expiry = o.TTL, now.Add(o.TTL)
			}
		}
	case "clear":
		in.ab.ClearAddrs(c09gPeers[o.P])
		for e := range in.model {
			if e.p == o.P {
				delete(in.model, e)
			}
		}
	case "adv":
		in.clk.now = now.Add(o.D)
	case "gc":
		in.ab.gc()
	}
	in.dropExpired()
	// observations
	livePeers := map[peer.ID]bool{}
	for p := range c09gPeers {
		var got []string
		for _, a := range in.ab.Addrs(c09gPeers[p]) {
			got = append(got, a.String())
		}
		sort.Strings(got)
		want := in.live(p)
		if strings.Join(got, " ") != strings.Join(want, " ") {
			return seqmc.Violation("addrs-differ-from-live-set", "after %s: Addrs(p%d) = %v, the addresses whose most recently assigned expiry lies in the future are %v", o, p+1, got, want)
		}
		if len(want) > 0 {
			livePeers[c09gPeers[p]] = true
		}
	}
	listed := map[peer.ID]bool{}
	for _, p := range in.ab.PeersWithAddrs() {
		listed[p] = true
	}
	for p := range livePeers {
		if !listed[p] {
			return seqmc.Violation("live-peer-not-listed", "after %s: PeersWithAddrs does not list a peer that has a live address", o)
		}
	}
	if o.K == "gc" {
		for i, p := range c09gPeers {
			if listed[p] && !livePeers[p] {
				return seqmc.Violation("peer-listed-after-gc-without-live-address", "a collection run has just finished and PeersWithAddrs still lists p%d, which has no live address; stored: %s", i+1, in.snapshot())
			}
		}
		for p, m := range in.ab.addrs.Addrs {
			for _, ea := range m {
				if ea.ExpiredBy(in.clk.now) {
					return seqmc.Violation("expired-entry-stored-after-gc", "a collection run has just finished and the entry (%s, %s) that expired %s ago is still stored; stored: %s",
						c09gPeerName(p), ea.Addr, in.clk.now.Sub(ea.Expiry), in.snapshot())
				}
			}
		}
	}
	return nil
}

func c09gPeerName(p peer.ID) string {
	for i, q := range c09gPeers {
		if p == q {
			return fmt.Sprintf("p%d", i+1)
		}
	}
	return "?"
}

func c09gAddrName(a ma.Multiaddr) string {
	for i, b := range c09gAddrs {
		if a.Equal(b) {
			return fmt.Sprintf("a%d", i+1)
		}
	}
	return a.String()
}

// snapshot: the heap array in its concrete order, then the entries outside the heap (sorted).
func (in *c09gInst) snapshot() string {
	now := in.clk.now
	var sb strings.Builder
	show := func(ea *expiringAddr) string {
		return fmt.Sprintf("%s.%s:%s/%s", c09gPeerName(ea.Peer), c09gAddrName(ea.Addr), c09gTTLName(ea.TTL), ea.Expiry.Sub(now))
	}
	sb.WriteString("heap[")
	inHeap := map[*expiringAddr]bool{}
	for i, ea := range in.ab.addrs.expiringHeap {
		inHeap[ea] = true
		fmt.Fprintf(&sb, "%s@%d ", show(ea), ea.heapIndex-i)
	}
	sb.WriteString("] other[")
	var rest []string
	for _, m := range in.ab.addrs.Addrs {
		for _, ea := range m {
			if !inHeap[ea] {
				rest = append(rest, show(ea)+fmt.Sprintf("@%d", ea.heapIndex))
			}
		}
	}
	sort.Strings(rest)
	sb.WriteString(strings.Join(rest, " "))
	sb.WriteString("]")
	return sb.String()
}

func (in *c09gInst) key() string {
	var ms []string
	for e, m := range in.model {
		ms = append(ms, fmt.Sprintf("p%da%d:%s/%s", e.p+1, e.a+1, c09gTTLName(m.ttl), m.expiry.Sub(in.clk.now)))
	}
	sort.Strings(ms)
	return in.snapshot() + " model[" + strings.Join(ms, " ") + "]"
}

func TestVerifC09GC(t *testing.T) {
	r := vrep.New("C09", "expiry-order")
	depth := 9
	if vrep.Thorough() {
		depth = 40
	}
	ops := c09gOps()
	r.Bounds["alphabet"] = len(ops)
	r.Bounds["depth"] = depth
	r.Bounds["universe"] = "entries (p1,a1) (p1,a2) (p2,a1); lifetimes temp(2m) recent(15m) connected; AddAddr x3 lifetimes, SetAddr {0, temp}, UpdateAddrs connected->recent and temp->connected, ClearAddrs, Advance 1m / 14m, GC"
	sp := &seqmc.Spec[*c09gInst, c09gOp]{
		Name: "pstoremem expiry order",
		New: func() *c09gInst {
			clk := &c09gClock{now: c09gT0}
			return &c09gInst{clk: clk, ab: NewAddrBook(WithClock(clk)), model: map[c09gEntry]*c09gModelEntry{}}
		},
		Close: func(in *c09gInst) { in.ab.Close() },
		Ops:   func(*c09gInst) []c09gOp { return ops },
		Apply: func(in *c09gInst, o c09gOp) error { return in.apply(o) },
		Key:   func(in *c09gInst) string { return in.key() },
		Show:  func(o c09gOp) string { return o.String() },
		Depth: depth, T: t, Deadline: vrep.Deadline(),
	}
	st := seqmc.Run(sp)
	seqmc.Fill(r, sp.Name, st)
	r.Distinct = st.States
	r.Flush()
}
