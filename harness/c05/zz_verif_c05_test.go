//go:build verif

package swarm

// C05: every dial request completes exactly once; dials are de-duplicated and capped. Engine E2 over the
// instrumented swarm package with scripted transports (harness/swarmfix). Threads: the callers of DialPeer,
// one canceller per cancellable caller, one environment thread per scripted dial completion, optional
// peerstore update. Time is virtual: ranking delays and dial timeouts fire when everything is blocked (idle
// advance) or as explicit tick alternatives.

import (
	"context"
	"errors"
	"fmt"
	"os"
	"sort"
	"strings"
	"testing"
	"time"

	"github.com/libp2p/go-libp2p/core/network"
	"github.com/libp2p/go-libp2p/core/peer"
	"github.com/libp2p/go-libp2p/core/peerstore"
	"github.com/libp2p/go-libp2p/x/verif/vrep"
	vs "github.com/libp2p/go-libp2p/x/verif/vsched"
	ma "github.com/multiformats/go-multiaddr"
)

type c05Caller struct {
	ForceDirect bool
	SimConnect  bool
	Cancel      bool // a canceller thread cancels this caller's context at some point
	After       int  // k+1: this caller calls DialPeer only after caller k has returned (0: at once)
	AfterLate   bool // ... only after the late address was added to the peerstore
	AfterClose  bool // ... only after the scenario's closer thread has closed the connection (CloseConnOf)
}

type c05Scn struct {
	Name     string
	Addrs    []string            // addresses known for the peer at the start
	LateAddr string              // added to the peerstore by its own thread at some point
	Script   map[string][]string // per address: outcomes delivered by environment threads, in order (absent = hangs)
	Callers  []c05Caller
	FD       int
	PerPeer  int
	Backoff  []string // addresses already in back-off
	Ticks    []time.Duration
	Bound    int // quick-tier deviation bound for this scenario (thorough adds 1)
	Thorough bool
	// AttemptOnTimeout: no cap can keep an address waiting in this scenario, so a caller that is released by the dial
	// timeout (not by its own context) must still have seen every candidate address handed to a transport while it waited
	AttemptOnTimeout bool
	// CloseConnOf: k+1 = once caller k has returned with a connection, the application closes that connection
	CloseConnOf int
	// Resolve: names among Addrs (/dnsaddr/..., /dns4/...) and what the swarm's multiaddr resolver answers for them
	// (possibly with a /p2p/<peer> suffix, as dnsaddr records have); the CANDIDATE addresses of the oracle are the
	// resolved ones, suffix stripped, each once
	Resolve map[string][]string
}

// cands: the addresses the transports may be asked for - Addrs with names replaced by what they resolve to, without a
// /p2p suffix, without duplicates.
func (sc c05Scn) cands() []string {
	var out []string
	add := func(a string) {
		if i := strings.Index(a, "/p2p/"); i >= 0 && !strings.Contains(a, "p2p-circuit") {
			a = a[:i]
		}
		for _, b := range out {
			if a == b {
				return
			}
		}
		out = append(out, a)
	}
	for _, known := range sc.Addrs {
		if r, ok := sc.Resolve[known]; ok {
			for _, b := range r {
				add(b)
			}
			continue
		}
		add(known)
	}
	return out
}

// c05Resolver answers from the scenario's table (no goroutines, no time).
type c05Resolver struct{ m map[string][]string }

func (r c05Resolver) lookup(a ma.Multiaddr, limit int) ([]ma.Multiaddr, error) {
	l, ok := r.m[a.String()]
	if !ok {
		return nil, fmt.Errorf("c05: no such name: %s", a)
	}
	var out []ma.Multiaddr
	for _, x := range l {
		if len(out) < limit {
			out = append(out, ma.StringCast(x))
		}
	}
	return out, nil
}
func (r c05Resolver) ResolveDNSAddr(_ context.Context, _ peer.ID, a ma.Multiaddr, _, limit int) ([]ma.Multiaddr, error) {
	return r.lookup(a, limit)
}
func (r c05Resolver) ResolveDNSComponent(_ context.Context, a ma.Multiaddr, limit int) ([]ma.Multiaddr, error) {
	return r.lookup(a, limit)
}

const (
	c05TCP1   = "/ip4/1.2.3.4/tcp/4001"
	c05TCP2   = "/ip4/1.2.3.5/tcp/4002"
	c05TCP3   = "/ip4/1.2.3.6/tcp/4003"
	c05Priv   = "/ip4/192.168.1.7/tcp/4004"
	c05QUIC   = "/ip4/1.2.3.4/udp/4005/quic-v1"
	c05NoTpt  = "/ip4/1.2.3.4/sctp/4006"
	c05TCP6a  = "/ip6/2a00:1450:4001:81b::200e/tcp/4007"
	c05TCP6b  = "/ip6/2a00:1450:4001:81b::200f/tcp/4008"
	c05DNSAddr = "/dnsaddr/peer.example"
	c05DNS4    = "/dns4/host.example/tcp/4001"
	c05Relay0 = "/ip4/5.6.7.8/tcp/4007/p2p/%s/p2p-circuit"
)

func c05Relay() string { return fmt.Sprintf(c05Relay0, fxID("relay").ID) }

type c05CallRun struct {
	spec                c05Caller
	start, end          int64
	startT, endT        time.Time
	conn                network.Conn
	err                 error
	cancelAt            int64
	cancelT             time.Time
	returned            int
	ctxErrAtReturn      error
	cancelIdle, endIdle time.Duration
}

type c05DialGen struct {
	rec          *fxDial
	gen          any
	startT, endT time.Time
}

func c05Body(sc c05Scn) func(x *vs.Exec) {
	return func(x *vs.Exec) {
		s := x.S
		fd, pp := sc.FD, sc.PerPeer
		if fd == 0 {
			fd = 160
		}
		if pp == 0 {
			pp = 8
		}
		var opts []Option
		if sc.Resolve != nil {
			opts = append(opts, WithMultiaddrResolver(c05Resolver{sc.Resolve}))
		}
		env := fxNewEnv(fd, pp, opts...)
		P := fxID("P")
		for _, a := range sc.Addrs {
			env.PS.AddAddr(P.ID, ma.StringCast(a), peerstore.PermanentAddrTTL)
		}
		for _, a := range sc.Backoff {
			env.Swarm.backf.AddBackoff(P.ID, ma.StringCast(a))
		}
		// record the worker generation (activeDial) every transport dial belongs to
		gens := map[*fxDial]*c05DialGen{}
		hook := func(rec *fxDial, begin bool) {
			if s.Free {
				return // the free-running race pass evaluates no oracle; keep the harness out of the way
			}
			if begin {
				g := &c05DialGen{rec: rec, startT: time.Now()}
				// a dial whose context is already cancelled when the transport gets it was handed over by a worker
				// whose callers have all gone (the request context is the activeDial's, cancelled under the same
				// lock that removes it from dsync.dials): it must not be attributed to the worker that has taken
				// its place in the meantime
				if ad, ok := env.Swarm.dsync.dials[P.ID]; ok && !rec.DeadAtStart {
					g.gen = ad
				}
				gens[rec] = g
			} else if g := gens[rec]; g != nil {
				g.endT = time.Now()
			}
		}
		for _, t := range []*fxTransport{env.TCP, env.QUIC, env.Relay} {
			t.hook = hook
		}
		calls := make([]*c05CallRun, len(sc.Callers))
		lateAdded, connClosed := make(chan struct{}), make(chan struct{})
		returnedCh := make([]chan struct{}, len(sc.Callers))
		for i := range returnedCh {
			returnedCh[i] = make(chan struct{})
		}
		for i, cs := range sc.Callers {
			cr := &c05CallRun{spec: cs}
			calls[i] = cr
			ctx, cancel := context.WithCancel(context.Background())
			if cs.ForceDirect {
				ctx = network.WithForceDirectDial(ctx, "verif")
			}
			if cs.SimConnect {
				ctx = network.WithSimultaneousConnect(ctx, true, "verif")
			}
			s.Go(fmt.Sprintf("caller%d", i), func() {
				if cs.After > 0 {
					vs.Recv(-9, returnedCh[cs.After-1])
				}
				if cs.AfterLate {
					vs.Recv(-9, lateAdded)
				}
				if cs.AfterClose {
					vs.Recv(-9, connClosed)
				}
				cr.start, cr.startT = vs.Stamp(), time.Now()
				c, err := env.Swarm.DialPeer(ctx, P.ID)
				cr.returned++
				cr.conn, cr.err = c, err
				cr.ctxErrAtReturn = ctx.Err()
				cr.end, cr.endT, cr.endIdle = vs.Stamp(), time.Now(), vs.IdleTime()
				vs.Close(returnedCh[i])
			})
			if cs.Cancel {
				s.GoPrio(fmt.Sprintf("cancel%d", i), 2, func() {
					vs.Yield()
					cr.cancelAt, cr.cancelT, cr.cancelIdle = vs.Stamp(), time.Now(), vs.IdleTime()
					cancel()
				})
			} else {
				defer cancel()
			}
		}
		var scripted []string
		for addr := range sc.Script {
			scripted = append(scripted, addr)
		}
		sort.Strings(scripted)
		for _, addr := range scripted {
			outs := sc.Script[addr]
			a := ma.StringCast(addr)
			tp := env.TransportFor(a)
			s.GoPrio("net:"+addr[len(addr)-12:], 1, func() {
				for _, o := range outs {
					tp.Complete(a, o)
				}
			})
		}
		if sc.LateAddr != "" {
			s.GoPrio("add-addr", 1, func() {
				vs.Yield()
				env.PS.AddAddr(P.ID, ma.StringCast(sc.LateAddr), peerstore.PermanentAddrTTL)
				vs.Close(lateAdded)
			})
		}
		if sc.CloseConnOf > 0 {
			s.GoPrio("app-closes-conn", 1, func() {
				vs.Recv(-9, returnedCh[sc.CloseConnOf-1])
				if c := calls[sc.CloseConnOf-1].conn; c != nil {
					c.Close()
				}
				vs.Close(connClosed)
			})
		}
		ok := s.Run()
		if !ok && s.Deadlock != "" {
			x.Fail("dial-never-returns", "threads blocked forever: %s", s.Deadlock)
		}
		if ok {
			c05Oracle(x, sc, env, calls, gens)
		}
		x.Outcome = c05Outcome(env, calls)
		// residue after all callers returned (white-box), before tear-down
		if ok && x.VioKey == "" {
			c05Residue(x, env)
		}
		s.Go("teardown", func() { env.Close() })
		if !s.Drain() && s.Deadlock != "" {
			x.Fail("deadlock-in-close", "Swarm.Close did not finish: %s", s.Deadlock)
		}
	}
}

func c05Outcome(env *fxEnv, calls []*c05CallRun) string {
	var sb strings.Builder
	for i, c := range calls {
		switch {
		case c.err == nil && c.conn != nil:
			fmt.Fprintf(&sb, "c%d=conn(%s) ", i, c.conn.RemoteMultiaddr())
		case errors.Is(c.err, context.Canceled):
			fmt.Fprintf(&sb, "c%d=cancelled ", i)
		case errors.Is(c.err, context.DeadlineExceeded):
			fmt.Fprintf(&sb, "c%d=deadline ", i)
		default:
			fmt.Fprintf(&sb, "c%d=err ", i)
		}
	}
	var ds []string
	for _, d := range env.AllDials() {
		ds = append(ds, d.Addr[len(d.Addr)-9:]+":"+d.Result)
	}
	return sb.String() + "dials[" + strings.Join(ds, ",") + "]"
}

// c05Residue: once all callers have returned and everything is quiescent no attempt, token or worker remains.
func c05Residue(x *vs.Exec, env *fxEnv) {
	sw := env.Swarm
	if n := len(sw.dsync.dials); n != 0 {
		x.Fail("worker-left-behind", "dialSync still tracks %d active dials after all callers returned", n)
		return
	}
	l := sw.limiter
	if l.fdConsuming != 0 || len(l.activePerPeer) != 0 || len(l.waitingOnFd) != 0 || len(l.waitingOnPeerLimit) != 0 {
		x.Fail("limiter-token-left-behind", "limiter after quiescence: fdConsuming=%d activePerPeer=%v waitingOnFd=%d waitingOnPeerLimit=%d",
			l.fdConsuming, l.activePerPeer, len(l.waitingOnFd), len(l.waitingOnPeerLimit))
		return
	}
	for _, d := range env.AllDials() {
		if d.End == 0 {
			x.Fail("attempt-left-behind", "transport dial to %s is still in flight after all callers returned and everything is quiescent", d.Addr)
			return
		}
	}
}

func c05Oracle(x *vs.Exec, sc c05Scn, env *fxEnv, calls []*c05CallRun, gens map[*fxDial]*c05DialGen) {
	P := fxID("P")
	dials := env.AllDials()
	relay := c05Relay()
	for i, c := range calls {
		if c.returned != 1 {
			x.Fail("caller-returned-not-once", "caller %d returned %d times", i, c.returned)
			return
		}
		if c.err == nil {
			if c.conn == nil {
				x.Fail("nil-conn-nil-error", "caller %d got neither a connection nor an error", i)
				return
			}
			if fc, ok := c.conn.(*Conn).conn.(*fxConn); ok && fc.closeAt != 0 && fc.closeAt < c.start {
				x.Fail("closed-connection-returned", "caller %d got connection %s without an error, but that connection had been closed (at %d) before the caller even called DialPeer (at %d): not a usable connection", i, fc.name, fc.closeAt, c.start)
				return
			}
			if c.conn.RemotePeer() != P.ID {
				x.Fail("connection-to-wrong-peer", "caller %d dialled %s and got a connection to %s", i, P.ID, c.conn.RemotePeer())
				return
			}
			if c.spec.ForceDirect {
				if sc2, ok := c.conn.(*Conn); ok && sc2.conn.Transport().Proxy() {
					x.Fail("force-direct-got-relayed-conn", "caller %d demanded a direct connection and got %v", i, c.conn)
					return
				}
			}
			continue
		}
		// an error. Unless the caller itself gave up (its own context was cancelled), every address that is neither
		// filtered out nor in back-off must have been attempted by now - also when the dial-peer timeout ended
		if !(c.spec.Cancel && c.cancelAt != 0 && c.cancelAt < c.end) {
			for _, a := range sc.cands() {
				if a == c05NoTpt || (c.spec.ForceDirect && a == relay) {
					continue
				}
				skip := false
				for _, b := range sc.Backoff {
					if b == a {
						// "neither filtered out nor in back-off": the statement exempts an address in back-off for
						// every caller (a force-direct caller that joins a dial tracked for a plain caller inherits
						// its back-off answer; alone it would ignore back-off)
						skip = true
					}
				}
				attempted := false
				for _, d := range dials {
					if d.Addr == a && d.Start < c.end {
						attempted = true
					}
				}
				if !skip && !attempted {
					x.Fail("address-never-attempted", "caller %d returned %q after %v of virtual time without giving up, but address %s was never handed to a transport (dials: %s)", i, c.err, c.endT.Sub(c.startT), a, c05Outcome(env, calls))
					return
				}
			}
		}
		// either the caller's own context / dial timeout ended ...
		if c.ctxErrAtReturn != nil || c.endT.Sub(c.startT) >= network.DialPeerTimeout {
			if c.spec.Cancel && c.cancelAt > c.start && c.cancelAt < c.end && c.endIdle != c.cancelIdle {
				x.Fail("cancelled-caller-not-released-promptly", "caller %d was cancelled at virtual time %v but returned at %v", i, c.cancelT.Sub(c.startT), c.endT.Sub(c.startT))
				return
			}
			if sc.AttemptOnTimeout && c.ctxErrAtReturn == nil && c.err != nil {
				for _, a := range sc.cands() {
					attempted := false
					for _, d := range dials {
						if d.Addr == a && d.Start > c.start && d.Start < c.end {
							attempted = true
						}
					}
					if !attempted && a != c05NoTpt {
						x.Fail("address-never-attempted-before-timeout", "caller %d waited %v (the dial timeout) and returned %q, but address %s - neither filtered out nor in back-off, no cap in its way - was never handed to a transport while it waited (dials: %s)", i, c.endT.Sub(c.startT), c.err, a, c05Outcome(env, calls))
						return
					}
				}
			}
			continue
		}
		if false {
			x.Fail("caller-cancelled-by-someone-else", "caller %d returned %v although its own context is alive and no timeout has expired", i, c.err)
			return
		}
		// ... or every candidate address has failed or been refused
		cands := sc.cands()
		for _, a := range cands {
			if a == c05NoTpt {
				continue // no transport: refused
			}
			if c.spec.ForceDirect && a == relay {
				continue // filtered for this caller
			}
			inBackoff := false
			for _, b := range sc.Backoff {
				if b == a {
					inBackoff = true // refused by back-off, for every caller (see the attempt rule above)
				}
			}
			if inBackoff {
				continue
			}
			failed := false
			for _, d := range dials {
				if d.Addr != a || d.End == 0 || d.End > c.end {
					continue
				}
				g := gens[d]
				timedOut := g != nil && !g.endT.IsZero() && g.endT.Sub(g.startT) >= 5*time.Second
				if d.Result == fxFail || d.Result == fxWrongPeer || (d.Result == "cancelled" && timedOut) {
					failed = true
				}
			}
			// an address that entered back-off through an earlier failure of the same execution counts as refused
			if !failed {
				for _, d := range dials {
					if d.Addr == a && d.Result == fxFail && d.End != 0 && d.End < c.end {
						failed = true
					}
				}
			}
			if !failed {
				x.Fail("error-before-all-addresses-failed", "caller %d returned %q although address %s had neither failed nor been refused (dials: %s)", i, c.err, a, c05Outcome(env, calls))
				return
			}
		}
	}
	// de-duplication: within one worker generation an address is handed to a transport at most once
	type key struct {
		gen  any
		addr string
	}
	seen := map[key]*fxDial{}
	for _, d := range dials {
		g := gens[d]
		if g == nil || g.gen == nil {
			continue
		}
		k := key{g.gen, d.Addr}
		if prev, dup := seen[k]; dup && prev.Conn != nil && prev.Conn.closeAt != 0 && prev.Conn.closeAt < d.Start {
			// the earlier attempt produced a connection and that connection was closed before this attempt began: the
			// at-most-once clause is about duplicate attempts, a new request after the connection died needs a new one
			seen[k] = d
			continue
		}
		if prev, dup := seen[k]; dup {
			x.Fail("address-dialled-twice", "address %s was handed to the transport twice while the same callers were waiting (dial started at %d and at %d)", d.Addr, prev.Start, d.Start)
			return
		}
		seen[k] = d
	}
	// caps: transport dials in flight at any instant
	type ev struct {
		at    int64
		delta int
		fd    bool
	}
	var evs []ev
	for _, d := range dials {
		isFD := strings.Contains(d.Addr, "/tcp/") && !strings.Contains(d.Addr, "p2p-circuit")
		end := d.End
		if end == 0 {
			end = 1 << 62
		}
		evs = append(evs, ev{d.Start, +1, isFD}, ev{end, -1, isFD})
	}
	sort.Slice(evs, func(i, j int) bool { return evs[i].at < evs[j].at })
	inflight, fds := 0, 0
	for _, e := range evs {
		inflight += e.delta
		if e.fd {
			fds += e.delta
		}
		if sc.PerPeer > 0 && inflight > sc.PerPeer {
			x.Fail("per-peer-cap-exceeded", "%d dials to the peer in flight, cap %d", inflight, sc.PerPeer)
			return
		}
		if sc.FD > 0 && fds > sc.FD {
			x.Fail("fd-cap-exceeded", "%d fd-consuming dials in flight, cap %d", fds, sc.FD)
			return
		}
	}
	// a force-direct request never dials a relay address
	onlyFD := true
	for _, c := range calls {
		if !c.spec.ForceDirect {
			onlyFD = false
		}
	}
	for _, d := range dials {
		if d.ForceDirect && strings.Contains(d.Addr, "p2p-circuit") {
			x.Fail("force-direct-dialled-relay", "relay address %s dialled with a force-direct context", d.Addr)
			return
		}
		if onlyFD && strings.Contains(d.Addr, "p2p-circuit") {
			x.Fail("force-direct-dialled-relay", "relay address %s dialled although every caller demanded a direct connection", d.Addr)
			return
		}
	}
}

func c05Scenarios(thorough bool) []c05Scn {
	one := []c05Caller{{}}
	two := []c05Caller{{}, {}}
	scs := []c05Scn{
		{Name: "1 addr ok, 1 caller", Addrs: []string{c05TCP1}, Script: map[string][]string{c05TCP1: {fxOK}}, Callers: one},
		{Name: "1 addr fails, 2 callers", Addrs: []string{c05TCP1}, Script: map[string][]string{c05TCP1: {fxFail}}, Callers: two},
		{Name: "tcp fails quic ok, 2 callers", Addrs: []string{c05TCP2, c05QUIC}, Script: map[string][]string{c05TCP2: {fxFail}, c05QUIC: {fxOK}}, Callers: two},
		{Name: "tcp hangs quic ok, caller 0 cancelled", Addrs: []string{c05TCP2, c05QUIC}, Script: map[string][]string{c05QUIC: {fxOK}}, Callers: []c05Caller{{Cancel: true}, {}}},
		{Name: "3 addrs hang, perPeer=2, both callers cancelled", Addrs: []string{c05TCP1, c05TCP2, c05TCP3}, Script: map[string][]string{}, Callers: []c05Caller{{Cancel: true}, {Cancel: true}}, PerPeer: 2, Ticks: []time.Duration{251 * time.Millisecond}},
		{Name: "3 addrs hang, fd=2, caller cancelled", Addrs: []string{c05TCP1, c05TCP2, c05TCP3}, Script: map[string][]string{}, Callers: []c05Caller{{Cancel: true}}, PerPeer: 3, FD: 2, Ticks: []time.Duration{251 * time.Millisecond}},
		{Name: "sim-connect, 3 addrs dialled at once: ok then two failures", Addrs: []string{c05TCP1, c05TCP2, c05TCP3}, Script: map[string][]string{c05TCP1: {fxOK}, c05TCP2: {fxFail}, c05TCP3: {fxFail}}, Callers: []c05Caller{{SimConnect: true}, {SimConnect: true}}, Bound: 1},
		{Name: "quic + two ip6 tcp + ip4 tcp (one ranking group, happy-eyeballs reordering), all fail", Addrs: []string{c05QUIC, c05TCP6a, c05TCP6b, c05TCP1},
			Script: map[string][]string{c05QUIC: {fxFail}, c05TCP6a: {fxFail}, c05TCP6b: {fxFail}, c05TCP1: {fxFail}}, Callers: one},
		{Name: "a new caller arrives after the previous worker's only caller was cancelled (perPeer=1, the dial hangs)", Addrs: []string{c05TCP1}, Script: map[string][]string{},
			Callers: []c05Caller{{Cancel: true}, {After: 1}}, PerPeer: 1, AttemptOnTimeout: true},
		{Name: "a worker kept alive by a caller on a hanging address serves a later caller after the connection it made was closed", Addrs: []string{c05TCP2}, LateAddr: c05TCP1,
			Script: map[string][]string{c05TCP1: {fxOK, fxOK}}, Callers: []c05Caller{{}, {AfterLate: true}, {AfterClose: true}}, CloseConnOf: 2},
		{Name: "last address fails while a caller with a new address joins", Addrs: []string{c05TCP1}, LateAddr: c05TCP2, Script: map[string][]string{c05TCP1: {fxFail}, c05TCP2: {fxOK}}, Callers: two},
		{Name: "tcp + relay, force-direct and plain caller", Addrs: []string{c05TCP1, "RELAY"}, Script: map[string][]string{c05TCP1: {fxFail}, "RELAY": {fxOK}}, Callers: []c05Caller{{ForceDirect: true}, {}}},
		{Name: "fd=1: ok and hang, caller 1 cancelled", Addrs: []string{c05TCP1, c05TCP2}, Script: map[string][]string{c05TCP1: {fxOK}}, Callers: []c05Caller{{}, {Cancel: true}}, FD: 1, PerPeer: 2, Ticks: []time.Duration{251 * time.Millisecond}},
		{Name: "force-direct caller introduces the address and is cancelled, a plain caller has joined", Addrs: []string{c05TCP1}, Script: map[string][]string{c05TCP1: {fxOK}}, Callers: []c05Caller{{ForceDirect: true, Cancel: true}, {}}},
		{Name: "sim-connect caller introduces the address and is cancelled, a plain caller has joined", Addrs: []string{c05TCP1, c05QUIC}, Script: map[string][]string{c05TCP1: {fxOK}, c05QUIC: {fxFail}}, Callers: []c05Caller{{SimConnect: true, Cancel: true}, {}}},
		{Name: "a dnsaddr name that resolves to an address also known plainly (record with /p2p suffix), the address fails", Addrs: []string{c05DNSAddr, c05TCP1},
			Resolve: map[string][]string{c05DNSAddr: {c05TCP1 + "/p2p/" + fxID("P").ID.String()}}, Script: map[string][]string{c05TCP1: {fxFail}}, Callers: one},
		{Name: "dial authenticates as the wrong peer", Addrs: []string{c05TCP1}, Script: map[string][]string{c05TCP1: {fxWrongPeer}}, Callers: one},
	}
	if thorough {
		scs = append(scs,
			c05Scn{Name: "a dns4 name and a dnsaddr name that resolve to the same two addresses, one also known plainly; first fails, second ok, 2 callers", Addrs: []string{c05DNS4, c05DNSAddr, c05TCP2},
				Resolve: map[string][]string{c05DNS4: {c05TCP1}, c05DNSAddr: {c05TCP1 + "/p2p/" + fxID("P").ID.String(), c05TCP2 + "/p2p/" + fxID("P").ID.String()}},
				Script: map[string][]string{c05TCP1: {fxFail}, c05TCP2: {fxOK}}, Callers: two},
			c05Scn{Name: "no addresses, 2 callers", Addrs: nil, Script: map[string][]string{}, Callers: two},
			c05Scn{Name: "only undialable address", Addrs: []string{c05NoTpt}, Script: map[string][]string{}, Callers: two},
			c05Scn{Name: "address in back-off, plain and force-direct caller", Addrs: []string{c05TCP1}, Backoff: []string{c05TCP1}, Script: map[string][]string{c05TCP1: {fxOK}}, Callers: []c05Caller{{}, {ForceDirect: true}}},
			c05Scn{Name: "private + public tcp, handshake progress then ok", Addrs: []string{c05Priv, c05TCP1}, Script: map[string][]string{c05Priv: {fxFail}, c05TCP1: {fxProgress, fxOK}}, Callers: one, Ticks: []time.Duration{251 * time.Millisecond}},
			c05Scn{Name: "dial timeout with one dial hanging", Addrs: []string{c05TCP1}, Script: map[string][]string{}, Callers: two},
			c05Scn{Name: "3 callers, two addresses fail then ok", Addrs: []string{c05TCP1, c05TCP2, c05QUIC}, Script: map[string][]string{c05TCP1: {fxFail}, c05TCP2: {fxFail}, c05QUIC: {fxOK}}, Callers: []c05Caller{{}, {Cancel: true}, {SimConnect: true}}},
		)
	}
	// resolve the relay placeholder
	for i := range scs {
		for j, a := range scs[i].Addrs {
			if a == "RELAY" {
				scs[i].Addrs[j] = c05Relay()
			}
		}
		if v, ok := scs[i].Script["RELAY"]; ok {
			delete(scs[i].Script, "RELAY")
			scs[i].Script[c05Relay()] = v
		}
	}
	return scs
}

func c05Scenario(sc c05Scn) *vs.Scenario {
	if sc.Ticks == nil {
		// ranking delays (250 ms, relay 500 ms) can only fire while environment threads are still pending if
		// virtual time is allowed to pass as an explicit (deviation-costing) alternative
		sc.Ticks = []time.Duration{501 * time.Millisecond}
	}
	return &vs.Scenario{Name: sc.Name, Body: c05Body(sc), LeakIsViolation: true, LeakKey: "goroutine-left-behind",
		Opt: vs.Options{Horizon: 70 * time.Second, IdleStep: 97 * time.Millisecond, MaxSteps: 20000, Ticks: sc.Ticks}}
}

func TestVerifC05(t *testing.T) {
	for _, n := range []string{"P", "Q", "R", "relay", "mallory", "local"} {
		fxID(n)
	}
	scs := c05Scenarios(vrep.Thorough())
	if p := vrep.ReplayPath(); p != "" {
		rp, err := vs.LoadReplay(p)
		if err != nil {
			t.Fatal(err)
		}
		if rp.Scenario == c05Multi2Name {
			x := vs.Replay(t, c05Multi2Scenario(), rp.Choices)
			fmt.Fprintf(os.Stdout, "REPLAY %s choices=%v\n%s\nverdict: key=%q %s\npanic=%s outcome=%s\n", rp.Scenario, rp.Choices, strings.Join(x.S.Log, "\n"), x.VioKey, x.VioDesc, x.Panic, x.Outcome)
			return
		}
		if rp.Scenario == c05MultiName {
			x := vs.Replay(t, c05MultiScenario(), rp.Choices)
			fmt.Fprintf(os.Stdout, "REPLAY %s choices=%v\n%s\nverdict: key=%q %s\npanic=%s outcome=%s\n", rp.Scenario, rp.Choices, strings.Join(x.S.Log, "\n"), x.VioKey, x.VioDesc, x.Panic, x.Outcome)
			return
		}
		for _, sc := range c05Scenarios(true) {
			if sc.Name == rp.Scenario {
				x := vs.Replay(t, c05Scenario(sc), rp.Choices)
				fmt.Fprintf(os.Stdout, "REPLAY %s choices=%v\n%s\nverdict: key=%q %s\npanic=%s outcome=%s\n", sc.Name, rp.Choices, strings.Join(x.S.Log, "\n"), x.VioKey, x.VioDesc, x.Panic, x.Outcome)
				return
			}
		}
		t.Fatalf("scenario %q not found", rp.Scenario)
	}
	if vs.FreeMode() {
		// free-running pass for the race detector (validates the data-race-freedom assumption of the scheduler)
		r := vrep.New("C05", "race-pass")
		dl := vrep.Deadline()
		n := 0
		for time.Now().Before(dl) {
			for _, sc := range scs {
				runs, _ := vs.FreeRun(t, c05Scenario(sc), 3, dl)
				n += runs
			}
		}
		r.Executions = int64(n)
		r.Note("free-running executions: %d", n)
		r.Flush()
		return
	}
	si, sn := vrep.Shard()
	r := vrep.New("C05", "swarm-dial")
	r.Bounds["scenarios"] = len(scs)
	bounds := map[string]int{}
	for i, sc := range scs {
		left := time.Until(vrep.Deadline())
		share := left / time.Duration(len(scs)-i)
		b := 2
		if sc.Bound > 0 {
			b = sc.Bound
		}
		if vrep.Thorough() {
			b++
		}
		bounds[sc.Name] = b
		vs.Explore(t, c05Scenario(sc), vs.Config{MaxBound: b, Deadline: time.Now().Add(share), ShardI: si, ShardN: sn, Property: "C05"}, r)
	}
	{
		b := 1
		if vrep.Thorough() {
			b = 2
		}
		bounds[c05MultiName] = b
		bounds[c05Multi2Name] = b
		vs.Explore(t, c05Multi2Scenario(), vs.Config{MaxBound: b, Deadline: time.Now().Add(time.Until(vrep.Deadline()) / 2), ShardI: si, ShardN: sn, Property: "C05"}, r)
		vs.Explore(t, c05MultiScenario(), vs.Config{MaxBound: b, Deadline: vrep.Deadline(), ShardI: si, ShardN: sn, Property: "C05"}, r)
	}
	r.Bounds["deviation_bound_per_scenario"] = bounds
	r.Flush()
}
