//go:build verif

package swarm

// C05, several peers sharing the file-descriptor cap: a dial of peer Q holds the only fd token; a job of peer P
// queues for the token and is then abandoned (its callers give up); a NEW request for P queues behind the
// abandoned job's per-peer token; a job of peer R queues for the fd token. When Q's dial finishes the limiter
// must hand the single fd token to exactly one of them.

import (
	"context"
	"fmt"
	"sort"
	"strings"
	"time"

	"github.com/libp2p/go-libp2p/core/peerstore"
	vs "github.com/libp2p/go-libp2p/x/verif/vsched"
	ma "github.com/multiformats/go-multiaddr"
)

const c05MultiName = "three peers, fd=1 perPeer=1: abandoned fd waiter, new request of the same peer, third peer waiting"

func c05MultiBody() func(x *vs.Exec) {
	return func(x *vs.Exec) {
		s := x.S
		env := fxNewEnv(1, 1)
		peers := map[string]string{"Q": "/ip4/1.2.3.7/tcp/4101", "P": "/ip4/1.2.3.8/tcp/4102", "R": "/ip4/1.2.3.9/tcp/4103"}
		for n, a := range peers {
			env.PS.AddAddr(fxID(n).ID, ma.StringCast(a), peerstore.PermanentAddrTTL)
		}
		type call struct {
			name     string
			returned int
			err      error
		}
		var calls []*call
		dial := func(name, peerName string, prio int, ctx context.Context) {
			c := &call{name: name}
			calls = append(calls, c)
			s.GoPrio(name, prio, func() {
				_, err := env.Swarm.DialPeer(ctx, fxID(peerName).ID)
				c.returned++
				c.err = err
			})
		}
		ctxP1, cancelP1 := context.WithCancel(context.Background())
		bg, cancelAll := context.WithCancel(context.Background())
		defer cancelAll()
		dial("callerQ", "Q", 0, bg)
		dial("callerP1", "P", 0, ctxP1)
		s.GoPrio("cancelP1", 1, func() { vs.Yield(); cancelP1() })
		dial("callerP2", "P", 2, bg)
		dial("callerR", "R", 2, bg)
		s.GoPrio("net:Q", 3, func() { env.TCP.Complete(ma.StringCast(peers["Q"]), fxOK) })
		s.GoPrio("net:P", 4, func() { env.TCP.Complete(ma.StringCast(peers["P"]), fxOK) })
		s.GoPrio("net:R", 4, func() { env.TCP.Complete(ma.StringCast(peers["R"]), fxOK) })
		ok := s.Run()
		if !ok && s.Deadlock != "" {
			x.Fail("dial-never-returns", "threads blocked forever: %s", s.Deadlock)
		}
		dials := env.AllDials()
		if ok {
			for _, c := range calls {
				if c.returned != 1 {
					x.Fail("caller-returned-not-once", "%s returned %d times", c.name, c.returned)
				}
			}
			// fd cap: every address here is tcp, so every transport dial consumes a file descriptor
			type ev struct {
				at    int64
				delta int
			}
			var evs []ev
			for _, d := range dials {
				end := d.End
				if end == 0 {
					end = 1 << 62
				}
				evs = append(evs, ev{d.Start, 1}, ev{end, -1})
			}
			sort.Slice(evs, func(i, j int) bool {
				return evs[i].at < evs[j].at || (evs[i].at == evs[j].at && evs[i].delta < evs[j].delta)
			})
			n := 0
			for _, e := range evs {
				n += e.delta
				if n > 1 {
					var ds []string
					for _, d := range dials {
						ds = append(ds, fmt.Sprintf("%s[%d,%d]", d.Addr, d.Start, d.End))
					}
					x.Fail("fd-cap-exceeded", "%d fd-consuming dials in flight, cap 1 (%s)", n, strings.Join(ds, " "))
					break
				}
			}
			if x.VioKey == "" {
				c05Residue(x, env)
			}
		}
		var ds []string
		for _, d := range dials {
			ds = append(ds, d.Addr[len(d.Addr)-4:]+":"+d.Result)
		}
		var cs []string
		for _, c := range calls {
			if c.err == nil {
				cs = append(cs, c.name+"=conn")
			} else {
				cs = append(cs, c.name+"=err")
			}
		}
		x.Outcome = strings.Join(cs, " ") + " dials[" + strings.Join(ds, ",") + "]"
		s.Go("teardown", func() { env.Close() })
		if !s.Drain() && s.Deadlock != "" {
			x.Fail("deadlock-in-close", "Swarm.Close did not finish: %s", s.Deadlock)
		}
	}
}

func c05MultiScenario() *vs.Scenario {
	return &vs.Scenario{Name: c05MultiName, Body: c05MultiBody(), LeakIsViolation: true, LeakKey: "goroutine-left-behind",
		Opt: vs.Options{Horizon: 70 * time.Second, IdleStep: 97 * time.Millisecond, MaxSteps: 20000}}
}

// Second multi-peer scenario: the abandoned fd waiter ALONE. Q's dial holds the only fd token and hangs; P's job takes
// P's per-peer token and queues for the fd token; P's only caller is cancelled. "Once all callers have returned no
// attempt, token or worker remains": once P's caller has returned and everything that follows from it has run
// (quiescence), nothing of P may be left in the limiter - although nobody else's dial has finished meanwhile.
const c05Multi2Name = "two peers, fd=1: the other peer's dial hangs on the fd token, this peer's only caller is cancelled while its job waits for the token"

func c05Multi2Body() func(x *vs.Exec) {
	return func(x *vs.Exec) {
		s := x.S
		env := fxNewEnv(1, 8)
		peers := map[string]string{"Q": "/ip4/1.2.3.7/tcp/4101", "P": "/ip4/1.2.3.8/tcp/4102"}
		for _, n := range []string{"Q", "P"} {
			env.PS.AddAddr(fxID(n).ID, ma.StringCast(peers[n]), peerstore.PermanentAddrTTL)
		}
		P := fxID("P").ID
		ctxP, cancelP := context.WithCancel(context.Background())
		bg, cancelAll := context.WithCancel(context.Background())
		defer cancelAll()
		pReturned := make(chan struct{})
		var retQ, retP int
		s.GoPrio("callerQ", 0, func() {
			env.Swarm.DialPeer(bg, fxID("Q").ID)
			retQ++
		})
		s.GoPrio("callerP", 1, func() {
			env.Swarm.DialPeer(ctxP, P)
			retP++
			vs.Close(pReturned)
		})
		s.GoPrio("cancelP", 2, func() { vs.Yield(); cancelP() })
		s.GoPrio("probe", 3, func() {
			vs.Recv(-9, pReturned)
			vs.SyncWait() // P's worker has exited and cleaned up; Q's dial still hangs
			l := env.Swarm.limiter
			l.lk.Lock()
			nFd := 0
			for _, j := range l.waitingOnFd {
				if j.peer == P {
					nFd++
				}
			}
			act, nPeer := l.activePerPeer[P], len(l.waitingOnPeerLimit[P])
			l.lk.Unlock()
			if !s.Free && (act != 0 || nFd != 0 || nPeer != 0) {
				x.Fail("limiter-token-left-behind", "every caller of P has returned and everything is quiescent (the other peer's dial still holds the fd token), but the limiter still has for P: per-peer tokens=%d, jobs waiting for an fd token=%d, jobs waiting for a per-peer token=%d", act, nFd, nPeer)
			}
			cancelAll()
		})
		ok := s.Run()
		if !ok && s.Deadlock != "" {
			x.Fail("dial-never-returns", "threads blocked forever: %s", s.Deadlock)
		}
		if ok && (retQ != 1 || retP != 1) {
			x.Fail("caller-returned-not-once", "callerQ returned %d times, callerP %d times", retQ, retP)
		}
		x.Outcome = fmt.Sprintf("dials=%d", len(env.AllDials()))
		s.Go("teardown", func() { env.Close() })
		if !s.Drain() && s.Deadlock != "" {
			x.Fail("deadlock-in-close", "Swarm.Close did not finish: %s", s.Deadlock)
		}
	}
}

func c05Multi2Scenario() *vs.Scenario {
	return &vs.Scenario{Name: c05Multi2Name, Body: c05Multi2Body(), LeakIsViolation: true, LeakKey: "goroutine-left-behind",
		Opt: vs.Options{Horizon: 70 * time.Second, IdleStep: 97 * time.Millisecond, MaxSteps: 20000}}
}

