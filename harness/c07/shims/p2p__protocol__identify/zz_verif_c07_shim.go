//go:build verif

package identify

import "github.com/libp2p/go-libp2p/core/protocol"

// VerifC07Snapshot exposes the identify service's current snapshot (sequence number and advertised protocol
// list) to the C07 harness: whether a later EvtLocalProtocolsUpdated triggers a push depends on it, so it is
// part of the listener's state and belongs in the state key. Read-only.
func VerifC07Snapshot(s IDService) (seq uint64, protos []protocol.ID, ok bool) {
	ids, isIDS := s.(*idService)
	if !isIDS {
		return 0, nil, false
	}
	ids.currentSnapshot.Lock()
	defer ids.currentSnapshot.Unlock()
	return ids.currentSnapshot.snapshot.seq, append([]protocol.ID(nil), ids.currentSnapshot.snapshot.protocols...), true
}
