//go:build verif

package basichost

// C07 fixture, part 1: an in-memory network for real swarms.
//
// c07Transport is a transport.Transport whose Dial creates an in-memory duplex connection, hands the other
// end to the accept queue of the addressed listener and runs the REAL p2p/net/upgrader on both ends
// (insecure security handshake, real yamux, real resource manager scopes). Nothing touches the OS network,
// every blocking operation is a sync.Cond / channel wait and every deadline a timer, so a whole host pair
// runs inside one testing/synctest bubble: time is virtual (no timeout can fire because the machine is
// loaded) and synctest.Wait() is an exact "everything has settled" barrier.
//
// A connection can be created LIMITED: both raw ends then implement network.ConnStat with Limited=true,
// which the upgrader copies into the CapableConn and the swarm into Conn.Stat() - exactly the way the
// circuit-v2 client transport marks relayed connections (p2p/protocol/circuitv2/client/{dial,handlers}.go).

import (
	"context"
	"errors"
	"fmt"
	"io"
	"net"
	"os"
	"sync"
	"time"

	"github.com/libp2p/go-libp2p/core/network"
	"github.com/libp2p/go-libp2p/core/peer"
	"github.com/libp2p/go-libp2p/core/transport"

	ma "github.com/multiformats/go-multiaddr"
	manet "github.com/multiformats/go-multiaddr/net"
)

// ---------- one direction of a connection ----------

type c07Half struct {
	mu      sync.Mutex
	cond    *sync.Cond
	buf     []byte
	wclosed bool // the writing end closed: EOF once drained
	rclosed bool // the reading end closed: reads fail, writes fail
	rdl     time.Time
	rtimer  *time.Timer
}

func c07NewHalf() *c07Half {
	h := &c07Half{}
	h.cond = sync.NewCond(&h.mu)
	return h
}

func (h *c07Half) read(p []byte) (int, error) {
	h.mu.Lock()
	defer h.mu.Unlock()
	for {
		if h.rclosed {
			return 0, net.ErrClosed
		}
		if len(h.buf) > 0 {
			n := copy(p, h.buf)
			h.buf = h.buf[n:]
			if len(h.buf) == 0 {
				h.buf = nil
			}
			return n, nil
		}
		if h.wclosed {
			return 0, io.EOF
		}
		if !h.rdl.IsZero() && !time.Now().Before(h.rdl) {
			return 0, os.ErrDeadlineExceeded
		}
		if len(p) == 0 {
			return 0, nil
		}
		h.cond.Wait()
	}
}

func (h *c07Half) write(p []byte) (int, error) {
	h.mu.Lock()
	defer h.mu.Unlock()
	if h.wclosed {
		return 0, net.ErrClosed
	}
	if h.rclosed {
		return 0, io.ErrClosedPipe
	}
	h.buf = append(h.buf, p...)
	h.cond.Broadcast()
	return len(p), nil
}

func (h *c07Half) setReadDeadline(t time.Time) {
	h.mu.Lock()
	defer h.mu.Unlock()
	if h.rtimer != nil {
		h.rtimer.Stop()
		h.rtimer = nil
	}
	h.rdl = t
	if t.IsZero() {
		return
	}
	if d := time.Until(t); d > 0 {
		h.rtimer = time.AfterFunc(d, func() {
			h.mu.Lock()
			h.cond.Broadcast()
			h.mu.Unlock()
		})
	}
	h.cond.Broadcast()
}

func (h *c07Half) closeRead() {
	h.mu.Lock()
	h.rclosed = true
	h.buf = nil
	if h.rtimer != nil {
		h.rtimer.Stop()
		h.rtimer = nil
	}
	h.cond.Broadcast()
	h.mu.Unlock()
}

func (h *c07Half) closeWrite() {
	h.mu.Lock()
	h.wclosed = true
	h.cond.Broadcast()
	h.mu.Unlock()
}

// ---------- one end of a connection (manet.Conn + network.ConnStat) ----------

type c07Conn struct {
	in, out      *c07Half
	lnet, rnet   net.Addr
	laddr, raddr ma.Multiaddr
	limited      bool
	closeOnce    sync.Once
}

var _ manet.Conn = (*c07Conn)(nil)
var _ network.ConnStat = (*c07Conn)(nil)

func c07Pair(a, b ma.Multiaddr, limited bool) (*c07Conn, *c07Conn, error) {
	an, err := manet.ToNetAddr(a)
	if err != nil {
		return nil, nil, err
	}
	bn, err := manet.ToNetAddr(b)
	if err != nil {
		return nil, nil, err
	}
	ab, ba := c07NewHalf(), c07NewHalf()
	ca := &c07Conn{in: ba, out: ab, lnet: an, rnet: bn, laddr: a, raddr: b, limited: limited}
	cb := &c07Conn{in: ab, out: ba, lnet: bn, rnet: an, laddr: b, raddr: a, limited: limited}
	return ca, cb, nil
}

func (c *c07Conn) Read(p []byte) (int, error)  { return c.in.read(p) }
func (c *c07Conn) Write(p []byte) (int, error) { return c.out.write(p) }
func (c *c07Conn) Close() error {
	c.closeOnce.Do(func() {
		c.in.closeRead()
		c.out.closeWrite()
	})
	return nil
}
func (c *c07Conn) LocalAddr() net.Addr                { return c.lnet }
func (c *c07Conn) RemoteAddr() net.Addr               { return c.rnet }
func (c *c07Conn) LocalMultiaddr() ma.Multiaddr       { return c.laddr }
func (c *c07Conn) RemoteMultiaddr() ma.Multiaddr      { return c.raddr }
func (c *c07Conn) SetDeadline(t time.Time) error      { c.in.setReadDeadline(t); return nil }
func (c *c07Conn) SetReadDeadline(t time.Time) error  { c.in.setReadDeadline(t); return nil }
func (c *c07Conn) SetWriteDeadline(t time.Time) error { return nil } // writes never block

// Stat makes the connection a limited one when asked to: the upgrader copies it (upgrader.upgrade).
func (c *c07Conn) Stat() network.ConnStats {
	return network.ConnStats{Stats: network.Stats{Limited: c.limited}}
}

// ---------- listener ----------

type c07MaListener struct {
	nw     *c07Net
	addr   ma.Multiaddr
	naddr  net.Addr
	ch     chan *c07Conn
	closed chan struct{}
	once   sync.Once
}

var _ manet.Listener = (*c07MaListener)(nil)

func (l *c07MaListener) Accept() (manet.Conn, error) {
	select {
	case c := <-l.ch:
		return c, nil
	case <-l.closed:
		return nil, errors.New("use of closed network connection")
	}
}

func (l *c07MaListener) Close() error {
	l.once.Do(func() {
		close(l.closed)
		l.nw.mu.Lock()
		delete(l.nw.listeners, l.addr.String())
		l.nw.mu.Unlock()
	})
	return nil
}
func (l *c07MaListener) Multiaddr() ma.Multiaddr { return l.addr }
func (l *c07MaListener) Addr() net.Addr          { return l.naddr }

// ---------- the network and the transport ----------

type c07Net struct {
	mu        sync.Mutex
	listeners map[string]*c07MaListener
	nextPort  int
}

func c07NewNet() *c07Net { return &c07Net{listeners: map[string]*c07MaListener{}, nextPort: 4000} }

func (nw *c07Net) port() int {
	nw.mu.Lock()
	defer nw.mu.Unlock()
	nw.nextPort++
	return nw.nextPort
}

type c07Transport struct {
	nw      *c07Net
	upg     transport.Upgrader
	rcmgr   network.ResourceManager
	limited bool // connections DIALED through this transport are limited (on both ends)
}

var _ transport.Transport = (*c07Transport)(nil)

func (t *c07Transport) CanDial(addr ma.Multiaddr) bool {
	_, err := addr.ValueForProtocol(ma.P_TCP)
	if err != nil {
		return false
	}
	_, err = addr.ValueForProtocol(ma.P_IP4)
	return err == nil
}

func (t *c07Transport) Protocols() []int { return []int{ma.P_TCP} }
func (t *c07Transport) Proxy() bool      { return false }
func (t *c07Transport) String() string   { return "c07mem" }

func (t *c07Transport) Dial(ctx context.Context, raddr ma.Multiaddr, p peer.ID) (transport.CapableConn, error) {
	scope, err := t.rcmgr.OpenConnection(network.DirOutbound, true, raddr)
	if err != nil {
		return nil, err
	}
	if err := scope.SetPeer(p); err != nil {
		scope.Done()
		return nil, err
	}
	t.nw.mu.Lock()
	l := t.nw.listeners[raddr.String()]
	t.nw.mu.Unlock()
	if l == nil {
		scope.Done()
		return nil, fmt.Errorf("c07mem: connection refused: nobody listens on %s", raddr)
	}
	local := ma.StringCast(fmt.Sprintf("/ip4/127.0.0.1/tcp/%d", t.nw.port()))
	a, b, err := c07Pair(local, raddr, t.limited)
	if err != nil {
		scope.Done()
		return nil, err
	}
	select {
	case l.ch <- b:
	case <-l.closed:
		scope.Done()
		return nil, fmt.Errorf("c07mem: connection refused: listener on %s closed", raddr)
	case <-ctx.Done():
		scope.Done()
		return nil, ctx.Err()
	}
	// Upgrade releases the scope itself when it fails.
	return t.upg.Upgrade(ctx, t, a, network.DirOutbound, p, scope)
}

func (t *c07Transport) Listen(laddr ma.Multiaddr) (transport.Listener, error) {
	if v, err := laddr.ValueForProtocol(ma.P_TCP); err != nil {
		return nil, err
	} else if v == "0" {
		laddr = ma.StringCast(fmt.Sprintf("/ip4/127.0.0.1/tcp/%d", t.nw.port()))
	}
	na, err := manet.ToNetAddr(laddr)
	if err != nil {
		return nil, err
	}
	ml := &c07MaListener{nw: t.nw, addr: laddr, naddr: na, ch: make(chan *c07Conn, 16), closed: make(chan struct{})}
	t.nw.mu.Lock()
	if _, dup := t.nw.listeners[laddr.String()]; dup {
		t.nw.mu.Unlock()
		return nil, fmt.Errorf("c07mem: address in use: %s", laddr)
	}
	t.nw.listeners[laddr.String()] = ml
	t.nw.mu.Unlock()
	return t.upg.UpgradeListener(t, ml), nil
}
