//go:build verif

package basichost

// C07 fixture, part 3: resource managers.
//
// Every host of the fixture has a REAL resource manager (p2p/host/resource-manager). Two things are added around it:
//
//   - c07Limiter: a Limiter that is InfiniteLimits except for the protocols of the universe, for which it can bound the
//     number of concurrently open INBOUND streams either in the protocol scope or in the protocol-peer scope. These
//     are the two scopes in which the real streamScope.SetProtocol reserves the stream, i.e. the two places at which
//     the host's SetProtocol call can be refused for the n-th concurrent stream. The refusal itself is the real
//     manager's.
//   - c07RM / c07SScope: a pass-through recorder around the manager that notes, per stream scope, which SetProtocol
//     calls the real scope accepted and which it refused. It decides nothing; it is how the harness knows that an
//     open was REFUSED by the listener's resource manager (so that "the handler runs" is not demanded of it, and
//     "a refused stream runs no handler" can be checked per stream).

import (
	"fmt"
	"math"
	"sync"

	"github.com/libp2p/go-libp2p/core/network"
	"github.com/libp2p/go-libp2p/core/peer"
	"github.com/libp2p/go-libp2p/core/protocol"
	rcmgr "github.com/libp2p/go-libp2p/p2p/host/resource-manager"
)

// c07Lim is the limit configuration of ONE host's resource manager.
type c07Lim struct {
	Kind byte // 0 = nothing limited; c07LimProto / c07LimProtoPeer
	N    int  // inbound streams allowed per protocol of the universe in that scope: the (N+1)-th concurrent one is refused
}

const (
	c07LimProto     = 'P' // protocol scope (all peers together)
	c07LimProtoPeer = 'Q' // protocol-peer scope (per remote peer)
)

func (l c07Lim) String() string {
	switch l.Kind {
	case c07LimProto:
		return fmt.Sprintf("protocol scope: %d inbound stream(s) per protocol", l.N)
	case c07LimProtoPeer:
		return fmt.Sprintf("protocol-peer scope: %d inbound stream(s) per protocol and peer", l.N)
	}
	return "unlimited"
}

type c07Limiter struct {
	rcmgr.Limiter
	lim c07Lim
}

func c07InboundLimit(n int) rcmgr.Limit {
	return rcmgr.BaseLimit{
		Streams: math.MaxInt, StreamsInbound: n, StreamsOutbound: math.MaxInt,
		Conns: math.MaxInt, ConnsInbound: math.MaxInt, ConnsOutbound: math.MaxInt,
		FD: math.MaxInt, Memory: math.MaxInt64,
	}
}

func (l *c07Limiter) GetProtocolLimits(p protocol.ID) rcmgr.Limit {
	if l.lim.Kind == c07LimProto && c07InU(p) {
		return c07InboundLimit(l.lim.N)
	}
	return l.Limiter.GetProtocolLimits(p)
}

func (l *c07Limiter) GetProtocolPeerLimits(p protocol.ID) rcmgr.Limit {
	if l.lim.Kind == c07LimProtoPeer && c07InU(p) {
		return c07InboundLimit(l.lim.N)
	}
	return l.Limiter.GetProtocolPeerLimits(p)
}

func c07NewRM(lim c07Lim) (*c07RM, error) {
	var limiter rcmgr.Limiter = rcmgr.NewFixedLimiter(rcmgr.InfiniteLimits)
	if lim.Kind != 0 {
		limiter = &c07Limiter{Limiter: limiter, lim: lim}
	}
	rm, err := rcmgr.NewResourceManager(limiter, rcmgr.WithMetricsDisabled())
	if err != nil {
		return nil, err
	}
	return &c07RM{ResourceManager: rm}, nil
}

// c07RM forwards everything to the real manager and records the refusals of SetProtocol.
type c07RM struct {
	network.ResourceManager
	mu       sync.Mutex
	refusals []c07Refusal
}

type c07Refusal struct {
	proto protocol.ID
	peer  peer.ID
	dir   network.Direction
	err   error
}

func (m *c07RM) OpenStream(p peer.ID, dir network.Direction) (network.StreamManagementScope, error) {
	s, err := m.ResourceManager.OpenStream(p, dir)
	if err != nil {
		return nil, err
	}
	return &c07SScope{StreamManagementScope: s, rm: m, peer: p, dir: dir}, nil
}

func (m *c07RM) nRefusals() int {
	m.mu.Lock()
	defer m.mu.Unlock()
	return len(m.refusals)
}

func (m *c07RM) refusalsSince(mark int) []c07Refusal {
	m.mu.Lock()
	defer m.mu.Unlock()
	return append([]c07Refusal(nil), m.refusals[mark:]...)
}

// c07SScope is the scope of one stream: the real one plus a note of what SetProtocol answered.
type c07SScope struct {
	network.StreamManagementScope
	rm   *c07RM
	peer peer.ID
	dir  network.Direction

	mu       sync.Mutex
	accepted []protocol.ID
	refused  []protocol.ID
}

func (s *c07SScope) SetProtocol(p protocol.ID) error {
	err := s.StreamManagementScope.SetProtocol(p)
	s.mu.Lock()
	first := len(s.accepted) == 0
	if err == nil {
		s.accepted = append(s.accepted, p)
	} else if first {
		// (a second SetProtocol on an attached scope fails with "already attached": that is not a refusal by a limit)
		s.refused = append(s.refused, p)
	}
	s.mu.Unlock()
	if err != nil && first {
		s.rm.mu.Lock()
		s.rm.refusals = append(s.rm.refusals, c07Refusal{proto: p, peer: s.peer, dir: s.dir, err: err})
		s.rm.mu.Unlock()
	}
	return err
}

// wasRefused: the resource manager refused to attach this stream to a protocol and never accepted one.
func (s *c07SScope) wasRefused() bool {
	s.mu.Lock()
	defer s.mu.Unlock()
	return len(s.refused) > 0 && len(s.accepted) == 0
}
