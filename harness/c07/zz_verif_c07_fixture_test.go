//go:build verif

package basichost

// C07 fixture, part 2: one listener L and two dialers (D0 over a DIRECT connection, D1 over a LIMITED
// connection), all real BasicHosts on real swarms with real resource managers, inside one synctest bubble.
// Plus the handler registry (every registration is a distinct closure with its own tag) and the operation
// alphabet of the state search.

import (
	"context"
	"crypto/ed25519"
	"encoding/binary"
	"fmt"
	"io"
	"sort"
	"strings"
	"sync"
	"testing/synctest"
	"time"

	ic "github.com/libp2p/go-libp2p/core/crypto"
	"github.com/libp2p/go-libp2p/core/host"
	"github.com/libp2p/go-libp2p/core/network"
	"github.com/libp2p/go-libp2p/core/peer"
	"github.com/libp2p/go-libp2p/core/protocol"
	"github.com/libp2p/go-libp2p/core/sec"
	blankhost "github.com/libp2p/go-libp2p/p2p/host/blank"
	"github.com/libp2p/go-libp2p/p2p/host/eventbus"
	"github.com/libp2p/go-libp2p/p2p/host/peerstore/pstoremem"
	"github.com/libp2p/go-libp2p/p2p/muxer/yamux"
	"github.com/libp2p/go-libp2p/p2p/net/swarm"
	tptu "github.com/libp2p/go-libp2p/p2p/net/upgrader"
	"github.com/libp2p/go-libp2p/p2p/protocol/identify"
	"github.com/libp2p/go-libp2p/p2p/security/insecure"

	ma "github.com/multiformats/go-multiaddr"
)

// protocol universe
var c07U = []protocol.ID{"/a/1.0.0", "/a/1.1.0", "/b"}

func c07InU(p protocol.ID) bool {
	for _, u := range c07U {
		if u == p {
			return true
		}
	}
	return false
}

// c07MatchA is the match function of the "match" handlers: semver-style prefix match on /a/ (any /a/<version>).
func c07MatchA(p protocol.ID) bool { return strings.HasPrefix(string(p), "/a/") }

const (
	c07Direct  = 0
	c07Limited = 1
)

var c07ConnName = []string{"direct", "limited"}

// ---------- deterministic identities ----------

type c07Ident struct {
	priv ic.PrivKey
	id   peer.ID
}

var (
	c07IdentMu    sync.Mutex
	c07IdentCache = map[string]c07Ident{}
)

func c07Identity(name string) (c07Ident, error) {
	c07IdentMu.Lock()
	defer c07IdentMu.Unlock()
	if id, ok := c07IdentCache[name]; ok {
		return id, nil
	}
	seed := make([]byte, ed25519.SeedSize)
	copy(seed, []byte("verif-c07-identity-"+name))
	priv, err := ic.UnmarshalEd25519PrivateKey(ed25519.NewKeyFromSeed(seed))
	if err != nil {
		return c07Ident{}, err
	}
	pid, err := peer.IDFromPublicKey(priv.GetPublic())
	if err != nil {
		return c07Ident{}, err
	}
	c07IdentCache[name] = c07Ident{priv: priv, id: pid}
	return c07IdentCache[name], nil
}

// ---------- one host ----------

type c07Node struct {
	h     host.Host
	basic *BasicHost // nil for a BlankHost
	rm    *c07RM     // the real resource manager behind a pass-through recorder (see c07RM)
	id    peer.ID
	extra []io.Closer // what BlankHost.Close does not close
}

func (n *c07Node) close() {
	n.h.Close()
	for _, c := range n.extra {
		c.Close()
	}
}

// c07NewNode builds one host: a BasicHost (identify, optimistic negotiation from peerstore knowledge), or with
// blank=true a BlankHost (no identify: every open negotiates).
func c07NewNode(nw *c07Net, name string, listen, limitedDialer, blank bool, lim c07Lim) (*c07Node, error) {
	ident, err := c07Identity(name)
	if err != nil {
		return nil, err
	}
	ps, err := pstoremem.NewPeerstore()
	if err != nil {
		return nil, err
	}
	if err := ps.AddPubKey(ident.id, ident.priv.GetPublic()); err != nil {
		return nil, err
	}
	if err := ps.AddPrivKey(ident.id, ident.priv); err != nil {
		return nil, err
	}
	// REAL resource manager; lim bounds the inbound streams per protocol of the universe (zero value: nothing limited).
	rm, err := c07NewRM(lim)
	if err != nil {
		return nil, err
	}
	eb := eventbus.NewBus()
	sw, err := swarm.NewSwarm(ident.id, ps, eb, swarm.WithResourceManager(rm))
	if err != nil {
		return nil, err
	}
	st := insecure.NewWithIdentity(insecure.ID, ident.id, ident.priv)
	upg, err := tptu.New([]sec.SecureTransport{st}, []tptu.StreamMuxer{{ID: yamux.ID, Muxer: yamux.DefaultTransport}}, nil, rm, nil)
	if err != nil {
		sw.Close()
		return nil, err
	}
	if err := sw.AddTransport(&c07Transport{nw: nw, upg: upg, rcmgr: rm, limited: limitedDialer}); err != nil {
		sw.Close()
		return nil, err
	}
	if listen {
		if err := sw.Listen(ma.StringCast("/ip4/127.0.0.1/tcp/0")); err != nil {
			sw.Close()
			return nil, err
		}
	}
	if blank {
		bh := blankhost.NewBlankHost(sw, blankhost.WithEventBus(eb))
		if bh == nil {
			sw.Close()
			return nil, fmt.Errorf("NewBlankHost returned nil")
		}
		return &c07Node{h: bh, rm: rm, id: ident.id, extra: []io.Closer{ps, rm}}, nil
	}
	h, err := NewHost(sw, &HostOpts{EventBus: eb, DisableSignedPeerRecord: true})
	if err != nil {
		sw.Close()
		return nil, err
	}
	h.Start()
	return &c07Node{h: h, basic: h, rm: rm, id: ident.id}, nil
}

// ---------- handler registry ----------

const (
	c07Exact = 'E'
	c07Match = 'M'
)

// c07Reg is ONE registration of a handler: a distinct closure with its own tag. Replacing or removing the
// handler under a name kills the registration for good.
type c07Reg struct {
	seq  uint32
	node int // the host it is registered on: 0 = L, 1+k = dialer k
	name protocol.ID
	kind byte
	dead bool
}

func (r *c07Reg) accepts(p protocol.ID) bool {
	if r.kind == c07Match {
		return c07MatchA(p)
	}
	return p == r.name
}

func (r *c07Reg) String() string {
	d := ""
	if r.dead {
		d = " (REMOVED)"
	}
	return fmt.Sprintf("#%d %s/%c%s on %s", r.seq, r.name, r.kind, d, c07NodeName(r.node))
}

func c07NodeName(n int) string {
	if n == 0 {
		return "L"
	}
	return "D" + c07ConnName[n-1]
}

const c07NonceLen = 16

// c07Inv is one invocation of one of the harness's handlers on the listener.
type c07Inv struct {
	reg      *c07Reg
	proto    protocol.ID // Protocol() of the stream the handler got
	remote   peer.ID
	limited  bool
	nonce    [c07NonceLen]byte
	gotNonce bool
	deadAt   bool // the registration had been removed when the handler was invoked
	// the resource scope of the stream the handler got, as seen when the handler was invoked
	scopeSeen bool        // Stream.Scope() is a network.StreamManagementScope (it is, for swarm streams)
	charged   protocol.ID // the protocol scope the stream is attached to (ProtocolScope().Protocol())
	isCharged bool        // ... it is attached to one
	refused   bool        // the host's resource manager refused to attach this stream to a protocol scope
}

// c07Cfg is the configuration of a fixture beyond the state the search explores: what the LISTENER's resource manager
// limits and which handlers the DIALERS have (from before they connect, never changed: the listener's identify
// knowledge about them is accurate and nothing is ever removed there).
type c07Cfg struct {
	Lim c07Lim
	DH  []c07DH
}

// c07DH: both dialers have a handler of this kind registered under c07U[P].
type c07DH struct {
	P    int
	Kind byte
}

func (c c07Cfg) zero() bool { return c.Lim.Kind == 0 && len(c.DH) == 0 }

func (c c07Cfg) String() string {
	var parts []string
	if c.Lim.Kind != 0 {
		parts = append(parts, "listener limits the "+c.Lim.String())
	}
	if len(c.DH) > 0 {
		var hs []string
		for _, d := range c.DH {
			hs = append(hs, fmt.Sprintf("%s:%c", c07U[d.P], d.Kind))
		}
		parts = append(parts, fmt.Sprintf("dialers handle %v", hs))
	}
	if len(parts) == 0 {
		return "plain"
	}
	return strings.Join(parts, "; ")
}

// ---------- the instance ----------

type c07Inst struct {
	nw    *c07Net
	blank bool // all three hosts are BlankHosts
	L     *c07Node
	D     [2]*c07Node

	cfg c07Cfg

	mu      sync.Mutex
	live    [3]map[protocol.ID]*c07Reg // per host (0 = L, 1+k = dialer k): the live registration under each name
	all     [3][]*c07Reg               // per host: every registration there ever was
	nextReg uint32
	log     []*c07Inv
	nonce   uint64

	broken string           // infrastructure failure while building / driving the fixture (never a violation)
	key    string           // state key after the last operation
	pkey   string           // the part of it that determines the outcome of an open (handlers + knowledge)
	saved  [2][]protocol.ID // what dialer k knew about L's protocols when the state was entered
	savedL [2][]protocol.ID // what L knew about dialer k's protocols after the initial identify exchange (accurate for good: the dialers' handlers never change)
	hist   []string
	ops    []c07Op       // the history as operations (to rebuild the state on a fixture with another configuration)
	held   []*c07Attempt // opens kept open in the background (see holdProbes)

	// derived by snapshot(), used by enabled()
	muxOrder  []protocol.ID // the listener's mux entries (without identify's), in mux order
	snapStale bool          // the mux differs from the identify snapshot: the next protocols-updated event pushes
	knownSet  [2]map[protocol.ID]bool
	ck        *c07Checker
}

func (in *c07Inst) fail(f string, a ...any) {
	if in.broken == "" {
		in.broken = fmt.Sprintf(f, a...)
	}
}

func c07NewInst(ck *c07Checker, cfg c07Cfg) *c07Inst {
	in := &c07Inst{nw: c07NewNet(), ck: ck, blank: ck.blank, cfg: cfg}
	for n := range in.live {
		in.live[n] = map[protocol.ID]*c07Reg{}
	}
	var err error
	if in.L, err = c07NewNode(in.nw, "L", true, false, in.blank, cfg.Lim); err != nil {
		in.fail("listener: %v", err)
		return in
	}
	for k := range in.D {
		if in.D[k], err = c07NewNode(in.nw, "D"+c07ConnName[k], false, k == c07Limited, in.blank, c07Lim{}); err != nil {
			in.fail("dialer %s: %v", c07ConnName[k], err)
			return in
		}
		// the dialer's own handlers: there before it connects, so the initial identify exchange reports them
		for _, dh := range cfg.DH {
			reg := in.newReg(1+k, c07U[dh.P], dh.Kind)
			if dh.Kind == c07Match {
				in.D[k].h.SetStreamHandlerMatch(reg.name, c07MatchA, in.handler(reg))
			} else {
				in.D[k].h.SetStreamHandler(reg.name, in.handler(reg))
			}
		}
		ctx, cancel := context.WithTimeout(network.WithAllowLimitedConn(context.Background(), "c07"), time.Minute)
		err = in.D[k].h.Connect(ctx, peer.AddrInfo{ID: in.L.id, Addrs: in.L.h.Network().ListenAddresses()})
		cancel()
		if err != nil {
			in.fail("connect %s: %v", c07ConnName[k], err)
			return in
		}
	}
	synctest.Wait() // both identify exchanges (each direction) have run
	// (Whether identify SUCCEEDED is not checked: if it did not, the dialers simply start with the knowledge
	// "unknown", which is part of the state key.)
	// the fixture must be what it claims to be: one direct and one limited connection, seen as such by both ends
	for k := range in.D {
		want := network.Connected
		if k == c07Limited {
			want = network.Limited
		}
		if got := in.D[k].h.Network().Connectedness(in.L.id); got != want {
			in.fail("dialer %s: connectedness %v, want %v", c07ConnName[k], got, want)
		}
		cs := in.L.h.Network().ConnsToPeer(in.D[k].id)
		if len(cs) != 1 || cs[0].Stat().Limited != (k == c07Limited) {
			in.fail("listener: connection from %s dialer: %d conns / wrong Limited flag", c07ConnName[k], len(cs))
		}
	}
	for k := range in.D {
		in.savedL[k], _ = in.L.h.Peerstore().GetProtocols(in.D[k].id)
	}
	in.snapshot()
	return in
}

// node returns host n (0 = L, 1+k = dialer k).
func (in *c07Inst) node(n int) *c07Node {
	if n == 0 {
		return in.L
	}
	return in.D[n-1]
}

func (in *c07Inst) close() {
	for _, d := range in.D {
		if d != nil {
			d.close()
		}
	}
	if in.L != nil {
		in.L.close()
	}
}

// ---------- handlers ----------

func c07Tag(r *c07Reg) []byte {
	var b [4]byte
	binary.BigEndian.PutUint32(b[:], r.seq)
	return b[:]
}

// handler returns the application handler of one registration: it reports that it ran (with what it sees on
// its stream), sends its own tag at once (a dialer may read before it writes, or never write), reads the dialer's
// nonce if one comes, echoes it, and keeps the stream open until the dialer is done with it. It works with whatever
// the dialer does first on the stream (see c07Scripts).
func (in *c07Inst) handler(reg *c07Reg) network.StreamHandler {
	return func(s network.Stream) {
		inv := &c07Inv{reg: reg, proto: s.Protocol(), remote: s.Conn().RemotePeer(), limited: s.Conn().Stat().Limited}
		if sms, ok := s.Scope().(network.StreamManagementScope); ok {
			inv.scopeSeen = true
			if ps := sms.ProtocolScope(); ps != nil {
				inv.charged, inv.isCharged = ps.Protocol(), true
			}
		}
		if w, ok := s.Scope().(*c07SScope); ok {
			inv.refused = w.wasRefused()
		}
		in.mu.Lock()
		inv.deadAt = reg.dead
		in.log = append(in.log, inv)
		in.mu.Unlock()
		if _, err := s.Write(c07Tag(reg)); err != nil {
			s.Reset()
			return
		}
		var nonce [c07NonceLen]byte
		_ = s.SetReadDeadline(time.Now().Add(30 * time.Second)) // virtual time: fires only if nothing else can happen
		n, err := io.ReadFull(s, nonce[:])
		if err == io.EOF && n == 0 {
			// the dialer half-closed (or closed) without writing anything: a request-less use of the protocol
			s.Close()
			return
		}
		if err != nil {
			s.Reset()
			return
		}
		in.mu.Lock()
		inv.nonce, inv.gotNonce = nonce, true
		in.mu.Unlock()
		if _, err := s.Write(nonce[:]); err != nil {
			s.Reset()
			return
		}
		// (an hour of VIRTUAL time: streams held open in the background while other opens are probed must not run
		// into it; every stream is closed or reset by the dialer, at the latest when the hosts are closed)
		// every further nonce-sized request is echoed as well (the idle probe makes a second exchange on the same
		// stream, see c07ProbeOpt.late); a dialer that only closes is answered by a close as before
		for {
			_ = s.SetReadDeadline(time.Now().Add(time.Hour))
			n, err := io.ReadFull(s, nonce[:])
			if err == io.EOF || err == io.ErrUnexpectedEOF {
				break
			}
			if err != nil {
				s.Reset()
				return
			}
			if _, err := s.Write(nonce[:n]); err != nil {
				s.Reset()
				return
			}
		}
		s.Close()
	}
}

func (in *c07Inst) newReg(node int, name protocol.ID, kind byte) *c07Reg {
	in.mu.Lock()
	defer in.mu.Unlock()
	if old := in.live[node][name]; old != nil {
		old.dead = true
	}
	in.nextReg++
	r := &c07Reg{seq: in.nextReg, node: node, name: name, kind: kind}
	in.live[node][name] = r
	in.all[node] = append(in.all[node], r)
	return r
}

func (in *c07Inst) kill(node int, name protocol.ID) {
	in.mu.Lock()
	defer in.mu.Unlock()
	if old := in.live[node][name]; old != nil {
		old.dead = true
	}
	delete(in.live[node], name)
}

// acceptorsAt returns the live registrations on host node that are registered for, or match, p.
func (in *c07Inst) acceptorsAt(node int, p protocol.ID) []*c07Reg {
	in.mu.Lock()
	defer in.mu.Unlock()
	var out []*c07Reg
	for _, u := range c07U {
		if r := in.live[node][u]; r != nil && r.accepts(p) {
			out = append(out, r)
		}
	}
	return out
}

// acceptors: the listener's.
func (in *c07Inst) acceptors(p protocol.ID) []*c07Reg { return in.acceptorsAt(0, p) }

// everAccepted: has host node EVER had a handler (live or removed since) registered for, or matching, p?
// Knowledge about a protocol for which this is false is not "earlier knowledge", stale or otherwise: it was never true.
func (in *c07Inst) everAccepted(node int, p protocol.ID) bool {
	in.mu.Lock()
	defer in.mu.Unlock()
	for _, r := range in.all[node] {
		if r.accepts(p) {
			return true
		}
	}
	return false
}

// ---------- operations of the state search ----------

const (
	c07OpSetExact = iota
	c07OpSetMatch
	c07OpRemove
	c07OpClear // the dialers forget what they know about the listener's protocols
	c07OpLearn // each dialer opens (and closes) a stream for one protocol: NewStream records what it negotiated
)

type c07Op struct {
	Kind int
	P    int  // index into c07U
	Mux  bool // applied directly on the listener's mux: no EvtLocalProtocolsUpdated, no identify push
}

// c07Alphabet: blank=true leaves out what is meaningless without identify and without optimistic negotiation
// (mux-direct forms differ from the API forms only by the event nobody consumes; knowledge is never used).
func c07Alphabet(blank bool) []c07Op {
	var ops []c07Op
	for _, mux := range []bool{false, true} {
		if blank && mux {
			continue
		}
		for p := range c07U {
			ops = append(ops, c07Op{Kind: c07OpSetExact, P: p, Mux: mux})
		}
		for p := range c07U {
			if c07MatchA(c07U[p]) {
				ops = append(ops, c07Op{Kind: c07OpSetMatch, P: p, Mux: mux})
			}
		}
		for p := range c07U {
			ops = append(ops, c07Op{Kind: c07OpRemove, P: p, Mux: mux})
		}
	}
	if blank {
		return ops
	}
	ops = append(ops, c07Op{Kind: c07OpClear})
	for p := range c07U {
		ops = append(ops, c07Op{Kind: c07OpLearn, P: p})
	}
	return ops
}

func c07ShowOp(o c07Op) string {
	via := "L."
	if o.Mux {
		via = "L.Mux()."
	}
	switch o.Kind {
	case c07OpSetExact:
		if o.Mux {
			return fmt.Sprintf("%sAddHandler(%s)", via, c07U[o.P])
		}
		return fmt.Sprintf("%sSetStreamHandler(%s)", via, c07U[o.P])
	case c07OpSetMatch:
		if o.Mux {
			return fmt.Sprintf("%sAddHandlerWithFunc(%s, prefix /a/)", via, c07U[o.P])
		}
		return fmt.Sprintf("%sSetStreamHandlerMatch(%s, prefix /a/)", via, c07U[o.P])
	case c07OpRemove:
		if o.Mux {
			return fmt.Sprintf("%sRemoveHandler(%s)", via, c07U[o.P])
		}
		return fmt.Sprintf("%sRemoveStreamHandler(%s)", via, c07U[o.P])
	case c07OpClear:
		return "D*.Peerstore().SetProtocols(L) [forget]"
	case c07OpLearn:
		return fmt.Sprintf("D*.NewStream(L, %s); close", c07U[o.P])
	}
	return "?"
}

// apply performs one operation and lets everything settle (identify push delivered and consumed).
// It returns a violation found by a Learn operation (which is a real open and is checked like any other).
func (in *c07Inst) apply(o c07Op) error {
	name := protocol.ID("")
	if o.Kind != c07OpClear {
		name = c07U[o.P]
	}
	switch o.Kind {
	case c07OpSetExact:
		h := in.handler(in.newReg(0, name, c07Exact))
		if o.Mux {
			in.L.h.Mux().AddHandler(name, func(_ protocol.ID, rwc io.ReadWriteCloser) error {
				h(rwc.(network.Stream))
				return nil
			})
		} else {
			in.L.h.SetStreamHandler(name, h)
		}
	case c07OpSetMatch:
		h := in.handler(in.newReg(0, name, c07Match))
		if o.Mux {
			in.L.h.Mux().AddHandlerWithFunc(name, c07MatchA, func(_ protocol.ID, rwc io.ReadWriteCloser) error {
				h(rwc.(network.Stream))
				return nil
			})
		} else {
			in.L.h.SetStreamHandlerMatch(name, c07MatchA, h)
		}
	case c07OpRemove:
		if o.Mux {
			in.L.h.Mux().RemoveHandler(name)
		} else {
			in.L.h.RemoveStreamHandler(name)
		}
		in.kill(0, name)
	case c07OpClear:
		for _, d := range in.D {
			if err := d.h.Peerstore().SetProtocols(in.L.id); err != nil {
				in.fail("SetProtocols: %v", err)
			}
		}
	case c07OpLearn:
		synctest.Wait()
		for k := range in.D {
			if err := in.ck.probe(in, []c07Req{{dk: k, list: []protocol.ID{name}}}, false, "learn"); err != nil {
				return err
			}
		}
	}
	synctest.Wait()
	in.hist = append(in.hist, c07ShowOp(o))
	in.ops = append(in.ops, o)
	in.snapshot()
	return nil
}

// ---------- state snapshot ----------

func c07IsIdentify(p protocol.ID) bool { return p == identify.ID || p == identify.IDPush }

// known returns what dialer k believes the listener supports, restricted to the universe, sorted.
func (in *c07Inst) known(k int) []string {
	ps, err := in.D[k].h.Peerstore().GetProtocols(in.L.id)
	if err != nil {
		in.fail("GetProtocols: %v", err)
	}
	var out []string
	for _, p := range ps {
		if c07InU(p) {
			out = append(out, string(p))
		}
	}
	sort.Strings(out)
	return out
}

// snapshot computes the state key: the listener's mux entries in mux order with the kind of the live
// registration, the identify snapshot the listener last computed (decides whether the next API operation
// pushes), and each dialer's knowledge. It also saves the dialers' full knowledge so that the opens probed
// in this state all start from exactly this knowledge.
func (in *c07Inst) snapshot() {
	if in.broken != "" {
		in.key, in.pkey = "BROKEN", "BROKEN"
		return
	}
	var hs []string
	in.muxOrder = nil
	in.mu.Lock()
	for _, p := range in.L.h.Mux().Protocols() {
		if c07IsIdentify(p) {
			continue
		}
		in.muxOrder = append(in.muxOrder, p)
		k := byte('?') // an entry the harness did not (or no longer does) account for
		if r := in.live[0][p]; r != nil {
			k = r.kind
		}
		hs = append(hs, fmt.Sprintf("%s:%c", p, k))
	}
	var lv []string
	for _, u := range c07U {
		if r := in.live[0][u]; r != nil {
			lv = append(lv, fmt.Sprintf("%s:%c", u, r.kind))
		}
	}
	in.mu.Unlock()
	var snap []string
	if in.blank {
		// no identify service: nothing is ever pushed
		for _, p := range in.muxOrder {
			snap = append(snap, string(p))
		}
		sort.Strings(snap)
	} else if _, protos, ok := identify.VerifC07Snapshot(in.L.basic.IDService()); ok {
		for _, p := range protos {
			if !c07IsIdentify(p) {
				snap = append(snap, string(p))
			}
		}
		sort.Strings(snap)
	} else {
		in.fail("identify snapshot not accessible")
	}
	muxSorted := []string{}
	for _, p := range in.muxOrder {
		muxSorted = append(muxSorted, string(p))
	}
	sort.Strings(muxSorted)
	in.snapStale = fmt.Sprint(muxSorted) != fmt.Sprint(append([]string{}, snap...))
	for k := range in.D {
		ps, _ := in.D[k].h.Peerstore().GetProtocols(in.L.id)
		in.saved[k] = ps
		in.knownSet[k] = map[protocol.ID]bool{}
		for _, p := range ps {
			in.knownSet[k][p] = true
		}
	}
	in.pkey = fmt.Sprintf("mux=%v live=%v known[direct]=%v known[limited]=%v", hs, lv, in.known(0), in.known(1))
	in.key = in.pkey + fmt.Sprintf(" idsnap=%v", snap)
}

// enabled returns the operations that can change the state. The operations left out are self-loops of the
// state graph (same mux order and kinds, same identify snapshot, same knowledge), which the search would
// merge anyway; leaving them out only saves building a fixture to find that out:
//   - re-registering the same kind of handler under a name that is already the LAST mux entry (AddHandler
//     removes and appends), unless - for the API form - a push is pending (then it refreshes the dialers);
//   - removing a name the mux does not have; through the API this still emits the event, which pushes iff the
//     snapshot is stale: exactly one such "pure refresh" is kept (the first name not in the mux);
//   - forgetting when neither dialer knows a protocol of the universe;
//   - learning a protocol nobody handles (the open fails, nothing is recorded) or that both dialers already
//     know and the listener handles (optimistic open, nothing is recorded).
func (in *c07Inst) enabled(alphabet []c07Op) []int {
	if in.broken != "" {
		return nil
	}
	inMux := map[protocol.ID]bool{}
	for _, p := range in.muxOrder {
		inMux[p] = true
	}
	last := protocol.ID("")
	if n := len(in.muxOrder); n > 0 {
		last = in.muxOrder[n-1]
	}
	refresh := -1 // the first name of the universe that is not in the mux
	for i, u := range c07U {
		if !inMux[u] {
			refresh = i
			break
		}
	}
	var out []int
	for oi, o := range alphabet {
		switch o.Kind {
		case c07OpSetExact, c07OpSetMatch:
			kind := byte(c07Exact)
			if o.Kind == c07OpSetMatch {
				kind = c07Match
			}
			in.mu.Lock()
			r := in.live[0][c07U[o.P]]
			in.mu.Unlock()
			same := r != nil && r.kind == kind && last == c07U[o.P]
			if same && (o.Mux || !in.snapStale) {
				continue
			}
		case c07OpRemove:
			if !inMux[c07U[o.P]] && (o.Mux || !in.snapStale || o.P != refresh) {
				continue
			}
		case c07OpClear:
			any := false
			for k := range in.D {
				for _, u := range c07U {
					any = any || in.knownSet[k][u]
				}
			}
			if !any {
				continue
			}
		case c07OpLearn:
			p := c07U[o.P]
			if len(in.acceptors(p)) == 0 || (in.knownSet[0][p] && in.knownSet[1][p]) {
				continue
			}
		}
		out = append(out, oi)
	}
	return out
}

// restore puts dialer k's knowledge back to what it was when the state was entered (an open on the
// negotiating path adds the negotiated protocol to the peerstore).
func (in *c07Inst) restore(k int) {
	if err := in.D[k].h.Peerstore().SetProtocols(in.L.id, in.saved[k]...); err != nil {
		in.fail("SetProtocols: %v", err)
	}
}

// What L knows about the dialers' protocols when a group of opens starts (reverse opens, L -> dialer).
const (
	c07LKnowAccurate = 'A' // what the initial identify exchange reported (accurate for good: the dialers' handlers never change)
	c07LKnowUnknown  = 'U' // forgotten: the open has to negotiate
)

// restoreL puts L's knowledge about dialer k's protocols to the given mode.
func (in *c07Inst) restoreL(k int, mode byte) {
	var ps []protocol.ID
	if mode == c07LKnowAccurate {
		ps = in.savedL[k]
	}
	if err := in.L.h.Peerstore().SetProtocols(in.D[k].id, ps...); err != nil {
		in.fail("SetProtocols: %v", err)
	}
}

// knowledge returns what host `of` currently believes host `about` supports, restricted to the universe, sorted.
func (in *c07Inst) knowledge(of, about int) []string {
	ps, _ := in.node(of).h.Peerstore().GetProtocols(in.node(about).id)
	var out []string
	for _, p := range ps {
		if c07InU(p) {
			out = append(out, string(p))
		}
	}
	sort.Strings(out)
	return out
}
