//go:build verif

package basichost

// C07: stream protocol negotiation - both ends agree and the right handler runs.
//
// Engine E1 (package seqmcp = seqmc distributed over the worker processes check.py starts): breadth-first
// search over histories of handler / knowledge operations applied to REAL hosts (fresh listener + two dialers
// per execution, inside a synctest bubble). Every distinct reachable (listener mux, dialer knowledge) class of
// states is then probed: every ordered request list over the protocol universe is opened with Host.NewStream
// on the direct and on the limited connection, plus pairs of concurrent opens, and each open is checked
// against the statement (see oracle()). Two searches: BasicHosts (part "negotiation") and BlankHosts (part
// "blankhost").
//
// First-use dimension (added after a seeded change - CloseWrite not flushing the lazy multistream handshake -
// that the write-first version could not see): every single open is repeated for every script of what the
// application does FIRST on the stream NewStream returned (c07Scripts: sequences of distinct Write / zero-length
// Write / Read / CloseWrite / CloseRead / Close), on the optimistic and on the negotiated path alike, and checked
// by oracleFirstUse().
//
// Configuration dimensions (added after two seeded changes in BasicHost.newStreamHandler - the handler still dispatched
// after the protocol scope refused SetProtocol; an inbound negotiation recorded as "the remote serves P" - that a
// fixture with an unlimited listener and handler-less dialers could not see): every class is rebuilt on fixtures with
// another configuration (c07Cfg, see variant()):
//   - the listener's REAL resource manager limits the concurrent inbound streams per protocol, in the protocol scope or
//     in the protocol-peer scope, N = 0, 1, 2; N streams are held open and every request list is opened against that
//     (holdProbes): the handler that runs, runs on a stream attached to the scope of the protocol it reports; a stream the
//     resource manager refused runs no handler; the scopes count exactly the open streams;
//   - the dialers have handlers of their own and BOTH sides open streams to each other over the same connection, the
//     second open made from what both hosts know after the first (bidirProbes): all oracles with the host opened to
//     as "the remote", plus c07NeverHandled.

import (
	"bytes"
	"context"
	"encoding/json"
	"fmt"
	"io"
	"os"
	"runtime"
	"runtime/debug"
	"sort"
	"strconv"
	"strings"
	"sync"
	"sync/atomic"
	"syscall"
	"testing"
	"testing/synctest"
	"time"

	"github.com/libp2p/go-libp2p/core/network"
	"github.com/libp2p/go-libp2p/core/peer"
	"github.com/libp2p/go-libp2p/core/protocol"
	seqmc "github.com/libp2p/go-libp2p/x/verif/seqmcp"
	"github.com/libp2p/go-libp2p/x/verif/vrep"
)

// c07Req is one open: which dialer (= which kind of connection), the ordered request list, and what the
// application does FIRST on the stream NewStream returned (script: a sequence of distinct stream operations, see
// c07Scripts; "" = nothing special). After the script the open is completed by what is still possible of the
// standard exchange: write the nonce (unless written / write side closed), read the answer (unless read side closed).
//
// rev: the open goes the OTHER way over the same connection: L opens the stream to dialer dk, whose own handlers
// (c07Cfg.DH) are then the "listener's" handlers of the statement.
type c07Req struct {
	dk     int
	list   []protocol.ID
	script string
	rev    bool
}

func (q c07Req) String() string {
	dir := c07ConnName[q.dk]
	if q.rev {
		dir = "L->" + c07ConnName[q.dk]
	}
	if q.script == "" {
		return fmt.Sprintf("%s:%v", dir, q.list)
	}
	return fmt.Sprintf("%s:%v first:%s", dir, q.list, c07ShowScript(q.script))
}

// opener / target: the host (0 = L, 1+k = dialer k) that calls NewStream, and the one whose handler is to run.
func (q c07Req) opener() int {
	if q.rev {
		return 0
	}
	return 1 + q.dk
}

func (q c07Req) target() int {
	if q.rev {
		return 1 + q.dk
	}
	return 0
}

// Stream operations of a script.
const (
	c07SWrite      = 'W' // Write(nonce)
	c07SWriteZero  = 'Z' // Write of zero bytes
	c07SRead       = 'R' // read everything the handler has been asked for so far (its tag; the nonce echo once the nonce was written)
	c07SCloseWrite = 'w'
	c07SCloseRead  = 'r'
	c07SClose      = 'C'
)

var c07StepName = map[byte]string{c07SWrite: "Write", c07SWriteZero: "Write0", c07SRead: "Read", c07SCloseWrite: "CloseWrite", c07SCloseRead: "CloseRead", c07SClose: "Close"}

func c07ShowScript(sc string) string {
	out := ""
	for i := 0; i < len(sc); i++ {
		if i > 0 {
			out += ","
		}
		out += c07StepName[sc[i]]
	}
	return out
}

// c07Scripts: every sequence of 1..maxLen DISTINCT stream operations that makes sense on one stream: nothing after
// Close, no Write / Write0 / CloseWrite after CloseWrite, no Read / CloseRead after CloseRead. Plus the empty script.
func c07Scripts(maxLen int) []string {
	out := []string{""}
	steps := []byte{c07SWrite, c07SWriteZero, c07SRead, c07SCloseWrite, c07SCloseRead, c07SClose}
	var rec func(cur []byte, wOpen, rOpen bool)
	rec = func(cur []byte, wOpen, rOpen bool) {
		if len(cur) > 0 {
			out = append(out, string(cur))
		}
		if len(cur) == maxLen || (len(cur) > 0 && cur[len(cur)-1] == c07SClose) {
			return
		}
		for _, st := range steps {
			if bytes.IndexByte(cur, st) >= 0 {
				continue
			}
			w, r := wOpen, rOpen
			switch st {
			case c07SWrite, c07SWriteZero:
				if !wOpen {
					continue
				}
			case c07SRead:
				if !rOpen {
					continue
				}
			case c07SCloseWrite:
				if !wOpen {
					continue
				}
				w = false
			case c07SCloseRead:
				if !rOpen {
					continue
				}
				r = false
			case c07SClose:
				w, r = false, false
			}
			rec(append(append([]byte(nil), cur...), st), w, r)
		}
	}
	rec(nil, true, true)
	sort.SliceStable(out, func(i, j int) bool { return len(out[i]) < len(out[j]) })
	return out
}

// c07Attempt is what the dialer observed for one open.
type c07Attempt struct {
	c07Req
	nonce      [c07NonceLen]byte
	s          network.Stream
	stage      string // "" = NewStream and every stream operation made (script + completion) succeeded; else the step that failed
	err        error
	used       bool        // a stream operation that sends or awaits something was made: Write (any length), Read, CloseWrite, Close
	wrote      bool        // the nonce was written
	readOK     bool        // a Read delivered everything that was expected at that point
	closedAny  bool        // the script closed a direction (the stream need not be open on both ends once things have settled)
	closed     bool        // the script called Close
	optimistic bool        // NewStream returned the lazily negotiating wrapper (protocol chosen from peerstore knowledge)
	proto      protocol.ID // Protocol() of the dialer's stream
	remote     peer.ID
	limited    bool
	reply      []byte
	prefix     []byte // written in front of the nonce, in the same Write (see crafted())
	refusedBy  string // the target's resource manager refused to attach the stream to the protocol scope ("" = it did not)
}

func (a *c07Attempt) ok() bool { return a.stage == "" }

type c07Checker struct {
	r         *vrep.Result
	maxLen    int
	scriptLen int      // bound on the number of first stream operations
	scripts   []string // c07Scripts(scriptLen)
	thorough  bool
	blank     bool // the search over BlankHosts

	plainSamples, scriptSamples, limitSamples, bidirSamples atomic.Int64
	nRefused, nVariants                                     atomic.Int64
	variants                                                []c07Cfg // fixtures with another configuration on which every (mux, knowledge) class is probed too
	limScripts                                              []string // first-use scripts of the opens made against a limited listener
	tagged                                                  map[string]int64
	opens                                                   atomic.Int64
	tNew                                                    atomic.Int64 // nanoseconds spent building fixtures / applying operations / probing states (summed over workers)
	tApply                                                  atomic.Int64
	tVisit                                                  atomic.Int64
	nNew                                                    atomic.Int64
	groups                                                  atomic.Int64
	pstates                                                 atomic.Int64

	mu      sync.Mutex
	classes map[string]struct{}
	sampled map[string]struct{}
	caps    map[string]int

	// baseline (never an oracle, see classify): opens that failed although a requested protocol is handled and
	// the dialer's knowledge contains nothing stale
	unexpected      int64
	unexpectedFirst string
	holdIncomplete  int64 // streams that were to be held open in the background could not all be opened
}

func atts2reqs(atts []*c07Attempt) []c07Req {
	out := make([]c07Req, len(atts))
	for i, a := range atts {
		out[i] = a.c07Req
	}
	return out
}

func (ck *c07Checker) infra(msg string) {
	ck.mu.Lock()
	defer ck.mu.Unlock()
	ck.caps[msg]++
	if ck.caps[msg] == 1 && len(ck.caps) <= 8 {
		ck.r.Cap("fixture problem (infrastructure, no verdict for the affected executions): %s", msg)
	}
}

// ---------- one group of opens (1 = sequential, 2 = concurrent) ----------

func (in *c07Inst) attempt(a *c07Attempt) {
	d := in.node(a.opener())
	ctx := context.Background() // the host applies its own negotiation timeout (virtual time here)
	if a.dk == c07Limited {
		ctx = network.WithAllowLimitedConn(ctx, "c07")
	}
	s, err := d.h.NewStream(ctx, in.node(a.target()).id, a.list...)
	if err != nil {
		a.stage, a.err = "NewStream", err
		return
	}
	a.s, a.proto = s, s.Protocol()
	_, a.optimistic = s.(*streamWrapper)
	a.remote, a.limited = s.Conn().RemotePeer(), s.Conn().Stat().Limited
	wOpen, rOpen := true, true
	expect := 4 // what the handler sends: its tag unasked, then the echo of the nonce once it got one
	step := func(st byte) bool {
		var err error
		switch st {
		case c07SWrite:
			a.used, a.wrote = true, true
			expect += c07NonceLen
			_, err = s.Write(append(append([]byte(nil), a.prefix...), a.nonce[:]...))
		case c07SWriteZero:
			a.used = true
			_, err = s.Write(nil)
		case c07SRead:
			a.used = true
			_ = s.SetReadDeadline(time.Now().Add(30 * time.Second)) // virtual: fires only when nothing else can happen
			buf := make([]byte, expect-len(a.reply))
			var n int
			n, err = io.ReadFull(s, buf)
			a.reply = append(a.reply, buf[:n]...)
			if err == nil {
				_ = s.SetReadDeadline(time.Time{})
				a.readOK = true
			}
		case c07SCloseWrite:
			a.used, a.closedAny, wOpen = true, true, false
			err = s.CloseWrite()
		case c07SCloseRead:
			// (not a "use": nothing is sent and nothing awaited)
			a.closedAny, rOpen = true, false
			err = s.CloseRead()
		case c07SClose:
			a.used, a.closedAny, a.closed, wOpen, rOpen = true, true, true, false, false
			err = s.Close()
		}
		if err != nil {
			a.stage, a.err = c07StepName[st], err
			s.Reset()
			return false
		}
		return true
	}
	// what the application does first ...
	for i := 0; i < len(a.script); i++ {
		if !step(a.script[i]) {
			return
		}
	}
	// ... and the rest of the standard first use: write a fresh nonce, read the answer
	if wOpen && !a.wrote && !step(c07SWrite) {
		return
	}
	if rOpen && len(a.reply) < expect && !step(c07SRead) {
		return
	}
}

// c07Idle: longer than any negotiation timeout of the fixtures (virtual time).
const c07Idle = 25 * time.Second

// lateExchange: the first exchange on a's stream succeeded and nothing was closed; after c07Idle without traffic a
// second nonce must be echoed by the same handler.
func (in *c07Inst) lateExchange(a *c07Attempt) error {
	time.Sleep(c07Idle)
	var n2 [c07NonceLen]byte
	in.nonce++
	copy(n2[:], fmt.Sprintf("\x7flate-%010d", in.nonce))
	fail := func(what string, err error) error {
		a.s.Reset()
		a.stage = "late-" + what // (not closed again below)
		return seqmc.Violation("established-stream-unusable-after-idle-time", "%s: the first exchange succeeded; after %v without traffic the second %s on the same stream failed: %v", c07DescAttempt(a), c07Idle, what, err)
	}
	if _, err := a.s.Write(n2[:]); err != nil {
		return fail("Write", err)
	}
	_ = a.s.SetReadDeadline(time.Now().Add(30 * time.Second))
	buf := make([]byte, c07NonceLen)
	if _, err := io.ReadFull(a.s, buf); err != nil {
		return fail("Read", err)
	}
	_ = a.s.SetReadDeadline(time.Time{})
	if !bytes.Equal(buf, n2[:]) {
		return fail("echo", fmt.Errorf("read %q, wrote %q", buf, n2[:]))
	}
	return nil
}

func c07ProtoStat(rm network.ResourceManager, p protocol.ID) (st network.ScopeStat) {
	_ = rm.ViewProtocol(p, func(s network.ProtocolScope) error {
		st = s.Stat()
		return nil
	})
	return
}

// c07ProbeOpt: how one group of opens is run.
type c07ProbeOpt struct {
	restore bool   // start from the knowledge the state was entered with (false: the effect on the knowledge IS the point)
	lknow   byte   // with restore: what L knows about the dialers' protocols (0 = c07LKnowAccurate)
	why     string // for the description of a violation
	tag     string // the dimension the group belongs to beyond the plain state ("" = plain); part of the outcome class
	prefix  []byte
	hold    bool // a single open that succeeded is not closed but kept open in the background (in.held)
	late    bool // after the first exchange succeeded the application idles for c07Idle (virtual), then makes a second exchange
}

// probe runs one group of opens in the current state and checks it. restore: start from the knowledge the
// state was entered with (false for the Learn operation, whose effect on the knowledge IS the operation).
func (ck *c07Checker) probe(in *c07Inst, reqs []c07Req, restore bool, why string) error {
	_, err := ck.probeOpt(in, reqs, c07ProbeOpt{restore: restore, why: why})
	return err
}

func (ck *c07Checker) probeWith(in *c07Inst, reqs []c07Req, restore bool, why string, prefix []byte) error {
	_, err := ck.probeOpt(in, reqs, c07ProbeOpt{restore: restore, why: why, prefix: prefix})
	return err
}

func (ck *c07Checker) probeOpt(in *c07Inst, reqs []c07Req, o c07ProbeOpt) ([]*c07Attempt, error) {
	if in.broken != "" {
		return nil, nil
	}
	if o.restore {
		lk := o.lknow
		if lk == 0 {
			lk = c07LKnowAccurate
		}
		for k := range in.D {
			in.restore(k)
			in.restoreL(k, lk)
		}
	}
	in.mu.Lock()
	mark := len(in.log)
	in.mu.Unlock()
	var markR [3]int
	for n := range markR {
		markR[n] = in.node(n).rm.nRefusals()
	}
	atts := make([]*c07Attempt, len(reqs))
	for i, q := range reqs {
		a := &c07Attempt{c07Req: q, prefix: o.prefix}
		in.nonce++
		copy(a.nonce[:], fmt.Sprintf("\x7fnonce%010d", in.nonce)) // 16 bytes; 0x7f first: never a valid multistream frame by accident
		atts[i] = a
	}
	if len(atts) == 1 {
		in.attempt(atts[0])
	} else {
		var wg sync.WaitGroup
		for _, a := range atts {
			wg.Add(1)
			go func() {
				defer wg.Done()
				in.attempt(a)
			}()
		}
		wg.Wait()
	}
	ck.opens.Add(int64(len(atts)))
	ck.groups.Add(1)
	// Quiescence: failed opens were reset and are torn down on both hosts; for every successful open the
	// handler sits in its read loop, so the stream is open on both ends.
	synctest.Wait()
	in.mu.Lock()
	window := append([]*c07Inv(nil), in.log[mark:]...)
	in.mu.Unlock()
	// which opens did the target's resource manager refuse to attach to the protocol's scope? (an open made alone owns
	// every refusal of an inbound stream from its opener; in a concurrent group the protocol tells them apart)
	for _, a := range atts {
		for _, rf := range in.node(a.target()).rm.refusalsSince(markR[a.target()]) {
			if rf.dir == network.DirInbound && rf.peer == in.node(a.opener()).id && (len(atts) == 1 || rf.proto == a.proto) {
				a.refusedBy = fmt.Sprintf("SetProtocol(%s) refused by %s's resource manager: %v", rf.proto, c07NodeName(a.target()), rf.err)
				ck.nRefused.Add(1)
				break
			}
		}
	}

	var verr error
	if len(atts) > 1 || atts[0].script == "" {
		verr = ck.oracle(in, atts, window)
	}
	if verr == nil && len(atts) == 1 {
		verr = ck.oracleFirstUse(in, atts[0], window)
	}
	if verr == nil {
		verr = ck.scopesWhileOpen(in, atts)
	}
	// "the bytes then exchanged flow between precisely those two endpoints" - also the bytes exchanged LATER: no
	// deadline of the negotiation may still be armed on either end of an established stream
	if verr == nil && o.late && len(atts) == 1 && atts[0].ok() && !atts[0].closedAny && atts[0].readOK {
		verr = in.lateExchange(atts[0])
	}
	// both ends finish: the dialer closes (unless its script did), the handler sees EOF and closes
	for _, a := range atts {
		if a.ok() && !a.closed {
			if o.hold && len(atts) == 1 && !a.closedAny && verr == nil {
				in.held = append(in.held, a)
				continue
			}
			if err := a.s.Close(); err != nil {
				a.s.Reset()
			}
		}
	}
	synctest.Wait()
	if verr == nil {
		verr = ck.scopesAfterClose(in, atts)
	}
	if verr != nil {
		v := verr.(*seqmc.Vio)
		v.Desc = fmt.Sprintf("%s | opens (%s): %v | state: %s", v.Desc, o.why, reqs, in.pkey)
		if !in.cfg.zero() {
			v.Desc += " | fixture: " + in.cfg.String()
		}
		if len(in.held) > 0 {
			v.Desc += fmt.Sprintf(" | held open meanwhile: %v", atts2reqs(in.held))
		}
		return atts, v
	}
	if o.why != "learn" {
		// (opens made by Learn operations are checked like any other but not counted as cases: they are
		// repeated by every replay of a history, in every shard)
		ck.classify(in, atts, window, o.tag)
	}
	return atts, nil
}

// release closes the opens held in the background and checks that nothing stays charged.
func (ck *c07Checker) release(in *c07Inst) error {
	held := in.held
	in.held = nil
	for _, a := range held {
		if err := a.s.Close(); err != nil {
			a.s.Reset()
		}
	}
	synctest.Wait()
	if in.broken != "" {
		return nil
	}
	if verr := ck.scopesAfterClose(in, nil); verr != nil {
		v := verr.(*seqmc.Vio)
		v.Desc = fmt.Sprintf("%s | after closing the opens held in the background: %v | state: %s | fixture: %s", v.Desc, atts2reqs(held), in.pkey, in.cfg)
		return v
	}
	return nil
}

func c07Has(list []protocol.ID, p protocol.ID) bool {
	for _, x := range list {
		if x == p {
			return true
		}
	}
	return false
}

// commonAt: does host node handle (by an exact handler or a match function) any requested protocol?
func (in *c07Inst) commonAt(node int, list []protocol.ID) bool {
	for _, p := range list {
		if len(in.acceptorsAt(node, p)) > 0 {
			return true
		}
	}
	return false
}

// common: does the listener L?
func (in *c07Inst) common(list []protocol.ID) bool { return in.commonAt(0, list) }

func c07DescAttempt(a *c07Attempt) string {
	if a.s == nil {
		return fmt.Sprintf("%v: NewStream failed: %v", a.c07Req, a.err)
	}
	path := "negotiated"
	if a.optimistic {
		path = "optimistic"
	}
	rf := ""
	if a.refusedBy != "" {
		rf = " [" + a.refusedBy + "]"
	}
	if !a.ok() {
		return fmt.Sprintf("%v: NewStream ok (%s, Protocol()=%q), first %s failed: %v%s", a.c07Req, path, a.proto, a.stage, a.err, rf)
	}
	return fmt.Sprintf("%v: open ok (%s, Protocol()=%q)%s", a.c07Req, path, a.proto, rf)
}

func c07DescInv(in *c07Inst, v *c07Inv) string {
	in.mu.Lock()
	defer in.mu.Unlock()
	sc := "scope not inspected"
	if v.scopeSeen {
		sc = "attached to no protocol scope"
		if v.isCharged {
			sc = fmt.Sprintf("attached to the protocol scope of %q", v.charged)
		}
		if v.refused {
			sc += ", REFUSED by the resource manager"
		}
	}
	return fmt.Sprintf("handler %v ran on a stream with Protocol()=%q (%s) from %s (gotNonce=%v)", v.reg, v.proto, sc, v.remote.ShortString(), v.gotNonce)
}

// checkInv: what the statement says about the stream a handler runs on, whatever the open: "the remote runs exactly the
// handler ... on a stream reporting the same protocol ID ... and the stream is charged to the negotiated protocol's
// resource scope on both sides". A stream the resource manager refused to attach is not charged to it: no handler.
func c07CheckInv(in *c07Inst, a *c07Attempt, v *c07Inv) error {
	if v.refused {
		return seqmc.Violation("handler-ran-on-refused-stream", "%s; %s", c07DescAttempt(a), c07DescInv(in, v))
	}
	if v.scopeSeen && (!v.isCharged || v.charged != v.proto) {
		return seqmc.Violation("handler-stream-not-charged-to-its-protocol-scope", "%s; %s", c07DescAttempt(a), c07DescInv(in, v))
	}
	return nil
}

// c07NeverHandled: "the stream it gets is bound to one of the requested protocols, the remote runs exactly the handler
// registered for (or matching) that protocol". An optimistic open may be bound to a protocol the remote no longer
// handles (the quantifier's "stale after handler removal"; the open then fails on first use, see level_note). What
// no knowledge state of the quantifier explains is a stream bound to a protocol the remote has NEVER handled while
// it does handle another requested one.
func c07NeverHandled(in *c07Inst, a *c07Attempt) error {
	if a.s != nil && c07Has(a.list, a.proto) && in.commonAt(a.target(), a.list) && !in.everAccepted(a.target(), a.proto) {
		return seqmc.Violation("bound-to-protocol-the-remote-never-handled", "%s: %s has never had a handler registered for or matching %q, but handles another requested protocol; %s believed it supports %v",
			c07DescAttempt(a), c07NodeName(a.target()), a.proto, c07NodeName(a.opener()), in.knowledge(a.opener(), a.target()))
	}
	return nil
}

// oracle checks one group of opens against the statement. window = invocations of the harness's handlers
// on the listener since the group started (identify's own streams are not counted: they never reach these
// closures unless dispatch is wrong).
func (ck *c07Checker) oracle(in *c07Inst, atts []*c07Attempt, window []*c07Inv) error {
	// "a handler removed before negotiation is never invoked": every removal happened (and settled) before
	// the group started.
	for _, v := range window {
		if v.deadAt {
			return seqmc.Violation("removed-handler-invoked", "%s", c07DescInv(in, v))
		}
	}
	withCommon := 0
	for _, a := range atts {
		mine := []*c07Inv{}
		for _, v := range window {
			if v.gotNonce && v.nonce == a.nonce {
				mine = append(mine, v)
			}
		}
		common := in.commonAt(a.target(), a.list)
		if common {
			withCommon++
		}
		// "the stream it gets is bound to one of the requested protocols"
		if a.s != nil && !c07Has(a.list, a.proto) {
			return seqmc.Violation("stream-bound-to-unrequested-protocol", "%s", c07DescAttempt(a))
		}
		if err := c07NeverHandled(in, a); err != nil {
			return err
		}
		for _, v := range mine {
			if err := c07CheckInv(in, a, v); err != nil {
				return err
			}
		}
		// "If the two sides have no protocol in common the open fails - at the latest on first use - and no
		// application handler runs"
		if !common {
			if a.ok() {
				return seqmc.Violation("open-succeeded-without-common-protocol", "%s, but the listener handles none of the requested protocols", c07DescAttempt(a))
			}
			if len(mine) > 0 {
				return seqmc.Violation("handler-ran-without-common-protocol", "%s; %s", c07DescAttempt(a), c07DescInv(in, mine[0]))
			}
		}
		if len(mine) > 1 {
			return seqmc.Violation("more-than-one-handler-ran", "%s; %s; %s", c07DescAttempt(a), c07DescInv(in, mine[0]), c07DescInv(in, mine[1]))
		}
		if !a.ok() {
			continue
		}
		// NewStream and the first write+read succeeded.
		if len(mine) == 0 {
			return seqmc.Violation("no-handler-ran", "%s and an answer arrived, but none of the listener's handlers received the nonce", c07DescAttempt(a))
		}
		v := mine[0]
		// "the remote runs exactly the handler registered for (or matching) that protocol"
		if !v.reg.accepts(a.proto) {
			return seqmc.Violation("wrong-handler-ran", "%s; %s - that handler neither is registered for nor matches %q", c07DescAttempt(a), c07DescInv(in, v), a.proto)
		}
		// "on a stream reporting the same protocol ID"
		if v.proto != a.proto {
			return seqmc.Violation("ends-disagree-on-protocol", "%s; %s", c07DescAttempt(a), c07DescInv(in, v))
		}
		// "the bytes then exchanged flow between precisely those two endpoints"
		if !bytes.Equal(a.reply, append(c07Tag(v.reg), a.nonce[:]...)) {
			return seqmc.Violation("echo-mismatch", "%s; %s; the dialer read %q, expected that handler's tag followed by the nonce %q", c07DescAttempt(a), c07DescInv(in, v), a.reply, a.nonce[:])
		}
		if v.reg.node != a.target() || v.remote != in.node(a.opener()).id || a.remote != in.node(a.target()).id || v.limited != (a.dk == c07Limited) || a.limited != (a.dk == c07Limited) {
			return seqmc.Violation("wrong-endpoints", "%s; %s; dialer's stream: remote=%s limited=%v; handler's stream: limited=%v", c07DescAttempt(a), c07DescInv(in, v), a.remote.ShortString(), a.limited, v.limited)
		}
	}
	// one open runs at most one handler, an open without a common protocol none: also holds for invocations
	// that cannot be attributed to an open (handler got no nonce).
	if len(window) > withCommon {
		return seqmc.Violation("more-handler-invocations-than-opens", "%d handler invocations for %d opens with a common protocol; first: %s", len(window), withCommon, c07DescInv(in, window[0]))
	}
	return nil
}

// oracleFirstUse checks ONE open made alone (so every handler invocation in the window belongs to it, whether or
// not the handler received a nonce) for every script of first stream operations.
func (ck *c07Checker) oracleFirstUse(in *c07Inst, a *c07Attempt, window []*c07Inv) error {
	for _, v := range window {
		if v.deadAt {
			return seqmc.Violation("removed-handler-invoked", "%s", c07DescInv(in, v))
		}
	}
	// "the stream it gets is bound to one of the requested protocols"
	if a.s != nil && !c07Has(a.list, a.proto) {
		return seqmc.Violation("stream-bound-to-unrequested-protocol", "%s", c07DescAttempt(a))
	}
	if err := c07NeverHandled(in, a); err != nil {
		return err
	}
	// "... on a stream reporting the same protocol ID ... and the stream is charged to the negotiated protocol's resource
	// scope": holds for the stream of every handler that runs; a stream the resource manager refused runs none
	for _, v := range window {
		if err := c07CheckInv(in, a, v); err != nil {
			return err
		}
	}
	if a.refusedBy != "" && len(window) > 0 {
		return seqmc.Violation("handler-ran-on-refused-stream", "%s; %s", c07DescAttempt(a), c07DescInv(in, window[0]))
	}
	// "If the two sides have no protocol in common the open fails - at the latest on first use - and no application
	// handler runs". The dialer can observe the failure only if it reads; a script that closed the read side gets
	// no verdict on "fails".
	if !in.commonAt(a.target(), a.list) {
		if len(window) > 0 {
			return seqmc.Violation("handler-ran-without-common-protocol", "%s; %s", c07DescAttempt(a), c07DescInv(in, window[0]))
		}
		if a.ok() && a.readOK {
			return seqmc.Violation("open-succeeded-without-common-protocol", "%s, but the listener handles none of the requested protocols", c07DescAttempt(a))
		}
		return nil
	}
	if len(window) > 1 {
		return seqmc.Violation("more-than-one-handler-ran", "%s; %s; %s", c07DescAttempt(a), c07DescInv(in, window[0]), c07DescInv(in, window[1]))
	}
	if a.s == nil {
		return nil
	}
	if len(window) == 0 {
		if len(a.reply) > 0 {
			return seqmc.Violation("no-handler-ran", "%s and the dialer read %q, but none of the listener's handlers ran", c07DescAttempt(a), a.reply)
		}
		// "the stream it gets is bound to one of the requested protocols, the remote runs exactly the handler registered
		// for (or matching) that protocol": NewStream returned a stream bound to P, the listener has a live handler that
		// is registered for / matches P, and the application used the stream ("at the latest on first use" - an
		// optimistically opened stream sends nothing before that).
		// (Not demanded of a stream the remote's resource manager refused to attach to the protocol's scope: it cannot be
		// "charged to the negotiated protocol's resource scope", and the statement lets no handler run on one that is not.)
		if a.used && a.refusedBy == "" && len(in.acceptorsAt(a.target(), a.proto)) > 0 {
			return seqmc.Violation("handler-not-reached", "%s; %s has a handler for %q (%v) but no handler ran", c07DescAttempt(a), c07NodeName(a.target()), a.proto, in.acceptorsAt(a.target(), a.proto))
		}
		return nil
	}
	v := window[0]
	// "the remote runs exactly the handler registered for (or matching) that protocol"
	if !v.reg.accepts(a.proto) {
		return seqmc.Violation("wrong-handler-ran", "%s; %s - that handler neither is registered for nor matches %q", c07DescAttempt(a), c07DescInv(in, v), a.proto)
	}
	// "on a stream reporting the same protocol ID"
	if v.proto != a.proto {
		return seqmc.Violation("ends-disagree-on-protocol", "%s; %s", c07DescAttempt(a), c07DescInv(in, v))
	}
	// "the bytes then exchanged flow between precisely those two endpoints": whatever the handler received is what
	// this dialer wrote, whatever the dialer read is what this handler wrote
	in.mu.Lock()
	gotNonce, nonce := v.gotNonce, v.nonce
	in.mu.Unlock()
	if gotNonce && (!a.wrote || nonce != a.nonce) {
		return seqmc.Violation("handler-read-foreign-bytes", "%s; %s; the handler read %q, the dialer wrote the nonce: %v (%q)", c07DescAttempt(a), c07DescInv(in, v), nonce[:], a.wrote, a.nonce[:])
	}
	exp := c07Tag(v.reg)
	if a.wrote {
		exp = append(exp, a.nonce[:]...)
	}
	if !bytes.HasPrefix(exp, a.reply) {
		return seqmc.Violation("echo-mismatch", "%s; %s; the dialer read %q, expected that handler's tag followed by the nonce %q", c07DescAttempt(a), c07DescInv(in, v), a.reply, a.nonce[:])
	}
	if v.reg.node != a.target() || v.remote != in.node(a.opener()).id || a.remote != in.node(a.target()).id || v.limited != (a.dk == c07Limited) || a.limited != (a.dk == c07Limited) {
		return seqmc.Violation("wrong-endpoints", "%s; %s; dialer's stream: remote=%s limited=%v; handler's stream: limited=%v", c07DescAttempt(a), c07DescInv(in, v), a.remote.ShortString(), a.limited, v.limited)
	}
	return nil
}

// wantCounts: per host and protocol of the universe, the inbound / outbound streams that must be charged to the
// protocol's scope: one per open that succeeded and is still open (those of the group and those held in the background).
func (in *c07Inst) wantCounts(atts []*c07Attempt) (wantIn, wantOut [3]map[protocol.ID]int) {
	for n := range wantIn {
		wantIn[n], wantOut[n] = map[protocol.ID]int{}, map[protocol.ID]int{}
	}
	for _, a := range append(append([]*c07Attempt(nil), in.held...), atts...) {
		if a.ok() {
			wantIn[a.target()][a.proto]++
			wantOut[a.opener()][a.proto]++
		}
	}
	return
}

// "the stream is charged to the negotiated protocol's resource scope on both sides": in the quiescent state
// after the first use the only streams with a protocol of the universe are the successful opens of this group
// (and the opens held open in the background).
func (ck *c07Checker) scopesWhileOpen(in *c07Inst, atts []*c07Attempt) error {
	for _, a := range atts {
		if a.closedAny {
			// the script closed a direction: whether the stream still exists on an end once everything has settled
			// depends on what the other end did meanwhile; the count "while open" is taken on the other opens
			return nil
		}
	}
	wantIn, wantOut := in.wantCounts(atts)
	for n := 0; n < 3; n++ {
		for _, p := range c07U {
			st := c07ProtoStat(in.node(n).rm, p)
			if want := wantIn[n][p]; want > 0 && st.NumStreamsInbound != want {
				key := "listener-scope-not-charged"
				if n != 0 {
					key = "dialer-scope-not-charged"
				}
				return seqmc.Violation(key, "%s: ViewProtocol(%s).NumStreamsInbound=%d while %d inbound stream(s) negotiated to it are open (%s)", c07NodeName(n), p, st.NumStreamsInbound, want, c07DescAttempt(atts[0]))
			}
			if want := wantOut[n][p]; want > 0 && st.NumStreamsOutbound != want {
				key := "dialer-scope-not-charged"
				if n == 0 {
					key = "listener-scope-not-charged"
				}
				return seqmc.Violation(key, "%s: ViewProtocol(%s).NumStreamsOutbound=%d while %d outbound stream(s) negotiated to it are open (%s)", c07NodeName(n), p, st.NumStreamsOutbound, want, c07DescAttempt(atts[0]))
			}
		}
	}
	return nil
}

// after the opens of the group were closed or reset on both ends, only the opens held in the background are charged
func (ck *c07Checker) scopesAfterClose(in *c07Inst, atts []*c07Attempt) error {
	wantIn, wantOut := in.wantCounts(nil)
	for n := 0; n < 3; n++ {
		for _, p := range c07U {
			if st := c07ProtoStat(in.node(n).rm, p); st.NumStreamsInbound != wantIn[n][p] || st.NumStreamsOutbound != wantOut[n][p] {
				key := "listener-scope-not-released"
				if n != 0 {
					key = "dialer-scope-not-released"
				}
				return seqmc.Violation(key, "%s: ViewProtocol(%s) = %+v after every stream of the group was closed or reset on both ends (streams still held open for it: %d inbound, %d outbound)", c07NodeName(n), p, st, wantIn[n][p], wantOut[n][p])
			}
		}
	}
	return nil
}

// stale: does dialer k believe in a protocol of the universe that no handler of the listener accepts?
func (in *c07Inst) stale(k int) bool {
	for _, u := range c07U {
		if in.knownSet[k][u] && len(in.acceptors(u)) == 0 {
			return true
		}
	}
	return false
}

// classify records the observed outcome class (evidence that the run is not vacuous; never an oracle).
// It also keeps the BASELINE honest: with a common protocol and no stale knowledge the implementation's design
// makes every open succeed (optimistic choice of a protocol that is handled, or full negotiation). The statement
// does not promise that, so a failure there is not a violation; it is reported as a cap (the run then does not
// claim to be exhaustive) so that a tree on which nothing can be opened any more does not pass silently.
// staleReq: does the opener of q believe in a protocol of the universe that no handler of the target accepts?
func (in *c07Inst) staleReq(q c07Req) bool {
	if !q.rev {
		return in.stale(q.dk)
	}
	for _, u := range in.knowledge(q.opener(), q.target()) {
		if len(in.acceptorsAt(q.target(), protocol.ID(u))) == 0 {
			return true
		}
	}
	return false
}

func (ck *c07Checker) classify(in *c07Inst, atts []*c07Attempt, window []*c07Inv, tag string) {
	for _, a := range atts {
		path := "-"
		if a.s != nil {
			path = "negotiated"
			if a.optimistic {
				path = "optimistic"
			}
		}
		res := "fail@" + a.stage
		if a.ok() {
			idx := 0
			for i, p := range a.list {
				if p == a.proto {
					idx = i
					break
				}
			}
			kind := "?"
			for _, v := range window {
				if v.gotNonce && v.nonce == a.nonce {
					kind = "exact-handler"
					if v.reg.kind == c07Match {
						kind = "match-handler"
						if v.reg.name != a.proto {
							kind = "match-handler(other name)"
						}
					}
				}
			}
			res = fmt.Sprintf("ok req#%d %s", idx, kind)
		}
		common := in.commonAt(a.target(), a.list)
		cls := fmt.Sprintf("%s %s %s common=%v", c07ConnName[a.dk], path, res, common)
		if tag != "" {
			// the dimensions beyond the plain state: resource limits on the listener (streams held open in the background),
			// opens in both directions with handlers on the dialers
			dir := "D->L"
			if a.rev {
				dir = "L->D"
			}
			sc := ""
			if a.script != "" {
				sc = " first:" + c07ShowScript(a.script)
			}
			res = "fail@" + a.stage
			if a.ok() {
				res = "ok"
			}
			cls = fmt.Sprintf("%s | %s %s%s %s %s common=%v refused=%v handler-ran=%v bound-protocol-handled=%v", tag, dir, c07ConnName[a.dk], sc, path, res, common, a.refusedBy != "", len(window) > 0, a.s != nil && len(in.acceptorsAt(a.target(), a.proto)) > 0)
		} else if a.script != "" {
			// the first-use dimension: path x script x (did it work, did a handler run); connection kind, list position
			// and handler kind are in the classes of the plain opens
			res = "fail@" + a.stage
			if a.ok() {
				res = "ok"
			}
			cls = fmt.Sprintf("first:%s %s %s handler-ran=%v bound-protocol-handled=%v", c07ShowScript(a.script), path, res, len(window) > 0, a.s != nil && len(in.acceptors(a.proto)) > 0)
		} else if len(atts) > 1 {
			// which of two concurrent opens finds the protocol already recorded by the other (and so takes the
			// optimistic path) is up to the scheduler: not part of the class
			cls = fmt.Sprintf("%s concurrent %s common=%v", c07ConnName[a.dk], res, common)
		}
		ck.r.Outcome(cls)
		ck.mu.Lock()
		if !a.ok() && common && a.refusedBy == "" && !in.staleReq(a.c07Req) {
			ck.unexpected++
			if ck.unexpectedFirst == "" {
				ck.unexpectedFirst = fmt.Sprintf("%s | state: %s", c07DescAttempt(a), in.pkey)
			}
		}
		ck.classes[fmt.Sprintf("%s|%v|%s", in.pkey, a.list, cls)] = struct{}{}
		if tag != "" {
			ck.tagged[tag[:1]]++
		}
		_, seenCls := ck.sampled[cls]
		ck.sampled[cls] = struct{}{}
		ck.mu.Unlock()
		// samples: the first case of an outcome class, the less common classes first
		// at most 4 plain cases and 2 of the first-use dimension (an optimistic open whose first operation is not a
		// Write), so that both kinds appear among the (at most 6) samples of the record
		// at most 2 plain cases, 1 of the first-use dimension (an optimistic open whose first operation is not a Write),
		// 1 refused by the listener's resource manager and 2 reverse opens made after an open in the other direction, so
		// that every dimension appears among the (at most 6) samples of the record
		want := false
		if !seenCls && len(in.hist) >= 2 {
			switch {
			case tag != "" && tag[0] == 'l':
				want = a.refusedBy != "" && len(in.held) > 0 && ck.limitSamples.Add(1) <= 1
			case tag != "" && tag[0] == 'b':
				want = a.rev && a.s != nil && !strings.Contains(tag, "after nothing") && ck.bidirSamples.Add(1) <= 2
			case a.script == "":
				want = (!a.ok() && a.s != nil || a.ok() && a.list[0] != a.proto || len(atts) > 1) && ck.plainSamples.Add(1) <= 2
			default:
				want = a.optimistic && a.script[0] != c07SWrite && ck.scriptSamples.Add(1) <= 1
			}
		}
		if want {
			sm := map[string]any{"state": in.pkey, "history": append([]string(nil), in.hist...), "opens": fmt.Sprint(atts2reqs(atts)), "open": a.c07Req.String(), "observed": c07DescAttempt(a), "outcome": cls}
			if !in.cfg.zero() {
				sm["fixture"] = in.cfg.String()
			}
			if len(in.held) > 0 {
				sm["held_open_meanwhile"] = fmt.Sprint(atts2reqs(in.held))
			}
			ck.r.Sample(sm)
		}
	}
}

// ---------- all opens of one state ----------

func c07Lists(maxLen int) [][]protocol.ID {
	var out [][]protocol.ID
	var rec func(cur []protocol.ID)
	rec = func(cur []protocol.ID) {
		if len(cur) > 0 {
			out = append(out, append([]protocol.ID(nil), cur...))
		}
		if len(cur) == maxLen {
			return
		}
		for _, p := range c07U {
			rec(append(cur, p))
		}
	}
	rec(nil)
	sort.SliceStable(out, func(i, j int) bool { return len(out[i]) < len(out[j]) })
	return out
}

// visit enumerates the opens of the instance's current state, once per distinct (mux, knowledge) state.
func (ck *c07Checker) visit(in *c07Inst) error {
	if in.broken != "" {
		ck.infra(in.broken)
		return nil
	}
	ck.pstates.Add(1)
	// every request list x every script of first stream operations ("" first: the plain write+read)
	for _, sc := range ck.scripts {
		for dk := range in.D {
			for _, l := range c07Lists(ck.maxLen) {
				if err := ck.probe(in, []c07Req{{dk: dk, list: l, script: sc}}, true, "sequential"); err != nil {
					return err
				}
			}
		}
	}
	// two opens issued concurrently: every ordered pair of single-protocol requests on the same connection,
	// and one pair across the two connections asking for the whole universe in opposite orders
	for dk := range in.D {
		for i, p := range c07U {
			for j, q := range c07U {
				if !ck.thorough && j < i {
					continue
				}
				if err := ck.probe(in, []c07Req{{dk: dk, list: []protocol.ID{p}}, {dk: dk, list: []protocol.ID{q}}}, true, "concurrent"); err != nil {
					return err
				}
			}
		}
	}
	rev := []protocol.ID{c07U[2], c07U[1], c07U[0]}
	if err := ck.probe(in, []c07Req{{dk: c07Direct, list: c07U}, {dk: c07Limited, list: rev}}, true, "concurrent"); err != nil {
		return err
	}
	// idle probe: every single-protocol request on both connections, with a second exchange after c07Idle
	for dk := range in.D {
		for _, p := range c07U {
			if _, err := ck.probeOpt(in, []c07Req{{dk: dk, list: []protocol.ID{p}}}, c07ProbeOpt{restore: true, why: "idle, then a second exchange", late: true, tag: "idle"}); err != nil {
				return err
			}
		}
	}
	if c07Crafted() && !in.blank {
		// Opt-in input dimension (see c07Crafted): the first user bytes are byte-identical to a multistream-select
		// proposal for q. Only opens WITHOUT a common protocol are made here, for which the statement is
		// unconditional: the open fails and no application handler runs.
		for dk := range in.D {
			for _, p := range c07U {
				if in.common([]protocol.ID{p}) {
					continue
				}
				for _, q := range c07U {
					frame := append([]byte{byte(len(q) + 1)}, append([]byte(q), '\n')...)
					err := ck.probeWith(in, []c07Req{{dk: dk, list: []protocol.ID{p}}}, true, fmt.Sprintf("first user bytes = %q", frame), frame)
					if v, ok := err.(*seqmc.Vio); ok && v.Key == "handler-ran-without-common-protocol" {
						v.Key = "first-user-bytes-parsed-as-protocol-proposal"
					}
					if err != nil {
						return err
					}
				}
			}
		}
	}
	if in.broken != "" {
		ck.infra(in.broken)
		return nil
	}
	// the same state on fixtures with another configuration: limits on the listener's resource manager, handlers on the
	// dialers and opens in both directions
	for _, cfg := range ck.variants {
		if err := ck.variant(in, cfg); err != nil {
			return err
		}
	}
	return nil
}

// variant rebuilds the state of base (same history) on a fresh fixture with configuration cfg, inside the same bubble,
// and makes the opens of that configuration's dimension there.
func (ck *c07Checker) variant(base *c07Inst, cfg c07Cfg) error {
	in := c07NewInst(ck, cfg)
	defer in.close()
	ck.nVariants.Add(1)
	for _, o := range base.ops {
		if in.broken != "" {
			break
		}
		if err := in.apply(o); err != nil {
			if v, ok := err.(*seqmc.Vio); ok {
				v.Desc += " | while rebuilding the state on the fixture: " + cfg.String()
			}
			return err
		}
	}
	if in.broken == "" {
		// the dialers' knowledge is that of the probed state by construction (what a Learn operation of the history left
		// behind may depend on whether the listener's limit let the stream live long enough)
		for k := range in.D {
			if err := in.D[k].h.Peerstore().SetProtocols(in.L.id, base.saved[k]...); err != nil {
				in.fail("SetProtocols: %v", err)
			}
		}
		in.snapshot()
	}
	if in.broken != "" {
		ck.infra(in.broken)
		return nil
	}
	if in.pkey != base.pkey {
		ck.infra(fmt.Sprintf("a fixture with another configuration did not reach the state of the plain one (%s): %s instead of %s", cfg, in.pkey, base.pkey))
		return nil
	}
	var err error
	if cfg.Lim.Kind != 0 {
		err = ck.holdProbes(in)
	}
	if err == nil && len(cfg.DH) > 0 {
		err = ck.bidirProbes(in)
	}
	if err == nil && in.broken != "" {
		ck.infra(in.broken)
	}
	return err
}

// holdProbes: the listener's resource manager admits N concurrent inbound streams per protocol (in the protocol scope or
// in the protocol-peer scope). For every protocol P the listener handles and every way of spreading them over the two
// dialers, N streams for P are opened and HELD open; in that situation every request list is opened on both
// connections (the opens that negotiate P are the (N+1)-th and are refused at SetProtocol, the others are not), each
// checked like any other open: the handler that runs, runs on a stream that reports the negotiated protocol and is
// attached to its scope; a refused stream runs no handler; the scopes count exactly the streams that are open.
func (ck *c07Checker) holdProbes(in *c07Inst) error {
	n := in.cfg.Lim.N
	lists := c07Lists(ck.maxLen)
	short := c07Lists(2)
	// finals: the opens made in one situation. quick tier, with streams held open for protocol `held`: only the request
	// lists that contain it (the others cannot negotiate the protocol whose scope is full; thorough makes them too).
	finals := func(tag string, held protocol.ID) error {
		for _, sc := range ck.limScripts {
			ls := lists
			if sc != "" {
				ls = short
			}
			for dk := range in.D {
				for _, l := range ls {
					if held != "" && !ck.thorough && !c07Has(l, held) {
						continue
					}
					if _, err := ck.probeOpt(in, []c07Req{{dk: dk, list: l, script: sc}}, c07ProbeOpt{restore: true, why: "sequential, against a limited listener", tag: tag}); err != nil {
						return err
					}
				}
			}
		}
		return nil
	}
	if n == 0 {
		return finals(fmt.Sprintf("limit %c/0", in.cfg.Lim.Kind), "")
	}
	for _, p := range c07U {
		if len(in.acceptors(p)) == 0 {
			continue // no stream can be held open for a protocol the listener does not handle
		}
		// every assignment of the n held streams to the two dialers (as a multiset: c of them on the limited connection)
		for c := 0; c <= n; c++ {
			heldBy := ""
			complete := true
			for i := 0; i < n && complete; i++ {
				dk := c07Direct
				if i >= n-c {
					dk = c07Limited
				}
				heldBy += c07ConnName[dk][:1]
				atts, err := ck.probeOpt(in, []c07Req{{dk: dk, list: []protocol.ID{p}}}, c07ProbeOpt{restore: true, hold: true, why: "opened to be held open", tag: fmt.Sprintf("limit %c/%d filling", in.cfg.Lim.Kind, n)})
				if err != nil {
					ck.release(in)
					return err
				}
				complete = len(atts) == 1 && atts[0].ok()
			}
			var err error
			if complete {
				err = finals(fmt.Sprintf("limit %c/%d held=%s by %s", in.cfg.Lim.Kind, n, p, heldBy), p)
			} else {
				ck.mu.Lock()
				ck.holdIncomplete++
				ck.mu.Unlock()
			}
			if rerr := ck.release(in); err == nil {
				err = rerr
			}
			if err != nil {
				return err
			}
		}
	}
	return nil
}

// bidirProbes: the dialers have handlers of their own (in.cfg.DH, asymmetric to the listener's) and BOTH sides open
// streams to each other over the same connection: for each connection and each direction a first open for a single
// protocol (or none), then - from the knowledge BOTH hosts have after it - every request list opened the other way
// (after no first open: either way). What a host learns from the other side's inbound stream must not lead its own
// later opens astray. L's knowledge about the dialers' protocols is what identify reported (accurate: their handlers
// never change) or forgotten; the dialers' knowledge about L is the probed state's.
func (ck *c07Checker) bidirProbes(in *c07Inst) error {
	lists := c07Lists(ck.maxLen)
	for _, lk := range []byte{c07LKnowAccurate, c07LKnowUnknown} {
		for dk := range in.D {
			for _, firstRev := range []bool{false, true} {
				for fi := -1; fi < len(c07U); fi++ {
					if fi < 0 && firstRev {
						continue // "no first open" once
					}
					if fi >= 0 && firstRev && lk == c07LKnowUnknown && !ck.thorough {
						continue // (quick: L's first open is made from accurate knowledge only; what the DIALER learns from it is the point)
					}
					in.restore(dk)
					in.restoreL(dk, lk)
					after := "after nothing"
					if fi >= 0 {
						q := c07Req{dk: dk, list: []protocol.ID{c07U[fi]}, rev: firstRev}
						atts, err := ck.probeOpt(in, []c07Req{q}, c07ProbeOpt{why: "first of two opens in opposite directions", tag: fmt.Sprintf("bidir Lknows=%c first", lk)})
						if err != nil {
							return err
						}
						if in.broken != "" {
							return nil
						}
						res := "failed"
						if atts[0].ok() {
							res = "ok"
						}
						dir := "D->L"
						if firstRev {
							dir = "L->D"
						}
						after = fmt.Sprintf("after %s %s", dir, res)
					}
					// what both hosts know now
					kD, _ := in.D[dk].h.Peerstore().GetProtocols(in.L.id)
					kL, _ := in.L.h.Peerstore().GetProtocols(in.D[dk].id)
					for _, secondRev := range []bool{false, true} {
						if fi >= 0 && secondRev == firstRev {
							continue
						}
						if fi < 0 && !secondRev && !ck.thorough {
							continue // (quick: a dialer's open alone is what the plain fixture enumerates)
						}
						for _, l := range lists {
							if err := in.D[dk].h.Peerstore().SetProtocols(in.L.id, kD...); err != nil {
								in.fail("SetProtocols: %v", err)
							}
							if err := in.L.h.Peerstore().SetProtocols(in.D[dk].id, kL...); err != nil {
								in.fail("SetProtocols: %v", err)
							}
							why := "the other way, " + after
							if fi >= 0 {
								why = fmt.Sprintf("the other way, after %v", c07Req{dk: dk, list: []protocol.ID{c07U[fi]}, rev: firstRev})
							}
							if _, err := ck.probeOpt(in, []c07Req{{dk: dk, list: l, rev: secondRev}}, c07ProbeOpt{why: why, tag: fmt.Sprintf("bidir Lknows=%c %s", lk, after)}); err != nil {
								return err
							}
						}
					}
				}
			}
		}
	}
	return nil
}

// c07Variants: the fixture configurations every (mux, knowledge) class is probed on besides the plain one.
func c07Variants(thorough, blank bool) []c07Cfg {
	var out []c07Cfg
	if blank {
		if c07BlankLimits() {
			for _, k := range []byte{c07LimProto, c07LimProtoPeer} {
				out = append(out, c07Cfg{Lim: c07Lim{Kind: k, N: 1}})
			}
		}
		return out
	}
	// the listener's resource manager refuses the (N+1)-th concurrent inbound stream of a protocol, N = 0, 1, 2
	for _, k := range []byte{c07LimProto, c07LimProtoPeer} {
		for n := 0; n <= 2; n++ {
			out = append(out, c07Cfg{Lim: c07Lim{Kind: k, N: n}})
		}
	}
	// the dialers handle protocols themselves: every single protocol (exact handler); thorough: every non-empty set of
	// exact handlers and the two single match handlers
	for mask := 1; mask < 1<<len(c07U); mask++ {
		var dh []c07DH
		for p := range c07U {
			if mask&(1<<p) != 0 {
				dh = append(dh, c07DH{P: p, Kind: c07Exact})
			}
		}
		if len(dh) == 1 || thorough {
			out = append(out, c07Cfg{DH: dh})
		}
	}
	if thorough {
		for p := range c07U {
			if c07MatchA(c07U[p]) {
				out = append(out, c07Cfg{DH: []c07DH{{P: p, Kind: c07Match}}})
			}
		}
	}
	return out
}

// c07BlankLimits: also put limits on the BlankHost listener's resource manager. OFF by default because the UNCHANGED tree
// fails there: BlankHost.newStreamHandler ignores the error of Stream.SetProtocol and dispatches the handler on a
// stream that reports no protocol and is charged to no protocol scope (see the report). VERIF_C07_BLANK_LIMITS=1.
func c07BlankLimits() bool { return os.Getenv("VERIF_C07_BLANK_LIMITS") != "0" } // on by default since the defect was repaired in /repo

// c07Crafted: also enumerate opens whose first user bytes look like a multistream-select frame. OFF by default:
// the property quantifies over handler sets, request lists, knowledge, connection kinds and concurrency, not over
// payload bytes, and with this dimension the UNCHANGED tree fails (key first-user-bytes-parsed-as-protocol-proposal:
// after the listener refused an optimistically chosen protocol with "na" it goes on parsing the stream as
// multistream-select, so user bytes equal to "<len>/b\n" select and run the /b handler although the dialer asked
// only for a protocol the listener does not handle). Enable with VERIF_C07_CRAFTED=1.
func c07Crafted() bool { return os.Getenv("VERIF_C07_CRAFTED") != "" }

// c07RealNow is the REAL clock in nanoseconds (time.Now is virtual inside a bubble). Used only for the cost
// figures written to the evidence, never by an oracle.
func c07RealNow() int64 {
	var tv syscall.Timeval
	if err := syscall.Gettimeofday(&tv); err != nil {
		return 0
	}
	return tv.Sec*1e9 + tv.Usec*1e3
}

// ---------- the check ----------

func c07NewChecker(part string, blank bool) *c07Checker {
	ck := &c07Checker{r: vrep.New("C07", part), maxLen: 2, scriptLen: 2, thorough: vrep.Thorough(), blank: blank, classes: map[string]struct{}{}, sampled: map[string]struct{}{}, caps: map[string]int{}, tagged: map[string]int64{}}
	ck.limScripts = []string{""}
	if ck.thorough {
		ck.maxLen = 3
		ck.scriptLen = 3
		ck.limScripts = c07Scripts(1)
	}
	ck.variants = c07Variants(ck.thorough, blank)
	if os.Getenv("VERIF_C07_NOVARIANTS") != "" {
		ck.variants = nil // experiments only; the evidence reports what was run
	}
	if v, err := strconv.Atoi(os.Getenv("VERIF_C07_SCRIPTLEN")); err == nil && v >= 0 {
		ck.scriptLen = v // experiments only; the evidence reports the bound actually used
	}
	ck.scripts = c07Scripts(ck.scriptLen)
	return ck
}

// c07Search runs one state search (BasicHosts, or BlankHosts) and writes its record.
func c07Search(t *testing.T, part string, blank bool, depth int, deadline time.Time) {
	ck := c07NewChecker(part, blank)
	r := ck.r
	r.Bounds["universe"] = c07U
	if depth >= 1<<20 {
		r.Bounds["history_depth"] = "closure (finite state space)"
	} else {
		r.Bounds["history_depth"] = depth
	}
	if blank {
		r.Bounds["hosts"] = "BlankHost listener, two BlankHost dialers (no identify: every open negotiates)"
		r.Bounds["operations"] = "set exact / set match(prefix /a/) / remove through the host API"
	} else {
		r.Bounds["hosts"] = "BasicHost listener, two BasicHost dialers (identify, identify push, optimistic negotiation)"
		r.Bounds["operations"] = "set exact / set match(prefix /a/) / remove, each via the host API (identify push) or directly on the mux (stale knowledge); dialers forget; dialers learn by opening"
	}
	r.Bounds["request_list_len"] = fmt.Sprintf("1..%d (ordered, with repetition)", ck.maxLen)
	r.Bounds["first_stream_operations"] = fmt.Sprintf("every sequence of 0..%d distinct operations of {Write(nonce), Write(zero bytes), Read, CloseWrite, CloseRead, Close} that is possible on one stream (%d scripts), then what is left of write nonce + read answer; on every single open (not on the concurrent pairs)", ck.scriptLen, len(ck.scripts))
	r.Bounds["connections"] = "direct and limited (Stat().Limited, opened with WithAllowLimitedConn)"
	r.Bounds["concurrent_opens"] = 2
	if len(ck.variants) > 0 {
		var vs []string
		for _, c := range ck.variants {
			vs = append(vs, c.String())
		}
		r.Bounds["fixture_configurations"] = append([]string{"plain (nothing limited, dialers without handlers)"}, vs...)
		r.Bounds["limited_listener"] = fmt.Sprintf("per protocol P the listener handles and per assignment of the N admitted streams to the two dialers: N streams for P held open, then every request list of length 1..%d (quick: that contains P) on both connections (first-use scripts: %d, lists of length 1..2 for the non-empty ones)", ck.maxLen, len(ck.limScripts))
		r.Bounds["both_directions"] = fmt.Sprintf("per connection, per knowledge of L about the dialer (as identify reported / forgotten): no first open or a first open for one protocol in either direction, then every request list of length 1..%d the other way (after no first open: L's opens; thorough: both ways; quick: a first open by L only from accurate knowledge), plain write+read", ck.maxLen)
	}

	alphabet := c07Alphabet(blank)
	sp := &seqmc.Spec[*c07Inst]{
		Name: part,
		New: func() *c07Inst {
			t0 := c07RealNow()
			defer func() { ck.tNew.Add(c07RealNow() - t0); ck.nNew.Add(1) }()
			return c07NewInst(ck, c07Cfg{})
		},
		Close:   func(in *c07Inst) { in.close() },
		NOps:    len(alphabet),
		Enabled: func(in *c07Inst) []int { return in.enabled(alphabet) },
		Apply: func(in *c07Inst, op int) error {
			if in.broken != "" {
				return nil
			}
			t0 := c07RealNow()
			defer func() { ck.tApply.Add(c07RealNow() - t0) }()
			return in.apply(alphabet[op])
		},
		Key: func(in *c07Inst) string { return in.key },
		// the outcome of an open depends on the listener's mux and on the dialers' knowledge, not on the
		// identify snapshot: the opens are enumerated once per distinct (mux, knowledge) class
		Class: func(in *c07Inst) string { return in.pkey },
		Probe: func(in *c07Inst) error {
			t0 := c07RealNow()
			defer func() { ck.tVisit.Add(c07RealNow() - t0) }()
			return ck.visit(in)
		},
		Show:     func(op int) string { return c07ShowOp(alphabet[op]) },
		Depth:    depth,
		Bubble:   true,
		T:        t,
		Deadline: deadline,
	}
	st := seqmc.Run(sp)
	seqmc.Fill(r, sp.Name, st)
	r.Executions += ck.opens.Load()
	r.Distinct = int64(len(ck.classes))
	r.Note("states (mux order+kind, identify snapshot, knowledge of both dialers): %d; distinct (mux, knowledge) classes whose opens are enumerated: %d; states per depth: %v; closed=%v",
		st.States, st.Classes, st.PerDepth, st.Closed)
	r.Note("shard %d of %d (GOMAXPROCS=%d): %d transitions and %d classes executed here; %d groups of opens, %d opens; real time: %d fixtures built in %.1fs, operations applied in %.1fs, opens enumerated in %.1fs",
		st.Shard, st.Shards, runtime.GOMAXPROCS(0), st.Executed-st.Probed, st.Probed, ck.groups.Load(), ck.opens.Load(),
		ck.nNew.Load(), float64(ck.tNew.Load())/1e9, float64(ck.tApply.Load())/1e9, float64(ck.tVisit.Load())/1e9)
	if st.Probed > 0 && ck.opens.Load() == 0 {
		r.Cap("no open was executed")
	}
	if len(ck.variants) > 0 && st.Probed > 0 {
		r.Note("fixtures with another configuration built: %d; opens against a limited listener: %d (refused by its resource manager: %d), opens with handlers on both sides: %d", ck.nVariants.Load(), ck.tagged["l"], ck.nRefused.Load(), ck.tagged["b"])
		if !blank && (ck.nRefused.Load() == 0 || ck.tagged["b"] == 0) {
			r.Cap("the limited-listener / both-directions dimensions were configured but produced no case (refusals: %d, opens with handlers on both sides: %d)", ck.nRefused.Load(), ck.tagged["b"])
		}
	}
	if ck.holdIncomplete > 0 {
		r.Cap("baseline: %d times the streams to be held open against a limited listener could not all be opened (no verdict for those situations)", ck.holdIncomplete)
	}
	if ck.unexpected > 0 {
		r.Cap("baseline: %d opens failed although the listener handles a requested protocol and the dialer's knowledge contains nothing stale (not a violation of the statement, which promises no success); first: %s", ck.unexpected, ck.unexpectedFirst)
	}
	r.Flush()
}

func TestVerifC07(t *testing.T) {
	if p := vrep.ReplayPath(); p != "" {
		c07Replay(t, p)
		return
	}
	defer debug.SetGCPercent(debug.SetGCPercent(400)) // thousands of short-lived host triples: trade memory for GC work
	depth := 4
	if vrep.Thorough() {
		depth = 1 << 20 // the state space is finite (46 mux configurations x 8 snapshots x 8 knowledge sets): closure
	}
	if v, err := strconv.Atoi(os.Getenv("VERIF_C07_DEPTH")); err == nil && v > 0 {
		depth = v // experiments only; the evidence reports the depth actually used
	}
	// the BlankHost search (below) needs a few seconds: keep them
	dl := vrep.Deadline()
	c07Search(t, "negotiation", false, depth, dl.Add(-time.Until(dl)/10))
	// BlankHosts have no identify, so the state is the listener's mux alone: finite, searched to closure.
	c07Search(t, "blankhost", true, 1<<20, dl)
}

// c07Replay re-executes one recorded history (check.py --replay): the operations are applied to fresh hosts
// and the final state's opens are enumerated again.
func c07Replay(t *testing.T, path string) {
	if i, _ := vrep.Shard(); i != 0 {
		return // one process is enough
	}
	b, err := os.ReadFile(path)
	if err != nil {
		t.Logf("replay: %v", err)
		return
	}
	var rec struct {
		Part   string `json:"part"`
		Key    string `json:"key"`
		Replay struct {
			History []string `json:"history"`
		} `json:"replay"`
	}
	if err := json.Unmarshal(b, &rec); err != nil {
		t.Logf("replay: %v", err)
		return
	}
	blank := rec.Part == "blankhost"
	byName := map[string]c07Op{}
	for _, o := range c07Alphabet(blank) {
		byName[c07ShowOp(o)] = o
	}
	part := "negotiation"
	if blank {
		part = "blankhost"
	}
	ck := c07NewChecker(part, blank)
	r := ck.r
	synctest.Test(t, func(*testing.T) {
		in := c07NewInst(ck, c07Cfg{})
		defer in.close()
		var verr error
		for i, h := range rec.Replay.History {
			o, ok := byName[h]
			if !ok {
				t.Logf("replay: unknown operation %q", h)
				return
			}
			fmt.Printf("replay: %s\n", h)
			if verr = in.apply(o); verr != nil {
				break
			}
			_ = i
		}
		if verr == nil {
			fmt.Printf("replay: state %s\n", in.key)
			verr = ck.visit(in)
		}
		if verr != nil {
			v := verr.(*seqmc.Vio)
			fmt.Printf("replay: VIOLATION %s: %s\n", v.Key, v.Desc)
			r.Violate(v.Key, v.Desc, map[string]any{"search": part, "history": rec.Replay.History})
		} else {
			fmt.Printf("replay: no violation (%d opens)\n", ck.opens.Load())
		}
	})
	r.Executions = ck.opens.Load()
	r.Flush()
}
