//go:build verif

package observedaddrs

// C17, concurrent part. The statement counts observers "on currently open connections" and withdraws a connection's
// report when the connection closes; the worker that records observations and the Disconnected callback that
// removes a connection run in different goroutines. Engine E2: package observedaddrs instrumented; the real Manager
// (newManagerWithListenAddrs, no background goroutine) with fake connections whose IsClosed is a scheduling point.
// Scenarios: an observation being recorded while the connection it arrived on closes and is removed; the same with
// three other observers already at the threshold minus one; two connections of one observer, one closing.
// Oracle at quiescence (all calls returned): a closed and removed connection vouches for nothing - Addrs(1) and
// Addrs(threshold) contain the observed address only if enough OPEN connections that delivered a report remain.

import (
	"fmt"
	"os"
	"strings"
	"sync/atomic"
	"testing"
	"time"

	"github.com/libp2p/go-libp2p/x/verif/vrep"
	vs "github.com/libp2p/go-libp2p/x/verif/vsched"
	ma "github.com/multiformats/go-multiaddr"
)

type c17sConn struct {
	local, remote ma.Multiaddr
	closed        atomic.Bool
}

func (c *c17sConn) LocalMultiaddr() ma.Multiaddr  { return c.local }
func (c *c17sConn) RemoteMultiaddr() ma.Multiaddr { return c.remote }
func (c *c17sConn) IsClosed() bool {
	vs.Yield() // asking the connection is something another goroutine can overtake
	return c.closed.Load()
}

var _ connMultiaddrs = (*c17sConn)(nil)

type c17sScn struct {
	Name   string
	Others int   // observers (distinct IPs) that reported the address before the race and stay open
	Racers []int // observer index of each racing connection (equal indices = one observer group)
	Close  []bool
}

func c17sBody(sc c17sScn) func(x *vs.Exec) {
	return func(x *vs.Exec) {
		s := x.S
		listen := ma.StringCast("/ip4/192.168.1.10/tcp/4001")
		observed := ma.StringCast("/ip4/203.0.113.99/tcp/4001")
		m, err := newManagerWithListenAddrs(nil, func() []ma.Multiaddr { return []ma.Multiaddr{listen} })
		if err != nil {
			panic(err)
		}
		conn := func(i int) *c17sConn {
			return &c17sConn{local: listen, remote: ma.StringCast(fmt.Sprintf("/ip4/8.8.%d.1/tcp/%d", 10+i, 5000+i))}
		}
		s.Go("setup", func() {
			for i := 0; i < sc.Others; i++ {
				m.maybeRecordObservation(conn(i), observed)
			}
		})
		if !s.Run() && !s.Free {
			x.Fail("deadlock", "setup: %s", s.Deadlock)
			return
		}
		racers := make([]*c17sConn, len(sc.Racers))
		for i, ob := range sc.Racers {
			racers[i] = conn(100 + ob)
			racers[i].remote = ma.StringCast(fmt.Sprintf("/ip4/9.9.%d.1/tcp/%d", 10+ob, 6000+i))
			c := racers[i]
			s.Go(fmt.Sprintf("record%d", i), func() { m.maybeRecordObservation(c, observed) })
			if sc.Close[i] {
				s.GoPrio(fmt.Sprintf("close%d", i), 1, func() {
					vs.Yield()
					c.closed.Store(true) // the swarm marks the connection closed, then delivers Disconnected
					m.removeConn(c)
				})
			}
		}
		ok := s.Run()
		if !ok && s.Deadlock != "" {
			x.Fail("deadlock", "threads blocked forever: %s", s.Deadlock)
		}
		if s.Free {
			s.Drain()
			return
		}
		if ok {
			open := map[int]bool{}
			for i := 0; i < sc.Others; i++ {
				open[i] = true
			}
			for i, ob := range sc.Racers {
				if !sc.Close[i] {
					open[100+ob] = true
				}
			}
			has := func(min int) bool {
				for _, a := range m.Addrs(min) {
					if a.Equal(observed) {
						return true
					}
				}
				return false
			}
			for _, min := range []int{1, ActivationThresh} {
				if has(min) && len(open) < min {
					x.Fail("closed-connection-still-vouches", "every call has returned; %d observer group(s) with an open connection reported %s, yet Addrs(%d) returns it (a closed and removed connection is still counted)", len(open), observed, min)
				}
			}
			x.Outcome = fmt.Sprintf("open-observers=%d addrs1=%v addrsT=%v", len(open), has(1), has(ActivationThresh))
		}
		s.Drain()
	}
}

func c17sScenarios(thorough bool) []c17sScn {
	scs := []c17sScn{
		{Name: "an observation is recorded while its connection closes", Racers: []int{0}, Close: []bool{true}},
		{Name: "threshold minus one observers; the deciding observation races its connection's close", Others: ActivationThresh - 1, Racers: []int{0}, Close: []bool{true}},
		{Name: "two connections of one observer report; one closes", Racers: []int{0, 0}, Close: []bool{true, false}},
	}
	if thorough {
		scs = append(scs, c17sScn{Name: "two observers race their closes at threshold minus two", Others: ActivationThresh - 2, Racers: []int{0, 1}, Close: []bool{true, true}})
	}
	return scs
}

func c17sScenario(sc c17sScn) *vs.Scenario {
	return &vs.Scenario{Name: sc.Name, Body: c17sBody(sc), LeakIsViolation: true,
		Opt: vs.Options{Horizon: 10 * time.Second, IdleStep: 5 * time.Second, MaxSteps: 4000}}
}

func TestVerifC17Sched(t *testing.T) {
	scs := c17sScenarios(vrep.Thorough())
	if p := vrep.ReplayPath(); p != "" {
		rp, err := vs.LoadReplay(p)
		if err != nil || rp.Scenario == "" {
			t.Skip("not a scheduler replay")
		}
		for _, sc := range c17sScenarios(true) {
			if sc.Name == rp.Scenario {
				x := vs.Replay(t, c17sScenario(sc), rp.Choices)
				fmt.Fprintf(os.Stdout, "REPLAY %s choices=%v\n%s\nverdict: key=%q %s\npanic=%s outcome=%s\n", sc.Name, rp.Choices, strings.Join(x.S.Log, "\n"), x.VioKey, x.VioDesc, x.Panic, x.Outcome)
				return
			}
		}
		return
	}
	if vs.FreeMode() {
		r := vrep.New("C17", "race-pass")
		dl := vrep.Deadline()
		n := 0
		for time.Now().Before(dl) {
			for _, sc := range scs {
				runs, _ := vs.FreeRun(t, c17sScenario(sc), 3, dl)
				n += runs
			}
		}
		r.Executions = int64(n)
		r.Note("free-running executions: %d", n)
		r.Flush()
		return
	}
	si, sn := vrep.Shard()
	bound := 4
	if vrep.Thorough() {
		bound = 6
	}
	r := vrep.New("C17", "manager-schedules")
	r.Bounds["deviation_bound"] = bound
	r.Bounds["scenarios"] = len(scs)
	for i, sc := range scs {
		left := time.Until(vrep.Deadline())
		share := left / time.Duration(len(scs)-i)
		vs.Explore(t, c17sScenario(sc), vs.Config{MaxBound: bound, Deadline: time.Now().Add(share), ShardI: si, ShardN: sn, Property: "C17"}, r)
	}
	r.Flush()
}
