//go:build verif

package swarm

// C20: black-hole detection. Engine E1 (seqmc), run to closure.
//
// Part "counter": real BlackHoleSuccessCounter for every (N, MinSuccesses), 1<=N<=Nmax, 0<=Min<=N+1;
// events HandleRequest / RecordResult(true|false); reference model + statement-level invariants.
// Part "detector": real blackHoleDetector over two real counters, events FilterAddrs(every subset of 8
// labelled addresses) and RecordResult(each address, ok|fail), read-only on and off.

import (
	"fmt"
	"strings"
	"testing"

	"github.com/libp2p/go-libp2p/x/verif/seqmc"
	"github.com/libp2p/go-libp2p/x/verif/vrep"
	ma "github.com/multiformats/go-multiaddr"
)

// ---------- history tracker for one success counter ----------
//
// The statement gives implications, not a full function, so the oracle is a set of implications evaluated
// against a tracker of what was recorded: the last N results since the state was last cleared ("a single
// success while blocked clears the state").

type c20Model struct {
	n, min int
	window []bool
}

func (m *c20Model) succ() int {
	c := 0
	for _, b := range m.window {
		if b {
			c++
		}
	}
	return c
}

// fullBad: a full observation window in which fewer than the required number of dials succeeded.
func (m *c20Model) fullBad() bool { return len(m.window) == m.n && m.succ() < m.min }

// record tracks one result; implBlocked is what the implementation reported just before.
func (m *c20Model) record(ok, implBlocked bool) {
	if implBlocked && ok {
		m.window = nil
		return
	}
	m.window = append(m.window, ok)
	if len(m.window) > m.n {
		m.window = m.window[1:]
	}
}

func c20Bits(w []bool) string {
	var sb strings.Builder
	for _, b := range w {
		if b {
			sb.WriteByte('1')
		} else {
			sb.WriteByte('0')
		}
	}
	return sb.String()
}

// white-box snapshot of the real counter; requests is only ever read modulo N (HandleRequest, info),
// so the key keeps requests%N - two states that differ only in requests/N have identical futures.
func c20Snap(b *BlackHoleSuccessCounter) string {
	// (fields this harness does not know about - added by a later change - join the key as they are)
	return fmt.Sprintf("w=%s r=%d s=%d st=%d", c20Bits(b.dialResults), b.requests%b.N, b.successes, b.state) +
		seqmc.ExtraFields(b, "N", "MinSuccesses", "Name", "mu", "requests", "dialResults", "successes", "state")
}

func (m *c20Model) snap() string { return "w=" + c20Bits(m.window) }

// ---------- part 1: counter ----------

type c20Inst struct {
	impl      *BlackHoleSuccessCounter
	model     *c20Model
	consecBlk int // consecutive Blocked answers of HandleRequest
}

const (
	c20Req = iota
	c20Ok
	c20Fail
)

var c20OpNames = []string{"HandleRequest", "RecordResult(true)", "RecordResult(false)"}

func c20CounterSpec(t *testing.T, n, min int) *seqmc.Spec[*c20Inst, int] {
	return &seqmc.Spec[*c20Inst, int]{
		Name: fmt.Sprintf("counter N=%d Min=%d", n, min),
		New: func() *c20Inst {
			return &c20Inst{impl: &BlackHoleSuccessCounter{N: n, MinSuccesses: min, Name: "x"}, model: &c20Model{n: n, min: min}}
		},
		Ops:  func(*c20Inst) []int { return []int{c20Req, c20Ok, c20Fail} },
		Show: func(o int) string { return c20OpNames[o] },
		Key: func(in *c20Inst) string {
			return c20Snap(in.impl) + "|" + in.model.snap() + fmt.Sprintf("|cb=%d", in.consecBlk)
		},
		Apply: func(in *c20Inst, op int) error {
			switch op {
			case c20Req:
				got := in.impl.HandleRequest()
				if got == blackHoleStateBlocked {
					if !in.model.fullBad() {
						return seqmc.Violation("blocked-without-full-bad-window", "HandleRequest=Blocked but the results recorded since the last clear are %s (N=%d Min=%d)", c20Bits(in.model.window), n, min)
					}
					in.consecBlk++
					// one request in every N must get through as a probe: never N refusals in a row
					if in.consecBlk >= n {
						return seqmc.Violation("no-probe-within-window", "%d consecutive Blocked answers with N=%d", in.consecBlk, n)
					}
				} else {
					in.consecBlk = 0
				}
			case c20Ok, c20Fail:
				wasBlocked := in.impl.State() == blackHoleStateBlocked
				in.impl.RecordResult(op == c20Ok)
				in.model.record(op == c20Ok, wasBlocked)
				if wasBlocked && op == c20Ok {
					if in.impl.State() == blackHoleStateBlocked {
						return seqmc.Violation("success-while-blocked-does-not-clear", "still Blocked after a success: %s", c20Snap(in.impl))
					}
					in.consecBlk = 0
					// cleared state: the next requests must not be refused before a new full window
				}
			}
			if in.impl.State() == blackHoleStateBlocked && !in.model.fullBad() {
				return seqmc.Violation("blocked-without-full-bad-window", "State=Blocked but the results recorded since the last clear are %s (N=%d Min=%d)", c20Bits(in.model.window), n, min)
			}
			return nil
		},
		Depth: 1 << 20, // to closure
		T:     t,
	}
}

func TestVerifC20(t *testing.T) {
	nmax := 4
	if vrep.Thorough() {
		nmax = 6
	}
	r := vrep.New("C20", "counter")
	r.Bounds["N"] = fmt.Sprintf("1..%d", nmax)
	r.Bounds["MinSuccesses"] = "0..N+1"
	r.Bounds["depth"] = "closure (finite state space)"
	for n := 1; n <= nmax; n++ {
		for min := 0; min <= n+1; min++ {
			sp := c20CounterSpec(t, n, min)
			st := seqmc.Run(sp)
			seqmc.Fill(r, sp.Name, st)
			r.Distinct += st.States - 1 // distinct reachable states other than the initial one
		}
	}
	r.Flush()

	c20Detector(t)
}

// ---------- part 2: detector ----------

type c20Addr struct {
	a           ma.Multiaddr
	public      bool
	udp, ip6    bool
	description string
}

func c20Addrs() []c20Addr {
	mk := func(s string, pub, udp, ip6 bool) c20Addr {
		return c20Addr{a: ma.StringCast(s), public: pub, udp: udp, ip6: ip6, description: s}
	}
	return []c20Addr{
		mk("/ip4/192.168.1.5/tcp/4001", false, false, false),
		mk("/ip4/1.2.3.4/tcp/4001", true, false, false),
		mk("/ip4/192.168.1.5/udp/4001/quic-v1", false, true, false),
		mk("/ip4/1.2.3.4/udp/4001/quic-v1", true, true, false),
		mk("/ip6/fd00::1/tcp/4001", false, false, true),
		mk("/ip6/2604:1380:1000::1/tcp/4001", true, false, true),
		mk("/ip6/fd00::1/udp/4001/quic-v1", false, true, true),
		mk("/ip6/2604:1380:1000::1/udp/4001/quic-v1", true, true, true),
		// neither public nor in a private-network range (benchmarking network 198.18.0.0/15, IPv6 documentation prefix):
		// not public, so the counters do not apply to them either
		mk("/ip4/198.18.0.1/udp/4001/quic-v1", false, true, false),
		mk("/ip6/2001:db8::1/udp/4001/quic-v1", false, true, true),
	}
}

type c20DetInst struct {
	d        *blackHoleDetector
	mu, m6   *c20Model
	readOnly bool
	cbU, cb6 int // consecutive FilterAddrs calls that refused the pure public-UDP / pure public-IPv6 address
}

type c20DetOp struct {
	filter  bool
	subset  int  // bitmask over c20Addrs (filter)
	addr    int  // record; -1 / -2 = directly on the udp / ipv6 counter
	success bool // record
}

const (
	c20PureUDP = 3 // index of the public udp/ip4 address: only the UDP counter may affect it
	c20Pure6   = 5 // index of the public tcp/ip6 address: only the IPv6 counter may affect it
)

func c20Detector(t *testing.T) {
	addrs := c20Addrs()
	type cfg struct{ nu, minu, n6, min6 int }
	cfgs := []cfg{{2, 1, 2, 1}, {2, 2, 3, 2}}
	if vrep.Thorough() {
		cfgs = append(cfgs, cfg{3, 2, 3, 1}, cfg{1, 1, 2, 2}, cfg{3, 3, 2, 0})
	}
	r := vrep.New("C20", "detector")
	r.Bounds["subsets"] = "all 256 subsets of 8 labelled addresses (private/public x tcp/udp x ip4/ip6) + 48 sets: two udp addresses that are neither public nor in a private range, in every non-empty combination with every subset of the four public addresses"
	r.Bounds["depth"] = "closure (finite state space)"
	for _, c := range cfgs {
		for _, ro := range []bool{false, true} {
			sp := &seqmc.Spec[*c20DetInst, c20DetOp]{
				Name: fmt.Sprintf("detector udp(N=%d,Min=%d) ipv6(N=%d,Min=%d) readOnly=%v", c.nu, c.minu, c.n6, c.min6, ro),
				New: func() *c20DetInst {
					return &c20DetInst{
						d: &blackHoleDetector{
							udp:      &BlackHoleSuccessCounter{N: c.nu, MinSuccesses: c.minu, Name: "udp"},
							ipv6:     &BlackHoleSuccessCounter{N: c.n6, MinSuccesses: c.min6, Name: "ipv6"},
							readOnly: ro,
						},
						mu: &c20Model{n: c.nu, min: c.minu}, m6: &c20Model{n: c.n6, min: c.min6}, readOnly: ro,
					}
				},
				Ops: func(*c20DetInst) []c20DetOp {
					var ops []c20DetOp
					for i := range addrs {
						ops = append(ops, c20DetOp{addr: i, success: true}, c20DetOp{addr: i, success: false})
					}
					if ro {
						// a read-only detector shares its counters with a writable one (as the swarm does for
						// the autonat dialer): results recorded directly on the counters drive the state.
						ops = append(ops, c20DetOp{addr: -1, success: true}, c20DetOp{addr: -1, success: false},
							c20DetOp{addr: -2, success: true}, c20DetOp{addr: -2, success: false})
					}
					// every subset of the eight private/public addresses; the two "neither" addresses (bits 8, 9) in every
					// non-empty combination with every subset of the four public addresses (bits 1, 3, 5, 7)
					for s := 0; s < 256; s++ {
						ops = append(ops, c20DetOp{filter: true, subset: s})
					}
					for pub := 0; pub < 16; pub++ {
						base := (pub&1)<<1 | (pub&2)<<2 | (pub&4)<<3 | (pub&8)<<4
						for nb := 1; nb < 4; nb++ {
							ops = append(ops, c20DetOp{filter: true, subset: base | nb<<8})
						}
					}
					return ops
				},
				Show: func(o c20DetOp) string {
					if o.filter {
						return fmt.Sprintf("FilterAddrs(subset=%010b)", o.subset)
					}
					switch o.addr {
					case -1:
						return fmt.Sprintf("udpCounter.RecordResult(%v)", o.success)
					case -2:
						return fmt.Sprintf("ipv6Counter.RecordResult(%v)", o.success)
					}
					return fmt.Sprintf("RecordResult(%s,%v)", addrs[o.addr].description, o.success)
				},
				Key: func(in *c20DetInst) string {
					return c20Snap(in.d.udp) + "/" + c20Snap(in.d.ipv6) + "|" + in.mu.snap() + "/" + in.m6.snap() + fmt.Sprintf("|%d/%d", in.cbU, in.cb6)
				},
				Apply: func(in *c20DetInst, op c20DetOp) error { return c20ApplyDet(in, op, addrs) },
				Depth: 1 << 20,
				T:     t,
			}
			st := seqmc.Run(sp)
			seqmc.Fill(r, sp.Name, st)
			r.Distinct += st.States - 1 // distinct reachable states other than the initial one
		}
	}
	r.Flush()
}

func c20Full(b *BlackHoleSuccessCounter) string { return c20Snap(b) + fmt.Sprint(" req=", b.requests) }

func c20ApplyDet(in *c20DetInst, op c20DetOp, addrs []c20Addr) error {
	beforeU, before6 := c20Full(in.d.udp), c20Full(in.d.ipv6)
	if !op.filter {
		uBlocked, sBlocked := in.d.udp.State() == blackHoleStateBlocked, in.d.ipv6.State() == blackHoleStateBlocked
		switch op.addr {
		case -1:
			in.d.udp.RecordResult(op.success)
			in.mu.record(op.success, uBlocked)
			if uBlocked && op.success {
				in.cbU = 0
			}
			return nil
		case -2:
			in.d.ipv6.RecordResult(op.success)
			in.m6.record(op.success, sBlocked)
			if sBlocked && op.success {
				in.cb6 = 0
			}
			return nil
		}
		a := addrs[op.addr]
		in.d.RecordResult(a.a, op.success)
		afterU, after6 := c20Full(in.d.udp), c20Full(in.d.ipv6)
		if in.readOnly && (afterU != beforeU || after6 != before6) {
			return seqmc.Violation("readonly-changed-state", "RecordResult in read-only mode changed a counter: %s -> %s, %s -> %s", beforeU, afterU, before6, after6)
		}
		if (!a.public || !a.udp) && afterU != beforeU {
			return seqmc.Violation("record-touched-unrelated-counter", "result for %s changed the UDP counter", a.description)
		}
		if (!a.public || !a.ip6) && after6 != before6 {
			return seqmc.Violation("record-touched-unrelated-counter", "result for %s changed the IPv6 counter", a.description)
		}
		// track what was recorded (only results the detector actually took into account)
		if afterU != beforeU {
			in.mu.record(op.success, uBlocked)
			if uBlocked && op.success {
				in.cbU = 0
				if in.d.udp.State() == blackHoleStateBlocked {
					return seqmc.Violation("success-while-blocked-does-not-clear", "udp counter still Blocked after a success")
				}
			}
		}
		if after6 != before6 {
			in.m6.record(op.success, sBlocked)
			if sBlocked && op.success {
				in.cb6 = 0
				if in.d.ipv6.State() == blackHoleStateBlocked {
					return seqmc.Violation("success-while-blocked-does-not-clear", "ipv6 counter still Blocked after a success")
				}
			}
		}
		return nil
	}
	// FilterAddrs on a subset
	var input []ma.Multiaddr
	var idx []int
	hasPubUDP, hasPub6 := false, false
	for i, a := range addrs {
		if op.subset&(1<<i) != 0 {
			input = append(input, a.a)
			idx = append(idx, i)
			hasPubUDP = hasPubUDP || (a.public && a.udp)
			hasPub6 = hasPub6 || (a.public && a.ip6)
		}
	}
	uGood, sGood := in.d.udp.State() == blackHoleStateAllowed, in.d.ipv6.State() == blackHoleStateAllowed
	inCopy := append([]ma.Multiaddr{}, input...)
	winU, win6 := c20Bits(in.d.udp.dialResults), c20Bits(in.d.ipv6.dialResults)
	valid, holed := in.d.FilterAddrs(input)
	afterU, after6 := c20Full(in.d.udp), c20Full(in.d.ipv6)
	if in.readOnly && (afterU != beforeU || after6 != before6) {
		return seqmc.Violation("readonly-changed-state", "FilterAddrs in read-only mode changed a counter")
	}
	if c20Bits(in.d.udp.dialResults) != winU || c20Bits(in.d.ipv6.dialResults) != win6 {
		return seqmc.Violation("filter-changed-window", "FilterAddrs changed an observation window")
	}
	for i := range inCopy {
		if !inCopy[i].Equal(input[i]) {
			return seqmc.Violation("filter-mutated-input", "input slice modified at %d", i)
		}
	}
	// valid and holed partition the input, order preserved, nothing invented
	vi, hi := 0, 0
	removed := map[int]bool{}
	for _, i := range idx {
		a := addrs[i]
		inValid := vi < len(valid) && valid[vi].Equal(a.a)
		inHoled := hi < len(holed) && holed[hi].Equal(a.a)
		switch {
		case inValid:
			vi++
		case inHoled:
			hi++
			removed[i] = true
			if !a.public {
				return seqmc.Violation("private-address-removed", "%s removed", a.description)
			}
			if !a.udp && !a.ip6 {
				return seqmc.Violation("unaffected-kind-removed", "%s (public tcp/ip4) removed", a.description)
			}
			// removal needs a counter of the address's own kind that is entitled to block
			entitled := false
			if in.readOnly {
				entitled = (a.udp && !uGood) || (a.ip6 && !sGood)
			} else {
				entitled = (a.udp && in.mu.fullBad()) || (a.ip6 && in.m6.fullBad())
			}
			if !entitled {
				return seqmc.Violation("removed-without-full-bad-window", "%s removed although udp window=%s ipv6 window=%s", a.description, c20Bits(in.mu.window), c20Bits(in.m6.window))
			}
		default:
			return seqmc.Violation("address-lost-or-reordered", "%s neither in valid nor in blackHoled at the expected position (valid=%v holed=%v)", a.description, valid, holed)
		}
		if inValid && in.readOnly && a.public {
			// read-only refuses unless the state is known-good
			if (a.udp && !uGood) || (a.ip6 && !sGood) {
				return seqmc.Violation("readonly-allowed-without-known-good", "%s allowed in read-only mode with udp=%v ipv6=%v", a.description, in.d.udp.State(), in.d.ipv6.State())
			}
		}
	}
	if vi != len(valid) || hi != len(holed) {
		return seqmc.Violation("filter-invented-address", "valid=%v holed=%v input=%v", valid, holed, input)
	}
	if !in.readOnly {
		// probes: among N consecutive requests one is let through. Observable on the address only its own
		// counter can affect; a request that involves the counter but not that address may have consumed the
		// probe slot unobserved, so it resets the count (conservative).
		if hasPubUDP {
			if removed[c20PureUDP] {
				in.cbU++
				if in.cbU >= in.mu.n {
					return seqmc.Violation("no-probe-within-window", "%d consecutive requests refused public UDP with N=%d", in.cbU, in.mu.n)
				}
			} else {
				in.cbU = 0
			}
		}
		if hasPub6 {
			if removed[c20Pure6] {
				in.cb6++
				if in.cb6 >= in.m6.n {
					return seqmc.Violation("no-probe-within-window", "%d consecutive requests refused public IPv6 with N=%d", in.cb6, in.m6.n)
				}
			} else {
				in.cb6 = 0
			}
		}
	}
	return nil
}
