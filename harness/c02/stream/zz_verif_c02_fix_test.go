//go:build verif

package basichost

// C02 part "stream", fixture: two real yamux sessions (p2p/muxer/yamux wrapper, go-libp2p's DefaultTransport
// configuration) over an in-memory connection - directly, or over a real Noise session - with
//   - every muxed stream wrapped in a real swarm.Stream (shim constructor in package swarm),
//   - the dialing side using the real streamWrapper + lazy multistream-select exactly as
//     BasicHost.NewStream builds it (or the eager SelectOneOf branch of NewStream),
//   - the accepting side running the real BasicHost.newStreamHandler on every accepted stream (real
//     multistream muxer, negotiation deadline, SetProtocol, handler dispatch), as the swarm does.
// Everything lives in a synctest bubble; the harness drives writes and reads itself.

import (
	"context"
	"crypto/sha256"
	"encoding/binary"
	"errors"
	"fmt"
	"io"
	"net"
	"sync"
	"sync/atomic"
	"testing/synctest"
	"time"

	"github.com/libp2p/go-libp2p/core/crypto"
	"github.com/libp2p/go-libp2p/core/network"
	"github.com/libp2p/go-libp2p/core/peer"
	"github.com/libp2p/go-libp2p/core/protocol"
	"github.com/libp2p/go-libp2p/core/sec"
	"github.com/libp2p/go-libp2p/p2p/muxer/yamux"
	"github.com/libp2p/go-libp2p/p2p/net/swarm"
	"github.com/libp2p/go-libp2p/p2p/security/noise"
	"github.com/libp2p/go-libp2p/x/verif/memconn"
	"github.com/libp2p/go-libp2p/x/verif/vrep"
	ma "github.com/multiformats/go-multiaddr"
	msmux "github.com/multiformats/go-multistream"
)

type c02SeedReader struct {
	seed uint64
	ctr  uint64
	buf  []byte
}

func (r *c02SeedReader) Read(p []byte) (int, error) {
	for i := range p {
		if len(r.buf) == 0 {
			var in [16]byte
			binary.BigEndian.PutUint64(in[:8], r.seed)
			binary.BigEndian.PutUint64(in[8:], r.ctr)
			r.ctr++
			h := sha256.Sum256(in[:])
			r.buf = h[:]
		}
		p[i] = r.buf[0]
		r.buf = r.buf[1:]
	}
	return len(p), nil
}

type c02Sec struct {
	ini, res *noise.Transport
	resID    peer.ID
}

func c02NewSec() (*c02Sec, error) {
	mk := func(i uint64) (*noise.Transport, peer.ID, error) {
		k, _, err := crypto.GenerateEd25519Key(&c02SeedReader{seed: uint64(vrep.Seed())*1000 + i})
		if err != nil {
			return nil, "", err
		}
		id, err := peer.IDFromPrivateKey(k)
		if err != nil {
			return nil, "", err
		}
		t, err := noise.New(noise.ID, k, nil)
		return t, id, err
	}
	a, _, err := mk(21)
	if err != nil {
		return nil, err
	}
	b, id, err := mk(22)
	if err != nil {
		return nil, err
	}
	return &c02Sec{ini: a, res: b, resID: id}, nil
}

// stub connection: only what newStreamHandler's log statements touch
type c02Conn struct{ network.Conn }

func (c02Conn) RemotePeer() peer.ID           { return "c02-remote" }
func (c02Conn) LocalPeer() peer.ID            { return "c02-local" }
func (c02Conn) RemoteMultiaddr() ma.Multiaddr { return nil }
func (c02Conn) LocalMultiaddr() ma.Multiaddr  { return nil }
func (c02Conn) ID() string                    { return "c02-conn" }

// c02Stream is a real swarm.Stream whose Conn()/ID() do not dereference the (absent) transport connection.
type c02Stream struct{ *swarm.Stream }

func (s *c02Stream) Conn() network.Conn { return c02Conn{} }
func (s *c02Stream) ID() string         { return "c02-stream" }

type c02Mux struct {
	ca, cb   *memconn.Conn
	cli, srv network.MuxedConn
	host     *BasicHost
	got      map[protocol.ID]chan network.Stream
	n        atomic.Uint64
	streams  []network.Stream
	// adapt: every muxed stream is handed to swarm.Stream through a c02JoinStream (see there)
	adapt   bool
	opened  int
	mu      sync.Mutex
	cliJoin []*c02JoinStream // in OpenStream order
	srvJoin []*c02JoinStream // in AcceptStream order (= OpenStream order: the SYN goes out in OpenStream)
}

// c02JoinStream sits between the muxer's stream and swarm.Stream and changes HOW the end of the stream and a
// read error are delivered, within what io.Reader allows: go-yamux hands out the last bytes and io.EOF in two
// Read calls; a QUIC stream (and any buffered or message-based muxed stream) returns the last bytes TOGETHER
// WITH io.EOF. swarm.Stream, the lazy multistream conn and BasicHost's streamWrapper sit on top of
// network.MuxedStream, not on yamux.
//   - arm(): the harness calls it once the peer's CloseWrite has ARRIVED (bubble quiescence after the call):
//     from then on every Read looks one chunk ahead (this cannot block any more: the muxer has either data or
//     the end), and the Read that hands out the last byte returns (n > 0, io.EOF);
//   - failAfter(k, err, withData): the stream breaks after k more bytes: the Read that delivers the last of
//     them returns (n > 0, err) (withData) or (n, nil) followed by (0, err); afterwards always (0, err).
//
// Nothing is reordered, dropped (before a break) or duplicated by it.
type c02JoinStream struct {
	network.MuxedStream
	mu       sync.Mutex // never held across a Read of the muxer's stream
	armed    bool
	la       []byte // looked-ahead bytes not handed out yet
	labuf    []byte
	laErr    error // the error that followed them
	failLeft int64 // bytes until the break (-1: none armed)
	failErr  error
	failData bool
	failed   bool
	joined   int // Reads that returned n > 0 together with an error
}

func (s *c02JoinStream) arm() {
	s.mu.Lock()
	s.armed = true
	s.mu.Unlock()
}

func (s *c02JoinStream) failAfter(k int64, err error, withData bool) {
	s.mu.Lock()
	s.failLeft, s.failErr, s.failData = k, err, withData
	s.mu.Unlock()
}

func (s *c02JoinStream) Read(p []byte) (int, error) {
	if len(p) == 0 {
		s.mu.Lock()
		held, err, failed := len(s.la) > 0, s.laErr, s.failed
		if failed {
			err = s.failErr
		}
		s.mu.Unlock()
		switch {
		case failed:
			return 0, err
		case held:
			return 0, nil // bytes are waiting here although the muxer's own buffer is empty
		case err != nil:
			return 0, err
		}
		return s.MuxedStream.Read(p)
	}
	s.mu.Lock()
	if s.failed {
		err := s.failErr
		s.mu.Unlock()
		return 0, err
	}
	n := 0
	var err error
	switch {
	case len(s.la) > 0:
		n = copy(p, s.la)
		s.la = s.la[n:]
		if len(s.la) == 0 {
			err = s.laErr // nil, or the error that came right behind these bytes
		}
	case s.laErr != nil:
		err = s.laErr
	}
	armed, pending := s.armed, len(s.la) > 0 || s.laErr != nil
	s.mu.Unlock()
	if n == 0 && err == nil {
		n, err = s.MuxedStream.Read(p)
	}
	if armed && n > 0 && err == nil && !pending {
		if s.labuf == nil {
			s.labuf = make([]byte, 4096)
		}
		m, e := s.MuxedStream.Read(s.labuf)
		s.mu.Lock()
		s.la, s.laErr = s.labuf[:m], e
		s.mu.Unlock()
		if m == 0 {
			err = e
		}
	}
	s.mu.Lock()
	if s.failLeft >= 0 && !s.failed {
		if int64(n) >= s.failLeft {
			n = int(s.failLeft) // what was in flight beyond the break is lost
			s.failed = true
			if s.failData || n == 0 {
				err = s.failErr
			} else {
				err = nil
			}
		} else {
			s.failLeft -= int64(n)
		}
	}
	if n > 0 && err != nil {
		s.joined++
	}
	s.mu.Unlock()
	return n, err
}

func (m *c02Mux) wrap(ms network.MuxedStream, server bool) network.MuxedStream {
	if !m.adapt {
		return ms
	}
	j := &c02JoinStream{MuxedStream: ms, failLeft: -1}
	m.mu.Lock()
	if server {
		m.srvJoin = append(m.srvJoin, j)
	} else {
		m.cliJoin = append(m.cliJoin, j)
	}
	m.mu.Unlock()
	return j
}

// join returns the adaptor under stream number k of one side (nil without adaptors / before the accept).
func (m *c02Mux) join(k int, server bool) *c02JoinStream {
	m.mu.Lock()
	defer m.mu.Unlock()
	l := m.cliJoin
	if server {
		l = m.srvJoin
	}
	if k < len(l) {
		return l[k]
	}
	return nil
}

func c02Proto(k int) protocol.ID { return protocol.ID(fmt.Sprintf("/verif-c02/%d", k)) }

// c02NewMux must be called inside a bubble.
func c02NewMux(st *c02Sec, stack string, short []int) (*c02Mux, error) {
	return c02NewMuxOpt(st, stack, short, false)
}

func c02NewMuxOpt(st *c02Sec, stack string, short []int, adapt bool) (*c02Mux, error) {
	m, err := c02NewMuxRaw(st, stack, short, adapt)
	if err != nil {
		return nil, err
	}
	// the accepting host: real multistream muxer + real newStreamHandler
	m.host = &BasicHost{mux: msmux.NewMultistreamMuxer[protocol.ID](), negtimeout: DefaultNegotiationTimeout}
	go func() {
		for {
			ms, err := m.srv.AcceptStream()
			if err != nil {
				return
			}
			s := &c02Stream{swarm.VerifC02NewStream(m.wrap(ms, true), m.n.Add(1))}
			go m.host.newStreamHandler(s)
		}
	}()
	return m, nil
}

// c02NewMuxRaw: the two yamux sessions only (go-libp2p's muxer wrapper over go-yamux, DefaultTransport), nobody
// accepts streams: the caller uses m.cli.OpenStream / m.srv.AcceptStream itself.
func c02NewMuxRaw(st *c02Sec, stack string, short []int, adapt bool) (*c02Mux, error) {
	m := &c02Mux{got: map[protocol.ID]chan network.Stream{}, adapt: adapt}
	m.ca, m.cb = memconn.Pair()
	m.ca.SetReadChunks(short...)
	m.cb.SetReadChunks(short...)
	var na, nb net.Conn = m.ca, m.cb
	if stack == "yamux/noise" {
		m.ca.SetReadDeadline(time.Now().Add(time.Hour))
		m.cb.SetReadDeadline(time.Now().Add(time.Hour))
		type out struct {
			c   sec.SecureConn
			err error
		}
		ch := make(chan out, 1)
		go func() {
			c, err := st.ini.SecureOutbound(context.Background(), m.ca, st.resID)
			ch <- out{c, err}
		}()
		rc, err := st.res.SecureInbound(context.Background(), m.cb, "")
		o := <-ch
		if err != nil || o.err != nil {
			m.ca.Close()
			m.cb.Close()
			return nil, fmt.Errorf("noise handshake failed: inbound=%v outbound=%v", err, o.err)
		}
		m.ca.SetReadDeadline(time.Time{})
		m.cb.SetReadDeadline(time.Time{})
		na, nb = o.c, rc
	}
	var err error
	if m.cli, err = yamux.DefaultTransport.NewConn(na, false, nil); err != nil {
		return nil, err
	}
	if m.srv, err = yamux.DefaultTransport.NewConn(nb, true, nil); err != nil {
		return nil, err
	}
	return m, nil
}

func (m *c02Mux) close() {
	for _, s := range m.streams {
		s.Reset()
	}
	m.cli.Close()
	m.srv.Close()
	m.ca.Close()
	m.cb.Close()
	synctest.Wait()
}

// c02Pair is one logical stream: the dialer's end (streamWrapper or negotiated swarm.Stream) and, once the
// accepting host dispatched it to the protocol handler, the listener's end.
type c02Pair struct {
	m   *c02Mux
	k   int // number of the stream on its connection (OpenStream order)
	pid protocol.ID
	cli network.Stream
	srv network.Stream
}

// open opens stream number k. neg = "lazy": as BasicHost.NewStream does when the peerstore already knows that
// the peer speaks the protocol (streamWrapper over msmux.NewMSSelect); "eager": its SelectOneOf branch.
func (m *c02Mux) open(k int, neg string) (*c02Pair, error) {
	pid := c02Proto(k)
	ch := make(chan network.Stream, 1)
	m.got[pid] = ch
	m.host.Mux().AddHandler(pid, func(_ protocol.ID, rwc io.ReadWriteCloser) error {
		ch <- rwc.(network.Stream)
		return nil
	})
	ms, err := m.cli.OpenStream(context.Background())
	if err != nil {
		return nil, fmt.Errorf("OpenStream: %w", err)
	}
	s := &c02Stream{swarm.VerifC02NewStream(m.wrap(ms, false), m.n.Add(1))}
	m.streams = append(m.streams, s)
	p := &c02Pair{m: m, pid: pid, k: m.opened}
	m.opened++
	switch neg {
	case "lazy":
		if err := s.SetProtocol(pid); err != nil {
			return nil, err
		}
		p.cli = &streamWrapper{Stream: s, rw: msmux.NewMSSelect(s, pid)}
	default:
		s.SetDeadline(time.Now().Add(time.Hour))
		sel, err := msmux.SelectOneOf([]protocol.ID{pid}, s)
		if err != nil {
			return nil, fmt.Errorf("SelectOneOf: %w", err)
		}
		s.SetDeadline(time.Time{})
		if err := s.SetProtocol(sel); err != nil {
			return nil, err
		}
		p.cli = s
	}
	return p, nil
}

var errC02NotDispatched = errors.New("the accepting host has not dispatched the stream to its protocol handler (negotiation did not complete)")

// server returns the listener's end, waiting (bubble-quiescence, no clock) for the dispatch.
func (p *c02Pair) server() (network.Stream, error) {
	if p.srv != nil {
		return p.srv, nil
	}
	synctest.Wait()
	select {
	case s := <-p.m.got[p.pid]:
		p.srv = s
		p.m.streams = append(p.m.streams, s)
		return s, nil
	default:
		return nil, errC02NotDispatched
	}
}

// c02End adapts one end of a pair to io.Reader / io.Writer, resolving the listener's end on first use.
type c02End struct {
	p      *c02Pair
	server bool
}

func (e c02End) stream() (network.Stream, error) {
	if e.server {
		return e.p.server()
	}
	return e.p.cli, nil
}

func (e c02End) Read(b []byte) (int, error) {
	s, err := e.stream()
	if err != nil {
		return 0, err
	}
	return s.Read(b)
}

func (e c02End) Write(b []byte) (int, error) {
	s, err := e.stream()
	if err != nil {
		return 0, err
	}
	return s.Write(b)
}

// arm: a reader that waits for bytes which never come gets a timeout after a virtual hour.
func (e c02End) arm() {
	if s, err := e.stream(); err == nil {
		s.SetReadDeadline(time.Now().Add(time.Hour))
	}
}

// transfer prepares a sequential checked transfer from one end of the pair to the other.
func (p *c02Pair) transfer(toServer bool, payload []byte, writes []int, each bool, pol memconn.Policy, buf []byte) *memconn.Transfer {
	w, r := c02End{p, !toServer}, c02End{p, toServer}
	tr := &memconn.Transfer{W: w, R: r, Payload: payload, Writes: writes, DrainEach: each, Buf: buf, Zeros: pol.Zeros}
	tr.ReadSize = func(received, accepted int) int { return pol.Size(accepted - received) }
	tr.Arm = r.arm
	return tr
}
