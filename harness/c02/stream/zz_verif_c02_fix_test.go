//go:build verif

package basichost

// C02 part "stream", fixture: two real yamux sessions (p2p/muxer/yamux wrapper, go-libp2p's DefaultTransport
// configuration) over an in-memory connection - directly, or over a real Noise session - with
//   - every muxed stream wrapped in a real swarm.Stream (shim constructor in package swarm),
//   - the dialing side using the real streamWrapper + lazy multistream-select exactly as
//     BasicHost.NewStream builds it (or the eager SelectOneOf branch of NewStream),
//   - the accepting side running the real BasicHost.newStreamHandler on every accepted stream (real
//     multistream muxer, negotiation deadline, SetProtocol, handler dispatch), as the swarm does.
// Everything lives in a synctest bubble; the harness drives writes and reads itself.

import (
	"context"
	"crypto/sha256"
	"encoding/binary"
	"errors"
	"fmt"
	"io"
	"net"
	"sync/atomic"
	"testing/synctest"
	"time"

	"github.com/libp2p/go-libp2p/core/crypto"
	"github.com/libp2p/go-libp2p/core/network"
	"github.com/libp2p/go-libp2p/core/peer"
	"github.com/libp2p/go-libp2p/core/protocol"
	"github.com/libp2p/go-libp2p/core/sec"
	"github.com/libp2p/go-libp2p/p2p/muxer/yamux"
	"github.com/libp2p/go-libp2p/p2p/net/swarm"
	"github.com/libp2p/go-libp2p/p2p/security/noise"
	"github.com/libp2p/go-libp2p/x/verif/memconn"
	"github.com/libp2p/go-libp2p/x/verif/vrep"
	ma "github.com/multiformats/go-multiaddr"
	msmux "github.com/multiformats/go-multistream"
)

type c02SeedReader struct {
	seed uint64
	ctr  uint64
	buf  []byte
}

func (r *c02SeedReader) Read(p []byte) (int, error) {
	for i := range p {
		if len(r.buf) == 0 {
			var in [16]byte
			binary.BigEndian.PutUint64(in[:8], r.seed)
			binary.BigEndian.PutUint64(in[8:], r.ctr)
			r.ctr++
			h := sha256.Sum256(in[:])
			r.buf = h[:]
		}
		p[i] = r.buf[0]
		r.buf = r.buf[1:]
	}
	return len(p), nil
}

type c02Sec struct {
	ini, res *noise.Transport
	resID    peer.ID
}

func c02NewSec() (*c02Sec, error) {
	mk := func(i uint64) (*noise.Transport, peer.ID, error) {
		k, _, err := crypto.GenerateEd25519Key(&c02SeedReader{seed: uint64(vrep.Seed())*1000 + i})
		if err != nil {
			return nil, "", err
		}
		id, err := peer.IDFromPrivateKey(k)
		if err != nil {
			return nil, "", err
		}
		t, err := noise.New(noise.ID, k, nil)
		return t, id, err
	}
	a, _, err := mk(21)
	if err != nil {
		return nil, err
	}
	b, id, err := mk(22)
	if err != nil {
		return nil, err
	}
	return &c02Sec{ini: a, res: b, resID: id}, nil
}

// stub connection: only what newStreamHandler's log statements touch
type c02Conn struct{ network.Conn }

func (c02Conn) RemotePeer() peer.ID           { return "c02-remote" }
func (c02Conn) LocalPeer() peer.ID            { return "c02-local" }
func (c02Conn) RemoteMultiaddr() ma.Multiaddr { return nil }
func (c02Conn) LocalMultiaddr() ma.Multiaddr  { return nil }
func (c02Conn) ID() string                    { return "c02-conn" }

// c02Stream is a real swarm.Stream whose Conn()/ID() do not dereference the (absent) transport connection.
type c02Stream struct{ *swarm.Stream }

func (s *c02Stream) Conn() network.Conn { return c02Conn{} }
func (s *c02Stream) ID() string         { return "c02-stream" }

type c02Mux struct {
	ca, cb   *memconn.Conn
	cli, srv network.MuxedConn
	host     *BasicHost
	got      map[protocol.ID]chan network.Stream
	n        atomic.Uint64
	streams  []network.Stream
}

func c02Proto(k int) protocol.ID { return protocol.ID(fmt.Sprintf("/verif-c02/%d", k)) }

// c02NewMux must be called inside a bubble.
func c02NewMux(st *c02Sec, stack string, short []int) (*c02Mux, error) {
	m := &c02Mux{got: map[protocol.ID]chan network.Stream{}}
	m.ca, m.cb = memconn.Pair()
	m.ca.SetReadChunks(short...)
	m.cb.SetReadChunks(short...)
	var na, nb net.Conn = m.ca, m.cb
	if stack == "yamux/noise" {
		m.ca.SetReadDeadline(time.Now().Add(time.Hour))
		m.cb.SetReadDeadline(time.Now().Add(time.Hour))
		type out struct {
			c   sec.SecureConn
			err error
		}
		ch := make(chan out, 1)
		go func() {
			c, err := st.ini.SecureOutbound(context.Background(), m.ca, st.resID)
			ch <- out{c, err}
		}()
		rc, err := st.res.SecureInbound(context.Background(), m.cb, "")
		o := <-ch
		if err != nil || o.err != nil {
			m.ca.Close()
			m.cb.Close()
			return nil, fmt.Errorf("noise handshake failed: inbound=%v outbound=%v", err, o.err)
		}
		m.ca.SetReadDeadline(time.Time{})
		m.cb.SetReadDeadline(time.Time{})
		na, nb = o.c, rc
	}
	var err error
	if m.cli, err = yamux.DefaultTransport.NewConn(na, false, nil); err != nil {
		return nil, err
	}
	if m.srv, err = yamux.DefaultTransport.NewConn(nb, true, nil); err != nil {
		return nil, err
	}
	// the accepting host: real multistream muxer + real newStreamHandler
	m.host = &BasicHost{mux: msmux.NewMultistreamMuxer[protocol.ID](), negtimeout: DefaultNegotiationTimeout}
	go func() {
		for {
			ms, err := m.srv.AcceptStream()
			if err != nil {
				return
			}
			s := &c02Stream{swarm.VerifC02NewStream(ms, m.n.Add(1))}
			go m.host.newStreamHandler(s)
		}
	}()
	return m, nil
}

func (m *c02Mux) close() {
	for _, s := range m.streams {
		s.Reset()
	}
	m.cli.Close()
	m.srv.Close()
	m.ca.Close()
	m.cb.Close()
	synctest.Wait()
}

// c02Pair is one logical stream: the dialer's end (streamWrapper or negotiated swarm.Stream) and, once the
// accepting host dispatched it to the protocol handler, the listener's end.
type c02Pair struct {
	m   *c02Mux
	pid protocol.ID
	cli network.Stream
	srv network.Stream
}

// open opens stream number k. neg = "lazy": as BasicHost.NewStream does when the peerstore already knows that
// the peer speaks the protocol (streamWrapper over msmux.NewMSSelect); "eager": its SelectOneOf branch.
func (m *c02Mux) open(k int, neg string) (*c02Pair, error) {
	pid := c02Proto(k)
	ch := make(chan network.Stream, 1)
	m.got[pid] = ch
	m.host.Mux().AddHandler(pid, func(_ protocol.ID, rwc io.ReadWriteCloser) error {
		ch <- rwc.(network.Stream)
		return nil
	})
	ms, err := m.cli.OpenStream(context.Background())
	if err != nil {
		return nil, fmt.Errorf("OpenStream: %w", err)
	}
	s := &c02Stream{swarm.VerifC02NewStream(ms, m.n.Add(1))}
	m.streams = append(m.streams, s)
	p := &c02Pair{m: m, pid: pid}
	switch neg {
	case "lazy":
		if err := s.SetProtocol(pid); err != nil {
			return nil, err
		}
		p.cli = &streamWrapper{Stream: s, rw: msmux.NewMSSelect(s, pid)}
	default:
		s.SetDeadline(time.Now().Add(time.Hour))
		sel, err := msmux.SelectOneOf([]protocol.ID{pid}, s)
		if err != nil {
			return nil, fmt.Errorf("SelectOneOf: %w", err)
		}
		s.SetDeadline(time.Time{})
		if err := s.SetProtocol(sel); err != nil {
			return nil, err
		}
		p.cli = s
	}
	return p, nil
}

var errC02NotDispatched = errors.New("the accepting host has not dispatched the stream to its protocol handler (negotiation did not complete)")

// server returns the listener's end, waiting (bubble-quiescence, no clock) for the dispatch.
func (p *c02Pair) server() (network.Stream, error) {
	if p.srv != nil {
		return p.srv, nil
	}
	synctest.Wait()
	select {
	case s := <-p.m.got[p.pid]:
		p.srv = s
		p.m.streams = append(p.m.streams, s)
		return s, nil
	default:
		return nil, errC02NotDispatched
	}
}

// c02End adapts one end of a pair to io.Reader / io.Writer, resolving the listener's end on first use.
type c02End struct {
	p      *c02Pair
	server bool
}

func (e c02End) stream() (network.Stream, error) {
	if e.server {
		return e.p.server()
	}
	return e.p.cli, nil
}

func (e c02End) Read(b []byte) (int, error) {
	s, err := e.stream()
	if err != nil {
		return 0, err
	}
	return s.Read(b)
}

func (e c02End) Write(b []byte) (int, error) {
	s, err := e.stream()
	if err != nil {
		return 0, err
	}
	return s.Write(b)
}

// arm: a reader that waits for bytes which never come gets a timeout after a virtual hour.
func (e c02End) arm() {
	if s, err := e.stream(); err == nil {
		s.SetReadDeadline(time.Now().Add(time.Hour))
	}
}

// transfer prepares a sequential checked transfer from one end of the pair to the other.
func (p *c02Pair) transfer(toServer bool, payload []byte, writes []int, each bool, pol memconn.Policy, buf []byte) *memconn.Transfer {
	w, r := c02End{p, !toServer}, c02End{p, toServer}
	tr := &memconn.Transfer{W: w, R: r, Payload: payload, Writes: writes, DrainEach: each, Buf: buf, Zeros: pol.Zeros}
	tr.ReadSize = func(received, accepted int) int { return pol.Size(accepted - received) }
	tr.Arm = r.arm
	return tr
}
