//go:build verif

package basichost

// C02 part "stream": multiplexed streams deliver bytes intact, in order, once (fixture: zz_verif_c02_fix_test.go).
//
//  TestVerifC02StreamGrid       one stream at a time, many streams per connection: payload length x write split
//                               x read policy x short reads underneath x read-after mode x {lazy, eager}
//                               negotiation x {yamux, yamux over Noise}; on every stream a request
//                               (dialer->listener) and a response (listener->dialer); lengths above the
//                               yamux window (300000) with a concurrent writer.
//  TestVerifC02StreamInterleave 2 streams x 3 chunks (all 20 orders) and 3 streams x 2 chunks (all 90 orders):
//                               the harness performs the chunk writes in exactly that order (quiescence
//                               between steps), then the readers read; all dialer->listener, or mixed
//                               directions.
//  TestVerifC02StreamHalfClose  CloseWrite on one or both ends, at every point of a small scenario set,
//                               followed by further reads (and writes from the still-open end).
//  TestVerifC02StreamListenerFirst the listener speaks first: the dialer's first operation on a fresh stream is a
//                               Read (which has to run the lazy handshake), the answer flows dialer->listener.
//                               Every script also runs over a muxed stream that returns its LAST BYTES TOGETHER WITH
//                               io.EOF (as QUIC streams do; yamux never does): c02JoinStream in the fixture.
//  TestVerifC02StreamReadFaults a stream breaks (reset) or ends while bytes are in flight, the error arriving in the
//                               same Read call as the last segment - at the muxed-stream level (under swarm.Stream)
//                               and at the level of the raw connection under yamux / Noise.
//  TestVerifC02StreamConcurrent 3 bidirectional streams with concurrently running writers and readers (the Go
//                               scheduler picks the interleaving inside the bubble; the oracle does not
//                               depend on it).
//
// Oracle everywhere: what Read has returned so far is the prefix of what was written on THAT stream in THAT
// direction; Write returns len(p) or an error (and an error on a healthy connection is reported).

import (
	"fmt"
	"io"
	"strings"
	"testing"
	"testing/synctest"

	"github.com/libp2p/go-libp2p/core/network"
	"github.com/libp2p/go-libp2p/x/verif/memconn"
	"github.com/libp2p/go-libp2p/x/verif/vrep"
)

type c02Case struct {
	Scenario string `json:"scenario"`
	Stack    string `json:"stack"`
	Neg      string `json:"negotiation"`
	Short    []int  `json:"short_reads_underneath"`
	L        int    `json:"L,omitempty"`
	Split    string `json:"split,omitempty"`
	Writes   []int  `json:"writes,omitempty"`
	Each     bool   `json:"read_after_each_write,omitempty"`
	Policy   string `json:"read_policy,omitempty"`
	Stream   int    `json:"nth_stream_of_connection,omitempty"`
	Order    string `json:"chunk_order,omitempty"`
	Chunks   []int  `json:"chunk_sizes,omitempty"`
	Dirs     string `json:"directions,omitempty"`
	Script   string `json:"script,omitempty"`
	Step     string `json:"failed_at,omitempty"`
	// the muxed stream under swarm.Stream returns its last bytes together with io.EOF once the peer's CloseWrite arrived
	EOFWithData bool               `json:"muxed_stream_returns_last_bytes_together_with_eof,omitempty"`
	Level       string             `json:"fault_level,omitempty"`
	Fault       *memconn.ReadFault `json:"read_fault,omitempty"`
}

var c02Stacks = []string{"yamux", "yamux/noise"}
var c02Negs = []string{"lazy", "eager"}

// c02File files the result of one bubble run; ok when nothing was violated.
func c02File(b *memconn.Book, pan string, infra error, prob *memconn.Problem, c c02Case) bool {
	b.N++
	switch {
	case pan != "" && strings.Contains(pan, "blocked goroutines remain") && prob == nil && infra == nil:
		// goroutines left behind after the harness' teardown: not what this property is about
		b.R.Outcome("goroutines left after teardown (not judged)")
		return true
	case prob != nil:
		b.R.Violate("stream:"+prob.Key, c.Step+": "+prob.Desc, c)
		b.R.Outcome("VIOLATION " + prob.Key)
	case pan != "":
		b.R.Violate("stream:panic-or-deadlock", pan, c)
		b.R.Outcome("VIOLATION panic-or-deadlock")
	case infra != nil:
		// fault-free setup (handshake, OpenStream, negotiation) failed: nothing can be checked, and it must not fail
		b.R.Violate("stream:baseline-setup-failed", infra.Error(), c)
		b.R.Outcome("VIOLATION baseline-setup-failed")
	default:
		return true
	}
	b.Transfers++ // the transfer that failed (the callers count the intact ones)
	return false
}

func c02ShortWrites(w []int) []int {
	if len(w) > 8 {
		return append(append([]int{}, w[:4]...), -len(w))
	}
	return w
}

// ---------- grid ----------

func TestVerifC02StreamGrid(t *testing.T) {
	r := vrep.New("C02", "stream-grid")
	defer r.Flush()
	sec, err := c02NewSec()
	if err != nil {
		r.Cap("infrastructure: %v", err)
		return
	}
	b := memconn.NewBook(r)
	defer b.Finish()
	thorough := vrep.Thorough()
	// 4068 = 4096 - len(multistream header + protocol line): the lazy handshake and the first user bytes fill
	// the 4096-byte bufio.Writer of go-multistream exactly
	lengths := []int{0, 1, 4067, 4068, 4069, 4095, 4096, 4097, 65535, 65536, 300000}
	shorts := [][]int{{0}, {7}}
	if thorough {
		lengths = append(lengths, 2, 12, 4066, 4070, 65523, 65524, 65525, 131072, 262143, 262144, 262145, 600000)
		shorts = [][]int{{0}, {1}, {7}, {4096}, {1, 7, 3}}
	}
	r.Bounds["L"] = lengths
	r.Bounds["write_splits"] = "whole, 1+rest, rest+1, 4096+rest, 65536+rest, thirds, 0+L+0, thirds with zero-length writes between them [a,0,a,0,0,rest]"
	r.Bounds["short_read_patterns(cyclic, 0=unlimited)"] = shorts
	r.Bounds["negotiation"] = c02Negs
	r.Bounds["stacks"] = c02Stacks
	r.Bounds["per_stream"] = "request dialer->listener then response listener->dialer (same length, other payload), then Close on both ends"
	r.Bounds["read_sizes"] = "1, 2, 4096, 65536, L+1, remaining-1, remaining, remaining+1 (L > 200000: 4096, 65536, L+1, remaining; writer runs concurrently)"
	r.Bounds["zero_length_reads"] = "additionally 4096 with one Read of len(buf)=0 before every Read, remaining-1 with two of them before every second Read (L > 200000: 65536 with one before every Read)"
	for _, stack := range c02Stacks {
		for _, neg := range c02Negs {
			for _, L := range lengths {
				big := L > 200000
				pols := append(memconn.Policies([]int{1, 2, 4096, 65536, L + 1}, []int{-1, 0, 1}),
					memconn.Fixed(4096).WithZeros(1), memconn.Rel(-1).WithZeros(2, 0))
				if big {
					pols = append(memconn.Policies([]int{4096, 65536, L + 1}, []int{0}), memconn.Fixed(65536).WithZeros(1))
				}
				splits := memconn.Splits(L, []int{4096, 65536}, 0)
				for _, sp := range splits {
					for _, short := range shorts {
						if !thorough && stack == "yamux/noise" && short[0] != 0 {
							continue
						}
						if !b.Mine(stack, neg, sp.Sizes, short) {
							continue
						}
						for _, each := range []bool{false, true} {
							if each && (len(sp.Sizes) == 1 || big) {
								continue
							}
							if !thorough && each && !(sp.Name == "thirds" || sp.Name == "1+rest") {
								continue
							}
							if b.Over() {
								return
							}
							c := c02Case{Scenario: "grid", Stack: stack, Neg: neg, Short: short, L: L, Split: sp.Name, Writes: c02ShortWrites(sp.Sizes), Each: each}
							var prob *memconn.Problem
							var infra error
							done := 0
							pan := memconn.Bubble(t, func() {
								m, err := c02NewMux(sec, stack, short)
								if err != nil {
									infra = err
									return
								}
								defer m.close()
								for i, pol := range pols {
									c.Policy, c.Stream = pol.Name, i
									p, err := m.open(i, neg)
									if err != nil {
										infra = err
										return
									}
									req := memconn.Pattern(uint64(0x5712000+i*2), L)
									rsp := memconn.Pattern(uint64(0x5712001+i*2), L)
									for d, payload := range [][]byte{req, rsp} {
										c.Step = []string{"request dialer->listener", "response listener->dialer"}[d]
										if big {
											w, rd := c02End{p, d == 1}, c02End{p, d == 0}
											if d == 1 {
												if _, err := p.server(); err != nil {
													prob = &memconn.Problem{Key: "stream-not-dispatched", Desc: err.Error()}
													return
												}
											}
											ct := &memconn.Concurrent{W: w, R: rd, Payload: payload, Writes: sp.Sizes, Buf: b.Buf, Zeros: pol.Zeros,
												ReadSize: func(received int) int { return pol.Size(L - received) }}
											ct.Arm = rd.arm
											prob = ct.Run()
											b.Buf = ct.Buf
										} else {
											tr := p.transfer(d == 0, payload, sp.Sizes, each, pol, b.Buf)
											prob = tr.Run()
											b.Buf = tr.Buf
										}
										if prob != nil {
											return
										}
									}
									c.Step = "close"
									p.cli.Close()
									if s, err := p.server(); err == nil {
										s.Close()
									}
									done++
								}
							})
							if c02File(b, pan, infra, prob, c) {
								c.Step = ""
								for i := 0; i < done; i++ {
									b.Transfers += 2
									r.Outcome(stack + " " + neg + " request+response delivered intact")
									if L > 0 {
										c.Policy, c.Stream = pols[i].Name, i
										b.Distinct(c, stack, neg, sp.Sizes, short, each, i)
									}
								}
							}
						}
					}
				}
			}
		}
	}
}

// ---------- interleaved streams ----------

// c02Orders enumerates all sequences over stream indices 0..n-1 in which every index occurs exactly k times
// (each stream's chunks stay in order; which stream writes next is the choice).
func c02Orders(n, k int) [][]int {
	var out [][]int
	left := make([]int, n)
	for i := range left {
		left[i] = k
	}
	var cur []int
	var rec func()
	rec = func() {
		if len(cur) == n*k {
			out = append(out, append([]int(nil), cur...))
			return
		}
		for s := 0; s < n; s++ {
			if left[s] > 0 {
				left[s]--
				cur = append(cur, s)
				rec()
				cur = cur[:len(cur)-1]
				left[s]++
			}
		}
	}
	rec()
	return out
}

func TestVerifC02StreamInterleave(t *testing.T) {
	r := vrep.New("C02", "stream-interleave")
	defer r.Flush()
	sec, err := c02NewSec()
	if err != nil {
		r.Cap("infrastructure: %v", err)
		return
	}
	b := memconn.NewBook(r)
	defer b.Finish()
	thorough := vrep.Thorough()
	type shape struct {
		n, k   int
		chunks [][]int // per stream
	}
	shapes := []shape{
		{2, 3, [][]int{{1, 4097, 70000}, {70000, 1, 4097}}},
		{2, 3, [][]int{{5, 6, 7}, {1000, 2000, 3000}}},
		{3, 2, [][]int{{1, 70000}, {4097, 4097}, {70000, 1}}},
	}
	if thorough {
		shapes = append(shapes,
			shape{2, 3, [][]int{{65524, 65524, 65524}, {65525, 1, 65523}}},
			shape{3, 2, [][]int{{3, 4}, {5, 6}, {7, 8}}},
			shape{3, 2, [][]int{{100000, 100000}, {1, 1}, {65536, 65536}}})
	}
	shorts := [][]int{{0}, {7}}
	readers := []string{"after-all:in-order", "after-all:reverse", "after-each-chunk"}
	// the third policy interleaves zero-length Reads (one with len(buf)=0 before every Read)
	pols := []memconn.Policy{memconn.Fixed(70001), memconn.Fixed(1000), memconn.Fixed(1000).WithZeros(1)}
	if thorough {
		shorts = append(shorts, []int{1})
		pols = append(pols, memconn.Fixed(1), memconn.Rel(-1))
	}
	var ipn []string
	for _, p := range pols {
		ipn = append(ipn, p.Name)
	}
	r.Bounds["read_policies"] = ipn
	var sd []string
	for _, s := range shapes {
		sd = append(sd, fmt.Sprintf("%d streams x %d chunks %v: %d orders", s.n, s.k, s.chunks, len(c02Orders(s.n, s.k))))
	}
	r.Bounds["shapes"] = sd
	r.Bounds["directions"] = "all dialer->listener (the first chunk carries the lazy handshake) | mixed (1-byte request on every stream first, then odd streams flow listener->dialer)"
	r.Bounds["readers"] = readers
	r.Bounds["short_read_patterns"] = shorts
	r.Bounds["negotiation"] = c02Negs
	r.Bounds["stacks"] = c02Stacks
	r.Bounds["order"] = "harness-driven: one chunk Write at a time, bubble quiescence (synctest.Wait) between steps; no preemption inside yamux is explored"
	for _, stack := range c02Stacks {
		for _, neg := range c02Negs {
			for si, sh := range shapes {
				for oi, order := range c02Orders(sh.n, sh.k) {
					if !b.Mine(stack, neg, si, oi) {
						continue
					}
					for _, dirs := range []string{"c2s", "mixed"} {
						for _, short := range shorts {
							if !thorough && (stack == "yamux/noise" || dirs == "mixed") && short[0] != 0 {
								continue
							}
							for ri, reader := range readers {
								for pi, pol := range pols {
									if !thorough && pi != (oi+ri)%len(pols) {
										continue // quick: one read size per (order, reader), alternating
									}
									if b.Over() {
										return
									}
									c := c02Case{Scenario: "interleave", Stack: stack, Neg: neg, Short: short, Order: fmt.Sprint(order), Chunks: nil, Dirs: dirs, Policy: pol.Name + " " + reader}
									for _, ch := range sh.chunks {
										c.Chunks = append(c.Chunks, ch...)
									}
									var prob *memconn.Problem
									var infra error
									pan := memconn.Bubble(t, func() {
										prob, infra = c02Interleave(sec, &c, sh.n, sh.chunks, order, reader, pol, &b.Buf)
									})
									if c02File(b, pan, infra, prob, c) {
										b.Transfers += int64(sh.n)
										r.Outcome(fmt.Sprintf("%d streams x %d chunks interleaved, all delivered intact (%s)", sh.n, sh.k, dirs))
										b.Distinct(c, stack, neg, si, oi, dirs, short, reader, pol.Name)
									}
								}
							}
						}
					}
				}
			}
		}
	}
}

func c02Interleave(sec *c02Sec, c *c02Case, n int, chunks [][]int, order []int, reader string, pol memconn.Policy, buf *[]byte) (*memconn.Problem, error) {
	m, err := c02NewMux(sec, c.Stack, c.Short)
	if err != nil {
		return nil, err
	}
	defer m.close()
	trs := make([]*memconn.Transfer, n)
	for s := 0; s < n; s++ {
		p, err := m.open(s, c.Neg)
		if err != nil {
			return nil, err
		}
		toServer := true
		if c.Dirs == "mixed" {
			// establish the stream in both directions with a checked 1-byte request
			c.Step = fmt.Sprintf("stream %d: 1-byte request", s)
			w := p.transfer(true, []byte{byte(0xA0 + s)}, []int{1}, false, memconn.Fixed(8), *buf)
			if prob := w.Run(); prob != nil {
				return prob, nil
			}
			toServer = s%2 == 0
		}
		L := 0
		for _, x := range chunks[s] {
			L += x
		}
		trs[s] = p.transfer(toServer, memconn.Pattern(uint64(0x1E4F000+s), L), chunks[s], false, pol, *buf)
	}
	next := make([]int, n)
	for step, s := range order {
		c.Step = fmt.Sprintf("step %d: stream %d writes chunk %d", step, s, next[s])
		if prob := trs[s].WriteOne(next[s]); prob != nil {
			return prob, nil
		}
		next[s]++
		synctest.Wait() // the chunk is on the wire and demultiplexed before the next one is written
		if reader == "after-each-chunk" {
			c.Step = fmt.Sprintf("after step %d: stream %d reads", step, s)
			if prob := trs[s].Drain(); prob != nil {
				return prob, nil
			}
		}
	}
	idx := make([]int, n)
	for i := range idx {
		idx[i] = i
		if reader == "after-all:reverse" {
			idx[i] = n - 1 - i
		}
	}
	for _, s := range idx {
		c.Step = fmt.Sprintf("final read of stream %d", s)
		if prob := trs[s].Drain(); prob != nil {
			return prob, nil
		}
		*buf = trs[s].Buf
	}
	c.Step = ""
	return nil, nil
}

// ---------- half-close ----------

// A half-close script is a sequence of steps over the two ends of one stream:
//
//	cw<N> / sw<N>  dialer / listener writes the next N bytes of its payload (one Write)
//	cc / sc        dialer / listener calls CloseWrite
//	cr / sr        dialer / listener reads everything the other end has written so far
//	ce / se        dialer / listener reads once more and the result is classified (EOF expected, not judged)
var c02HalfCloseScripts = []string{
	// request, half-close, the listener reads to the end, answers, half-closes, the dialer reads the answer
	"cw:A cc sr se sw:B sc cr ce",
	// both ends write and half-close before anybody reads
	"cw:A sw:0 cc sw:B sc cr sr ce se",
	// the dialer half-closes first and keeps reading while the listener sends in two parts
	"cw:A cc sw:B cr sw:B cr sc sr ce se",
	// the dialer never writes: CloseWrite alone has to flush the lazy handshake, the answer must still arrive
	"cc sw:B cr sw:B sc cr ce se",
	// the listener half-closes first, the dialer keeps writing
	"cw:A sr sc cw:A sr cc sr ce se",
	// half-close in the middle of a read: partly drained data before the CloseWrite of the other end
	"cw:A cw:A cc sr sw:B sw:B sc cr se ce",
}

func TestVerifC02StreamHalfClose(t *testing.T) {
	r := vrep.New("C02", "stream-halfclose")
	defer r.Flush()
	sec, err := c02NewSec()
	if err != nil {
		r.Cap("infrastructure: %v", err)
		return
	}
	b := memconn.NewBook(r)
	defer b.Finish()
	thorough := vrep.Thorough()
	sizes := [][2]int{{1, 1}, {4096, 1}, {1, 65536}, {70000, 70000}}
	// the last policy interleaves zero-length Reads (len(buf)=0), also around the half-close and as the "one more Read"
	pols := []memconn.Policy{memconn.Fixed(1), memconn.Fixed(4096), memconn.Rel(0), memconn.Rel(1), memconn.Fixed(4096).WithZeros(1)}
	shorts := [][]int{{0}, {7}}
	if thorough {
		sizes = append(sizes, [2]int{4068, 4069}, [2]int{65535, 3}, [2]int{100000, 120000})
		pols = append(pols, memconn.Fixed(2), memconn.Fixed(65536), memconn.Rel(-1), memconn.Rel(0).WithZeros(2, 0))
		shorts = append(shorts, []int{1})
	}
	r.Bounds["scripts(cw/sw = dialer/listener Write, cc/sc = CloseWrite, cr/sr = read all written so far, ce/se = one more Read)"] = c02HalfCloseScripts
	r.Bounds["chunk_sizes(A,B)"] = sizes
	r.Bounds["short_read_patterns"] = shorts
	r.Bounds["negotiation"] = c02Negs
	r.Bounds["stacks"] = c02Stacks
	var pn []string
	for _, p := range pols {
		pn = append(pn, p.Name)
	}
	r.Bounds["read_policies"] = pn
	r.Bounds["end_of_stream"] = "the muxed stream under swarm.Stream returns the last bytes before io.EOF (yamux) | together with io.EOF, once the peer's CloseWrite has arrived (QUIC-like; adaptor over the yamux stream)"
	for _, stack := range c02Stacks {
		for _, neg := range c02Negs {
			for si, script := range c02HalfCloseScripts {
				for _, sz := range sizes {
					if !b.Mine(stack, neg, si, sz) {
						continue
					}
					for _, short := range shorts {
						if !thorough && stack == "yamux/noise" && short[0] != 0 {
							continue
						}
						for _, pol := range pols {
							for _, join := range []bool{false, true} {
								if b.Over() {
									return
								}
								c := c02Case{Scenario: "half-close", Stack: stack, Neg: neg, Short: short, Script: script, Chunks: []int{sz[0], sz[1]}, Policy: pol.Name, EOFWithData: join}
								var prob *memconn.Problem
								var infra error
								var ends string
								pan := memconn.Bubble(t, func() {
									prob, infra, ends = c02HalfClose(sec, &c, script, sz, pol, &b.Buf)
								})
								if c02File(b, pan, infra, prob, c) {
									b.Transfers += 2
									how := ""
									if join {
										how = " (muxed stream returns its last bytes together with io.EOF)"
									}
									r.Outcome("half-close script " + fmt.Sprint(si) + how + ": all bytes delivered; reads after the end: " + ends)
									b.Distinct(c, stack, neg, si, sz, short, pol.Name, join)
								}
							}
						}
					}
				}
			}
		}
	}
}

func c02HalfClose(sec *c02Sec, c *c02Case, script string, sz [2]int, pol memconn.Policy, buf *[]byte) (*memconn.Problem, error, string) {
	m, err := c02NewMuxOpt(sec, c.Stack, c.Short, c.EOFWithData)
	if err != nil {
		return nil, err, ""
	}
	defer m.close()
	p, err := m.open(0, c.Neg)
	if err != nil {
		return nil, err, ""
	}
	steps := strings.Fields(script)
	// the write sizes of each end, in script order
	var cw, sw []int
	for _, st := range steps {
		n := 0
		switch {
		case strings.HasSuffix(st, ":A"):
			n = sz[0]
		case strings.HasSuffix(st, ":B"):
			n = sz[1]
		}
		switch st[:2] {
		case "cw":
			cw = append(cw, n)
		case "sw":
			sw = append(sw, n)
		}
	}
	sum := func(w []int) int {
		t := 0
		for _, x := range w {
			t += x
		}
		return t
	}
	c2s := p.transfer(true, memconn.Pattern(0x4A1F01, sum(cw)), cw, false, pol, *buf)
	s2c := p.transfer(false, memconn.Pattern(0x4A1F02, sum(sw)), sw, false, pol, *buf)
	ci, si := 0, 0
	var ends []string
	for i, st := range steps {
		c.Step = fmt.Sprintf("step %d (%s)", i, st)
		var prob *memconn.Problem
		switch st[:2] {
		case "cw":
			prob = c2s.WriteOne(ci)
			ci++
		case "sw":
			if _, err := p.server(); err != nil && si == 0 {
				// the listener can only speak once the stream was dispatched to it
				return &memconn.Problem{Key: "stream-not-dispatched", Desc: err.Error()}, nil, ""
			}
			prob = s2c.WriteOne(si)
			si++
		case "cc":
			if err := p.cli.CloseWrite(); err != nil {
				prob = &memconn.Problem{Key: "closewrite-failed-on-healthy-stream", Desc: fmt.Sprintf("dialer CloseWrite: %v", err)}
			}
		case "sc":
			var s network.Stream
			s, err := p.server()
			if err != nil {
				return &memconn.Problem{Key: "stream-not-dispatched", Desc: err.Error()}, nil, ""
			}
			if err := s.CloseWrite(); err != nil {
				prob = &memconn.Problem{Key: "closewrite-failed-on-healthy-stream", Desc: fmt.Sprintf("listener CloseWrite: %v", err)}
			}
		case "sr":
			prob = c2s.Drain()
		case "cr":
			prob = s2c.Drain()
		case "se", "ce":
			tr := c2s
			if st == "ce" {
				tr = s2c
			}
			var cls string
			cls, prob = c02ReadEnd(tr)
			ends = append(ends, st+"="+cls)
		}
		if prob != nil {
			return prob, nil, ""
		}
		synctest.Wait()
		// the CloseWrite has arrived at the other end: the last Write may now be read together with the end
		switch st[:2] {
		case "cc":
			c2s.WriterClosed = true
			if j := m.join(p.k, true); j != nil {
				j.arm()
			}
		case "sc":
			s2c.WriterClosed = true
			if j := m.join(p.k, false); j != nil {
				j.arm()
			}
		}
	}
	if c.EOFWithData {
		joined := 0
		for _, server := range []bool{false, true} {
			if j := m.join(p.k, server); j != nil {
				joined += j.joined
			}
		}
		ends = append(ends, fmt.Sprintf("reads that returned bytes together with io.EOF: %v", joined > 0))
	}
	*buf = c2s.Buf
	c.Step = ""
	// everything written must have been read by the end of the script (the scripts end with reads)
	if c2s.Received != c2s.Accepted || s2c.Received != s2c.Accepted || ci != len(cw) || si != len(sw) {
		return nil, fmt.Errorf("harness: script %q leaves unread or unwritten data", script), ""
	}
	return nil, nil, strings.Join(ends, ",")
}

// c02ReadEnd: one more Read after everything was received and the writer half-closed: no byte may come.
func c02ReadEnd(tr *memconn.Transfer) (string, *memconn.Problem) {
	if tr.Arm != nil {
		tr.Arm()
	}
	for i := 0; i < 4; i++ {
		n, err, prob := tr.ReadOnce()
		if prob != nil {
			return "", prob
		}
		if err == io.EOF {
			return "EOF", nil
		}
		if err != nil {
			return memconn.ErrClass(err), nil
		}
		if n == 0 {
			continue
		}
	}
	return "zero-reads", nil
}

// ---------- concurrent streams ----------

func TestVerifC02StreamConcurrent(t *testing.T) {
	r := vrep.New("C02", "stream-concurrent")
	defer r.Flush()
	sec, err := c02NewSec()
	if err != nil {
		r.Cap("infrastructure: %v", err)
		return
	}
	b := memconn.NewBook(r)
	defer b.Finish()
	thorough := vrep.Thorough()
	pols := []memconn.Policy{memconn.Fixed(4096), memconn.Fixed(65536), memconn.Fixed(300001), memconn.Fixed(4096).WithZeros(1)}
	shorts := [][]int{{0}, {7}}
	if thorough {
		pols = append(pols, memconn.Fixed(1000), memconn.Fixed(17), memconn.Fixed(65536).WithZeros(0, 2))
		shorts = append(shorts, []int{1}, []int{4096})
	}
	r.Bounds["shape"] = "3 streams, each: dialer->listener 300000 bytes (writes of 100000) and listener->dialer 100000 bytes (writes of 33333/33333/33334) at the same time; 12 goroutines; the interleaving is the Go scheduler's (not enumerated)"
	r.Bounds["short_read_patterns"] = shorts
	for _, stack := range c02Stacks {
		for _, neg := range c02Negs {
			for _, short := range shorts {
				for pi, pol := range pols {
					if !b.Mine(stack, neg, short, pi) {
						continue
					}
					if b.Over() {
						return
					}
					c := c02Case{Scenario: "concurrent", Stack: stack, Neg: neg, Short: short, Policy: pol.Name}
					var prob *memconn.Problem
					var infra error
					pan := memconn.Bubble(t, func() {
						m, err := c02NewMux(sec, stack, short)
						if err != nil {
							infra = err
							return
						}
						defer m.close()
						type res struct {
							what string
							p    *memconn.Problem
						}
						ch := make(chan res, 6)
						for s := 0; s < 3; s++ {
							p, err := m.open(s, neg)
							if err != nil {
								infra = err
								return
							}
							// a checked 1-byte request establishes the stream on both sides
							if prob = p.transfer(true, []byte{byte(s)}, []int{1}, false, memconn.Fixed(4), nil).Run(); prob != nil {
								return
							}
							up := &memconn.Concurrent{W: c02End{p, false}, R: c02End{p, true}, Payload: memconn.Pattern(uint64(0xC0C000+s), 300000), Writes: []int{100000, 100000, 100000}, Zeros: pol.Zeros,
								ReadSize: func(int) int { return pol.D }, Arm: c02End{p, true}.arm}
							down := &memconn.Concurrent{W: c02End{p, true}, R: c02End{p, false}, Payload: memconn.Pattern(uint64(0xC0D000+s), 100000), Writes: []int{33333, 33333, 33334}, Zeros: pol.Zeros,
								ReadSize: func(int) int { return pol.D }, Arm: c02End{p, false}.arm}
							s := s
							go func() { ch <- res{fmt.Sprintf("stream %d dialer->listener", s), up.Run()} }()
							go func() { ch <- res{fmt.Sprintf("stream %d listener->dialer", s), down.Run()} }()
						}
						for i := 0; i < 6; i++ {
							if x := <-ch; x.p != nil && prob == nil {
								prob, c.Step = x.p, x.what
							}
						}
					})
					if c02File(b, pan, infra, prob, c) {
						b.Transfers += 6
						r.Outcome("3 concurrent bidirectional streams delivered intact")
						b.Distinct(c, stack, neg, short, pol.Name)
					}
				}
			}
		}
	}
}

// ---------- the listener speaks first ----------

func TestVerifC02StreamListenerFirst(t *testing.T) {
	r := vrep.New("C02", "stream-listener-first")
	defer r.Flush()
	sec, err := c02NewSec()
	if err != nil {
		r.Cap("infrastructure: %v", err)
		return
	}
	b := memconn.NewBook(r)
	defer b.Finish()
	thorough := vrep.Thorough()
	lengths := []int{1, 4068, 70000, 300000}
	shorts := [][]int{{0}, {7}}
	if thorough {
		lengths = append(lengths, 2, 4096, 65536, 262145)
		shorts = append(shorts, []int{1})
	}
	r.Bounds["shape"] = "fresh stream; the dialer's first call is Read (in the harness goroutine) while the listener - as soon as the stream was dispatched to its handler - writes L bytes; then the dialer answers with L bytes"
	r.Bounds["L"] = lengths
	r.Bounds["short_read_patterns"] = shorts
	r.Bounds["read_sizes"] = "1 (L <= 70000), 4096, L+1, and 4096 with a zero-length Read (len(buf)=0) before every Read: the dialer's first call on the fresh stream is then a Read with an empty buffer"
	for _, stack := range c02Stacks {
		for _, neg := range c02Negs {
			for _, L := range lengths {
				for _, short := range shorts {
					for _, pol := range append(memconn.Policies([]int{1, 4096, L + 1}, nil), memconn.Fixed(4096).WithZeros(1)) {
						if pol.D == 1 && L > 70000 {
							continue
						}
						if !b.Mine(stack, neg, L, short, pol.Name) {
							continue
						}
						if b.Over() {
							return
						}
						c := c02Case{Scenario: "listener-first", Stack: stack, Neg: neg, Short: short, L: L, Policy: pol.Name}
						var prob *memconn.Problem
						var infra error
						pan := memconn.Bubble(t, func() {
							m, err := c02NewMux(sec, stack, short)
							if err != nil {
								infra = err
								return
							}
							defer m.close()
							p, err := m.open(0, neg)
							if err != nil {
								infra = err
								return
							}
							c.Step = "listener->dialer, dialer reads first"
							third := L / 3
							down := &memconn.Concurrent{W: c02End{p, true}, R: c02End{p, false}, Payload: memconn.Pattern(0xF1257, L), Writes: []int{third, third, L - 2*third}, Zeros: pol.Zeros,
								ReadSize: func(int) int { return pol.D }, Arm: c02End{p, false}.arm, Buf: b.Buf}
							if prob = down.Run(); prob != nil {
								return
							}
							b.Buf = down.Buf
							c.Step = "answer dialer->listener"
							if L <= 200000 {
								tr := p.transfer(true, memconn.Pattern(0xF1258, L), []int{L}, false, pol, b.Buf)
								prob = tr.Run()
							} else {
								up := &memconn.Concurrent{W: c02End{p, false}, R: c02End{p, true}, Payload: memconn.Pattern(0xF1258, L), Writes: []int{L}, Zeros: pol.Zeros,
									ReadSize: func(int) int { return pol.D }, Arm: c02End{p, true}.arm, Buf: b.Buf}
								prob = up.Run()
							}
						})
						if c02File(b, pan, infra, prob, c) {
							b.Transfers += 2
							r.Outcome(stack + " " + neg + " listener-first exchange delivered intact")
							b.Distinct(c, stack, neg, L, short, pol.Name)
						}
					}
				}
			}
		}
	}
}

// ---------- read faults: the stream / the connection ends or breaks while bytes are in flight ----------

// TestVerifC02StreamReadFaults. One fresh connection and stream per run; a checked 1-byte request establishes the
// stream on both sides; then the writer of the chosen direction writes L bytes and bubble quiescence makes sure
// they all sit in the reader's muxer; then
//
//	level "muxed stream" (adaptor c02JoinStream between the yamux stream and swarm.Stream):
//	  eof      the writer calls CloseWrite; the muxed stream hands out its last bytes with / before io.EOF
//	                                                                             -> all L bytes must arrive
//	  reset    the muxed stream breaks (network.ErrReset) after Pos of the L bytes, the error with / after the
//	           segment that ends there;  timeout: the same with an expired deadline, error with the segment
//	level "connection" (the raw connection under yamux, or under Noise under yamux; dialer->listener only):
//	  reset / conn-eof / timeout after Pos of the W wire bytes of the L-byte write, the error with the segment
//	  that ends there (reset also after it): the yamux session dies with stream data in flight
//
// and the reader reads on for 6 Reads after its first error. Oracle (memconn.FaultResult.Judge): every byte ever
// returned - by the Read that reports the error too - is the byte written at that position of THIS stream, and
// never more than was written; eof: everything arrived.
func TestVerifC02StreamReadFaults(t *testing.T) {
	r := vrep.New("C02", "stream-readfaults")
	defer r.Flush()
	sec, err := c02NewSec()
	if err != nil {
		r.Cap("infrastructure: %v", err)
		return
	}
	b := memconn.NewBook(r)
	defer b.Finish()
	thorough := vrep.Thorough()
	lengths := []int{1, 4097, 70000}
	shorts := [][]int{{0}, {7}}
	pols := []memconn.Policy{memconn.Fixed(1), memconn.Fixed(4096), memconn.Rel(0), memconn.Fixed(4096).WithZeros(1)}
	if thorough {
		lengths = append(lengths, 4096, 200000)
		pols = append(pols, memconn.Fixed(65536), memconn.Rel(-1), memconn.Rel(0).WithZeros(0, 1))
	}
	r.Bounds["L"] = lengths
	r.Bounds["write_splits"] = "whole, thirds"
	var pn []string
	for _, p := range pols {
		pn = append(pn, p.Name)
	}
	r.Bounds["read_policies(r=1 only for L <= 4097)"] = pn
	r.Bounds["short_read_patterns"] = shorts
	r.Bounds["negotiation"] = c02Negs
	r.Bounds["stacks"] = c02Stacks
	r.Bounds["muxed_stream_level"] = "both directions; eof {last bytes with | before io.EOF}; at Pos in {1,2,3,L/2,L-2,L-1,L}: reset with the segment, reset after the segment (control), expired deadline with the segment"
	r.Bounds["connection_level"] = "dialer->listener; at Pos in {1,2,3,W/2,W-2,W-1,W,11,12,13,14} of the W wire bytes of the write (probe run): reset with the segment, reset after the segment, conn-eof with the segment, expired deadline with the segment"
	r.Bounds["reads_after_first_error"] = 6
	if !thorough {
		r.Bounds["quick_reduction"] = "muxed-stream level only over plain yamux with unlimited reads underneath (the adaptor sits above the muxer)"
	}
	for _, stack := range c02Stacks {
		for _, neg := range c02Negs {
			for _, L := range lengths {
				payload := memconn.Pattern(0x57FA17+uint64(L), L)
				for _, sp := range memconn.Splits(L, nil, 0) {
					if sp.Name != "whole" && sp.Name != "thirds" {
						continue
					}
					for _, short := range shorts {
						if !thorough && stack == "yamux/noise" && short[0] != 0 {
							continue
						}
						// ---- muxed-stream level ----
						for _, dir := range []string{"dialer->listener", "listener->dialer"} {
							if !thorough && (stack != "yamux" || short[0] != 0) {
								break // quick: the adaptor sits above the muxer: what is underneath yamux does not matter to it
							}
							for fi, f := range memconn.Faults(L, nil) {
								if !b.Mine(stack, neg, L, sp.Name, short, dir, fi) {
									continue
								}
								for _, pol := range pols {
									if pol.D == 1 && !pol.Rel && L > 4097 {
										continue
									}
									if b.Over() {
										return
									}
									f := f
									c := c02Case{Scenario: "read-fault", Level: "muxed stream", Stack: stack, Neg: neg, Short: short, L: L, Split: sp.Name, Writes: c02ShortWrites(sp.Sizes), Policy: pol.Name, Dirs: dir, Fault: &f, EOFWithData: f.Kind == "eof" && f.WithData}
									var res memconn.FaultResult
									var infra error
									pan := memconn.Bubble(t, func() { res, infra = c02StreamFault(sec, &c, payload, sp.Sizes, pol, f, 0, &b.Buf) })
									c02FileFault(b, pan, infra, res, f, L, c, stack, neg, L, sp.Name, short, dir, fi, pol.Name)
								}
							}
						}
						// ---- connection level ----
						if L < 2 || sp.Name != "whole" {
							continue
						}
						c := c02Case{Scenario: "read-fault", Level: "connection", Stack: stack, Neg: neg, Short: short, L: L, Split: sp.Name, Dirs: "dialer->listener"}
						var probe memconn.FaultResult
						var infra error
						pan := memconn.Bubble(t, func() {
							probe, infra = c02StreamFault(sec, &c, payload, sp.Sizes, pols[1], memconn.ReadFault{}, -1, &b.Buf)
						})
						if pan != "" || infra != nil || probe.W < L {
							r.Cap("infrastructure: connection-level probe of %s/%s L=%d: W=%d %v %s", stack, neg, L, probe.W, infra, pan)
							continue
						}
						var faults []memconn.ReadFault
						for _, pos := range memconn.FaultPositions(probe.W, []int{11, 12, 13, 14}) {
							faults = append(faults,
								memconn.ReadFault{Kind: "reset", WithData: true, Pos: pos, W: probe.W},
								memconn.ReadFault{Kind: "reset", Pos: pos, W: probe.W},
								memconn.ReadFault{Kind: "conn-eof", WithData: true, Pos: pos, W: probe.W},
								memconn.ReadFault{Kind: "timeout", WithData: true, Pos: pos, W: probe.W})
						}
						for fi, f := range faults {
							if !b.Mine(stack, neg, L, "conn", short, fi) {
								continue
							}
							for pi, pol := range pols {
								if pi == 0 || pi == 3 {
									continue // the connection level uses r=4096 and r=remaining
								}
								if b.Over() {
									return
								}
								f := f
								c.Policy, c.Fault = pol.Name, &f
								var res memconn.FaultResult
								pan := memconn.Bubble(t, func() { res, infra = c02StreamFault(sec, &c, payload, sp.Sizes, pol, f, 1, &b.Buf) })
								c02FileFault(b, pan, infra, res, f, L, c, stack, neg, L, "conn", short, fi, pol.Name)
							}
						}
					}
				}
			}
		}
	}
}

func c02FileFault(b *memconn.Book, pan string, infra error, res memconn.FaultResult, f memconn.ReadFault, L int, c c02Case, key ...any) {
	switch {
	case pan != "" && strings.Contains(pan, "blocked goroutines remain") && res.Problem == nil && infra == nil:
		b.N++
		b.R.Outcome("goroutines left after teardown (not judged)")
		return
	case infra != nil && pan == "":
		b.N++
		b.Transfers++
		b.R.Violate("stream:baseline-setup-failed", infra.Error(), c)
		b.R.Outcome("VIOLATION baseline-setup-failed")
		return
	}
	res.Panic = pan
	if cls := b.ReadFault("stream/"+c.Level, res, f, L, c); cls != "" {
		b.Distinct(c, key...)
	}
}

// c02StreamFault runs one read-fault case. level 0: muxed-stream level; level 1: connection level; level -1:
// connection-level probe (returns W = wire bytes the listener's raw end received for the write).
func c02StreamFault(sec *c02Sec, c *c02Case, payload []byte, writes []int, pol memconn.Policy, f memconn.ReadFault, level int, buf *[]byte) (res memconn.FaultResult, infra error) {
	m, err := c02NewMuxOpt(sec, c.Stack, c.Short, level == 0)
	if err != nil {
		return res, err
	}
	defer m.close()
	p, err := m.open(0, c.Neg)
	if err != nil {
		return res, err
	}
	// a checked 1-byte request establishes the stream on both sides (handshake done, handler dispatched)
	if res.Problem = p.transfer(true, []byte{0x5A}, []int{1}, false, memconn.Fixed(8), nil).Run(); res.Problem != nil {
		return res, nil
	}
	toServer := c.Dirs != "listener->dialer"
	tr := p.transfer(toServer, payload, writes, false, pol, *buf)
	defer func() { *buf = tr.Buf }()
	if level != 0 {
		base := m.cb.Stats().BytesRead
		if level == 1 {
			m.cb.FailReadAfter(int64(f.Pos), f.Err(), f.WithData)
		}
		// the connection may die while the dialer is still writing: its Write results are not judged here
		w := c02End{p, false}
		off := 0
		for _, n := range writes {
			k, err := w.Write(append([]byte(nil), payload[off:off+n]...))
			off += k
			if err != nil {
				break
			}
		}
		tr.Accepted = len(payload) // everything the writer ever tried to send on this stream
		synctest.Wait()
		res.W = int(m.cb.Stats().BytesRead - base)
		if level < 0 {
			return res, nil
		}
		res.Obs, res.Problem = tr.ReadTampered(6)
		return res, nil
	}
	if res.Problem = tr.WriteAll(); res.Problem != nil {
		return res, nil
	}
	synctest.Wait()
	j := m.join(p.k, toServer)
	if j == nil {
		return res, fmt.Errorf("harness: no adaptor under the reading end")
	}
	if f.Kind == "eof" {
		ws, err := c02End{p, !toServer}.stream()
		if err != nil {
			return res, err
		}
		if err := ws.CloseWrite(); err != nil {
			res.Problem = &memconn.Problem{Key: "closewrite-failed-on-healthy-stream", Desc: err.Error()}
			return res, nil
		}
		synctest.Wait()
		tr.WriterClosed = true
		if f.WithData {
			j.arm()
		}
	} else {
		e := f.Err()
		if f.Kind == "reset" {
			e = network.ErrReset
		}
		j.failAfter(int64(f.Pos), e, f.WithData)
	}
	res.Obs, res.Problem = tr.ReadTampered(6)
	return res, nil
}
