//go:build verif

package basichost

// C02 part "stream", deadlines: a Read (Write) that returns bytes AND an error - with the REAL muxer.
//
// go-yamux's Stream.Read copies buffered bytes out first and only then sends the window update that may be due
// (after half a receive window - 128 KiB - was consumed; on the very first Read of an accepted stream it also
// carries the ACK); that send fails when the read deadline has expired: Read returns (n > 0, ErrTimeout) and the n
// bytes are gone from the receive buffer. Likewise Stream.Write returns (n > 0, ErrTimeout) when the write
// deadline expires while it waits for the peer's window after part of the data went out. A timeout is a
// temporary condition (net.Error, Timeout()): a reader / writer that goes on after it must see / produce the
// byte stream without a hole and without a repetition - through the yamux wrapper (p2p/muxer/yamux/stream.go)
// alone and through swarm.Stream + the host's stream wrappers above it.
//
//	TestVerifC02StreamReadDeadlines   stream A carries L bytes (above the window-update threshold, all buffered at
//	                                  the reader before it starts), a second stream B is active on the same
//	                                  connection (chunks before / in the middle of / after A's reads, same or
//	                                  opposite direction); the reader of A reads with a fixed buffer size, and the
//	                                  deadline plan says for which Read calls an expired deadline is in force:
//	                                  exactly the i-th (every i: every point of the transfer), all of them,
//	                                  every second one; expired = set in the past | set ahead and passed (virtual
//	                                  time) before the call; plus a Read that blocks on an empty buffer until its
//	                                  deadline passes, at every chunk boundary of a three-part write.
//	TestVerifC02StreamWriteDeadlines  a Write larger than the peer's window with a write deadline that passes
//	                                  while it waits: the writer continues after the bytes Write reported.
//
// Oracle: every byte Read returns - together with an error too - is the byte written at that position; the only
// error a reader with deadlines may get on a healthy connection is a timeout; once the deadline is lifted all L
// bytes arrive (a virtual hour without progress = bytes lost).

import (
	"context"
	"errors"
	"fmt"
	"io"
	"net"
	"os"
	"strings"
	"testing"
	"testing/synctest"
	"time"

	"github.com/libp2p/go-libp2p/x/verif/memconn"
	"github.com/libp2p/go-libp2p/x/verif/vrep"
)

type c02DLCase struct {
	Scenario string `json:"scenario"`
	Level    string `json:"level"`
	Stack    string `json:"stack"`
	Neg      string `json:"negotiation,omitempty"`
	Dir      string `json:"direction"`
	Short    []int  `json:"short_reads_underneath"`
	L        int    `json:"L"`
	Writes   []int  `json:"writes,omitempty"`
	R        int    `json:"read_buffer"`
	Plan     string `json:"deadline_plan"`
	Index    int    `json:"read_call_with_the_deadline"`
	Other    string `json:"other_stream"`
	Step     string `json:"failed_at,omitempty"`
}

// c02RWD is one end of a stream as the deadline scenarios use it.
type c02RWD interface {
	io.Reader
	io.Writer
	SetReadDeadline(time.Time) error
	SetWriteDeadline(time.Time) error
}

type c02EndD struct{ c02End }

func (e c02EndD) SetReadDeadline(t time.Time) error {
	s, err := e.stream()
	if err != nil {
		return err
	}
	return s.SetReadDeadline(t)
}

func (e c02EndD) SetWriteDeadline(t time.Time) error {
	s, err := e.stream()
	if err != nil {
		return err
	}
	return s.SetWriteDeadline(t)
}

func c02Timeout(err error) bool {
	var ne net.Error
	return errors.Is(err, os.ErrDeadlineExceeded) || (errors.As(err, &ne) && ne.Timeout())
}

// c02DLStreams sets up the connection and two streams A and B on it and returns, for each, the end that writes
// and the end that reads in the chosen direction. level "yamux": the muxer's streams as OpenStream /
// AcceptStream return them (p2p/muxer/yamux wrapper only); direction "opener->acceptor": the reader's first Read
// on A is the first Read of an accepted stream. level "host": swarm.Stream + streamWrapper / newStreamHandler as
// in the other scenarios, established by a checked 1-byte request.
func c02DLStreams(sec *c02Sec, c *c02DLCase, otherSame bool) (m *c02Mux, aW, aR, bW, bR c02RWD, prob *memconn.Problem, err error) {
	toAcceptor := c.Dir == "opener->acceptor" || c.Dir == "dialer->listener"
	if c.Level == "yamux" {
		if m, err = c02NewMuxRaw(sec, c.Stack, c.Short, false); err != nil {
			return
		}
		var ends [2][2]c02RWD // [stream][0 = opener's end, 1 = acceptor's end]
		for k := 0; k < 2; k++ {
			cs, e := m.cli.OpenStream(context.Background())
			if e != nil {
				err = fmt.Errorf("OpenStream: %w", e)
				return
			}
			// A in the direction opener->acceptor stays untouched at the acceptor: the reader's first Read is the
			// first Read of an accepted stream (go-yamux then has the ACK to send). Every other stream is
			// established in both directions with a marker byte.
			first := k == 0 && toAcceptor
			if !first {
				if _, e := cs.Write([]byte{0x5A}); e != nil {
					err = fmt.Errorf("marker write: %w", e)
					return
				}
			}
			ends[k][0] = cs
			synctest.Wait()
			ss, e := m.srv.AcceptStream()
			if e != nil {
				err = fmt.Errorf("AcceptStream: %w", e)
				return
			}
			if !first {
				var mk [1]byte
				if _, e := io.ReadFull(ss, mk[:]); e != nil || mk[0] != 0x5A {
					err = fmt.Errorf("marker read: %v %x", e, mk)
					return
				}
			}
			ends[k][1] = ss
		}
		if toAcceptor {
			aW, aR = ends[0][0], ends[0][1]
		} else {
			aW, aR = ends[0][1], ends[0][0]
		}
		if otherSame == toAcceptor {
			bW, bR = ends[1][0], ends[1][1]
		} else {
			bW, bR = ends[1][1], ends[1][0]
		}
		return
	}
	if m, err = c02NewMux(sec, c.Stack, c.Short); err != nil {
		return
	}
	var ps [2]*c02Pair
	for k := 0; k < 2; k++ {
		if ps[k], err = m.open(k, c.Neg); err != nil {
			return
		}
		if prob = ps[k].transfer(true, []byte{byte(0x5A + k)}, []int{1}, false, memconn.Fixed(8), nil).Run(); prob != nil {
			return
		}
	}
	aW, aR = c02EndD{c02End{ps[0], !toAcceptor}}, c02EndD{c02End{ps[0], toAcceptor}}
	bToAcceptor := otherSame == toAcceptor
	bW, bR = c02EndD{c02End{ps[1], !bToAcceptor}}, c02EndD{c02End{ps[1], bToAcceptor}}
	return
}

// c02DLPlan: is an expired deadline in force for Read call number idx (0-based) of the transfer?
type c02DLPlan struct {
	Name string
	on   func(idx, at int) bool
	// fired: the deadline is set 1 s ahead and a virtual 2 s pass before the call (timer path); else it is set
	// one minute in the past (immediate path)
	fired bool
}

func c02DLPlans(thorough bool) []c02DLPlan {
	pl := []c02DLPlan{
		{Name: "expired deadline (set in the past) for exactly one Read call", on: func(i, at int) bool { return i == at }},
		{Name: "deadline set 1s ahead and passed before exactly one Read call", on: func(i, at int) bool { return i == at }, fired: true},
		{Name: "expired deadline for every Read call", on: func(i, at int) bool { return true }},
		{Name: "expired deadline for every second Read call", on: func(i, at int) bool { return i%2 == 1 }},
	}
	if thorough {
		pl = append(pl,
			c02DLPlan{Name: "expired deadline for the chosen Read call and the one after it", on: func(i, at int) bool { return i == at || i == at+1 }},
			c02DLPlan{Name: "deadline set 1s ahead and passed, for every Read call from the chosen one on", on: func(i, at int) bool { return i >= at }, fired: true})
	}
	return pl
}

func TestVerifC02StreamReadDeadlines(t *testing.T) {
	r := vrep.New("C02", "stream-read-deadlines")
	defer r.Flush()
	sec, err := c02NewSec()
	if err != nil {
		r.Cap("infrastructure: %v", err)
		return
	}
	b := memconn.NewBook(r)
	defer b.Finish()
	thorough := vrep.Thorough()
	// 200000: above the window-update threshold (131072 = half of the 262144-byte window), below the window (the
	// writer never waits); 1 / 4096: nothing is due but on the first Read of an accepted stream
	type cfg struct {
		L, rs  int
		short  []int
		stacks string // "" = both
	}
	cfgs := []cfg{{1, 4096, []int{0}, ""}, {4096, 4096, []int{0}, ""},
		{200000, 4096, []int{0}, "yamux"}, {200000, 4096, []int{7}, "yamux"}, {200000, 65536, []int{0}, "yamux"}, {200000, 65536, []int{7}, "yamux"},
		{200000, 8192, []int{0}, ""}, {200000, 8192, []int{7}, "yamux"}}
	if thorough {
		cfgs = nil
		for _, sh := range [][]int{{0}, {7}, {1}} {
			cfgs = append(cfgs, cfg{1, 4096, sh, ""}, cfg{4096, 4096, sh, ""}, cfg{200000, 65536, sh, ""})
		}
		cfgs = append(cfgs, cfg{200000, 1000, []int{0}, "yamux"})
		for _, rs := range []int{4096, 8192, 300000} {
			cfgs = append(cfgs, cfg{200000, rs, []int{0}, ""}, cfg{200000, rs, []int{7}, ""})
		}
		for _, L := range []int{131071, 131072, 131073, 260000} { // 260000: just below the window that is left after the negotiation / marker bytes
			cfgs = append(cfgs, cfg{L, 8192, []int{0}, ""}, cfg{L, 65536, []int{0}, ""})
		}
	}
	plans := c02DLPlans(thorough)
	type lv struct{ level, neg, dir string }
	levels := []lv{{"yamux", "", "opener->acceptor"}, {"yamux", "", "acceptor->opener"}}
	for _, neg := range c02Negs {
		levels = append(levels, lv{"host", neg, "dialer->listener"}, lv{"host", neg, "listener->dialer"})
	}
	var cd []string
	for _, c := range cfgs {
		st := "both stacks"
		if c.stacks != "" {
			st = c.stacks
		}
		cd = append(cd, fmt.Sprintf("L=%d read buffer %d short reads underneath %v (%s)", c.L, c.rs, c.short, st))
	}
	r.Bounds["L x read_buffer x short_read_pattern"] = cd
	var pn []string
	for _, p := range plans {
		pn = append(pn, p.Name)
	}
	r.Bounds["deadline_plans(the chosen Read call: every index until the transfer completes without reaching it)"] = pn
	r.Bounds["blocking_plan"] = "L written in thirds; after each third was read, one Read with a deadline 1s ahead blocks on the empty buffer until the deadline passes; then the next third"
	r.Bounds["levels"] = "yamux: the muxer's streams (go-libp2p wrapper over go-yamux), opener->acceptor (first Read of an accepted stream) | acceptor->opener; host: swarm.Stream + streamWrapper(lazy) / SelectOneOf(eager) + newStreamHandler, both directions"
	r.Bounds["other_stream"] = "stream B on the same connection: a 3000-byte checked transfer, 1000 bytes before A's reads, 1000 after half of them, 1000 at the end; same | opposite direction"
	r.Bounds["stacks"] = c02Stacks
	r.Bounds["after_a_timeout"] = "the deadline is lifted (SetReadDeadline(zero)) after the call it was in force for; the reader goes on"
	for _, stack := range c02Stacks {
		for _, l := range levels {
			for _, cf := range cfgs {
				if cf.stacks != "" && cf.stacks != stack {
					continue
				}
				L, rs, short := cf.L, cf.rs, cf.short
				for oi, other := range []string{"same direction", "opposite direction"} {
					for pi, plan := range plans {
						if !b.Mine(stack, l, L, rs, short, oi, pi) {
							continue
						}
						single := pi < 2 || pi >= 4
						for at := 0; ; at++ {
							if b.Over() {
								return
							}
							c := c02DLCase{Scenario: "read-deadline", Level: l.level, Stack: stack, Neg: l.neg, Dir: l.dir, Short: short, L: L, R: rs, Plan: plan.Name, Index: at, Other: other}
							var res c02DLRes
							pan := memconn.Bubble(t, func() { res = c02ReadDeadline(sec, &c, plan, at, oi == 0, &b.Buf) })
							if c02DLFile(b, pan, res, c) {
								b.Distinct(c, stack, l, L, rs, short, oi, pi, at)
							}
							if !single || res.reads <= at+1 || res.prob != nil || res.infra != nil || res.harness != nil || pan != "" {
								break // the transfer completed before the chosen call came
							}
						}
					}
					// a Read that blocks until its deadline passes, at every chunk boundary
					if L >= 3 && b.Mine(stack, l, L, rs, short, oi, "blocking") {
						if b.Over() {
							return
						}
						c := c02DLCase{Scenario: "read-deadline", Level: l.level, Stack: stack, Neg: l.neg, Dir: l.dir, Short: short, L: L, R: rs, Plan: "a Read blocks on the empty buffer until its deadline passes, after each third", Other: other}
						var res c02DLRes
						pan := memconn.Bubble(t, func() { res = c02ReadDeadline(sec, &c, c02DLPlan{Name: "blocking"}, -1, oi == 0, &b.Buf) })
						if c02DLFile(b, pan, res, c) {
							b.Distinct(c, stack, l, L, rs, short, oi, "blocking")
						}
					}
				}
			}
		}
	}
}

type c02DLRes struct {
	prob      *memconn.Problem
	infra     error
	harness   error // the scenario does not fit (no verdict)
	reads     int   // non-empty Read calls the transfer took
	timeouts  int
	withData  int // Read calls that returned n > 0 together with a timeout
	otherDone bool
}

func c02DLFile(b *memconn.Book, pan string, res c02DLRes, c c02DLCase) bool {
	b.N++
	switch {
	case pan != "" && res.prob == nil && res.infra == nil && strings.Contains(pan, "blocked goroutines remain"):
		b.R.Outcome("goroutines left after teardown (not judged)")
		return true
	case res.harness != nil:
		b.R.Outcome("infrastructure: scenario does not fit")
		b.R.Cap("infrastructure problem (no verdict for this run): %v at %+v", res.harness, c)
		return false
	case res.prob != nil:
		b.R.Violate("stream:deadline:"+res.prob.Key, c.Step+": "+res.prob.Desc, c)
		b.R.Outcome("VIOLATION " + res.prob.Key)
	case pan != "":
		b.R.Violate("stream:deadline:panic-or-deadlock", pan, c)
		b.R.Outcome("VIOLATION panic-or-deadlock")
	case res.infra != nil:
		b.R.Violate("stream:baseline-setup-failed", res.infra.Error(), c)
		b.R.Outcome("VIOLATION baseline-setup-failed")
	default:
		b.Transfers += 2
		op := "Read"
		if c.Scenario == "write-deadline" {
			op = "Write"
		}
		what := "a " + op + " timed out, none with bytes"
		if res.withData > 0 {
			what = "a " + op + " returned n > 0 TOGETHER WITH the timeout"
		}
		if res.timeouts == 0 {
			what = "no " + op + " timed out"
		}
		b.R.Outcome(fmt.Sprintf("%s %s: everything delivered in order, %s", c.Level, c.Dir, what))
		return true
	}
	b.Transfers++
	return false
}

// c02ReadDeadline runs one case inside a bubble. at = -1: the blocking plan.
func c02ReadDeadline(sec *c02Sec, c *c02DLCase, plan c02DLPlan, at int, otherSame bool, buf *[]byte) (res c02DLRes) {
	c.Step = "setup"
	m, aW, aR, bW, bR, prob, err := c02DLStreams(sec, c, otherSame)
	if m != nil {
		defer m.close()
	}
	if err != nil || prob != nil {
		res.infra, res.prob = err, prob
		return
	}
	L := c.L
	payload := memconn.Pattern(0xDEAD11+uint64(L), L)
	writes := []int{L}
	if at < 0 {
		writes = []int{L / 3, L / 3, L - 2*(L/3)}
	}
	c.Writes = writes
	fixed := func(int, int) int { return c.R }
	other := &memconn.Transfer{W: bW, R: bR, Payload: memconn.Pattern(0xB0B, 3000), Writes: []int{1000, 1000, 1000}, ReadSize: func(int, int) int { return 700 }}
	other.Arm = func() { bR.SetReadDeadline(time.Now().Add(time.Hour)) }
	otherStep := func(i int) bool {
		c.Step = fmt.Sprintf("other stream, chunk %d", i)
		if res.prob = other.WriteOne(i); res.prob == nil {
			synctest.Wait()
			res.prob = other.Drain()
		}
		bR.SetReadDeadline(time.Time{})
		return res.prob == nil
	}
	if !otherStep(0) {
		return
	}
	tr := &memconn.Transfer{W: aW, Payload: payload, Writes: writes, ReadSize: fixed, Buf: *buf}
	defer func() { *buf = tr.Buf }()
	tr.R = aR

	// one Read under the plan; returns false when the case is decided
	idx := 0
	zero := 0
	readOne := func(expired, fired bool) bool {
		c.Step = fmt.Sprintf("Read call %d at offset %d", idx, tr.Received)
		switch {
		case expired && fired:
			aR.SetReadDeadline(time.Now().Add(time.Second))
			time.Sleep(2 * time.Second)
		case expired:
			aR.SetReadDeadline(time.Now().Add(-time.Minute))
		}
		n, err, p := tr.ReadOnce()
		idx++
		if expired {
			aR.SetReadDeadline(time.Time{})
		}
		if p != nil {
			res.prob = p
			return false
		}
		if err != nil {
			switch {
			case !c02Timeout(err):
				res.prob = &memconn.Problem{Key: "read-error-on-healthy-conn", Desc: fmt.Sprintf("Read returned n=%d err=%v after %d of %d bytes (expired deadline in force for this call: %v)", n, err, tr.Received, tr.Accepted, expired)}
				return false
			case !expired:
				// the stall guard: no deadline of the plan is in force, every byte was written and had arrived
				res.prob = &memconn.Problem{Key: "bytes-lost-after-timeout", Desc: fmt.Sprintf("with the deadline lifted the reader still waits after a virtual hour at %d of the %d bytes that were written and had all arrived at its muxer (Read: n=%d err=%v; %d earlier calls timed out, %d of them with bytes)", tr.Received, tr.Accepted, n, err, res.timeouts, res.withData)}
				return false
			}
			res.timeouts++
			if n > 0 {
				res.withData++
			}
			return true
		}
		if n == 0 {
			if zero++; zero > 64 {
				res.prob = &memconn.Problem{Key: "reader-makes-no-progress", Desc: fmt.Sprintf("%d consecutive (0, nil) reads at %d of %d bytes", zero, tr.Received, tr.Accepted)}
				return false
			}
		} else {
			zero = 0
		}
		return true
	}
	// drain what was accepted so far under the plan; a (0, timeout) while bytes are outstanding is legal for a
	// call with an expired deadline, so progress is only demanded of the calls without one
	drain := func() bool {
		stall := 0
		for tr.Received < tr.Accepted {
			exp := at >= 0 && plan.on(idx, at)
			if stall >= 2 {
				exp = false // two empty timeouts in a row: the deadline is lifted for good
			}
			if !exp {
				aR.SetReadDeadline(time.Now().Add(time.Hour)) // the stall guard
			}
			before := tr.Received
			if !readOne(exp, plan.fired) {
				return false
			}
			if exp && tr.Received == before {
				stall++
			} else {
				stall = 0
			}
			if tr.Received >= tr.Accepted/2 && !res.otherDone {
				res.otherDone = true
				if !otherStep(1) {
					return false
				}
			}
		}
		aR.SetReadDeadline(time.Time{})
		return true
	}

	for wi := range writes {
		c.Step = fmt.Sprintf("write %d", wi)
		// guard: the scenario needs a payload that fits the peer's window (nobody reads yet); a Write that waits for
		// the window would wait for ever
		aW.SetWriteDeadline(time.Now().Add(time.Hour))
		res.prob = tr.WriteOne(wi)
		aW.SetWriteDeadline(time.Time{})
		if res.prob != nil {
			if res.prob.Key == "write-failed-on-healthy-conn" && (strings.Contains(res.prob.Desc, "timeout") || strings.Contains(res.prob.Desc, "deadline")) {
				res.harness = fmt.Errorf("harness: %s", res.prob.Desc)
				res.prob = nil
			}
			return
		}
		synctest.Wait() // everything written so far sits in the reader's muxer
		if at >= 0 {
			continue
		}
		if !drain() {
			return
		}
		// the blocking Read: nothing is buffered, the deadline passes while it waits
		c.Step = fmt.Sprintf("blocking Read after write %d", wi)
		aR.SetReadDeadline(time.Now().Add(time.Second))
		n, err, p := tr.ReadOnce()
		aR.SetReadDeadline(time.Time{})
		switch {
		case p != nil:
			res.prob = p
			return
		case n > 0:
			res.prob = &memconn.Problem{Key: "received-more-than-written", Desc: fmt.Sprintf("Read returned %d bytes although nothing was outstanding", n)}
			return
		case err == nil:
			// (0, nil) from a non-empty buffer: allowed, nothing to judge
		case !c02Timeout(err):
			res.prob = &memconn.Problem{Key: "read-error-on-healthy-conn", Desc: fmt.Sprintf("a Read that waited for its deadline returned %v", err)}
			return
		default:
			res.timeouts++
		}
	}
	if at >= 0 && !drain() {
		return
	}
	res.reads = idx
	if !res.otherDone {
		res.otherDone = true
		if !otherStep(1) {
			return
		}
	}
	if !otherStep(2) {
		return
	}
	// nothing more may come on A
	c.Step = "one more Read on A"
	aR.SetReadDeadline(time.Now().Add(time.Second))
	if n, _, p := tr.ReadOnce(); p != nil || n > 0 {
		if p == nil {
			p = &memconn.Problem{Key: "received-more-than-written", Desc: fmt.Sprintf("Read returned %d more bytes after the complete payload", n)}
		}
		res.prob = p
		return
	}
	aR.SetReadDeadline(time.Time{})
	c.Step = ""
	return
}

// ---------- write deadlines ----------

func TestVerifC02StreamWriteDeadlines(t *testing.T) {
	r := vrep.New("C02", "stream-write-deadlines")
	defer r.Flush()
	sec, err := c02NewSec()
	if err != nil {
		r.Cap("infrastructure: %v", err)
		return
	}
	b := memconn.NewBook(r)
	defer b.Finish()
	thorough := vrep.Thorough()
	lengths := []int{262145, 300000, 600000}
	rsizes := []int{4096, 65536}
	if thorough {
		lengths = append(lengths, 262144, 400000, 1000000)
		rsizes = append(rsizes, 1000, 300000)
	}
	type lv struct{ level, neg, dir string }
	levels := []lv{{"yamux", "", "opener->acceptor"}, {"yamux", "", "acceptor->opener"}}
	for _, neg := range c02Negs {
		levels = append(levels, lv{"host", neg, "dialer->listener"}, lv{"host", neg, "listener->dialer"})
	}
	r.Bounds["L"] = lengths
	r.Bounds["read_buffer"] = rsizes
	r.Bounds["shape"] = "the writer calls Write(rest of the payload) with a write deadline 1s ahead while nobody reads: the call waits for the peer's window and returns (n, timeout) when the deadline passes; the reader then reads everything that was accepted; the writer lifts the deadline and goes on after the n bytes Write reported; until all L bytes are written; 'reader first': the reader reads what is there before the writer's next attempt | 'writer twice': the writer makes a second attempt (0 bytes expected) before the reader reads"
	r.Bounds["levels"] = "as in stream-read-deadlines"
	r.Bounds["stacks"] = c02Stacks
	for _, stack := range c02Stacks {
		for _, l := range levels {
			for _, L := range lengths {
				for _, rs := range rsizes {
					for vi, variant := range []string{"reader first", "writer twice"} {
						if !b.Mine(stack, l, L, rs, vi) {
							continue
						}
						if b.Over() {
							return
						}
						c := c02DLCase{Scenario: "write-deadline", Level: l.level, Stack: stack, Neg: l.neg, Dir: l.dir, Short: []int{0}, L: L, R: rs, Plan: variant, Other: "same direction"}
						var res c02DLRes
						pan := memconn.Bubble(t, func() { res = c02WriteDeadline(sec, &c, vi == 1, &b.Buf) })
						if c02DLFile(b, pan, res, c) {
							b.Distinct(c, stack, l, L, rs, vi)
						}
					}
				}
			}
		}
	}
}

func c02WriteDeadline(sec *c02Sec, c *c02DLCase, twice bool, buf *[]byte) (res c02DLRes) {
	c.Step = "setup"
	m, aW, aR, _, _, prob, err := c02DLStreams(sec, c, true)
	if m != nil {
		defer m.close()
	}
	if err != nil || prob != nil {
		res.infra, res.prob = err, prob
		return
	}
	L := c.L
	payload := memconn.Pattern(0x3D1EAD+uint64(L), L)
	tr := &memconn.Transfer{Payload: payload, ReadSize: func(int, int) int { return c.R }, Buf: *buf}
	defer func() { *buf = tr.Buf }()
	for attempt := 0; tr.Accepted < L; attempt++ {
		if attempt > 64 {
			res.prob = &memconn.Problem{Key: "writer-makes-no-progress", Desc: fmt.Sprintf("%d Write attempts, %d of %d bytes accepted", attempt, tr.Accepted, L)}
			return
		}
		c.Step = fmt.Sprintf("Write attempt %d at offset %d", attempt, tr.Accepted)
		in := append([]byte(nil), payload[tr.Accepted:]...)
		aW.SetWriteDeadline(time.Now().Add(time.Second))
		n, err := aW.Write(in)
		aW.SetWriteDeadline(time.Time{})
		if n < 0 || n > len(in) {
			res.prob = &memconn.Problem{Key: "write-count-out-of-range", Desc: fmt.Sprintf("Write of %d bytes returned n=%d", len(in), n)}
			return
		}
		tr.Accepted += n
		if err != nil {
			if !c02Timeout(err) {
				res.prob = &memconn.Problem{Key: "write-failed-on-healthy-conn", Desc: fmt.Sprintf("Write of %d bytes at offset %d returned n=%d err=%v", len(in), tr.Accepted-n, n, err)}
				return
			}
			res.timeouts++
			if n > 0 {
				res.withData++
			}
		} else if n != len(in) {
			res.prob = &memconn.Problem{Key: "short-write-without-error", Desc: fmt.Sprintf("Write of %d bytes returned n=%d, err=nil", len(in), n)}
			return
		}
		synctest.Wait()
		tr.R = aR
		if twice && attempt%2 == 0 && tr.Accepted < L {
			continue // the writer tries again before the reader reads
		}
		// the reader reads whatever has arrived, until a Read with a deadline 1s ahead finds nothing: exactly the
		// bytes Write has reported as written so far must have come (ReadOnce reports any byte beyond them)
		c.Step = fmt.Sprintf("read after Write attempt %d", attempt)
		for {
			aR.SetReadDeadline(time.Now().Add(time.Second))
			n, err, p := tr.ReadOnce()
			if p != nil {
				if p.Key == "received-more-than-written" {
					p.Desc += fmt.Sprintf(" (up to and including attempt %d the Write calls have reported %d bytes in total as written: the writer resumes after those, so the others would be sent twice)", attempt, tr.Accepted)
				}
				res.prob = p
				return
			}
			if err != nil {
				if !c02Timeout(err) {
					res.prob = &memconn.Problem{Key: "read-error-on-healthy-conn", Desc: fmt.Sprintf("Read returned n=%d err=%v at %d of the %d bytes Write has reported as written", n, err, tr.Received, tr.Accepted)}
					return
				}
				break
			}
			res.reads++
		}
		aR.SetReadDeadline(time.Time{})
		if tr.Received < tr.Accepted {
			res.prob = &memconn.Problem{Key: "bytes-reported-as-written-never-arrive", Desc: fmt.Sprintf("the reader has %d of the %d bytes Write has reported as written and a Read finds nothing more for a virtual second on an idle connection", tr.Received, tr.Accepted)}
			return
		}
		synctest.Wait()
	}
	// whatever Write handed to the muxer beyond what it reported arrives now: any byte is one too many, or a wrong one
	c.Step = "one more Read"
	aR.SetReadDeadline(time.Now().Add(time.Second))
	if n, _, p := tr.ReadOnce(); p != nil || n > 0 {
		if p == nil {
			p = &memconn.Problem{Key: "received-more-than-written", Desc: fmt.Sprintf("Read returned %d more bytes after the complete payload", n)}
		}
		res.prob = p
		return
	}
	aR.SetReadDeadline(time.Time{})
	c.Step = ""
	return
}
