//go:build verif

package swarm

import "github.com/libp2p/go-libp2p/core/network"

// VerifC02NewStream wraps a muxed stream in a real swarm.Stream that belongs to a stub connection of an
// otherwise empty Swarm (no bandwidth counter, null resource scope): Read / Write / CloseWrite / CloseRead /
// Close / Reset / SetProtocol / deadlines run the real swarm_stream.go code. Only for the C02 harness, which
// lives in package basichost and cannot reach the unexported fields.
func VerifC02NewStream(ms network.MuxedStream, id uint64) *Stream {
	sw := &Swarm{}
	sw.refs.Add(1) // released by closeAndRemoveStream
	return &Stream{id: id, stream: ms, conn: &Conn{swarm: sw}, scope: &network.NullScope{}}
}
