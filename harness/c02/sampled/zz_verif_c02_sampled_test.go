//go:build verif

package sampledconn

// C02 part "sampled": the connection-type sniffer of the shared TCP listener (sampledconn.go) consumes the
// first 3 bytes of a connection and must replay them to whoever reads the connection afterwards.
//
// Grid: payload length (0..8 around the 3 peeked bytes, 4096, 64 kB) x write split x read-buffer policy
// (1,2,3,4,5,... and relative to what is outstanding) x short-read pattern of the connection underneath
// x PeekBytes called before the bytes were written (it blocks, the writes arrive later) or after
// x read after each / after the last write. A fresh connection and a fresh PeekBytes per point.
// Oracle: the peeked bytes are payload[0:3]; what Read on the wrapped connection has returned so far is the
// prefix, FROM OFFSET 0, of what was written so far - each byte exactly once, in order.
// Not judged (outside the statement, reported as outcome classes): PeekBytes on a stream shorter than 3
// bytes; a reader that uses the promoted io.WriterTo (io.Copy) instead of Read.
//
// End of the stream / errors of the connection underneath ("any underlying connection": an io.Reader may return
// n > 0 TOGETHER WITH err != nil): every point is run (i) with the writer closing after the reader has read
// everything, (ii) with the writer closing BEFORE the reader reads what the last write sent, the connection
// handing out its last segment before io.EOF, (iii) the same with the last segment in the same Read call as
// io.EOF; and PeekBytes is additionally called only AFTER the writer wrote everything and closed (a 3-byte
// stream then reaches PeekBytes as (3, io.EOF) in one call). In (ii)/(iii) all bytes must have arrived when the
// reader sees the end. TestVerifC02SampledReadFaults breaks the connection at enumerated byte positions with the
// error arriving together with the segment that ends there, or after it (control).

import (
	"bytes"
	"fmt"
	"io"
	"testing"
	"testing/synctest"
	"time"

	"github.com/libp2p/go-libp2p/x/verif/memconn"
	"github.com/libp2p/go-libp2p/x/verif/vrep"
	manet "github.com/multiformats/go-multiaddr/net"
)

type c02Case struct {
	Layer     string `json:"layer"`
	L         int    `json:"L"`
	Split     string `json:"split"`
	Writes    []int  `json:"writes,omitempty"`
	Policy    string `json:"read_policy"`
	Short     []int  `json:"short_reads_underneath"`
	Each      bool   `json:"read_after_each_write"`
	PeekFirst bool   `json:"peek_called_before_the_writes"`
	Reader    string `json:"reader"`
	// PeekLate: PeekBytes is called only after the writer wrote everything and closed
	PeekLate    bool               `json:"peek_called_after_the_writer_closed,omitempty"`
	CloseEarly  bool               `json:"writer_closes_before_the_last_read,omitempty"`
	EOFWithData bool               `json:"last_segment_arrives_together_with_eof,omitempty"`
	Fault       *memconn.ReadFault `json:"read_fault,omitempty"`
}

func c02ShortWrites(w []int) []int {
	if len(w) > 8 {
		return append(append([]int{}, w[:4]...), -len(w))
	}
	return w
}

type c02PeekRes struct {
	peeked PeekedBytes
	conn   manet.Conn
	err    error
}

// c02Point runs one grid point inside a bubble. class = outcome class when there is no problem.
func c02Point(c c02Case, writes []int, payload []byte, pol memconn.Policy, buf *[]byte) (prob *memconn.Problem, class string) {
	a, b := memconn.Pair()
	defer a.Close()
	defer b.Close()
	b.SetReadChunks(c.Short...)
	b.SetEOFWithData(c.EOFWithData)
	b.SetReadDeadline(time.Now().Add(time.Hour)) // a peek that can never complete ends with a timeout
	fail := func(key, f string, args ...any) (*memconn.Problem, string) {
		return &memconn.Problem{Key: key, Desc: fmt.Sprintf(f, args...)}, ""
	}
	link := &memconn.Link{W: a, RRaw: b}
	tr := link.Transfer(payload, writes, c.Each, pol, *buf)
	defer func() { *buf = tr.Buf }()
	var peekCh chan c02PeekRes
	startPeek := func() {
		peekCh = make(chan c02PeekRes, 1)
		go func() {
			p, sc, err := PeekBytes(b)
			peekCh <- c02PeekRes{p, sc, err}
		}()
	}
	var sc manet.Conn
	var peekErr error
	collect := func() *memconn.Problem {
		synctest.Wait()
		select {
		case pr := <-peekCh:
			if pr.err != nil {
				peekErr = pr.err
				return nil
			}
			if !bytes.Equal(pr.peeked[:], payload[:3]) {
				p, _ := fail("peeked-bytes-differ", "PeekBytes returned %x, the first three bytes written are %x", pr.peeked[:], payload[:3])
				return p
			}
			sc = pr.conn
			tr.R = sc
		default:
		}
		return nil
	}
	if c.PeekFirst {
		startPeek()
		synctest.Wait()
	}
	for wi := range writes {
		if p := tr.WriteOne(wi); p != nil {
			return p, ""
		}
		if c.PeekLate {
			continue
		}
		if sc == nil && peekErr == nil && tr.Accepted >= 3 {
			if peekCh == nil {
				startPeek()
			}
			if p := collect(); p != nil {
				return p, ""
			}
			if sc == nil && peekErr == nil {
				return fail("peek-does-not-complete", "PeekBytes still blocked with %d bytes written", tr.Accepted)
			}
		}
		if peekErr != nil {
			return fail("peek-failed-on-healthy-conn", "PeekBytes failed with %d bytes written: %v", tr.Accepted, peekErr)
		}
		if sc != nil && c.Each && c.Reader == "Read" && !(c.CloseEarly && wi == len(writes)-1) {
			if p := tr.Drain(); p != nil {
				return p, ""
			}
		}
	}
	if tr.Accepted < 3 {
		// shorter than the sample: close the writer; PeekBytes has to give up (not judged beyond "returns")
		if c.PeekLate {
			a.Close()
		}
		if peekCh == nil {
			startPeek()
		}
		a.Close()
		synctest.Wait()
		select {
		case pr := <-peekCh:
			if pr.err == nil {
				return fail("peek-succeeded-on-short-stream", "PeekBytes returned %x without error on a %d-byte stream", pr.peeked[:], tr.Accepted)
			}
			return nil, fmt.Sprintf("stream of %d bytes: PeekBytes fails (%s)", tr.Accepted, memconn.ErrClass(pr.err))
		default:
			return fail("peek-does-not-complete", "PeekBytes still blocked after the writer closed a %d-byte stream", tr.Accepted)
		}
	}
	if c.CloseEarly && c.Reader == "Read" {
		// the end of the stream travels behind the data
		a.Close()
		tr.WriterClosed = true
		if c.PeekLate {
			startPeek()
			if p := collect(); p != nil {
				return p, ""
			}
			if peekErr != nil {
				return fail("peek-failed-on-healthy-conn", "PeekBytes failed on a complete, closed stream of %d bytes: %v", tr.Accepted, peekErr)
			}
			if sc == nil {
				return fail("peek-does-not-complete", "PeekBytes still blocked on a complete, closed stream of %d bytes", tr.Accepted)
			}
		}
		end, p := tr.DrainToEnd(4)
		if p != nil {
			return p, ""
		}
		return nil, "writer closed before the last read: delivered intact from offset 0, end of stream: " + end
	}
	switch c.Reader {
	case "Read":
		if p := tr.Drain(); p != nil {
			return p, ""
		}
		a.Close()
		end, p := tr.AfterClose(4)
		if p != nil {
			return p, ""
		}
		return nil, "delivered intact from offset 0, after close: " + end
	default: // "io.Copy": the reader drains the connection through io.WriterTo when the source offers it
		a.Close()
		var got bytes.Buffer
		_, err := io.Copy(&got, sc)
		switch {
		case err != nil:
			return nil, "io.Copy reader: error " + memconn.ErrClass(err) + " (not judged)"
		case bytes.Equal(got.Bytes(), payload):
			return nil, "io.Copy reader: delivered intact"
		case bytes.Equal(got.Bytes(), payload[3:]):
			return nil, "io.Copy reader: THE 3 PEEKED BYTES ARE LOST (promoted WriterTo bypasses the replay; outside the statement, not judged)"
		default:
			return nil, "io.Copy reader: other difference (not judged)"
		}
	}
}

func TestVerifC02Sampled(t *testing.T) {
	r := vrep.New("C02", "sampled-fidelity")
	defer r.Flush()
	b := memconn.NewBook(r)
	defer b.Finish()
	thorough := vrep.Thorough()
	lengths := []int{0, 1, 2, 3, 4, 5, 6, 7, 8, 4096, 65536}
	shorts := [][]int{{0}, {1}, {2}, {3}, {4}, {7}, {4096}}
	fixed := []int{1, 2, 3, 4, 5, 4096}
	if thorough {
		lengths = append(lengths, 9, 16, 4095, 4097, 200000)
		shorts = append(shorts, []int{1, 2}, []int{2, 1}, []int{5}, []int{1, 7, 3})
		fixed = append(fixed, 6, 7, 8, 65536)
	}
	r.Bounds["L"] = lengths
	r.Bounds["write_splits"] = "whole, 1+rest, rest+1, 2+rest, 3+rest, 4+rest, thirds, 0+L+0, thirds with zero-length writes between them [a,0,a,0,0,rest], 1-byte writes for L<=4096"
	if !thorough {
		r.Bounds["quick_reduction_zero_length_writes"] = "the split with zero-length writes in between only with short reads {unlimited,1} underneath"
	}
	r.Bounds["short_read_patterns(cyclic, 0=unlimited)"] = shorts
	r.Bounds["peek"] = "PeekBytes called before the first write (blocks) | once 3 bytes were written | after the writer wrote everything and closed"
	r.Bounds["end_of_stream"] = "the writer closes after the reader read everything (peek before the writes | after 3 bytes) | before the reader reads what the last write sent, last segment before io.EOF | the same, last segment together with io.EOF (these two: peek after 3 bytes | after the close)"
	if !thorough {
		r.Bounds["quick_reduction_early_close"] = "the early close only when reading after the last write and for L <= 4096; last segment before io.EOF: only with PeekBytes called after the close"
	}
	r.Bounds["read_after"] = "each write | last write"
	r.Bounds["read_sizes"] = fmt.Sprintf("%v, L+1, remaining-1, remaining, remaining+1", fixed)
	r.Bounds["readers"] = "Read (judged); io.Copy via the promoted io.WriterTo (probe, not judged)"
	// zero-length reads (len(buf) = 0) interleaved: z(i mod n) of them before the i-th non-empty Read, so that an
	// empty-buffer Read comes before the replay starts, between its bytes, at its end and after it
	zeroPols := []memconn.Policy{memconn.Fixed(1).WithZeros(1), memconn.Fixed(2).WithZeros(0, 2), memconn.Fixed(5).WithZeros(1)}
	if thorough {
		zeroPols = append(zeroPols, memconn.Fixed(2).WithZeros(1), memconn.Fixed(3).WithZeros(2), memconn.Fixed(4).WithZeros(0, 1), memconn.Rel(0).WithZeros(3))
	}
	var zn []string
	for _, p := range zeroPols {
		zn = append(zn, p.Name)
	}
	r.Bounds["read_sizes_with_zero_length_reads(z(i mod n) empty-buffer Reads before the i-th non-empty Read)"] = zn
	for _, L := range lengths {
		payload := memconn.Pattern(0x5A3B1ED, L)
		pols := append(memconn.Policies(append(append([]int{}, fixed...), L+1), []int{-1, 0, 1}), zeroPols...)
		for _, sp := range memconn.Splits(L, []int{2, 3, 4}, 4096) {
			for _, short := range shorts {
				if !thorough && sp.Name == "thirds+0s" && short[0] > 1 {
					continue // quick: the split with zero-length writes in between only with short reads {unlimited,1}
				}
				if !b.Mine(sp.Sizes, short) {
					continue
				}
				// (peek before the writes | after 3 bytes | after the close) x (close after the reads | before the last
				// read, EOF after the last segment | before the last read, EOF with the last segment)
				type mode struct{ peekFirst, peekLate, closeEarly, join bool }
				// (once PeekBytes has returned, the wrapper's state does not depend on when it was called: the early
				// close is combined with "after 3 bytes" and "after the close" only)
				modes := []mode{{false, false, false, false}, {true, false, false, false},
					{false, false, true, false}, {false, true, true, false},
					{false, false, true, true}, {false, true, true, true}}
				for _, md := range modes {
					peekFirst := md.peekFirst
					for _, each := range []bool{false, true} {
						if each && (len(sp.Sizes) == 1 || md.peekLate) {
							continue
						}
						if !thorough && md.closeEarly && (each || L > 4096 || (!md.join && !md.peekLate)) {
							// quick: the early close only when reading after the last write, L <= 4096, and - with the
							// last segment BEFORE io.EOF - only with PeekBytes called after the close
							continue
						}
						for pi, pol := range pols {
							for _, reader := range []string{"Read", "io.Copy"} {
								if reader == "io.Copy" && (pi > 0 || each || md.closeEarly) {
									continue // the read policy does not apply
								}
								if b.Over() {
									return
								}
								c := c02Case{Layer: "sampledconn", L: L, Split: sp.Name, Writes: c02ShortWrites(sp.Sizes), Policy: pol.Name, Short: short, Each: each, PeekFirst: peekFirst, Reader: reader,
									PeekLate: md.peekLate, CloseEarly: md.closeEarly, EOFWithData: md.join}
								var prob *memconn.Problem
								var class string
								pan := memconn.Bubble(t, func() { prob, class = c02Point(c, sp.Sizes, payload, pol, &b.Buf) })
								b.N++
								b.Transfers++
								switch {
								case pan != "":
									r.Violate("sampledconn:panic-or-deadlock", pan, c)
									r.Outcome("VIOLATION panic-or-deadlock")
								case prob != nil:
									r.Violate("sampledconn:"+prob.Key, prob.Desc, c)
									r.Outcome("VIOLATION " + prob.Key)
								default:
									r.Outcome(class)
									if L >= 3 && reader == "Read" {
										b.Distinct(c, sp.Sizes, short, md, each, pol.Name)
									}
								}
							}
						}
					}
				}
			}
		}
	}
}

// c02FaultPoint: one read-fault run. The writer writes everything (L = W bytes in flight, nothing is framed),
// then the stream ends (eof) or the fault is armed, then PeekBytes is called and the wrapped connection is read
// for 6 Reads beyond the first error.
func c02FaultPoint(c c02Case, writes []int, payload []byte, pol memconn.Policy, f memconn.ReadFault, buf *[]byte) (res memconn.FaultResult, note string) {
	a, b := memconn.Pair()
	defer a.Close()
	defer b.Close()
	b.SetReadChunks(c.Short...)
	b.SetReadDeadline(time.Now().Add(time.Hour))
	link := &memconn.Link{W: a, RRaw: b}
	tr := link.Transfer(payload, writes, false, pol, *buf)
	defer func() { *buf = tr.Buf }()
	if res.Problem = tr.WriteAll(); res.Problem != nil {
		return
	}
	res.W = b.Buffered()
	if f.Kind == "eof" {
		b.SetEOFWithData(f.WithData)
		a.Close()
		tr.WriterClosed = true
	} else {
		b.FailReadAfter(int64(f.Pos), f.Err(), f.WithData)
	}
	peeked, sc, err := PeekBytes(b)
	if err != nil {
		if f.Kind == "eof" && len(payload) >= 3 {
			res.Problem = &memconn.Problem{Key: "peek-failed-on-healthy-conn", Desc: fmt.Sprintf("PeekBytes failed on a complete, closed stream of %d bytes: %v", len(payload), err)}
			return
		}
		// the connection broke: giving up in PeekBytes is allowed (the sample may even be complete)
		res.Obs.FirstErr, res.Obs.NonEOFErr, res.Obs.Errors = err, true, 1
		return res, "PeekBytes fails"
	}
	if !bytes.Equal(peeked[:], payload[:3]) {
		res.Problem = &memconn.Problem{Key: "peeked-bytes-differ", Desc: fmt.Sprintf("PeekBytes returned %x, the first three bytes written are %x", peeked[:], payload[:3])}
		return
	}
	tr.R = sc
	res.Obs, res.Problem = tr.ReadTampered(6)
	return res, ""
}

func TestVerifC02SampledReadFaults(t *testing.T) {
	r := vrep.New("C02", "sampled-readfaults")
	defer r.Flush()
	b := memconn.NewBook(r)
	defer b.Finish()
	thorough := vrep.Thorough()
	lengths := []int{3, 4, 5, 8, 4096}
	shorts := [][]int{{0}, {1}, {2}, {3}, {4}}
	pols := []memconn.Policy{memconn.Fixed(1), memconn.Fixed(2), memconn.Fixed(3), memconn.Fixed(4), memconn.Rel(0), memconn.Fixed(4096), memconn.Fixed(2).WithZeros(1)}
	if thorough {
		lengths = append(lengths, 6, 7, 9, 65536)
		shorts = append(shorts, []int{7}, []int{1, 2}, []int{2, 1}, []int{4096})
		pols = append(pols, memconn.Fixed(5), memconn.Rel(-1), memconn.Rel(1), memconn.Fixed(1).WithZeros(1), memconn.Fixed(3).WithZeros(0, 2))
	}
	r.Bounds["L"] = lengths
	r.Bounds["write_splits"] = "whole, thirds"
	r.Bounds["short_read_patterns(cyclic, 0=unlimited)"] = shorts
	var pn []string
	for _, p := range pols {
		pn = append(pn, p.Name)
	}
	r.Bounds["read_policies"] = pn
	r.Bounds["faults"] = "eof {with | after the last segment}; at every position: reset with the segment, reset after the segment (control), expired deadline with the segment"
	r.Bounds["fault_positions(bytes delivered before the break, of L in flight)"] = "1, 2, 3, 4, 5, L/2, L-2, L-1, L"
	r.Bounds["peek"] = "PeekBytes called after the writes (and after the close / with the fault armed)"
	r.Bounds["reads_after_first_error"] = 6
	for _, L := range lengths {
		payload := memconn.Pattern(0x5A3BFA17, L)
		for _, sp := range memconn.Splits(L, nil, 0) {
			if sp.Name != "whole" && sp.Name != "thirds" {
				continue
			}
			for fi, f := range memconn.Faults(L, []int{4, 5}) {
				if !b.Mine(L, sp.Name, fi) {
					continue
				}
				for _, short := range shorts {
					for _, pol := range pols {
						if b.Over() {
							return
						}
						f := f
						c := c02Case{Layer: "sampledconn", L: L, Split: sp.Name, Writes: c02ShortWrites(sp.Sizes), Policy: pol.Name, Short: short, Reader: "Read", PeekLate: true, EOFWithData: f.Kind == "eof" && f.WithData, Fault: &f}
						var res memconn.FaultResult
						var note string
						pan := memconn.Bubble(t, func() { res, note = c02FaultPoint(c, sp.Sizes, payload, pol, f, &b.Buf) })
						res.Panic = pan
						if note != "" && res.Panic == "" && res.Problem == nil {
							b.N++
							b.Transfers++
							r.Outcome(fmt.Sprintf("sampledconn %s: %s (%s; not judged)", f.Kind, note, memconn.ErrClass(res.Obs.FirstErr)))
							continue
						}
						if cls := b.ReadFault("sampledconn", res, f, L, c); cls != "" {
							b.Distinct(c, L, sp.Name, fi, short, pol.Name)
						}
					}
				}
			}
		}
	}
}
