//go:build verif

package libp2ptls

// C02 part "tls": the TLS 1.3 secure channel of go-libp2p (conn.go wraps crypto/tls.Conn) - fidelity grid and
// wire tampering with the same generic runners as the Noise part (see harness/c02/noise and
// engine/memconn/c02_*.go). Real transports, real handshake with libp2p certificates, over an in-memory
// connection with short reads, inside a synctest bubble (the certificates are made inside a bubble too, so
// that their validity period matches the bubbles' clock).
//
// TLS record layer and AEAD are crypto/tls (a trusted dependency): the grid is smaller than for Noise, the
// read policies are fixed sizes around the record sizes (crypto/tls sizes records dynamically: ~1.2 kB at
// first, 16 kB after 128 kB).
//
// End of the stream / errors of the connection underneath ("any underlying connection": an io.Reader may return
// n > 0 TOGETHER WITH err != nil): the last transfer of every session ends with the writer closing BEFORE the
// reader has read what the last write sent (the close_notify alert travels behind the data); the connection
// underneath hands the reader its last segment in the same Read call as io.EOF (client->server sessions) or
// before it (server->client sessions). All bytes must have arrived when the reader sees the end.
// TestVerifC02TLSReadFaults breaks the connection at enumerated wire positions (around every record boundary)
// with the error arriving together with the segment that ends there, or after it (control).

import (
	"context"
	"crypto/sha256"
	"encoding/binary"
	"fmt"
	"testing"
	"time"

	"github.com/libp2p/go-libp2p/core/crypto"
	"github.com/libp2p/go-libp2p/core/sec"
	"github.com/libp2p/go-libp2p/x/verif/memconn"
	"github.com/libp2p/go-libp2p/x/verif/vrep"
)

type c02SeedReader struct {
	seed uint64
	ctr  uint64
	buf  []byte
}

func (r *c02SeedReader) Read(p []byte) (int, error) {
	for i := range p {
		if len(r.buf) == 0 {
			var in [16]byte
			binary.BigEndian.PutUint64(in[:8], r.seed)
			binary.BigEndian.PutUint64(in[8:], r.ctr)
			r.ctr++
			h := sha256.Sum256(in[:])
			r.buf = h[:]
		}
		p[i] = r.buf[0]
		r.buf = r.buf[1:]
	}
	return len(p), nil
}

// c02Transports creates client and server transports inside a bubble (certificate NotBefore = bubble time - 1h).
func c02Transports(t *testing.T) (cli, srv *Transport, err error) {
	pan := memconn.Bubble(t, func() {
		mk := func(i uint64) (*Transport, error) {
			k, _, err := crypto.GenerateEd25519Key(&c02SeedReader{seed: uint64(vrep.Seed())*1000 + i})
			if err != nil {
				return nil, err
			}
			return New(ID, k, nil)
		}
		if cli, err = mk(11); err != nil {
			return
		}
		srv, err = mk(12)
	})
	if pan != "" && err == nil {
		err = fmt.Errorf("panic: %s", pan)
	}
	return
}

// c02Setup: fresh connection, real handshake, one direction ("c2s": client writes, server reads).
func c02Setup(cli, srv *Transport, dir string, short []int, eofWithData bool) func() (*memconn.Link, error) {
	return func() (*memconn.Link, error) {
		ca, cb := memconn.Pair()
		ca.SetReadChunks(short...)
		cb.SetReadChunks(short...)
		ca.SetEOFWithData(eofWithData)
		cb.SetEOFWithData(eofWithData)
		ca.SetReadDeadline(time.Now().Add(time.Hour))
		cb.SetReadDeadline(time.Now().Add(time.Hour))
		type out struct {
			c   sec.SecureConn
			err error
		}
		ch := make(chan out, 1)
		go func() {
			c, err := cli.SecureOutbound(context.Background(), ca, srv.localPeer)
			ch <- out{c, err}
		}()
		sc, err := srv.SecureInbound(context.Background(), cb, "")
		o := <-ch
		if err != nil || o.err != nil {
			ca.Close()
			cb.Close()
			return nil, fmt.Errorf("handshake failed: inbound=%v outbound=%v", err, o.err)
		}
		ca.SetReadDeadline(time.Time{})
		cb.SetReadDeadline(time.Time{})
		w, rd, rraw := o.c, sc, cb
		if dir == "s2c" {
			w, rd, rraw = sc, o.c, ca
		}
		return &memconn.Link{W: w, R: rd, RRaw: rraw, CloseW: w.Close, Close: func() { ca.Close(); cb.Close() }}, nil
	}
}

type c02Case struct {
	Layer  string `json:"layer"`
	Dir    string `json:"dir"`
	L      int    `json:"L"`
	Split  string `json:"split"`
	Writes []int  `json:"writes,omitempty"`
	Policy string `json:"read_policy"`
	Short  []int  `json:"short_reads_underneath"`
	Each   bool   `json:"read_after_each_write"`
	Nth    int    `json:"nth_transfer_of_session"`
	// last transfer of a session: the writer closes before the reader reads what the last write sent
	CloseEarly  bool               `json:"writer_closes_before_the_last_read,omitempty"`
	EOFWithData bool               `json:"last_segment_arrives_together_with_eof"`
	Scenario    string             `json:"scenario,omitempty"`
	Fault       *memconn.ReadFault `json:"read_fault,omitempty"`
}

func c02ShortWrites(w []int) []int {
	if len(w) > 8 {
		return append(append([]int{}, w[:4]...), -len(w))
	}
	return w
}

func TestVerifC02TLS(t *testing.T) {
	r := vrep.New("C02", "tls-fidelity")
	defer r.Flush()
	cli, srv, err := c02Transports(t)
	if err != nil {
		r.Cap("infrastructure: cannot create transports: %v", err)
		return
	}
	b := memconn.NewBook(r)
	defer b.Finish()
	thorough := vrep.Thorough()
	lengths := []int{0, 1, 2, 17, 1207, 1208, 1209, 16383, 16384, 16385, 65536, 150000}
	shorts := [][]int{{0}, {1}, {7}, {4096}}
	fixed := []int{1, 2, 5, 16, 17, 1208, 16384, 16385, 65536}
	if thorough {
		lengths = append(lengths, 3, 4, 5, 6, 1187, 1191, 1192, 1193, 2416, 16367, 16368, 16369, 32768, 131072, 131073, 300000)
		shorts = append(shorts, []int{2}, []int{3}, []int{5}, []int{1, 7, 3}, []int{16384 + 22})
		fixed = append(fixed, 3, 4, 1191, 1192, 1193, 16383, 70000)
	}
	r.Bounds["L"] = lengths
	r.Bounds["write_splits"] = "whole, 1+rest, rest+1, 16384+rest, 16385+rest, thirds, 0+L+0, thirds with zero-length writes between them [a,0,a,0,0,rest], 1-byte writes for L<=1209"
	if !thorough {
		r.Bounds["quick_reduction_zero_length_writes"] = "the split with zero-length writes in between only with short reads {unlimited,1} underneath"
	}
	r.Bounds["short_read_patterns(cyclic, 0=unlimited)"] = shorts
	r.Bounds["directions"] = "client->server, server->client"
	r.Bounds["read_after"] = "each write | last write"
	r.Bounds["end_of_stream"] = "the last transfer of every session: the writer closes before the reader reads what the last write sent; the connection underneath delivers its last segment together with io.EOF (client->server) | before io.EOF (server->client)"
	r.Bounds["read_sizes"] = fmt.Sprintf("%v, L+1, remaining-1, remaining, remaining+1", fixed)
	// zero-length reads (len(buf) = 0) interleaved: z(i mod n) of them before the i-th non-empty Read
	zeroPols := []memconn.Policy{memconn.Fixed(17).WithZeros(1), memconn.Rel(-1).WithZeros(2, 0), memconn.Fixed(16384).WithZeros(0, 1)}
	if thorough {
		zeroPols = append(zeroPols, memconn.Fixed(1).WithZeros(1, 2), memconn.Rel(0).WithZeros(1), memconn.Fixed(1208).WithZeros(0, 0, 3))
	}
	var zn []string
	for _, p := range zeroPols {
		zn = append(zn, p.Name)
	}
	r.Bounds["read_sizes_with_zero_length_reads(z(i mod n) empty-buffer Reads before the i-th non-empty Read)"] = zn
	payloads := map[string][]byte{}
	for _, L := range lengths {
		pols := append(memconn.Policies(append(append([]int{}, fixed...), L+1), []int{-1, 0, 1}), zeroPols...)
		for _, sp := range memconn.Splits(L, []int{16384, 16385}, 1209) {
			for _, short := range shorts {
				if !thorough && sp.Name == "thirds+0s" && short[0] > 1 {
					continue // quick: the split with zero-length writes in between only with short reads {unlimited,1}
				}
				for _, dir := range []string{"c2s", "s2c"} {
					if !b.Mine(dir, sp.Sizes, short) {
						continue
					}
					for _, each := range []bool{false, true} {
						if each && len(sp.Sizes) == 1 {
							continue
						}
						if !thorough && (dir == "s2c" || each) && short[0] > 1 {
							continue
						}
						if b.Over() {
							return
						}
						items := make([]memconn.Item, len(pols))
						cases := make([]c02Case, len(pols))
						for i, pol := range pols {
							k := fmt.Sprint(L, dir, i)
							if payloads[k] == nil {
								if len(payloads) > 256 {
									clear(payloads)
								}
								payloads[k] = memconn.Pattern(uint64(0x7150000+i*2+len(dir)), L)
							}
							last := i == len(pols)-1
							items[i] = memconn.Item{Payload: payloads[k], Writes: sp.Sizes, Each: each, Pol: pol, CloseEarly: last}
							cases[i] = c02Case{Layer: "tls", Dir: dir, L: L, Split: sp.Name, Writes: c02ShortWrites(sp.Sizes), Policy: pol.Name, Short: short, Each: each, Nth: i, CloseEarly: last, EOFWithData: dir == "c2s"}
						}
						res := memconn.RunFidelity(t, c02Setup(cli, srv, dir, short, dir == "c2s"), items, &b.Buf, nil)
						b.Fidelity("tls", res, len(items), func(i int) any { return cases[i] })
						for i := 0; i < res.Done; i++ {
							r.Outcome("tls transfer delivered intact")
							b.Distinct(cases[i], dir, sp.Sizes, short, each, cases[i].Policy)
						}
					}
				}
			}
		}
	}
}

type c02TCase struct {
	Layer    string       `json:"layer"`
	Dir      string       `json:"dir"`
	Scenario string       `json:"scenario"`
	Writes   []int        `json:"writes"`
	Edit     memconn.Edit `json:"edit"`
	EditStr  string       `json:"edit_text"`
	Policy   string       `json:"read_policy"`
	Short    []int        `json:"short_reads_underneath"`
	EOFJoin  bool         `json:"end_of_stream_together_with_the_last_segment,omitempty"`
	Outcome  string       `json:"outcome,omitempty"`
}

// c02Cut parses the captured bytes into TLS records.
func c02Cut(_ *memconn.Link, held [][]byte) ([][]byte, string) {
	frames, rest := memconn.SplitFrames(memconn.FrameTLS, memconn.Join(held))
	if len(rest) != 0 {
		return nil, fmt.Sprintf("captured wire does not parse into TLS records (%d trailing bytes)", len(rest))
	}
	if len(frames) == 0 {
		return nil, "no TLS record captured"
	}
	for i, f := range frames {
		if f[0] != 23 {
			return nil, fmt.Sprintf("captured record #%d has outer type %d, expected application_data(23)", i, f[0])
		}
	}
	return frames, ""
}

func TestVerifC02TLSTamper(t *testing.T) {
	r := vrep.New("C02", "tls-tamper")
	defer r.Flush()
	cli, srv, err := c02Transports(t)
	if err != nil {
		r.Cap("infrastructure: cannot create transports: %v", err)
		return
	}
	b := memconn.NewBook(r)
	defer b.Finish()
	thorough := vrep.Thorough()
	type plan struct {
		name   string
		writes []int
		pols   []memconn.Policy
		shorts [][]int
		dirs   []string
		join   bool // the end of the (edited) stream arrives in the same Read call as its last segment
	}
	plans := []plan{
		{"small-records", []int{1, 15, 16, 17, 40}, []memconn.Policy{memconn.Fixed(1), memconn.Fixed(70000)}, [][]int{{0}}, []string{"c2s"}, false},
		{"small-records", []int{1, 15, 16, 17, 40}, []memconn.Policy{memconn.Fixed(70000)}, [][]int{{1}}, []string{"c2s"}, false},
		{"small-records", []int{1, 15, 16, 17, 40}, []memconn.Policy{memconn.Fixed(70000)}, [][]int{{0}}, []string{"s2c"}, false},
		{"large-records", []int{10, 140000, 30000, 5}, []memconn.Policy{memconn.Fixed(70000)}, [][]int{{0}}, []string{"c2s"}, false},
		// zero-length reads interleaved with the reads that meet the edited record
		{"small-records", []int{1, 15, 16, 17, 40}, []memconn.Policy{memconn.Fixed(16).WithZeros(1)}, [][]int{{0}}, []string{"c2s"}, false},
		// the end of the edited stream (after a cut: inside a record) arrives together with its last segment
		{"small-records", []int{1, 15, 16, 17, 40}, []memconn.Policy{memconn.Fixed(16)}, [][]int{{0}}, []string{"c2s"}, true},
	}
	if thorough {
		plans = []plan{
			{"small-records", []int{1, 15, 16, 17, 40}, []memconn.Policy{memconn.Fixed(1), memconn.Fixed(16), memconn.Fixed(70000), memconn.Fixed(16).WithZeros(1), memconn.Fixed(70000).WithZeros(0, 1)}, [][]int{{0}, {1}, {7}}, []string{"c2s", "s2c"}, false},
			{"large-records", []int{10, 140000, 30000, 5}, []memconn.Policy{memconn.Fixed(4096), memconn.Fixed(70000)}, [][]int{{0}, {7}}, []string{"c2s", "s2c"}, false},
			{"small-records", []int{1, 15, 16, 17, 40}, []memconn.Policy{memconn.Fixed(1), memconn.Fixed(16), memconn.Fixed(70000)}, [][]int{{0}, {7}}, []string{"c2s"}, true},
		}
	}
	var desc []string
	for _, p := range plans {
		var pn []string
		for _, q := range p.pols {
			pn = append(pn, q.Name)
		}
		desc = append(desc, fmt.Sprintf("%s writes=%v policies=%v short_reads=%v dirs=%v end_of_stream_together_with_the_last_segment=%v", p.name, p.writes, pn, p.shorts, p.dirs, p.join))
	}
	r.Bounds["plans"] = desc
	r.Bounds["edits"] = "per TLS record (5-byte header + ciphertext): XOR 0x01 and 0x80 at every byte (records <= 64 bytes) or at the first and last 48 bytes (larger; thorough: also every 4099th byte); drop; duplicate; swap with next; truncate to k bytes with the rest following and cut the stream after k bytes"
	r.Bounds["edits_per_run"] = 1
	r.Bounds["reads_after_first_error"] = 6
	for _, p := range plans {
		L := 0
		for _, w := range p.writes {
			L += w
		}
		payload := memconn.Pattern(0x7157A3, L)
		probe := memconn.RunTamper(t, c02Setup(cli, srv, p.dirs[0], []int{0}, false), payload, p.writes, memconn.Fixed(70000), c02Cut, memconn.Edit{Kind: "none"}, true, &b.Buf)
		if probe.Frames == nil {
			r.Cap("infrastructure: probe run of %s captured nothing (%s %s)", p.name, probe.Infra, probe.Panic)
			continue
		}
		if len(probe.Frames) > 40 && !thorough {
			// many full-size records in the middle behave alike: keep the first 3 and the last 3 for edits
			r.Bounds["large-records_quick"] = fmt.Sprintf("%d records captured; edits applied to the first 3 and last 3 records", len(probe.Frames))
		}
		var sizes []int
		for _, f := range probe.Frames {
			sizes = append(sizes, len(f))
		}
		r.Bounds["record_sizes_"+p.name] = c02ShortWrites(sizes)
		edits := memconn.Edits(probe.Frames, 5, thorough)
		for _, dir := range p.dirs {
			for ei, e := range edits {
				if !thorough && len(probe.Frames) > 40 && e.Frame >= 3 && e.Frame < len(probe.Frames)-3 {
					continue
				}
				if !b.Mine(p.name, dir, ei, p.join) {
					continue
				}
				for _, pol := range p.pols {
					for _, short := range p.shorts {
						if b.Over() {
							return
						}
						c := c02TCase{Layer: "tls", Dir: dir, Scenario: p.name, Writes: p.writes, Edit: e, EditStr: e.String(), Policy: pol.Name, Short: short, EOFJoin: p.join}
						res := memconn.RunTamper(t, c02Setup(cli, srv, dir, short, p.join), payload, p.writes, pol, c02Cut, e, false, &b.Buf)
						if cls := b.Tamper("tls", res, e, L, c); cls != "" && res.Changed {
							c.Outcome = cls
							b.Distinct(c, p.name, dir, e, res.Truncation, p.join)
						}
					}
				}
			}
		}
	}
}

// TestVerifC02TLSReadFaults: one fresh session per run; the writer writes everything (W wire bytes in flight, cut
// into records by a probe run), then the stream ends (the writer closes: close_notify + end of the connection,
// delivered with / after the last segment) or the connection breaks after Pos of the W bytes (reset / expired
// deadline together with the segment that ends at Pos, or - reset - after it). Pos: 1, 2, 3, W/2, W-2, W-1, W and
// c-1 .. c+5 around every record boundary c (inside the next 5-byte header, on its first ciphertext byte). The
// reader reads on for 6 Reads after its first error. Oracle: memconn.FaultResult.Judge.
func TestVerifC02TLSReadFaults(t *testing.T) {
	r := vrep.New("C02", "tls-readfaults")
	defer r.Flush()
	cli, srv, err := c02Transports(t)
	if err != nil {
		r.Cap("infrastructure: cannot create transports: %v", err)
		return
	}
	b := memconn.NewBook(r)
	defer b.Finish()
	thorough := vrep.Thorough()
	type plan struct {
		name   string
		writes []int
		pols   []memconn.Policy
		shorts [][]int
		dirs   []string
	}
	plans := []plan{
		{"small-records", []int{1, 15, 16, 17, 40}, []memconn.Policy{memconn.Fixed(1), memconn.Fixed(16), memconn.Rel(0), memconn.Fixed(70000), memconn.Fixed(16).WithZeros(1)}, [][]int{{0}, {1}, {7}}, []string{"c2s"}},
		{"large-records", []int{10, 20000, 5}, []memconn.Policy{memconn.Fixed(4096), memconn.Fixed(70000)}, [][]int{{0}, {7}}, []string{"c2s"}},
	}
	if thorough {
		plans = []plan{
			{"small-records", []int{1, 15, 16, 17, 40}, []memconn.Policy{memconn.Fixed(1), memconn.Fixed(2), memconn.Fixed(16), memconn.Rel(-1), memconn.Rel(0), memconn.Rel(1), memconn.Fixed(70000), memconn.Fixed(16).WithZeros(1), memconn.Fixed(70000).WithZeros(0, 1)}, [][]int{{0}, {1}, {2}, {5}, {7}}, []string{"c2s", "s2c"}},
			{"large-records", []int{10, 20000, 5}, []memconn.Policy{memconn.Fixed(1), memconn.Fixed(4096), memconn.Fixed(16384), memconn.Fixed(70000)}, [][]int{{0}, {1}, {7}, {4096}}, []string{"c2s", "s2c"}},
		}
	}
	var desc []string
	for _, p := range plans {
		var pn []string
		for _, q := range p.pols {
			pn = append(pn, q.Name)
		}
		desc = append(desc, fmt.Sprintf("%s writes=%v policies=%v short_reads=%v dirs=%v", p.name, p.writes, pn, p.shorts, p.dirs))
	}
	r.Bounds["plans"] = desc
	r.Bounds["faults"] = "eof {with | after the last segment}; at every position: reset with the segment, reset after the segment (control), expired deadline with the segment"
	r.Bounds["fault_positions(wire bytes delivered before the break, of W in flight)"] = "1, 2, 3, W/2, W-2, W-1, W; c-1 .. c+5 for every record boundary c"
	r.Bounds["reads_after_first_error"] = 6
	for _, p := range plans {
		L := 0
		for _, w := range p.writes {
			L += w
		}
		payload := memconn.Pattern(0x715FA17, L)
		for _, dir := range p.dirs {
			probe := memconn.RunReadFault(t, c02Setup(cli, srv, dir, []int{0}, false), payload, p.writes, p.pols[0], memconn.ReadFault{}, true, &b.Buf)
			recs, rest := memconn.SplitFrames(memconn.FrameTLS, probe.Wire)
			if probe.W == 0 || len(rest) != 0 {
				r.Cap("infrastructure: probe run of %s/%s: %d wire bytes, %d trailing (%s %s)", p.name, dir, probe.W, len(rest), probe.Infra, probe.Panic)
				continue
			}
			var marks, sizes []int
			c := 0
			for _, rec := range recs {
				c += len(rec)
				sizes = append(sizes, len(rec))
				for d := -1; d <= 5; d++ {
					marks = append(marks, c+d)
				}
			}
			r.Bounds["record_sizes_in_flight_"+p.name+"_"+dir] = sizes
			faults := memconn.Faults(probe.W, marks)
			for fi, f := range faults {
				if !b.Mine(p.name, dir, fi) {
					continue
				}
				for _, pol := range p.pols {
					for _, short := range p.shorts {
						if b.Over() {
							return
						}
						f := f
						c := c02Case{Layer: "tls", Dir: dir, L: L, Scenario: p.name, Writes: p.writes, Policy: pol.Name, Short: short, EOFWithData: f.Kind == "eof" && f.WithData, Fault: &f}
						res := memconn.RunReadFault(t, c02Setup(cli, srv, dir, short, false), payload, p.writes, pol, f, false, &b.Buf)
						if res.Panic == "" && res.Infra == "" && res.W != probe.W {
							r.Cap("infrastructure: %d wire bytes in flight, the probe run had %d", res.W, probe.W)
						}
						if cls := b.ReadFault("tls", res, f, L, c); cls != "" {
							b.Distinct(c, p.name, dir, fi, pol.Name, short)
						}
					}
				}
			}
		}
	}
}
