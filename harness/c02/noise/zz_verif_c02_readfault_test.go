//go:build verif

package noise

// C02 part "noise", read faults: the connection underneath the reading session ends or breaks while frames are
// in flight, and the end / the error is delivered the way the io.Reader contract allows but a kernel socket
// never does - in the SAME Read call as the last segment (n > 0 together with err != nil) - or, as the control,
// in a Read of its own. Stacks: Noise, and PSK -> Noise (the PSK layer then sees the data-with-error first).
//
// One fresh session per run: the writer writes everything (W wire bytes in flight), then
//   eof     the writer closes; the last segment arrives with / before io.EOF            -> all bytes must arrive
//   reset   the connection breaks after Pos of the W bytes, error with / after the segment that ends there
//   timeout the same with an expired read deadline, error with the segment
// Pos: 1, 2, 3, W/2, W-2, W-1, W and around every frame boundary c (c-1 .. c+3: before the boundary, on it,
// inside the next length prefix, on the first ciphertext byte) and around 4096 (the session's bufio.Reader).
// The reader reads on for 6 Reads after its first error. Oracle: memconn.FaultResult.Judge - every byte ever
// returned (by the failing Read too) is the byte written at that position, nothing beyond what was written.

import (
	"fmt"
	"testing"

	"github.com/libp2p/go-libp2p/x/verif/memconn"
	"github.com/libp2p/go-libp2p/x/verif/vrep"
)

func TestVerifC02NoiseReadFaults(t *testing.T) {
	r := vrep.New("C02", "noise-readfaults")
	defer r.Flush()
	ti, tr, err := c02Transports()
	if err != nil {
		r.Cap("infrastructure: cannot create transports: %v", err)
		return
	}
	b := memconn.NewBook(r)
	defer b.Finish()
	thorough := vrep.Thorough()
	small := c02Scenario{"small-frames", []int{1, 15, 16, 17, 40}}
	big := c02Scenario{"max-frames", []int{10, MaxPlaintextLength + 100, 5}}
	type plan struct {
		sc     c02Scenario
		stacks []string
		pols   []memconn.Policy
		shorts [][]int
		dirs   []string
	}
	pSmall := []memconn.Policy{memconn.Fixed(1), memconn.Fixed(16), memconn.Rel(0), memconn.Rel(16), memconn.Fixed(70000), memconn.Fixed(16).WithZeros(1)}
	pBig := []memconn.Policy{memconn.Fixed(4096), memconn.Rel(0), memconn.Fixed(70000)}
	// quick: one policy per reader path (queued Bp, pooled-and-copied Bf, in place D, zero-length Bp0)
	pQuick := []memconn.Policy{pSmall[0], pSmall[2], pSmall[3], pSmall[5]}
	plans := []plan{
		{small, []string{"noise"}, pQuick, [][]int{{0}, {1}, {7}}, []string{"i2r"}},
		{small, []string{"psk>noise"}, pQuick, [][]int{{0}, {1}}, []string{"i2r"}},
		{big, []string{"noise"}, []memconn.Policy{pBig[0], pBig[2]}, [][]int{{0}, {4096}}, []string{"i2r"}},
	}
	if thorough {
		plans = []plan{
			{small, []string{"noise", "psk>noise"}, append(append([]memconn.Policy{}, pSmall...), memconn.Fixed(2), memconn.Rel(-1), memconn.Rel(15), memconn.Rel(0).WithZeros(0, 1)), [][]int{{0}, {1}, {2}, {3}, {7}}, []string{"i2r", "r2i"}},
			{big, []string{"noise", "psk>noise"}, append(append([]memconn.Policy{}, pBig...), memconn.Fixed(1), memconn.Rel(16)), [][]int{{0}, {1}, {7}, {4096}, {4097}}, []string{"i2r", "r2i"}},
		}
	}
	var desc []string
	for _, p := range plans {
		var pn []string
		for _, q := range p.pols {
			pn = append(pn, q.Name)
		}
		desc = append(desc, fmt.Sprintf("%v/%s writes=%v policies=%v short_reads=%v dirs=%v", p.stacks, p.sc.Name, p.sc.Writes, pn, p.shorts, p.dirs))
	}
	r.Bounds["plans"] = desc
	r.Bounds["faults"] = "eof {with | after the last segment}; at every position: reset with the segment, reset after the segment (control), expired deadline with the segment"
	r.Bounds["fault_positions(wire bytes delivered before the break, of W in flight)"] = "1, 2, 3, W/2, W-2, W-1, W; c-1, c, c+1, c+2, c+3 for every frame boundary c; 4095, 4096, 4097"
	r.Bounds["reads_after_first_error"] = 6
	for _, p := range plans {
		L := c02Sum(p.sc.Writes)
		payload := memconn.Pattern(0xFA17, L)
		frames := c02Frames(p.sc.Writes)
		// the wire: every frame is prefix(2) + plaintext + tag(16); the PSK layer adds nothing after the handshake
		W, marks := 0, []int{4095, 4096, 4097}
		for _, f := range frames {
			W += f + 16 + LengthPrefixLength
			for d := -1; d <= 3; d++ {
				marks = append(marks, W+d)
			}
		}
		faults := memconn.Faults(W, marks)
		for _, stack := range p.stacks {
			for _, dir := range p.dirs {
				probe := memconn.RunReadFault(t, c02Setup(ti, tr, stack, dir, []int{0}, frames, false, false), payload, p.sc.Writes, p.pols[0], memconn.ReadFault{}, true, &b.Buf)
				if probe.W != W {
					r.Cap("infrastructure: %s/%s: %d wire bytes in flight, computed %d (%s %s)", stack, p.sc.Name, probe.W, W, probe.Infra, probe.Panic)
					continue
				}
				for fi, f := range faults {
					if !b.Mine(stack, p.sc.Name, dir, fi) {
						continue
					}
					for _, pol := range p.pols {
						for _, short := range p.shorts {
							if b.Over() {
								return
							}
							f := f
							c := c02Case{Stack: stack, Dir: dir, L: L, Scenario: p.sc.Name, Writes: p.sc.Writes, Policy: pol.Name, Short: short, EOFWithData: f.Kind == "eof" && f.WithData, Fault: &f}
							res := memconn.RunReadFault(t, c02Setup(ti, tr, stack, dir, short, frames, false, false), payload, p.sc.Writes, pol, f, false, &b.Buf)
							if cls := b.ReadFault(stack, res, f, L, c); cls != "" {
								b.Distinct(c, stack, p.sc.Name, dir, fi, pol.Name, short)
							}
						}
					}
				}
			}
		}
	}
}
