//go:build verif

package noise

// C02, the stack's own first reader of a secured connection: multistream-select. "Bytes written to a secured
// connection ... reach the remote reader ... for every sequence of write sizes": right after the handshake the
// upgrader negotiates the stream multiplexer over the Noise session (p2p/net/upgrader negotiateMuxer: go-multistream
// SelectOneOf on the dialling side, MultistreamMuxer.Negotiate on the accepting side). The remote is free to put the
// bytes of its multistream tokens into Noise frames any way it likes (go-libp2p's own writer happens to send one token
// per frame): here the remote end is scripted and sends the exact byte sequence of an honest negotiation cut into
// separate writes (= Noise frames) at every single position and at every pair of positions, while the real
// go-multistream code reads from the real Noise session. Oracle: the negotiation succeeds with the protocol both
// sides speak - the connection is healthy and every byte was sent exactly once, in order.

import (
	"fmt"
	"io"
	"testing"
	"testing/synctest"
	"time"

	"github.com/libp2p/go-libp2p/core/protocol"
	"github.com/libp2p/go-libp2p/x/verif/vrep"
	mss "github.com/multiformats/go-multistream"
)

const c02MssProto = protocol.ID("/yamux/1.0.0")

func c02MssToken(s string) []byte { return append([]byte{byte(len(s) + 1)}, []byte(s+"\n")...) }

// c02MssCase: role = what the LOCAL (real) side does; cuts = positions at which the remote's byte sequence is cut.
type c02MssCase struct {
	Role string `json:"local_role"` // "dialer" (SelectOneOf) | "listener" (Negotiate)
	Cuts []int  `json:"cuts"`
}

func TestVerifC02NoiseMultistream(t *testing.T) {
	r := vrep.New("C02", "noise-multistream")
	defer r.Flush()
	ti, tr, err := c02Transports()
	if err != nil {
		r.Cap("infrastructure: cannot create transports: %v", err)
		return
	}
	hello, proto := c02MssToken("/multistream/1.0.0"), c02MssToken(string(c02MssProto))
	// what an honest remote sends in either role: its header, then the protocol (as proposal or as confirmation)
	seq := append(append([]byte{}, hello...), proto...)
	var cases []c02MssCase
	for _, role := range []string{"dialer", "listener"} {
		cases = append(cases, c02MssCase{Role: role})
		for i := 1; i < len(seq); i++ {
			cases = append(cases, c02MssCase{Role: role, Cuts: []int{i}})
		}
		for i := 1; i < len(seq); i++ {
			for j := i + 1; j < len(seq); j++ {
				if vrep.Thorough() || i == len(hello) || j == len(hello) || i == 1 || j == len(hello)+1 || j == i+1 {
					cases = append(cases, c02MssCase{Role: role, Cuts: []int{i, j}})
				}
			}
		}
	}
	r.Bounds["remote_byte_sequence"] = fmt.Sprintf("%q", seq)
	r.Bounds["cuts"] = "none; every single position; pairs of positions (quick: pairs touching a token boundary or a length prefix, and adjacent pairs; thorough: all pairs)"
	r.Bounds["local_roles"] = "dialer: mss.SelectOneOf; listener: MultistreamMuxer.Negotiate (as upgrader.negotiateMuxer)"
	shard, nshards := vrep.Shard()
	distinct := map[string]struct{}{}
	for ci, cs := range cases {
		if ci%nshards != shard {
			continue
		}
		if time.Now().After(vrep.Deadline()) {
			r.Cap("deadline reached after %d cases", r.Executions)
			break
		}
		var nerr error
		var got protocol.ID
		infra := ""
		synctest.Test(t, func(t *testing.T) {
			p, err := c02Handshake(ti, tr, nil, false, false)
			if err != nil {
				infra = err.Error()
				return
			}
			local, remote := p.ini, p.res
			defer p.ca.Close()
			defer p.cb.Close()
			// the scripted remote: sends its bytes cut as the case says, reads and discards whatever the local side sends
			go io.Copy(io.Discard, remote)
			go func() {
				prev := 0
				for _, c := range append(append([]int{}, cs.Cuts...), len(seq)) {
					if _, err := remote.Write(seq[prev:c]); err != nil {
						return
					}
					prev = c
				}
			}()
			local.SetDeadline(time.Now().Add(time.Minute)) // virtual: a negotiation that waits for ever ends as an error
			if cs.Role == "dialer" {
				got, nerr = mss.SelectOneOf([]protocol.ID{c02MssProto}, local)
			} else {
				mux := mss.NewMultistreamMuxer[protocol.ID]()
				mux.AddHandler(c02MssProto, nil)
				got, _, nerr = mux.Negotiate(local)
			}
		})
		if infra != "" {
			r.Cap("infrastructure (no verdict): %s", infra)
			continue
		}
		r.Executions++
		cls := fmt.Sprintf("%s cuts=%d ok=%v", cs.Role, len(cs.Cuts), nerr == nil)
		r.Outcome(cls)
		distinct[fmt.Sprintf("%s|%v", cs.Role, cs.Cuts)] = struct{}{}
		if ci%97 == 0 {
			r.Sample(map[string]any{"case": cs, "negotiated": string(got), "error": fmt.Sprint(nerr)})
		}
		if nerr != nil || got != c02MssProto {
			r.Violate("noise:multistream-negotiation-fails-on-healthy-conn", fmt.Sprintf("local %s, the remote sent the bytes of an honest negotiation in %d Noise frames (cut at %v): negotiation over the Noise session returned (%q, %v)", cs.Role, len(cs.Cuts)+1, cs.Cuts, got, nerr),
				map[string]any{"part": "noise-multistream", "case": cs})
		}
	}
	r.Distinct = int64(len(distinct))
}
