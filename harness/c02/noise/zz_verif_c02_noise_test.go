//go:build verif

package noise

// C02 part "noise": fidelity of the Noise secure channel (rw.go) for every point of a grid
//   payload length x write split x read-buffer policy x short-read pattern of the connection underneath
//   x direction x (read after every write | after the last write) [x reader writes back meanwhile],
// over real transports after a real XX handshake on an in-memory connection, inside a testing/synctest
// bubble. One fresh session per (length, split, short reads, direction, mode); the read policies follow one
// another on it, each with a payload of its own, so nonces and the queued remainder carry over from one
// transfer to the next as on a long-lived connection. The same driver runs the stack pnet(PSK) -> Noise.
//
// Oracle = the statement: what Read has returned so far is exactly the prefix of what Write has accepted so
// far, after every single Read; Write returns len(p) or an error (an error on a healthy connection is
// reported too, since those bytes can never arrive).
//
// White box: before every Read the harness computes, from (queued remainder, plaintext size of the pending
// frame, len(buf)) alone, which of the reader's code paths the Read takes and what it returns; afterwards it
// classifies the path actually taken from qbuf/qseek and compares. Every (path -> next path) pair of the
// reader's automaton must have occurred (else the run is reported as not exhaustive - never as a violation).
//
// Zero-length buffers belong to "every sequence of read-buffer sizes": a number of read policies interleave
// Reads with len(buf) == 0 (memconn.Policy.Zeros) so that such a Read meets each state of the reader - no
// queue (the pending frame is buffered and queued as a whole, path Bp0), a remainder queued (nothing moves,
// Qp0), an empty remainder queued (released, Qz0) - and is followed by each kind of Read. The fidelity oracle
// is unchanged (a zero-length Read returns 0 bytes; what the later Reads return must still be the prefix);
// the path automaton has the three paths and their pairs added. Zero-length writes are part of the write
// splits (at the start, at the end, between two non-empty writes; they produce no frame).
//
// End of the stream / errors of the connection underneath ("any underlying connection": an io.Reader may return
// n > 0 TOGETHER WITH err != nil): the last transfer of every session ends with the writer closing BEFORE the
// reader has read what the last write sent; the connection underneath hands the reader its last segment in the
// same Read call as io.EOF (initiator->responder sessions) or before it (responder->initiator sessions). All
// bytes must have arrived when the reader sees the end. TestVerifC02NoiseReadFaults (below) breaks the
// connection at enumerated wire positions with the error arriving together with the segment that ends there.

import (
	"context"
	"crypto/sha256"
	"encoding/binary"
	"fmt"
	"net"
	"slices"
	"sort"
	"strings"
	"testing"
	"time"

	"github.com/libp2p/go-libp2p/core/crypto"
	ipnet "github.com/libp2p/go-libp2p/core/pnet"
	"github.com/libp2p/go-libp2p/p2p/net/pnet"
	"github.com/libp2p/go-libp2p/x/verif/memconn"
	"github.com/libp2p/go-libp2p/x/verif/vrep"
)

// ---------- deterministic identities ----------

type c02SeedReader struct {
	seed uint64
	ctr  uint64
	buf  []byte
}

func (r *c02SeedReader) Read(p []byte) (int, error) {
	for i := range p {
		if len(r.buf) == 0 {
			var in [16]byte
			binary.BigEndian.PutUint64(in[:8], r.seed)
			binary.BigEndian.PutUint64(in[8:], r.ctr)
			r.ctr++
			h := sha256.Sum256(in[:])
			r.buf = h[:]
		}
		p[i] = r.buf[0]
		r.buf = r.buf[1:]
	}
	return len(p), nil
}

func c02Transports() (ini, res *Transport, err error) {
	mk := func(i uint64) (*Transport, error) {
		k, _, err := crypto.GenerateEd25519Key(&c02SeedReader{seed: uint64(vrep.Seed())*1000 + i})
		if err != nil {
			return nil, err
		}
		return New(ID, k, nil)
	}
	if ini, err = mk(1); err != nil {
		return
	}
	res, err = mk(2)
	return
}

var c02PSK = func() ipnet.PSK {
	p := make([]byte, 32)
	for i := range p {
		p[i] = byte(i*7 + 3)
	}
	return p
}()

// c02Pair: fresh connection, optional PSK layer, real handshake. Must run inside a bubble.
type c02Pair struct {
	ini, res *secureSession // initiator / responder sessions
	ca, cb   *memconn.Conn  // raw ends underneath (ca: initiator side)
}

func c02Handshake(ti, tr *Transport, short []int, psk, eofWithData bool) (*c02Pair, error) {
	ca, cb := memconn.Pair()
	ca.SetReadChunks(short...)
	cb.SetReadChunks(short...)
	ca.SetEOFWithData(eofWithData)
	cb.SetEOFWithData(eofWithData)
	var na, nb net.Conn = ca, cb
	if psk {
		var err error
		if na, err = pnet.NewProtectedConn(c02PSK, ca); err != nil {
			return nil, err
		}
		if nb, err = pnet.NewProtectedConn(c02PSK, cb); err != nil {
			return nil, err
		}
	}
	// a deadline far in the virtual future turns a handshake that can never complete into an error
	ca.SetReadDeadline(time.Now().Add(time.Hour))
	cb.SetReadDeadline(time.Now().Add(time.Hour))
	type out struct {
		s   *secureSession
		err error
	}
	ch := make(chan out, 1)
	go func() {
		c, err := ti.SecureOutbound(context.Background(), na, tr.localID)
		s, _ := c.(*secureSession)
		ch <- out{s, err}
	}()
	c, err := tr.SecureInbound(context.Background(), nb, "")
	o := <-ch
	if err != nil || o.err != nil {
		ca.Close()
		cb.Close()
		return nil, fmt.Errorf("handshake failed: inbound=%v outbound=%v", err, o.err)
	}
	ca.SetReadDeadline(time.Time{})
	cb.SetReadDeadline(time.Time{})
	return &c02Pair{ini: o.s, res: c.(*secureSession), ca: ca, cb: cb}, nil
}

// ---------- the reader's code paths ----------

const (
	c02D   = iota // no queue; len(buf) >= encrypted length: read and decrypt in the caller's buffer
	c02Bp         // no queue; len(buf) < plaintext length: pooled buffer, part copied, remainder queued
	c02Bf         // no queue; plaintext <= len(buf) < encrypted length: pooled buffer, all copied, buffer released at once
	c02Qp         // queue drained partly
	c02Ql         // queue drained to its end (>0 bytes) and released
	c02Qz         // empty remainder released, Read returns (0, nil)
	c02Bp0        // ZERO-LENGTH buffer, no queue: the pending frame is buffered and queued as a whole, (0, nil)
	c02Qp0        // ZERO-LENGTH buffer, remainder queued: nothing moves, (0, nil)
	c02Qz0        // ZERO-LENGTH buffer, empty remainder queued: released, (0, nil)
	c02E          // Read returned an error
	c02None
)

var c02PathName = [...]string{"D", "Bp", "Bf", "Qp", "Ql", "Qz", "Bp0", "Qp0", "Qz0", "E", "?"}

// c02ZeroPath: the name of a path when it is taken by a Read with an empty buffer (only Bp, Qp and Qz can be).
func c02ZeroPath(path, r int) int {
	if r != 0 {
		return path
	}
	switch path {
	case c02Bp:
		return c02Bp0
	case c02Qp:
		return c02Qp0
	case c02Qz:
		return c02Qz0
	}
	return path
}

// every transition of the reader's path automaton
var c02PathPairs = [][2]int{
	{c02D, c02D}, {c02D, c02Bp}, {c02D, c02Bf}, {c02Bp, c02Qp}, {c02Bp, c02Ql}, {c02Bf, c02D}, {c02Bf, c02Bp}, {c02Bf, c02Bf}, {c02Qp, c02Qp}, {c02Qp, c02Ql},
	{c02Ql, c02D}, {c02Ql, c02Bp}, {c02Ql, c02Bf},
	// zero-length reads: in each of the two states, after each kind of predecessor, before each kind of successor
	{c02D, c02Bp0}, {c02Ql, c02Bp0}, {c02Bf, c02Bp0}, {c02Bp, c02Qp0}, {c02Qp, c02Qp0}, {c02Bp0, c02Qp0}, {c02Qp0, c02Qp0},
	{c02Bp0, c02Qp}, {c02Bp0, c02Ql}, {c02Qp0, c02Qp}, {c02Qp0, c02Ql},
}

// (Until the repair of DESIGN.md section 9, row 33, a frame that fitted the caller's buffer exactly left an EMPTY
// remainder queued - path Bf - and the next Read released it and returned (0, nil) - paths Qz / Qz0. Those two paths
// no longer exist; the constants stay so that an old tree is still described correctly.)
var c02PathPairsOptional = [][2]int{}

// c02Frames: plaintext sizes of the frames Write produces for the given write sizes.
func c02Frames(writes []int) []int {
	var f []int
	for _, w := range writes {
		for w > 0 {
			c := w
			if c > MaxPlaintextLength {
				c = MaxPlaintextLength
			}
			f = append(f, c)
			w -= c
		}
	}
	return f
}

// c02Tracker follows one reading session: white-box queue state + index of the next frame on the wire.
type c02Tracker struct {
	s      *secureSession
	frames []int // plaintext sizes of all frames the session's writer will send, in order
	fi     int   // frames consumed from the wire so far (as observed)
	// per Read
	preQ     int // queued remainder before the Read (-1: no queue)
	predPath int
	predN    int
	// trace of the current transfer
	last     int
	rle      []string
	rleN     int
	pairs    [c02None + 1][c02None + 1]int
	mismatch []string
	// chatter: whenever a frame has just been buffered with a remainder left in the queue (path Bp), the
	// READING session writes a frame of the same size in the opposite direction (nobody reads it): traffic
	// in both directions shares the buffer pool, so a pooled buffer that is still queued must not be reused
	chatter    bool
	chatterErr error
}

var c02Junk = make([]byte, MaxPlaintextLength)

func (k *c02Tracker) queued() int {
	if k.s.qbuf == nil {
		return -1
	}
	return len(k.s.qbuf) - k.s.qseek
}

// pending: the size the "pending-relative" read policies refer to: the queued remainder if there is a
// queue, else the plaintext size of the next frame on the wire (1 when unknown).
func (k *c02Tracker) pending() int {
	if q := k.queued(); q >= 0 {
		return q
	}
	if k.fi < len(k.frames) {
		return k.frames[k.fi]
	}
	return 1
}

// before computes, from (queued remainder, size of the pending frame, len(buf)) alone, the path this Read
// is going to take and the count it will return.
func (k *c02Tracker) before(r int) {
	k.preQ = k.queued()
	switch {
	case k.preQ > r:
		k.predPath, k.predN = c02Qp, r
	case k.preQ > 0:
		k.predPath, k.predN = c02Ql, k.preQ
	case k.preQ == 0:
		k.predPath, k.predN = c02Qz, 0
	case k.fi >= len(k.frames):
		k.predPath, k.predN = c02None, 0 // nothing on the wire: EOF / error expected
	default:
		p := k.frames[k.fi]
		switch {
		case r >= p+16:
			k.predPath, k.predN = c02D, p
		case r >= p:
			k.predPath, k.predN = c02Bf, p
		default:
			k.predPath, k.predN = c02Bp, r
		}
	}
	k.predPath = c02ZeroPath(k.predPath, r)
}

// after classifies the path actually taken from the queue state before and after the Read.
func (k *c02Tracker) after(r, n int, err error) {
	if err != nil {
		k.note(c02E)
		return
	}
	postQ := k.queued()
	var path int
	if k.preQ >= 0 {
		switch {
		case postQ >= 0:
			path = c02Qp
		case n == 0:
			path = c02Qz
		default:
			path = c02Ql
		}
	} else {
		k.fi++
		switch {
		case postQ < 0 && k.fi-1 < len(k.frames) && r < k.frames[k.fi-1]+16:
			path = c02Bf // the frame did not fit together with its tag: pooled buffer, everything copied, released
		case postQ < 0:
			path = c02D
		case postQ == 0:
			path = c02Qz // an exhausted remainder left queued: the old behaviour (reported as a path-model mismatch)
		default:
			path = c02Bp
		}
	}
	path = c02ZeroPath(path, r)
	if k.predPath != c02None && (path != k.predPath || n != k.predN) && len(k.mismatch) < 4 {
		k.mismatch = append(k.mismatch, fmt.Sprintf("Read(len %d) with queue=%d frame#%d: computed %s n=%d, observed %s n=%d", r, k.preQ, k.fi, c02PathName[k.predPath], k.predN, c02PathName[path], n))
	}
	k.note(path)
	if k.chatter && (path == c02Bp || path == c02Bp0) && k.fi-1 < len(k.frames) {
		if _, err := k.s.Write(c02Junk[:k.frames[k.fi-1]]); err != nil && k.chatterErr == nil {
			k.chatterErr = err
		}
	}
}

func (k *c02Tracker) note(path int) {
	k.pairs[k.last][path]++
	if path == k.last {
		k.rleN++
		return
	}
	k.flushRLE()
	k.last, k.rleN = path, 1
}

func (k *c02Tracker) flushRLE() {
	if k.last == c02None || k.rleN == 0 {
		return
	}
	if k.rleN > 1 {
		k.rle = append(k.rle, fmt.Sprintf("%s*%d", c02PathName[k.last], k.rleN))
	} else {
		k.rle = append(k.rle, c02PathName[k.last])
	}
}

// trace returns the run-length encoded path sequence since the previous call. The path of the last Read is
// kept as predecessor, so pairs across two transfers of one session are counted too.
func (k *c02Tracker) trace() string {
	k.flushRLE()
	k.rleN = 0
	rle := k.rle
	k.rle = nil
	if len(rle) > 24 {
		h := sha256.Sum256([]byte(strings.Join(rle, " ")))
		return strings.Join(rle[:12], " ") + fmt.Sprintf(" ...(%d runs, %x)", len(rle), h[:6])
	}
	return strings.Join(rle, " ")
}

// ---------- links ----------

// c02Setup returns the setup function of one direction of a fresh, handshaken session (optionally over the
// PSK layer) with the white-box tracker wired to the reader; frames = plaintext sizes of all frames the
// writer is going to send during the session.
func c02Setup(ti, tr *Transport, stack, dir string, short, frames []int, chatter, eofWithData bool) func() (*memconn.Link, error) {
	return func() (*memconn.Link, error) {
		p, err := c02Handshake(ti, tr, short, stack == "psk>noise", eofWithData)
		if err != nil {
			return nil, err
		}
		w, rd, rraw := p.ini, p.res, p.cb
		if dir == "r2i" {
			w, rd, rraw = p.res, p.ini, p.ca
		}
		trk := &c02Tracker{s: rd, frames: frames, last: c02None, chatter: chatter}
		return &memconn.Link{W: w, R: rd, RRaw: rraw, CloseW: w.Close, Close: func() { p.ca.Close(); p.cb.Close() },
			Pending: trk.pending, Before: trk.before, After: trk.after, Extra: trk}, nil
	}
}

// ---------- grid ----------

type c02Case struct {
	Stack  string `json:"stack"` // "noise" | "psk>noise"
	Dir    string `json:"dir"`   // "i2r" | "r2i"
	L      int    `json:"L"`
	Split  string `json:"split"`
	Writes []int  `json:"writes,omitempty"`
	Policy string `json:"read_policy"`
	Short  []int  `json:"short_reads_underneath"`
	Each   bool   `json:"read_after_each_write"`
	Duplex bool   `json:"reader_writes_back_while_a_remainder_is_queued,omitempty"`
	Nth    int    `json:"nth_transfer_of_session"`
	Trace  string `json:"reader_paths,omitempty"`
	// last transfer of a session: the writer closes before the reader reads what the last write sent
	CloseEarly  bool               `json:"writer_closes_before_the_last_read,omitempty"`
	EOFWithData bool               `json:"last_segment_arrives_together_with_eof"`
	Scenario    string             `json:"scenario,omitempty"`
	Fault       *memconn.ReadFault `json:"read_fault,omitempty"`
}

func c02ShortWrites(w []int) []int {
	if len(w) > 8 {
		return append(append([]int{}, w[:4]...), -len(w)) // "-n" = n writes in total
	}
	return w
}

// 4078 = 4096 - 2 - 16: frame + length prefix fill the 4096-byte bufio.Reader of the session exactly
var c02Lengths = []int{0, 1, 2, 15, 16, 17, 4077, 4078, 4079,
	MaxPlaintextLength - 1, MaxPlaintextLength, MaxPlaintextLength + 1,
	MaxTransportMsgLength - 1, MaxTransportMsgLength, MaxTransportMsgLength + 1,
	2*MaxPlaintextLength - 1, 2 * MaxPlaintextLength, 2*MaxPlaintextLength + 1, 3*MaxPlaintextLength + 1}

var c02LengthsThorough = []int{3, 4061, 4062, 4063, 4093, 4094, 4095, 4096, 4097, 8174, 32768,
	MaxPlaintextLength - 17, MaxPlaintextLength - 16, MaxPlaintextLength - 15, 2 * MaxTransportMsgLength, 4 * MaxPlaintextLength, 4*MaxPlaintextLength + 1}

var c02ShortPatterns = [][]int{{0}, {1}, {2}, {3}, {7}, {4096}}
var c02ShortPatternsThorough = [][]int{{1, 7, 3}, {4096, 1}, {2, 65535}, {4095}, {4097}}

func c02Policies(L int, thorough, zeros bool) []memconn.Policy {
	fixed := []int{1, 2, 15, 16, 17, MaxPlaintextLength, MaxTransportMsgLength, 65536, 65537, 70000, L + 1}
	if thorough {
		fixed = append(fixed, 3, 4096, MaxPlaintextLength-1, MaxPlaintextLength+1, MaxTransportMsgLength-1, 2*MaxPlaintextLength, L+16, L+17)
	}
	pols := memconn.Policies(fixed, []int{-1, 0, 1, 15, 16, 17})
	if !zeros {
		return pols
	}
	// Zero-length reads interleaved (pattern = number of empty-buffer Reads before each non-empty Read, cyclic).
	// The order matters on a session: r=pending and r=pending+15 leave an EMPTY remainder queued when their
	// transfer ends, so the policy that follows starts with a zero-length Read in that state; the others start
	// with no queue, and the zero-length Reads in between meet a partly drained queue.
	pols = append(pols,
		memconn.Rel(0).WithZeros(0, 1),
		memconn.Fixed(17).WithZeros(1, 2),
		memconn.Rel(-1).WithZeros(2, 0),
		memconn.Rel(15).WithZeros(0, 2),
		memconn.Rel(16).WithZeros(1),
		memconn.Rel(16).WithZeros(0, 1)) // (a zero-length Read right after a frame was read and decrypted in the caller's buffer)
	if thorough {
		pols = append(pols,
			memconn.Fixed(MaxPlaintextLength).WithZeros(0, 1),
			memconn.Fixed(1).WithZeros(1),
			memconn.Rel(1).WithZeros(1, 0, 2),
			memconn.Fixed(MaxTransportMsgLength).WithZeros(2),
			memconn.Rel(17).WithZeros(0, 0, 1))
	}
	return pols
}

// c02Payload: a different payload for every transfer of a session (and per direction), so that bytes of an
// earlier transfer showing up in a later one are seen.
func c02Payload(cache map[string][]byte, L int, dir string, nth int) []byte {
	k := fmt.Sprint(L, dir, nth)
	if p, ok := cache[k]; ok {
		return p
	}
	seed := uint64(0xC02)*64 + uint64(nth)
	if dir == "r2i" {
		seed += 0xB0000
	}
	if len(cache) > 256 {
		clear(cache)
	}
	cache[k] = memconn.Pattern(seed, L)
	return cache[k]
}

func TestVerifC02Noise(t *testing.T) {
	r := vrep.New("C02", "noise-fidelity")
	defer r.Flush()
	ti, tr, err := c02Transports()
	if err != nil {
		r.Cap("infrastructure: cannot create transports: %v", err)
		return
	}
	b := memconn.NewBook(r)
	defer b.Finish()
	thorough := vrep.Thorough()
	lengths, shorts := c02Lengths, c02ShortPatterns
	if thorough {
		lengths = append(append([]int{}, lengths...), c02LengthsThorough...)
		// dense around one and two maximal frames
		for d := -20; d <= 20; d++ {
			lengths = append(lengths, MaxPlaintextLength+d)
		}
		for d := -3; d <= 3; d++ {
			lengths = append(lengths, 2*MaxPlaintextLength+d)
		}
		sort.Ints(lengths)
		lengths = slices.Compact(lengths)
		shorts = append(append([][]int{}, shorts...), c02ShortPatternsThorough...)
	}
	r.Bounds["L"] = lengths
	r.Bounds["write_splits"] = "whole, 1+rest, rest+1, 65519+rest, 65520+rest, thirds, 0+L+0, thirds with zero-length writes between them [a,0,a,0,0,rest], 1-byte writes for L<=4096"
	r.Bounds["zero_length_reads"] = "read policies named ',zero-length reads[z0,z1,..]' issue z(i mod n) Reads with len(buf)=0 before their i-th non-empty Read"
	r.Bounds["short_read_patterns(cyclic, 0=unlimited)"] = shorts
	r.Bounds["directions"] = "initiator->responder, responder->initiator"
	r.Bounds["read_after"] = "each write | last write"
	r.Bounds["end_of_stream"] = "the last transfer of every session: the writer closes before the reader reads what the last write sent; the connection underneath delivers its last segment together with io.EOF (initiator->responder) | before io.EOF (responder->initiator)"
	r.Bounds["duplex"] = "additionally (noise, unlimited reads, read after last write): the reading session writes a same-size frame back whenever a remainder has just been queued"
	r.Bounds["stacks"] = "noise: full grid; psk>noise: L in {0,17,65520,131039}, short reads {unlimited,1,7}"
	if !thorough {
		r.Bounds["quick_reduction"] = "second direction and read-after-each-write only with short reads {unlimited,1}; the read policies with zero-length reads only with short reads {unlimited,1,7} (second direction, read-after-each-write, duplex: {unlimited}); the split with zero-length writes in between (they never reach the wire) only with unlimited reads underneath"
	}
	var pn []string
	for _, p := range c02Policies(-1, thorough, true) {
		pn = append(pn, p.Name)
	}
	pn = append(pn, "r=L+1")
	r.Bounds["read_policies(pending = queued remainder, else plaintext size of the next frame)"] = pn

	payloads := map[string][]byte{}
	var pairs [c02None + 1][c02None + 1]int
	mismatches := 0
	for _, stack := range []string{"noise", "psk>noise"} {
		for _, L := range lengths {
			if stack == "psk>noise" && !(L == 0 || L == 17 || L == MaxPlaintextLength+1 || L == 2*MaxPlaintextLength+1) {
				continue // the PSK layer is transparent to Noise: reduced length set
			}
			for _, sp := range memconn.Splits(L, []int{MaxPlaintextLength, MaxPlaintextLength + 1}, 4096) {
				frames := c02Frames(sp.Sizes)
				for _, short := range shorts {
					if stack == "psk>noise" && !(len(short) == 1 && (short[0] == 0 || short[0] == 1 || short[0] == 7)) {
						continue
					}
					for _, dir := range []string{"i2r", "r2i"} {
						// all points with the same (stack, direction, frames, short reads) in one worker:
						// the distinct-trace sets of the workers are then disjoint
						if !b.Mine(stack, dir, frames, short) {
							continue
						}
						for _, each := range []bool{false, true} {
							if each && len(sp.Sizes) == 1 {
								continue // identical to reading after the last write
							}
							if !thorough && (dir == "r2i" || each) && !(short[0] == 0 || short[0] == 1) {
								continue
							}
							if !thorough && sp.Name == "thirds+0s" && short[0] != 0 {
								continue
							}
							for _, chatter := range []bool{false, true} {
								if chatter && !(stack == "noise" && !each && len(short) == 1 && short[0] == 0 && (thorough || dir == "i2r")) {
									continue
								}
								if b.Over() {
									goto done
								}
								// one fresh session per (stack, L, split, short reads, direction, read-after mode);
								// the read policies follow each other on it, each with its own payload
								zeros := thorough || short[0] == 0 || (dir == "i2r" && !each && (short[0] == 1 || short[0] == 7))
								pols := c02Policies(L, thorough, zeros)
								items := make([]memconn.Item, len(pols))
								cases := make([]c02Case, len(pols))
								var all []int
								join := dir == "i2r"
								for i, pol := range pols {
									last := i == len(pols)-1
									items[i] = memconn.Item{Payload: c02Payload(payloads, L, dir, i), Writes: sp.Sizes, Each: each, Pol: pol, CloseEarly: last}
									cases[i] = c02Case{Stack: stack, Dir: dir, L: L, Split: sp.Name, Writes: c02ShortWrites(sp.Sizes), Policy: pol.Name, Short: short, Each: each, Duplex: chatter, Nth: i, CloseEarly: last, EOFWithData: join}
									all = append(all, frames...)
								}
								res := memconn.RunFidelity(t, c02Setup(ti, tr, stack, dir, short, all, chatter, join), items, &b.Buf, func(i int, _ *memconn.Transfer, l *memconn.Link) {
									cases[i].Trace = l.Extra.(*c02Tracker).trace()
								})
								if res.Link != nil && res.Done < len(cases) {
									cases[res.Done].Trace = res.Link.Extra.(*c02Tracker).trace()
								}
								b.Fidelity(stack, res, len(items), func(i int) any { return cases[i] })
								for i := 0; i < res.Done; i++ {
									r.Outcome(stack + " transfer delivered intact")
									b.Distinct(cases[i], stack, dir, frames, short, cases[i].Trace)
								}
								if res.Link != nil {
									trk := res.Link.Extra.(*c02Tracker)
									for x := range trk.pairs {
										for y := range trk.pairs[x] {
											pairs[x][y] += trk.pairs[x][y]
										}
									}
									for _, m := range trk.mismatch {
										mismatches++
										r.Outcome("path-model-mismatch")
										if mismatches <= 5 {
											r.Note("path model mismatch in session %+v: %s", cases[0], m)
										}
									}
									if trk.chatterErr != nil {
										r.Outcome("reverse-direction write failed (not judged): " + memconn.ErrClass(trk.chatterErr))
									}
								}
							}
						}
					}
				}
			}
		}
	}
done:
	// every transition of the reader's path automaton should have been taken (coverage, not a verdict)
	var missing, extra []string
	known := map[[2]int]bool{}
	for _, pp := range c02PathPairs {
		known[pp] = true
		name := c02PathName[pp[0]] + ">" + c02PathName[pp[1]]
		r.Outcome(fmt.Sprintf("path-pair %s taken=%v", name, pairs[pp[0]][pp[1]] > 0))
		if pairs[pp[0]][pp[1]] == 0 {
			missing = append(missing, name)
		}
	}
	for _, pp := range c02PathPairsOptional {
		known[pp] = true
		r.Outcome(fmt.Sprintf("path-pair %s>%s (not required of every worker) taken=%v", c02PathName[pp[0]], c02PathName[pp[1]], pairs[pp[0]][pp[1]] > 0))
	}
	for x := 0; x < c02E; x++ {
		for y := 0; y < c02E; y++ {
			if pairs[x][y] > 0 && !known[[2]int{x, y}] {
				extra = append(extra, c02PathName[x]+">"+c02PathName[y])
			}
		}
	}
	if len(extra) > 0 {
		r.Note("reader path pairs outside the computed automaton: %v", extra)
	}
	if mismatches > 0 {
		r.Cap("the computed reader path differed from the observed one in %d reads: path coverage figures are unreliable", mismatches)
	}
	if len(missing) > 0 && !b.Capped() {
		r.Cap("reader path pairs never taken in this worker: %v", missing)
	}
}
