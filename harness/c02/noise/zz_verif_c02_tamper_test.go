//go:build verif

package noise

// C02 part "noise", tampering: after a real handshake the writer's frames are captured on the wire, ONE
// edit is applied (byte XOR 0x01/0x80, frame dropped, duplicated, swapped with its neighbour, truncated with
// the rest following, stream cut), the edited bytes are delivered followed by EOF, and the reader reads
// with several buffer policies (so that the edit hits each of its code paths) until EOF, continuing for a
// few Reads after the first error.
//
// Oracle = the statement's second sentence:
//   (a) every byte Read ever returns is the byte the writer sent at that stream position (checked after
//       every Read, also after an error);
//   (b) the reader gets an error: some Read returns a non-nil error other than io.EOF - except when the edit
//       is a pure truncation (the delivered bytes are a strict prefix of the sent bytes): Noise has no
//       authenticated end-of-stream, so the end of the stream (io.EOF or io.ErrUnexpectedEOF) is the error
//       the reader gets and (a) is all that can be asked.
// Baseline (identity edit) must deliver everything and end with EOF, otherwise the run is vacuous.

import (
	"fmt"
	"testing"

	"github.com/libp2p/go-libp2p/x/verif/memconn"
	"github.com/libp2p/go-libp2p/x/verif/vrep"
)

type c02Scenario struct {
	Name   string
	Writes []int
}

func c02Sum(w []int) int {
	s := 0
	for _, x := range w {
		s += x
	}
	return s
}

type c02TCase struct {
	Stack    string       `json:"stack"`
	Dir      string       `json:"dir"`
	Scenario string       `json:"scenario"`
	Writes   []int        `json:"writes"`
	Edit     memconn.Edit `json:"edit"`
	EditStr  string       `json:"edit_text"`
	Policy   string       `json:"read_policy"`
	Short    []int        `json:"short_reads_underneath"`
	EOFJoin  bool         `json:"end_of_stream_together_with_the_last_segment,omitempty"`
	Outcome  string       `json:"outcome,omitempty"`
}

// c02Cut turns the captured writes into frames and checks them against the frame sizes computed from the
// write sizes (a mismatch is a problem of the harness' model of the wire, not a verdict).
func c02Cut(stack string) func(l *memconn.Link, held [][]byte) ([][]byte, string) {
	return func(l *memconn.Link, held [][]byte) ([][]byte, string) {
		want := l.Extra.(*c02Tracker).frames
		var frames [][]byte
		if stack == "psk>noise" {
			// XSalsa20 hides the length prefixes, but the PSK layer forwards each Noise frame in one Write
			// of the same size (its 24-byte nonce went out with the first handshake message)
			frames = held
		} else {
			var rest []byte
			frames, rest = memconn.SplitFrames(memconn.FrameNoise, memconn.Join(held))
			if len(rest) != 0 {
				return nil, fmt.Sprintf("captured wire does not parse into Noise frames (%d trailing bytes)", len(rest))
			}
		}
		if len(frames) != len(want) {
			return nil, fmt.Sprintf("captured %d frames, computed %d from the write sizes", len(frames), len(want))
		}
		for i, f := range frames {
			if len(f) != want[i]+16+LengthPrefixLength {
				return nil, fmt.Sprintf("captured frame #%d has %d bytes, computed %d", i, len(f), want[i]+16+LengthPrefixLength)
			}
		}
		return frames, ""
	}
}

func TestVerifC02NoiseTamper(t *testing.T) {
	r := vrep.New("C02", "noise-tamper")
	defer r.Flush()
	ti, tr, err := c02Transports()
	if err != nil {
		r.Cap("infrastructure: cannot create transports: %v", err)
		return
	}
	b := memconn.NewBook(r)
	defer b.Finish()
	thorough := vrep.Thorough()

	small := c02Scenario{"small-frames", []int{1, 15, 16, 17, 40}}
	big := c02Scenario{"max-frames", []int{10, 2*MaxPlaintextLength + 100, 5}}
	type plan struct {
		sc     c02Scenario
		stack  string
		pols   []memconn.Policy
		shorts [][]int
		dirs   []string
		join   bool // the end of the (edited) stream arrives in the same Read call as its last segment
	}
	// the policies steer the edited frame into each reader path: r=1 / r=16 queue it (Bp), r=pending copies
	// it out of the pooled buffer completely (Bf), r=pending+16 and r=70000 decrypt in the caller's buffer (D)
	pAll := []memconn.Policy{memconn.Fixed(1), memconn.Fixed(16), memconn.Rel(0), memconn.Rel(16), memconn.Fixed(70000)}
	pBig := []memconn.Policy{memconn.Fixed(4096), memconn.Rel(0), memconn.Fixed(70000)}
	// zero-length reads interleaved: the edited frame is met by a Read with an empty buffer (which buffers and
	// decrypts it), or such a Read comes right after the frame before it was consumed
	pZero := []memconn.Policy{memconn.Fixed(16).WithZeros(1), memconn.Rel(0).WithZeros(0, 1)}
	plans := []plan{
		{small, "noise", pAll, [][]int{{0}, {1}}, []string{"i2r"}, false},
		{small, "noise", []memconn.Policy{pAll[2], pAll[4]}, [][]int{{0}}, []string{"r2i"}, false},
		{big, "noise", pBig, [][]int{{0}, {7}}, []string{"i2r"}, false},
		{small, "psk>noise", []memconn.Policy{pAll[2], pAll[4]}, [][]int{{0}, {1}}, []string{"i2r"}, false},
		{small, "noise", pZero, [][]int{{0}}, []string{"i2r"}, false},
		// the end of the edited stream (after a cut: inside a frame) arrives together with its last segment
		{small, "noise", []memconn.Policy{pAll[1], pAll[2]}, [][]int{{0}}, []string{"i2r"}, true},
	}
	if thorough {
		plans = plans[:4]
		plans[0] = plan{small, "noise", append(append([]memconn.Policy{}, pAll...), pZero...), [][]int{{0}, {1}, {7}}, []string{"i2r", "r2i"}, false}
		plans = append(plans[:1], plans[2:]...)
		plans[1] = plan{big, "noise", append(append([]memconn.Policy{}, pBig...), pAll[0], pAll[3], memconn.Fixed(4096).WithZeros(1)), [][]int{{0}, {1}, {7}, {4096}}, []string{"i2r", "r2i"}, false}
		plans[2] = plan{small, "psk>noise", pAll, [][]int{{0}, {1}, {7}}, []string{"i2r", "r2i"}, false}
		plans = append(plans, plan{big, "psk>noise", pBig, [][]int{{0}, {7}}, []string{"i2r"}, false},
			plan{small, "noise", pAll, [][]int{{0}, {7}}, []string{"i2r"}, true},
			plan{small, "psk>noise", []memconn.Policy{pAll[2], pAll[4]}, [][]int{{0}}, []string{"i2r"}, true})
	}
	var desc []string
	for _, p := range plans {
		var pn []string
		for _, q := range p.pols {
			pn = append(pn, q.Name)
		}
		desc = append(desc, fmt.Sprintf("%s/%s writes=%v policies=%v short_reads=%v dirs=%v end_of_stream_together_with_the_last_segment=%v", p.stack, p.sc.Name, p.sc.Writes, pn, p.shorts, p.dirs, p.join))
	}
	r.Bounds["plans"] = desc
	r.Bounds["edits"] = "per frame: XOR 0x01 and 0x80 at every byte (frames <= 64 bytes) or at the first and last 48 bytes (larger frames; thorough: also every 4099th byte); drop; duplicate; swap with next; truncate to k bytes with the rest following and cut the stream after k bytes, k = every length (small frames) or {0,1,2,3,17,18,19,len-17,len-16,len-1,len}"
	r.Bounds["edits_per_run"] = 1
	r.Bounds["reads_after_first_error"] = 6

	for _, p := range plans {
		L := c02Sum(p.sc.Writes)
		payload := memconn.Pattern(0x7A3, L)
		// probe run: learn the frame sizes on the wire (ciphertext differs per session, sizes do not)
		probe := memconn.RunTamper(t, c02Setup(ti, tr, p.stack, "i2r", []int{0}, c02Frames(p.sc.Writes), false, false), payload, p.sc.Writes, pAll[4], c02Cut(p.stack), memconn.Edit{Kind: "none"}, true, &b.Buf)
		if probe.Frames == nil {
			r.Cap("infrastructure: probe run of %s/%s captured nothing (%s %s)", p.stack, p.sc.Name, probe.Infra, probe.Panic)
			continue
		}
		edits := memconn.Edits(probe.Frames, LengthPrefixLength, thorough)
		for _, dir := range p.dirs {
			for ei, e := range edits {
				if !b.Mine(p.stack, p.sc.Name, dir, ei, p.join) {
					continue
				}
				for _, pol := range p.pols {
					for _, short := range p.shorts {
						if b.Over() {
							return
						}
						c := c02TCase{Stack: p.stack, Dir: dir, Scenario: p.sc.Name, Writes: p.sc.Writes, Edit: e, EditStr: e.String(), Policy: pol.Name, Short: short, EOFJoin: p.join}
						res := memconn.RunTamper(t, c02Setup(ti, tr, p.stack, dir, short, c02Frames(p.sc.Writes), false, p.join), payload, p.sc.Writes, pol, c02Cut(p.stack), e, false, &b.Buf)
						if cls := b.Tamper(p.stack, res, e, L, c); cls != "" && res.Changed {
							c.Outcome = cls
							// the error class is left out of the key: after a mis-framing edit under the PSK layer it
							// depends on (random) key stream bytes; the verdict kind does not
							b.Distinct(c, p.stack, p.sc.Name, dir, e, res.Truncation, p.join)
						}
					}
				}
			}
		}
	}
}
