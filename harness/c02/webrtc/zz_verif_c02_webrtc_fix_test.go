//go:build verif

package libp2pwebrtc

// C02 part "webrtc-stream", fixture.
//
// The WebRTC transport brings its own stream framing: one protobuf message (flag, payload) per data-channel
// message (stream.go / stream_read.go / stream_write.go). The stream type holds a concrete
// *datachannel.DataChannel (pion), which in turn holds a concrete *sctp.Stream, so the "data channel" the
// harness gives it is the real pion data channel over a real pion SCTP association - whose NETWORK is the fake:
// an in-memory, loss-free, order-preserving packet pipe (c02PktConn) instead of DTLS over ICE over UDP. No
// socket, no wall clock: everything (SCTP timers, the stream's deadlines and its control-message reader) runs in
// a testing/synctest bubble on virtual time. The data channels are pre-negotiated (no DCEP messages), so the
// only messages a channel ever carries are the stream's own frames - or the frames the harness writes as the
// remote peer.

import (
	"errors"
	"fmt"
	"io"
	"net"
	"os"
	"reflect"
	"sync"
	"testing/synctest"
	"time"
	"unsafe"

	"github.com/libp2p/go-libp2p/core/network"
	"github.com/libp2p/go-libp2p/p2p/transport/webrtc/pb"
	"github.com/libp2p/go-msgio/pbio"
	"github.com/pion/datachannel"
	"github.com/pion/logging"
	"github.com/pion/sctp"
	"github.com/pion/webrtc/v4"
)

// ---- in-memory packet pipe ----

type c02PktQ struct {
	mu     sync.Mutex
	cond   *sync.Cond
	pkts   [][]byte
	closed bool
	n      int64
}

func c02NewPktQ() *c02PktQ {
	q := &c02PktQ{}
	q.cond = sync.NewCond(&q.mu)
	return q
}

// c02PktConn is one end of a datagram connection: every Write is one packet, every Read returns one packet
// (never a part of one, never two). Nothing is lost, duplicated or reordered; writes never block.
type c02PktConn struct {
	in, out *c02PktQ
}

func c02PktPair() (*c02PktConn, *c02PktConn) {
	ab, ba := c02NewPktQ(), c02NewPktQ()
	return &c02PktConn{in: ba, out: ab}, &c02PktConn{in: ab, out: ba}
}

func (c *c02PktConn) Read(p []byte) (int, error) {
	q := c.in
	q.mu.Lock()
	defer q.mu.Unlock()
	for len(q.pkts) == 0 {
		if q.closed {
			return 0, io.EOF
		}
		q.cond.Wait()
	}
	pkt := q.pkts[0]
	q.pkts[0] = nil
	q.pkts = q.pkts[1:]
	return copy(p, pkt), nil
}

func (c *c02PktConn) Write(p []byte) (int, error) {
	q := c.out
	q.mu.Lock()
	defer q.mu.Unlock()
	if q.closed {
		return 0, io.ErrClosedPipe
	}
	q.pkts = append(q.pkts, append([]byte(nil), p...))
	q.n++
	q.cond.Broadcast()
	return len(p), nil
}

func (c *c02PktConn) Close() error {
	for _, q := range []*c02PktQ{c.in, c.out} {
		q.mu.Lock()
		q.closed = true
		q.cond.Broadcast()
		q.mu.Unlock()
	}
	return nil
}

type c02Addr struct{}

func (c02Addr) Network() string { return "c02-mem" }
func (c02Addr) String() string  { return "c02-mem" }

func (c *c02PktConn) LocalAddr() net.Addr              { return c02Addr{} }
func (c *c02PktConn) RemoteAddr() net.Addr             { return c02Addr{} }
func (c *c02PktConn) SetDeadline(time.Time) error      { return nil }
func (c *c02PktConn) SetReadDeadline(time.Time) error  { return nil }
func (c *c02PktConn) SetWriteDeadline(time.Time) error { return nil }

// ---- association pair ----

type c02Assoc struct {
	ca, cb *c02PktConn
	a, b   *sctp.Association
	lf     *logging.DefaultLoggerFactory
	nextID uint16
}

// c02NewAssoc must be called inside a bubble.
func c02NewAssoc() (*c02Assoc, error) {
	x := &c02Assoc{}
	x.lf = logging.NewDefaultLoggerFactory()
	x.lf.DefaultLogLevel = logging.LogLevelDisabled
	x.lf.ScopeLevels = map[string]logging.LogLevel{}
	x.ca, x.cb = c02PktPair()
	type res struct {
		a   *sctp.Association
		err error
	}
	ch := make(chan res, 1)
	go func() {
		a, err := sctp.Client(sctp.Config{Name: "c02-a", NetConn: x.ca, LoggerFactory: x.lf})
		ch <- res{a, err}
	}()
	b, err := sctp.Server(sctp.Config{Name: "c02-b", NetConn: x.cb, LoggerFactory: x.lf})
	r := <-ch
	if err != nil || r.err != nil {
		x.ca.Close()
		x.cb.Close()
		if r.a != nil {
			r.a.Close()
		}
		if b != nil {
			b.Close()
		}
		return nil, fmt.Errorf("sctp handshake over the in-memory packet pipe failed: client=%v server=%v", r.err, err)
	}
	x.a, x.b = r.a, b
	return x, nil
}

func (x *c02Assoc) close() {
	x.a.Close()
	x.b.Close()
	x.ca.Close()
	x.cb.Close()
	c02Settle()
}

// c02Settle lets everything that is in flight arrive: bubble quiescence, then enough virtual time for SCTP's
// delayed acknowledgements (200 ms) and whatever they release, a few times over. Far below every timer of the
// stream under test (10 s FIN_ACK wait) and of the harness (virtual hour).
func c02Settle() {
	for i := 0; i < 3; i++ {
		synctest.Wait()
		time.Sleep(250 * time.Millisecond)
	}
	synctest.Wait()
}

// c02Chan is one pre-negotiated data channel: its two ends.
type c02Chan struct {
	id     uint16
	da, db *datachannel.DataChannel
}

func (x *c02Assoc) channel() (*c02Chan, error) {
	id := x.nextID
	x.nextID++
	cfg := &datachannel.Config{ChannelType: datachannel.ChannelTypeReliable, Negotiated: true, LoggerFactory: x.lf}
	sa, err := x.a.OpenStream(id, sctp.PayloadTypeWebRTCBinary)
	if err != nil {
		return nil, err
	}
	sb, err := x.b.OpenStream(id, sctp.PayloadTypeWebRTCBinary)
	if err != nil {
		return nil, err
	}
	da, err := datachannel.Client(sa, cfg)
	if err != nil {
		return nil, err
	}
	db, err := datachannel.Client(sb, cfg)
	if err != nil {
		return nil, err
	}
	return &c02Chan{id: id, da: da, db: db}, nil
}

// c02WebRTCChannel builds the *webrtc.DataChannel argument of newStream, which is only asked for its ID.
func c02WebRTCChannel(id uint16) *webrtc.DataChannel {
	ch := &webrtc.DataChannel{}
	f := reflect.ValueOf(ch).Elem().FieldByName("id")
	if !f.IsValid() {
		panic("harness: webrtc.DataChannel has no field id")
	}
	*(**uint16)(unsafe.Pointer(f.UnsafeAddr())) = &id
	return ch
}

// c02Stream builds the real stream over one end of the channel, exactly as connection.go does (newStream with
// the transport's maxSendMessageSize).
func c02NewStream(id uint16, dc *datachannel.DataChannel, done *int) *stream {
	return newStream(c02WebRTCChannel(id), dc, maxSendMessageSize, func() { *done++ })
}

// ---- the enumerated remote peer ----

// c02Frame is one wire frame of the remote peer: a payload of N bytes (N = 0: no payload) and a flag ("" = none).
type c02Frame struct {
	N    int    `json:"payload_bytes"`
	Flag string `json:"flag,omitempty"`
}

func (f c02Frame) String() string {
	if f.Flag == "" {
		return fmt.Sprintf("data(%d)", f.N)
	}
	return fmt.Sprintf("%s(%d)", f.Flag, f.N)
}

var c02Flags = map[string]pb.Message_Flag{
	"FIN": pb.Message_FIN, "STOP_SENDING": pb.Message_STOP_SENDING, "RESET": pb.Message_RESET, "FIN_ACK": pb.Message_FIN_ACK,
}

func (f c02Frame) msg(payload []byte) *pb.Message {
	m := &pb.Message{}
	if f.N > 0 {
		m.Message = payload
	}
	if f.Flag != "" {
		m.Flag = c02Flags[f.Flag].Enum()
	}
	return m
}

// c02Remote is the peer's end of the channel driven by the harness: it writes frames (length-delimited
// protobuf, one per data-channel message, as the specification says) and collects what the stream under test
// sends back.
type c02Remote struct {
	dc *datachannel.DataChannel
	w  pbio.Writer
	mu sync.Mutex
	// what arrived from the stream under test, in order
	got  []c02Frame
	data []byte
	rerr error
	done chan struct{}
}

func c02NewRemote(dc *datachannel.DataChannel) *c02Remote {
	r := &c02Remote{dc: dc, w: pbio.NewDelimitedWriter(dc), done: make(chan struct{})}
	go r.readLoop()
	return r
}

func (r *c02Remote) readLoop() {
	defer close(r.done)
	rd := pbio.NewDelimitedReader(r.dc, maxReceiveMessageSize)
	for {
		var m pb.Message
		if err := rd.ReadMsg(&m); err != nil {
			r.mu.Lock()
			r.rerr = err
			r.mu.Unlock()
			return
		}
		f := c02Frame{N: len(m.Message)}
		if m.Flag != nil {
			f.Flag = m.GetFlag().String()
		}
		r.mu.Lock()
		r.got = append(r.got, f)
		r.data = append(r.data, m.Message...)
		r.mu.Unlock()
	}
}

func (r *c02Remote) flags() []string {
	r.mu.Lock()
	defer r.mu.Unlock()
	var out []string
	for _, f := range r.got {
		if f.Flag != "" {
			out = append(out, f.Flag)
		}
	}
	return out
}

func (r *c02Remote) close() {
	r.dc.Close()
}

// ---- helpers ----

func c02IsTimeout(err error) bool {
	var ne net.Error
	return errors.Is(err, os.ErrDeadlineExceeded) || (errors.As(err, &ne) && ne.Timeout())
}

func c02ErrClass(err error) string {
	switch {
	case err == nil:
		return "nil"
	case err == io.EOF:
		return "EOF"
	case c02IsTimeout(err):
		return "timeout"
	case errors.Is(err, network.ErrReset):
		var se *network.StreamError
		if errors.As(err, &se) {
			if se.Remote {
				return "stream-reset(remote)"
			}
			return "stream-reset(local)"
		}
		return "stream-reset"
	case errors.Is(err, errWriteAfterClose):
		return "write-after-close"
	}
	s := err.Error()
	if len(s) > 40 {
		s = s[:40]
	}
	return "other:" + s
}
