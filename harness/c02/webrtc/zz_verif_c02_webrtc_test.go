//go:build verif

package libp2pwebrtc

// C02 part "webrtc-stream": the WebRTC transport's own multiplexed streams deliver bytes intact, in order, once
// (fixture: zz_verif_c02_webrtc_fix_test.go - the real stream type over real pion data channels / SCTP over an
// in-memory packet pipe, in a synctest bubble).
//
//	TestVerifC02WebRTCGrid       real writer stream -> real reader stream, both directions on one stream: payload
//	                             length x write split (incl. zero-length writes) x read policy (incl. zero-length
//	                             reads, sizes relative to the frame being handed out) x read-after mode; the second
//	                             transfer ends with CloseWrite BEFORE the reader has read, the third flows in the
//	                             other direction after that half-close and ends with CloseWrite too.
//	TestVerifC02WebRTCHalfClose  half-close / reset scripts over the two ends of one stream (CloseWrite by either or
//	                             both ends at different points, further reads and writes afterwards, Reset with data
//	                             in flight).
//	TestVerifC02WebRTCPeer       the remote end is the HARNESS: every sequence (bounded length) of wire frames a
//	                             conforming remote may send - payload sizes x flags {none, FIN, STOP_SENDING, RESET,
//	                             FIN_ACK} on a frame WITH or WITHOUT payload, optionally followed by the remote closing
//	                             the data channel - in both framings (length prefix and body in one data-channel
//	                             message, as the specification describes and other implementations send; or in two
//	                             messages, as go-libp2p's own writer sends), read with every read-buffer class (1,
//	                             smaller than / equal to / larger than the pending frame, far larger, with zero-length
//	                             reads interleaved), all frames arrived before the first Read or the reader already
//	                             blocked in Read when each frame arrives; judged against a plain model of the byte
//	                             stream.
//
// Oracle: what Read has returned so far is the prefix of what was written on that stream in that direction (also
// the bytes of a Read that returns an error); io.EOF only after every byte up to and including the frame that
// carries FIN, and only if a FIN was sent; after FIN the end of the stream must arrive, after RESET an error
// (never io.EOF, never a stall), and no byte after either.

import (
	"fmt"
	"io"
	"strings"
	"testing"
	"time"

	"github.com/libp2p/go-libp2p/x/verif/memconn"
	"github.com/libp2p/go-libp2p/x/verif/vrep"
	"github.com/multiformats/go-varint"
	"google.golang.org/protobuf/proto"
)

type c02WCase struct {
	Scenario string     `json:"scenario"`
	Frames   []c02Frame `json:"frames_sent_by_the_remote,omitempty"`
	Close    bool       `json:"remote_closes_the_data_channel_afterwards,omitempty"`
	Framing  string     `json:"framing,omitempty"`
	Mode     string     `json:"reader,omitempty"`
	Local    string     `json:"local_operation_before,omitempty"`
	Policy   string     `json:"read_policy,omitempty"`
	L        int        `json:"L,omitempty"`
	Split    string     `json:"split,omitempty"`
	Writes   []int      `json:"writes,omitempty"`
	Each     bool       `json:"read_after_each_write,omitempty"`
	Script   string     `json:"script,omitempty"`
	Chunks   []int      `json:"chunk_sizes,omitempty"`
	Step     string     `json:"failed_at,omitempty"`
}

// c02WFile files the result of one bubble run; ok when nothing was violated.
func c02WFile(b *memconn.Book, pan string, infra error, prob *memconn.Problem, c c02WCase) bool {
	b.N++
	switch {
	case pan != "" && strings.Contains(pan, "blocked goroutines remain") && prob == nil && infra == nil:
		b.R.Outcome("goroutines left after teardown (not judged)")
		return true
	case prob != nil:
		desc := prob.Desc
		if c.Step != "" {
			desc = c.Step + ": " + desc
		}
		b.R.Violate("webrtc:"+prob.Key, desc, c)
		b.R.Outcome("VIOLATION " + prob.Key)
	case pan != "":
		b.R.Violate("webrtc:panic-or-deadlock", pan, c)
		b.R.Outcome("VIOLATION panic-or-deadlock")
	case infra != nil:
		// the fault-free setup (SCTP handshake over the loss-free in-memory pipe, opening a channel) failed
		b.R.Outcome("infrastructure: setup failed")
		b.R.Cap("infrastructure problem (no verdict for this run): %v at %+v", infra, c)
		return false
	default:
		return true
	}
	b.Transfers++
	return false
}

func c02WShort(w []int) []int {
	if len(w) > 8 {
		return append(append([]int{}, w[:4]...), -len(w))
	}
	return w
}

// c02Pair: the two real streams over the two ends of one fresh channel.
type c02PairS struct {
	x      *c02Assoc
	a, b   *stream
	da, db int
}

func c02NewPairS() (*c02PairS, error) {
	x, err := c02NewAssoc()
	if err != nil {
		return nil, err
	}
	ch, err := x.channel()
	if err != nil {
		x.close()
		return nil, err
	}
	p := &c02PairS{x: x}
	p.a = c02NewStream(ch.id, ch.da, &p.da)
	p.b = c02NewStream(ch.id, ch.db, &p.db)
	return p, nil
}

func (p *c02PairS) close() {
	p.a.Reset()
	p.b.Reset()
	c02Settle()
	p.x.close()
}

// c02Framed: how many bytes of the frame that is being handed out are left (white-box: nextMessage); 0 = none.
func c02Framed(s *stream) int {
	s.mx.Lock()
	defer s.mx.Unlock()
	if s.nextMessage != nil {
		return len(s.nextMessage.Message)
	}
	return 0
}

// maximum payload of one frame of go-libp2p's own writer
const c02MaxFramePayload = maxSendMessageSize - protoOverhead - varintOverhead

// transfer prepares a checked transfer w -> r. Sizes relative to "pending" refer to the rest of the frame that is
// being handed out, or - between two frames - to the size the next frame can have at most.
func c02WTransfer(w, r *stream, payload []byte, writes []int, each bool, pol memconn.Policy, buf []byte) *memconn.Transfer {
	tr := &memconn.Transfer{W: w, R: r, Payload: payload, Writes: writes, DrainEach: each, Buf: buf, Zeros: pol.Zeros}
	tr.ReadSize = func(received, accepted int) int {
		pend := c02Framed(r)
		if pend == 0 {
			pend = min(accepted-received, c02MaxFramePayload)
		}
		return pol.Size(pend)
	}
	// a reader that waits for bytes which never come gets a timeout after a virtual hour
	tr.Arm = func() { r.SetReadDeadline(time.Now().Add(time.Hour)) }
	return tr
}

// c02WEnd judges how a stream ended for a reader whose peer half-closed after writing everything (all bytes were
// received when this is called): the end of the stream has to ARRIVE. A reader that still waits after a virtual
// hour never learns that the writer is done.
func c02WEnd(end string, err error) *memconn.Problem {
	if end != "eof" && end != "eof+data" && c02IsTimeout(err) {
		return &memconn.Problem{Key: "end-of-stream-not-delivered", Desc: fmt.Sprintf("the writer called CloseWrite after its last Write and every byte was received, but the reader never gets the end of the stream: Read still waits after a virtual hour (%v)", err)}
	}
	return nil
}

// ---------- grid: real writer -> real reader ----------

func TestVerifC02WebRTCGrid(t *testing.T) {
	r := vrep.New("C02", "webrtc-grid")
	defer r.Flush()
	b := memconn.NewBook(r)
	defer b.Finish()
	thorough := vrep.Thorough()
	F := c02MaxFramePayload // 16377
	// 1017 = minMessageSize - 7: the writer waits when less than 1 KiB of its 32 KiB send budget is left;
	// 2F = the budget in full frames; 32768 = the budget itself
	lengths := []int{0, 1, 2, 1017, 1024, F - 1, F, F + 1, 2*F - 1, 2 * F, 2*F + 1, 32768, 3*F + 1, 100000}
	if thorough {
		lengths = append(lengths, 3, 1016, 1018, 1023, 1025, 4096, 16384, 32767, 32769, 3*F, 65536, 300000)
	}
	r.Bounds["L"] = lengths
	r.Bounds["write_splits"] = fmt.Sprintf("whole, 1+rest, rest+1, %d+rest, 32768+rest, thirds, 0+L+0, thirds with zero-length writes between them [a,0,a,0,0,rest]", F)
	r.Bounds["read_sizes"] = fmt.Sprintf("1 (L <= 4096), 2 (L <= 20000), 4096, %d, 16384, L+1, pending-1, pending, pending+1 (pending = rest of the frame being handed out), 4096 with one zero-length Read before every Read, pending-1 with two before every second Read", F)
	r.Bounds["per_stream"] = "a->b L bytes; b->a L bytes, b calls CloseWrite BEFORE a reads, a reads to the end; a->b L bytes after that half-close, a calls CloseWrite, b reads the end; Close on both"
	r.Bounds["read_after"] = "the last write | each write"
	for _, L := range lengths {
		pols := memconn.Policies([]int{4096, F, 16384, L + 1}, []int{-1, 0, 1})
		if L <= 20000 {
			pols = append(pols, memconn.Fixed(2))
		}
		if L <= 4096 {
			pols = append(pols, memconn.Fixed(1))
		}
		pols = append(pols, memconn.Fixed(4096).WithZeros(1), memconn.Rel(-1).WithZeros(2, 0))
		for _, sp := range memconn.Splits(L, []int{F, 32768}, 0) {
			for _, each := range []bool{false, true} {
				if each && len(sp.Sizes) == 1 {
					continue
				}
				if !thorough && each && !(sp.Name == "thirds" || sp.Name == "1+rest") {
					continue
				}
				for pi, pol := range pols {
					if !b.Mine(L, sp.Sizes, each, pi) {
						continue
					}
					if b.Over() {
						return
					}
					c := c02WCase{Scenario: "grid", L: L, Split: sp.Name, Writes: c02WShort(sp.Sizes), Each: each, Policy: pol.Name}
					var prob *memconn.Problem
					var infra error
					var ends string
					done := 0
					pan := memconn.Bubble(t, func() {
						p, err := c02NewPairS()
						if err != nil {
							infra = err
							return
						}
						defer p.close()
						c.Step = "a->b"
						tr := c02WTransfer(p.a, p.b, memconn.Pattern(uint64(0x3B7C00+pi*4), L), sp.Sizes, each, pol, b.Buf)
						prob = tr.Run()
						b.Buf = tr.Buf
						if prob != nil {
							return
						}
						done++
						c.Step = "b->a, b calls CloseWrite before a reads"
						tr = c02WTransfer(p.b, p.a, memconn.Pattern(uint64(0x3B7C01+pi*4), L), sp.Sizes, each, pol, b.Buf)
						var end string
						end, prob = tr.RunClosing(p.b.CloseWrite)
						b.Buf = tr.Buf
						if prob == nil {
							prob = c02WEnd(end, tr.EndErr)
						}
						if prob != nil {
							return
						}
						ends = "a sees " + end
						done++
						c.Step = "a->b after b's half-close"
						tr = c02WTransfer(p.a, p.b, memconn.Pattern(uint64(0x3B7C02+pi*4), L), sp.Sizes, each, pol, b.Buf)
						end, prob = tr.RunClosing(p.a.CloseWrite)
						b.Buf = tr.Buf
						if prob == nil {
							prob = c02WEnd(end, tr.EndErr)
						}
						if prob != nil {
							return
						}
						ends += ", b sees " + end
						done++
						c.Step = "close"
						p.a.Close()
						p.b.Close()
					})
					b.Transfers += int64(done)
					if c02WFile(b, pan, infra, prob, c) {
						r.Outcome("three transfers over one stream delivered intact; " + ends)
						if L > 0 {
							b.Distinct(c, L, sp.Sizes, each, pol.Name)
						}
					}
				}
			}
		}
	}
}

// ---------- half-close and reset scripts ----------

// Steps over the two ends a, b of one stream:
//
//	aw:A / bw:B   a / b writes the next A / B bytes of its payload (one Write); :0 = a zero-length Write
//	ac / bc       a / b calls CloseWrite
//	ar / br       a / b reads everything the other end has written so far
//	ae / be       a / b reads to the end of the stream: the end must arrive, no byte may come
//	aX / bX       a / b calls Reset
//	ap / bp       a / b reads until its first error on a stream the other end has reset: every byte is the byte
//	              written at that position; the error must come and must not be io.EOF unless everything arrived
var c02WScripts = []string{
	"aw:A ac br be bw:B bc ar ae",
	"aw:A bw:0 ac bw:B bc ar br ae be",
	"aw:A ac bw:B ar bw:B ar bc br ae be",
	"ac bw:B ar bw:B bc ar ae be",
	"aw:A br bc aw:A br ac br ae be",
	"aw:A aw:A ac br bw:B bw:B bc ar be ae",
	"aw:A aX bp",
	"aw:A bw:B br bX ap",
	"aw:A ac bw:B bX ap",
}

func TestVerifC02WebRTCHalfClose(t *testing.T) {
	r := vrep.New("C02", "webrtc-halfclose")
	defer r.Flush()
	b := memconn.NewBook(r)
	defer b.Finish()
	thorough := vrep.Thorough()
	F := c02MaxFramePayload
	sizes := [][2]int{{1, 1}, {4096, 1}, {1, F + 1}, {40000, 40000}}
	pols := []memconn.Policy{memconn.Fixed(1), memconn.Fixed(4096), memconn.Rel(-1), memconn.Rel(0), memconn.Rel(1), memconn.Fixed(4096).WithZeros(1)}
	if thorough {
		sizes = append(sizes, [2]int{F, F}, [2]int{2*F + 1, 3}, [2]int{100000, 120000})
		pols = append(pols, memconn.Fixed(2), memconn.Fixed(16384), memconn.Fixed(70000), memconn.Rel(0).WithZeros(2, 0))
	}
	r.Bounds["scripts(aw/bw = Write, ac/bc = CloseWrite, ar/br = read all written so far, ae/be = read the end, aX/bX = Reset, ap/bp = read until the first error after the peer's Reset)"] = c02WScripts
	r.Bounds["chunk_sizes(A,B)"] = sizes
	var pn []string
	for _, p := range pols {
		pn = append(pn, p.Name)
	}
	r.Bounds["read_policies(r=1 only for chunks <= 4096)"] = pn
	for si, script := range c02WScripts {
		for _, sz := range sizes {
			for _, pol := range pols {
				if pol.D == 1 && !pol.Rel && (sz[0] > 4096 || sz[1] > 4096) {
					continue
				}
				if !b.Mine(si, sz, pol.Name) {
					continue
				}
				if b.Over() {
					return
				}
				c := c02WCase{Scenario: "half-close", Script: script, Chunks: []int{sz[0], sz[1]}, Policy: pol.Name}
				var prob *memconn.Problem
				var infra error
				var ends string
				pan := memconn.Bubble(t, func() {
					prob, infra, ends = c02WScript(&c, script, sz, pol, &b.Buf)
				})
				if c02WFile(b, pan, infra, prob, c) {
					b.Transfers += 2
					r.Outcome(fmt.Sprintf("script %d: all bytes delivered; ends: %s", si, ends))
					b.Distinct(c, si, sz, pol.Name)
				}
			}
		}
	}
}

func c02WScript(c *c02WCase, script string, sz [2]int, pol memconn.Policy, buf *[]byte) (*memconn.Problem, error, string) {
	p, err := c02NewPairS()
	if err != nil {
		return nil, err, ""
	}
	defer p.close()
	steps := strings.Fields(script)
	var aw, bw []int
	for _, st := range steps {
		n := 0
		switch {
		case strings.HasSuffix(st, ":A"):
			n = sz[0]
		case strings.HasSuffix(st, ":B"):
			n = sz[1]
		}
		switch st[:2] {
		case "aw":
			aw = append(aw, n)
		case "bw":
			bw = append(bw, n)
		}
	}
	sum := func(w []int) int {
		t := 0
		for _, x := range w {
			t += x
		}
		return t
	}
	a2b := c02WTransfer(p.a, p.b, memconn.Pattern(0x7E11A, sum(aw)), aw, false, pol, *buf)
	b2a := c02WTransfer(p.b, p.a, memconn.Pattern(0x7E11B, sum(bw)), bw, false, pol, *buf)
	defer func() { *buf = a2b.Buf }()
	ai, bi := 0, 0
	var ends []string
	for i, st := range steps {
		c.Step = fmt.Sprintf("step %d (%s)", i, st)
		var prob *memconn.Problem
		// the transfer this step's end READS from / WRITES to
		wr, rd := a2b, b2a
		who := p.a
		if st[0] == 'b' {
			wr, rd, who = b2a, a2b, p.b
		}
		switch st[1] {
		case 'w':
			if st[0] == 'a' {
				prob = wr.WriteOne(ai)
				ai++
			} else {
				prob = wr.WriteOne(bi)
				bi++
			}
		case 'c':
			if err := who.CloseWrite(); err != nil {
				prob = &memconn.Problem{Key: "closewrite-failed-on-healthy-stream", Desc: fmt.Sprintf("%c CloseWrite: %v", st[0], err)}
			}
			wr.WriterClosed = true
		case 'r':
			prob = rd.Drain()
		case 'e':
			if prob = rd.Drain(); prob == nil {
				var end string
				if rd.EndErr != nil {
					end = "eof+data"
					if rd.EndErr != io.EOF {
						end = "error+data"
					}
				} else {
					end, prob = rd.DrainToEnd(3)
				}
				if prob == nil {
					prob = c02WEnd(end, rd.EndErr)
				}
				ends = append(ends, st+"="+end)
			}
		case 'X':
			who.Reset()
		case 'p':
			obs, pr := rd.ReadTampered(3)
			prob = pr
			if prob == nil {
				switch {
				case obs.FirstErr == nil || c02IsTimeout(obs.FirstErr):
					prob = &memconn.Problem{Key: "reset-not-delivered", Desc: fmt.Sprintf("the other end called Reset; the reader got %d of %d bytes and no error: Read still waits after a virtual hour (%v)", obs.Received, rd.Accepted, obs.FirstErr)}
				case obs.FirstErr == io.EOF && obs.Received < rd.Accepted:
					prob = &memconn.Problem{Key: "reset-reported-as-eof", Desc: fmt.Sprintf("the other end called Reset; the reader got %d of %d bytes and then io.EOF: a truncated stream reported as complete", obs.Received, rd.Accepted)}
				}
				got := "a strict prefix"
				if obs.Received == rd.Accepted {
					got = "everything"
				} else if obs.Received == 0 {
					got = "nothing"
				}
				ends = append(ends, fmt.Sprintf("%s=%s after %s", st, c02ErrClass(obs.FirstErr), got))
			}
		}
		if prob != nil {
			return prob, nil, ""
		}
		c02Settle()
	}
	c.Step = ""
	return nil, nil, strings.Join(ends, ",")
}

// ---------- the enumerated peer ----------

// c02RPol is a read policy of the peer test. size(pending, n, k): buffer length of the next non-empty Read, given
// the rest of the frame being handed out (pending, >= 1), that frame's payload size n and the number k of
// non-empty Reads already spent on it.
type c02RPol struct {
	Name  string
	size  func(pending, n, k int) int
	Zeros []int
}

var c02RPols = []c02RPol{
	{Name: "r=1 (frames > 256 bytes: 1,1,1,pending-2,1,1)", size: func(p, n, k int) int {
		if n > 256 && k == 3 {
			return p - 2
		}
		return 1
	}},
	{Name: "r=pending-1", size: func(p, n, k int) int { return p - 1 }},
	{Name: "r=pending", size: func(p, n, k int) int { return p }},
	{Name: "r=pending+1", size: func(p, n, k int) int { return p + 1 }},
	{Name: "r=70000", size: func(p, n, k int) int { return 70000 }},
	{Name: "r=pending-1,zero-length reads[1,0]", size: func(p, n, k int) int { return p - 1 }, Zeros: []int{1, 0}},
}

// c02Seqs enumerates the frame sequences of length 1..K a conforming remote may send:
//
//	before the end:  payload size in sizes x flag in {none, STOP_SENDING[, FIN_ACK]} (a frame without payload and
//	                 without flag included: an empty message)
//	the end:         payload size in sizes x flag in {FIN, RESET}
//	after the end:   control frames without payload: STOP_SENDING, RESET[, FIN_ACK] (no data after FIN / RESET)
//
// finAck: FIN_ACK frames are included (the local end has sent its FIN, so a FIN_ACK is in order).
func c02Seqs(K int, sizes []int, finAck bool) [][]c02Frame {
	before := []string{"", "STOP_SENDING"}
	after := []string{"STOP_SENDING", "RESET"}
	if finAck {
		before = append(before, "FIN_ACK")
		after = append(after, "FIN_ACK")
	}
	var out [][]c02Frame
	var cur []c02Frame
	var rec func(ended bool)
	rec = func(ended bool) {
		if len(cur) > 0 {
			out = append(out, append([]c02Frame(nil), cur...))
		}
		if len(cur) == K {
			return
		}
		if ended {
			for _, fl := range after {
				cur = append(cur, c02Frame{Flag: fl})
				rec(true)
				cur = cur[:len(cur)-1]
			}
			return
		}
		for _, n := range sizes {
			for _, fl := range before {
				cur = append(cur, c02Frame{N: n, Flag: fl})
				rec(false)
				cur = cur[:len(cur)-1]
			}
			for _, fl := range []string{"FIN", "RESET"} {
				cur = append(cur, c02Frame{N: n, Flag: fl})
				rec(true)
				cur = cur[:len(cur)-1]
			}
		}
	}
	rec(false)
	return out
}

func c02HasFinAck(fr []c02Frame) bool {
	for _, f := range fr {
		if f.Flag == "FIN_ACK" {
			return true
		}
	}
	return false
}

func TestVerifC02WebRTCPeer(t *testing.T) {
	r := vrep.New("C02", "webrtc-peer")
	defer r.Flush()
	b := memconn.NewBook(r)
	defer b.Finish()
	thorough := vrep.Thorough()
	F := c02MaxFramePayload
	// 4091 / 4092: the frame is 4096 / 4097 bytes on the wire (the stream's message reader sits on a bufio.Reader
	// of the default size); F = the largest payload go-libp2p's writer puts into a frame (16 KiB on the wire);
	// 16384 = a payload at the limit itself
	type plan struct {
		K     int
		sizes []int
		full  bool // full product of (framing, reader, local operation); else (reader, local operation) rotate with the sequence number
	}
	plans := []plan{{2, []int{0, 1, 7, 4091, 4092, F, 16384}, false}, {3, []int{0, 7, F}, false}}
	if thorough {
		plans = []plan{{2, []int{0, 1, 7, 4091, 4092, F, 16384, 65000}, true}, {3, []int{0, 7, F}, true}, {3, []int{0, 1, 7, 4091, 4092, F, 16384}, false}, {4, []int{0, 7, F}, false}}
	}
	framings := []string{"one message per frame", "length prefix and body in two messages"}
	modes := []string{"all frames arrived before the first Read", "reader blocked in Read when each frame arrives"}
	locals := []string{"", "closewrite"}
	var pd []string
	for _, p := range plans {
		how := "both framings; reader x local operation rotate with the sequence number"
		if p.full {
			how = "full product with framing x reader x local operation"
		}
		pd = append(pd, fmt.Sprintf("sequences of length <= %d over payload sizes %v: %d (+ as many with FIN_ACK frames when the local end has sent FIN), each with and without the remote closing the channel at the end; %s", p.K, p.sizes, len(c02Seqs(p.K, p.sizes, false)), how))
	}
	r.Bounds["frame_sequences"] = pd
	r.Bounds["flags"] = "none, FIN, STOP_SENDING, RESET, FIN_ACK - on a frame with or without payload; after FIN / RESET only control frames without payload"
	r.Bounds["framing(how the remote puts a frame into data-channel messages)"] = framings
	r.Bounds["reader"] = modes
	r.Bounds["local_operation_before"] = "none | CloseWrite (then FIN_ACK frames are in the alphabet)"
	var pn []string
	for _, p := range c02RPols {
		pn = append(pn, p.Name)
	}
	r.Bounds["read_policies(pending = rest of the frame being handed out)"] = pn
	r.Bounds["reads_after_the_end"] = 3
	seen := map[string]bool{}
	for _, pl := range plans {
		for li, local := range locals {
			seqs := c02Seqs(pl.K, pl.sizes, local == "closewrite")
			for qi, fr := range seqs {
				if local == "closewrite" && !pl.full && !c02HasFinAck(fr) && qi%2 == 1 {
					// rotating plans: the sequences without FIN_ACK already ran without the local CloseWrite; keep half
					continue
				}
				if !b.Mine(fmt.Sprint(fr)) {
					continue
				}
				for _, cl := range []bool{false, true} {
					for fi, framing := range framings {
						for mi, mode := range modes {
							if !pl.full && mi != (qi+li)%2 {
								continue
							}
							for _, pol := range c02RPols {
								k := fmt.Sprint(fr, cl, fi, mi, li, pol.Name)
								if seen[k] {
									continue // the plans overlap
								}
								seen[k] = true
								if b.Over() {
									return
								}
								c := c02WCase{Scenario: "peer", Frames: fr, Close: cl, Framing: framing, Mode: mode, Local: local, Policy: pol.Name}
								var prob *memconn.Problem
								var infra error
								var class string
								pan := memconn.Bubble(t, func() {
									class, prob, infra = c02RunPeer(&c, pol, mi == 1, fi == 0, &b.Buf)
								})
								if c02WFile(b, pan, infra, prob, c) {
									b.Transfers++
									r.Outcome(class)
									b.Distinct(c, k)
								}
							}
						}
					}
				}
			}
		}
	}
}

// c02RunPeer runs one case of the enumerated peer inside a bubble.
func c02RunPeer(c *c02WCase, pol c02RPol, blocked, oneMsg bool, buf *[]byte) (class string, prob *memconn.Problem, infra error) {
	x, err := c02NewAssoc()
	if err != nil {
		return "", nil, err
	}
	defer x.close()
	ch, err := x.channel()
	if err != nil {
		return "", nil, err
	}
	var done int
	s := c02NewStream(ch.id, ch.da, &done)
	rem := c02NewRemote(ch.db)
	defer func() {
		s.Reset()
		rem.close()
		c02Settle()
	}()
	if c.Local == "closewrite" {
		if err := s.CloseWrite(); err != nil {
			return "", &memconn.Problem{Key: "closewrite-failed-on-healthy-stream", Desc: err.Error()}, nil
		}
	}
	c02Settle()

	// ---- the model: a plain byte stream ----
	total := 0
	for _, f := range c.Frames {
		total += f.N
	}
	all := memconn.Pattern(0x9EE2+uint64(total)*131+uint64(len(c.Frames)), total)
	term, cut, off := "", total, 0
	var bounds []int // end offsets of the frames that carry payload, up to the end of the stream
	var sizeAt []int
	last := len(c.Frames) - 1 // last frame that must be written successfully
	for i, f := range c.Frames {
		off += f.N
		if term == "" {
			if f.N > 0 {
				bounds = append(bounds, off)
				sizeAt = append(sizeAt, f.N)
			}
			if f.Flag == "FIN" || f.Flag == "RESET" {
				term, cut, last = f.Flag, off, i
			}
		}
	}
	if term == "" && c.Close {
		term = "CLOSE"
	}

	tr := &memconn.Transfer{R: s, Payload: all, Buf: *buf, Zeros: pol.Zeros}
	defer func() { *buf = tr.Buf }()
	tr.Accepted = cut
	curFrame, spent := -1, 0
	tr.ReadSize = func(received, _ int) int {
		for i, e := range bounds {
			if received < e {
				if i != curFrame {
					curFrame, spent = i, 0
				}
				sz := pol.size(e-received, sizeAt[i], spent)
				spent++
				return sz
			}
		}
		return pol.size(1, 1, 0)
	}

	send := func(i int) error {
		f := c.Frames[i]
		start := 0
		for _, g := range c.Frames[:i] {
			start += g.N
		}
		m := f.msg(all[start : start+f.N])
		if !oneMsg {
			return rem.w.WriteMsg(m) // go-msgio writes the length prefix and the body with two Write calls
		}
		data, err := proto.Marshal(m)
		if err != nil {
			return err
		}
		_, err = rem.dc.Write(append(varint.ToUvarint(uint64(len(data))), data...))
		return err
	}
	sendAll := func(settleEach bool) error {
		for i := range c.Frames {
			if err := send(i); err != nil && i <= last {
				return fmt.Errorf("harness: the remote could not write frame %d (%s): %w", i, c.Frames[i], err)
			}
			if settleEach {
				c02Settle()
			}
		}
		if c.Close {
			rem.close()
		}
		c02Settle()
		return nil
	}

	type rres struct {
		end  error
		prob *memconn.Problem
	}
	read := func() rres {
		s.SetReadDeadline(time.Now().Add(time.Hour))
		zero := 0
		for {
			n, err, p := tr.ReadOnce()
			if p != nil {
				return rres{nil, p}
			}
			if err != nil {
				for i := 0; i < 3; i++ {
					if _, _, p := tr.ReadOnce(); p != nil {
						return rres{err, p}
					}
				}
				return rres{err, nil}
			}
			if tr.LastEmpty {
				continue
			}
			if n == 0 {
				if zero++; zero > 64 {
					return rres{nil, &memconn.Problem{Key: "reader-makes-no-progress", Desc: fmt.Sprintf("%d consecutive (0, nil) reads with a non-empty buffer at %d of %d bytes", zero, tr.Received, cut)}}
				}
			} else {
				zero = 0
			}
		}
	}

	var res rres
	if blocked {
		ch := make(chan rres, 1)
		go func() { ch <- read() }()
		c02Settle()
		if err := sendAll(true); err != nil {
			infra = err
		}
		res = <-ch
	} else {
		if err := sendAll(false); err != nil {
			return "", nil, err
		}
		res = read()
	}
	if infra != nil {
		return "", nil, infra
	}
	if res.prob != nil {
		return "", res.prob, nil
	}

	// ---- judge the end ----
	end, got := res.end, tr.Received
	what := fmt.Sprintf("frames %v (close=%v): the reader got %d of the %d bytes up to the end of the stream, then %v", c.Frames, c.Close, got, cut, end)
	fail := func(key string, f string, a ...any) (string, *memconn.Problem, error) {
		return "", &memconn.Problem{Key: key, Desc: what + ": " + fmt.Sprintf(f, a...)}, nil
	}
	switch {
	case end == io.EOF:
		if term != "FIN" {
			if term == "RESET" {
				return fail("reset-reported-as-eof", "the remote reset the stream; the reader is told that it ended normally")
			}
			return fail("eof-without-fin", "io.EOF although the remote never sent FIN")
		}
		if got < cut {
			return fail("eof-before-all-bytes-delivered", "io.EOF before all bytes that precede the FIN (the payload of the frame that carries it included) were handed out")
		}
	case c02IsTimeout(end):
		switch {
		case got < cut && term != "RESET":
			return fail("bytes-not-delivered", "Read still waits after a virtual hour although the remote's frames all arrived")
		case term == "FIN":
			return fail("end-of-stream-not-delivered", "the remote sent FIN and every byte was received, but the reader never gets the end of the stream")
		case term == "RESET":
			return fail("reset-not-delivered", "the remote sent RESET, but the reader gets no error: Read still waits after a virtual hour")
		}
	default:
		if term != "RESET" && term != "CLOSE" && got < cut {
			return fail("read-error-on-healthy-stream("+strings.TrimPrefix(c02ErrClass(end), "other:")+")", "a Read error before all bytes were delivered; the remote sent neither RESET nor closed the channel")
		}
	}
	how := "everything"
	switch {
	case got == 0 && cut > 0:
		how = "nothing"
	case got < cut:
		how = "a strict prefix"
	}
	if term == "" {
		term = "no end"
	}
	c02Settle() // what the stream sent in response (FIN_ACK) has arrived at the remote
	return fmt.Sprintf("%s -> reader got %s, then %s; the remote saw %v", term, how, c02ErrClass(end), rem.flags()), nil, nil
}
