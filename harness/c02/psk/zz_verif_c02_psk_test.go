//go:build verif

package pnet

// C02 part "psk": fidelity of the private-network layer (psk_conn.go: XSalsa20 key stream per direction, 24-byte
// nonce sent before the first byte). Confidentiality only - there is no integrity, so there is no tampering
// oracle here (the statement's second sentence is about authenticated channels).
//
// Grid: payload length (around the 24-byte nonce, the 64-byte Salsa20 block, 4096, 64 kB) x write split x
// read-buffer policy x short-read pattern of the connection underneath (the nonce itself may arrive in
// pieces) x read after each / after the last write, on a fresh connection per (length, split, short reads,
// mode); on each connection the read policies follow one another and ALTERNATE DIRECTIONS (a->b, b->a, ...),
// so both key streams are advanced independently and across many transfers.
// Oracle: received so far == prefix of accepted so far, after every Read (engine/memconn Transfer).
//
// End of the stream / errors of the connection underneath ("any underlying connection": an io.Reader may return
// n > 0 TOGETHER WITH err != nil): the last transfer of every connection ends with the writer closing BEFORE the
// reader has read what the last write sent, and the connection underneath hands the reader its last segment
// either in the same Read call as io.EOF or before it (both, as a grid dimension); the bytes returned by the
// call that reports the end are checked like all others and all bytes must have arrived by then.
// TestVerifC02PSKReadFaults additionally breaks the connection at enumerated byte positions (inside the nonce,
// at its end, inside / at the end of the ciphertext) with the error arriving together with the segment that
// ends there, or after it (control): the bytes returned so far - by the failing call too - must be a prefix of
// what was written, and nothing else may ever be delivered afterwards.

import (
	"fmt"
	"testing"

	"github.com/libp2p/go-libp2p/x/verif/memconn"
	"github.com/libp2p/go-libp2p/x/verif/vrep"
)

var c02Key = func() *[32]byte {
	var k [32]byte
	for i := range k {
		k[i] = byte(i*11 + 5)
	}
	return &k
}()

func c02Setup(short []int, eofWithData bool) func() (*memconn.Link, error) {
	return func() (*memconn.Link, error) {
		ca, cb := memconn.Pair()
		ca.SetReadChunks(short...)
		cb.SetReadChunks(short...)
		ca.SetEOFWithData(eofWithData)
		cb.SetEOFWithData(eofWithData)
		pa, err := newPSKConn(c02Key, ca)
		if err != nil {
			return nil, err
		}
		pb, err := newPSKConn(c02Key, cb)
		if err != nil {
			return nil, err
		}
		closeAll := func() { ca.Close(); cb.Close() }
		fwd := &memconn.Link{W: pa, R: pb, RRaw: cb, CloseW: pa.Close, Close: closeAll}
		fwd.Alt = &memconn.Link{W: pb, R: pa, RRaw: ca, CloseW: pb.Close, Close: closeAll}
		return fwd, nil
	}
}

type c02Case struct {
	Layer  string `json:"layer"`
	Dir    string `json:"dir"`
	L      int    `json:"L"`
	Split  string `json:"split"`
	Writes []int  `json:"writes,omitempty"`
	Policy string `json:"read_policy"`
	Short  []int  `json:"short_reads_underneath"`
	Each   bool   `json:"read_after_each_write"`
	Nth    int    `json:"nth_transfer_of_connection"`
	// last transfer of a connection: the writer closes before the reader reads what the last write sent
	CloseEarly  bool               `json:"writer_closes_before_the_last_read,omitempty"`
	EOFWithData bool               `json:"last_segment_arrives_together_with_eof"`
	Fault       *memconn.ReadFault `json:"read_fault,omitempty"`
}

func c02ShortWrites(w []int) []int {
	if len(w) > 8 {
		return append(append([]int{}, w[:4]...), -len(w))
	}
	return w
}

func TestVerifC02PSK(t *testing.T) {
	r := vrep.New("C02", "psk-fidelity")
	defer r.Flush()
	b := memconn.NewBook(r)
	defer b.Finish()
	thorough := vrep.Thorough()
	lengths := []int{0, 1, 2, 23, 24, 25, 63, 64, 65, 4095, 4096, 4097, 70000}
	shorts := [][]int{{0}, {1}, {2}, {3}, {7}, {4096}, {23}, {24}, {25}, {63, 65}}
	fixed := []int{1, 2, 3, 23, 24, 25, 63, 64, 65, 4096, 65536}
	if thorough {
		lengths = append(lengths, 3, 47, 48, 49, 127, 128, 129, 8192, 65535, 65536, 65537, 200000)
		shorts = append(shorts, []int{5}, []int{64}, []int{1, 7, 3}, []int{65536})
		fixed = append(fixed, 7, 127, 128, 129, 4095, 4097, 70000)
	}
	r.Bounds["L"] = lengths
	r.Bounds["write_splits"] = "whole, 1+rest, rest+1, 24+rest, 64+rest, thirds, 0+L+0, thirds with zero-length writes between them [a,0,a,0,0,rest], 1-byte writes for L<=4097"
	if !thorough {
		r.Bounds["quick_reduction_zero_length_writes"] = "the split with zero-length writes in between only with short reads {unlimited,1} underneath"
	}
	r.Bounds["short_read_patterns(cyclic, 0=unlimited)"] = shorts
	r.Bounds["directions"] = "alternating a->b / b->a on every connection, both parities"
	r.Bounds["read_after"] = "each write | last write"
	r.Bounds["end_of_stream"] = "the last transfer of every connection: the writer closes before the reader reads what the last write sent; the connection underneath delivers its last segment together with io.EOF | before io.EOF (both)"
	if !thorough {
		r.Bounds["quick_reduction_end_of_stream"] = "together with io.EOF on the connections whose first transfer goes b->a (the last one then goes b->a as well), before io.EOF on those that start a->b; the thorough tier has the product"
	}
	r.Bounds["read_sizes"] = fmt.Sprintf("%v, L+1, remaining-1, remaining, remaining+1", fixed)
	// zero-length reads (len(buf) = 0) interleaved: z(i mod n) of them before the i-th non-empty Read; with
	// pattern [1] / [2,0] the very first Read of a direction (the one that has to fetch the nonce) is empty.
	// Two of them, so that each meets both directions (the policies alternate directions)
	zeroPols := []memconn.Policy{memconn.Fixed(25).WithZeros(1), memconn.Rel(-1).WithZeros(2, 0)}
	if thorough {
		zeroPols = append(zeroPols, memconn.Fixed(1).WithZeros(1, 2), memconn.Rel(0).WithZeros(1), memconn.Fixed(64).WithZeros(0, 1), memconn.Fixed(4096).WithZeros(0, 0, 3))
	}
	var zn []string
	for _, p := range zeroPols {
		zn = append(zn, p.Name)
	}
	r.Bounds["read_sizes_with_zero_length_reads(z(i mod n) empty-buffer Reads before the i-th non-empty Read)"] = zn
	payloads := map[string][]byte{}
	for _, L := range lengths {
		pols := append(memconn.Policies(append(append([]int{}, fixed...), L+1), []int{-1, 0, 1}), zeroPols...)
		for _, sp := range memconn.Splits(L, []int{24, 64}, 4097) {
			for _, short := range shorts {
				if !thorough && sp.Name == "thirds+0s" && short[0] > 1 {
					continue // quick: the split with zero-length writes in between only with short reads {unlimited,1}
				}
				if !b.Mine(sp.Sizes, short) {
					continue
				}
				for _, each := range []bool{false, true} {
					if each && len(sp.Sizes) == 1 {
						continue
					}
					for pj := 0; pj < 4; pj++ {
						parity, join := pj%2, pj >= 2
						if !thorough && join != (parity == 1) {
							continue // quick: the delivery of the end of the stream is tied to the direction parity
						}
						if b.Over() {
							return
						}
						items := make([]memconn.Item, len(pols))
						cases := make([]c02Case, len(pols))
						for i, pol := range pols {
							rev := (i+parity)%2 == 1
							k := fmt.Sprint(L, rev, i)
							if payloads[k] == nil {
								if len(payloads) > 256 {
									clear(payloads)
								}
								seed := uint64(0x95C0000 + i*2)
								if rev {
									seed++
								}
								payloads[k] = memconn.Pattern(seed, L)
							}
							dir := "a2b"
							if rev {
								dir = "b2a"
							}
							last := i == len(pols)-1
							items[i] = memconn.Item{Payload: payloads[k], Writes: sp.Sizes, Each: each, Pol: pol, Reverse: rev, CloseEarly: last}
							cases[i] = c02Case{Layer: "psk", Dir: dir, L: L, Split: sp.Name, Writes: c02ShortWrites(sp.Sizes), Policy: pol.Name, Short: short, Each: each, Nth: i, CloseEarly: last, EOFWithData: join}
						}
						res := memconn.RunFidelity(t, c02Setup(short, join), items, &b.Buf, nil)
						b.Fidelity("psk", res, len(items), func(i int) any { return cases[i] })
						for i := 0; i < res.Done; i++ {
							r.Outcome("psk transfer delivered intact " + cases[i].Dir)
							if L > 0 {
								b.Distinct(cases[i], sp.Sizes, short, each, parity, join, i)
							}
						}
					}
				}
			}
		}
	}
}

// TestVerifC02PSKReadFaults: a fresh connection per run; the writer writes everything (nonce + ciphertext are in
// flight, W bytes), then the stream ends (eof, delivered with / after the last segment) or the connection breaks
// after Pos of the W bytes (reset / expired deadline, delivered with the segment that ends at Pos, or - reset -
// after it); the reader reads on for 6 Reads after its first error. Oracle: memconn.FaultResult.Judge.
func TestVerifC02PSKReadFaults(t *testing.T) {
	r := vrep.New("C02", "psk-readfaults")
	defer r.Flush()
	b := memconn.NewBook(r)
	defer b.Finish()
	thorough := vrep.Thorough()
	lengths := []int{1, 25, 64, 4097}
	shorts := [][]int{{0}, {1}, {7}, {63, 65}}
	pols := []memconn.Policy{memconn.Fixed(1), memconn.Fixed(25), memconn.Rel(0), memconn.Fixed(65536), memconn.Fixed(25).WithZeros(1)}
	if thorough {
		lengths = append(lengths, 2, 24, 63, 65, 70000)
		shorts = append(shorts, []int{2}, []int{24}, []int{25}, []int{4096})
		pols = append(pols, memconn.Fixed(2), memconn.Fixed(24), memconn.Fixed(64), memconn.Rel(-1), memconn.Rel(1), memconn.Rel(0).WithZeros(0, 1))
	}
	marks := []int{23, 24, 25, 26, 24 + 63, 24 + 64, 24 + 65}
	r.Bounds["L"] = lengths
	r.Bounds["write_splits"] = "whole, thirds"
	r.Bounds["short_read_patterns(cyclic, 0=unlimited)"] = shorts
	var pn []string
	for _, p := range pols {
		pn = append(pn, p.Name)
	}
	r.Bounds["read_policies"] = pn
	r.Bounds["faults"] = "eof {with | after the last segment}; at every position: reset with the segment, reset after the segment (control), expired deadline with the segment"
	r.Bounds["fault_positions(wire bytes delivered before the break, W = 24 + L in flight)"] = "1, 2, 3, W/2, W-2, W-1, W, 23, 24, 25, 26, 87, 88, 89"
	r.Bounds["reads_after_first_error"] = 6
	for _, L := range lengths {
		payload := memconn.Pattern(0x95CF00+uint64(L), L)
		for _, sp := range memconn.Splits(L, nil, 0) {
			if sp.Name != "whole" && sp.Name != "thirds" {
				continue
			}
			faults := memconn.Faults(24+L, marks)
			for fi, f := range faults {
				if !b.Mine(L, sp.Name, fi) {
					continue
				}
				for _, short := range shorts {
					for _, pol := range pols {
						if b.Over() {
							return
						}
						f := f
						c := c02Case{Layer: "psk", Dir: "a2b", L: L, Split: sp.Name, Writes: c02ShortWrites(sp.Sizes), Policy: pol.Name, Short: short, EOFWithData: f.Kind == "eof" && f.WithData, Fault: &f}
						res := memconn.RunReadFault(t, c02Setup(short, false), payload, sp.Sizes, pol, f, false, &b.Buf)
						if cls := b.ReadFault("psk", res, f, L, c); cls != "" {
							b.Distinct(c, L, sp.Name, fi, short, pol.Name)
						}
					}
				}
			}
		}
	}
}
