//go:build verif

package handshake

// C19, observation point "PeerIDAuthHandshakeServer.PeerID()": the handshake object itself, driven the way its API
// invites (and the package's own tests and benchmarks do) - ONE object that serves request after request with Reset()
// in between - over every history of requests and clock steps up to a depth, for every TokenTTL of a small set
// (the zero value included: a token then expires the instant it is made). The HTTP handler of p2p/http/auth builds a
// fresh object per request and is covered by the other parts; here the quantifier is "histories".
//
// Oracle: a reference model, written independently of the code under test, of what the server has ISSUED - every
// opaque challenge state and every bearer token the object (or its twin with the same secret) ever handed out, with the
// time it was made and whom it is for. A peer ID may be reported only for
//   - bearer = byte-identical to an issued TOKEN for that peer, now not after created + TokenTTL, or
//   - opaque = byte-identical to an issued CHALLENGE state, now not after created + 5 min, with a signature of that
//     peer's key over (that challenge, the server's key, the hostname).
// Exactly at the expiry instant either answer is accepted (assumption of the property's other parts as well). A
// request the model accepts strictly inside the lifetime must be accepted (baseline).

import (
	"crypto/hmac"
	"crypto/sha256"
	"encoding/base64"
	"encoding/json"
	"fmt"
	"net/http"
	"os"
	"regexp"
	"strings"
	"testing"
	"time"

	"github.com/libp2p/go-libp2p/core/crypto"
	"github.com/libp2p/go-libp2p/core/peer"
	"github.com/libp2p/go-libp2p/x/verif/vrep"
)

const c19hsHost = "example.com"

var c19hsT0 = time.Date(2026, 1, 2, 3, 4, 5, 0, time.UTC)

// c19hsCounter: deterministic "randomness" (a fresh one per history, so a replay sees the same bytes)
type c19hsCounter struct{ n byte }

func (c *c19hsCounter) Read(p []byte) (int, error) {
	for i := range p {
		c.n++
		p[i] = c.n*37 + 11
	}
	return len(p), nil
}

type c19hsSeed byte

func (s c19hsSeed) Read(p []byte) (int, error) {
	for i := range p {
		p[i] = byte(s) + byte(i)*3
	}
	return len(p), nil
}

type c19hsWho struct {
	priv crypto.PrivKey
	pub  []byte // marshalled public key
	id   peer.ID
}

func c19hsIdentity(seed byte) c19hsWho {
	priv, pubk, err := crypto.GenerateEd25519Key(c19hsSeed(seed))
	if err != nil {
		panic(err)
	}
	pub, err := crypto.MarshalPublicKey(pubk)
	if err != nil {
		panic(err)
	}
	id, err := peer.IDFromPublicKey(pubk)
	if err != nil {
		panic(err)
	}
	return c19hsWho{priv, pub, id}
}

// what the model knows about a blob the server handed out
type c19hsIssued struct {
	token   bool
	peer    peer.ID // tokens: whom it is for
	created time.Time
	chal    string  // challenges: the challenge-client text that goes with the state
	client  peer.ID // challenges of the client-initiated flow: whose key the state carries ("" = server-initiated)
}

type c19hsEvent int

const (
	c19hsNoCred c19hsEvent = iota
	c19hsClientInit
	c19hsBearerV
	c19hsBearerA
	c19hsChallengeAsBearer
	c19hsAnswer
	c19hsTokenAsChallenge
	c19hsLastToken
	c19hsBadMAC
	c19hsGarbage
	c19hsAnswerByV
	c19hsTick
	c19hsChalTTL
	c19hsTokTTL
	c19hsNumEvents
)

var c19hsEventNames = []string{"request without credentials", "A starts a client-initiated handshake", "bearer: V's token", "bearer: A's token",
	"bearer: the last challenge state", "A answers the last challenge", "opaque: V's token, signed by A", "bearer: the token issued last",
	"bearer: V's token, MAC bit flipped", "unparsable header", "V answers the last challenge", "+1ns", "+5min", "+1h"}

type c19hsObs struct {
	ParseErr string  `json:"parse_error"`
	RunErr   string  `json:"run_error"`
	ID       peer.ID `json:"peer_id"`
	IDErr    string  `json:"peer_id_error"`
	// PeerID() named a peer although Run() had refused the request (not a report: see c19hsServe)
	AfterRefusal bool `json:"peer_id_returned_after_refusal"`
	hdr      http.Header
}

func (o c19hsObs) reported() bool { return o.IDErr == "" }

type c19hsRun struct {
	srvKey crypto.PrivKey
	spk    []byte
	ttl    time.Duration
	V, A   c19hsWho
	srv    *PeerIDAuthHandshakeServer // THE object, reused through Reset()
	now    time.Time
	issued map[string]c19hsIssued
	tokV   string
	tokA   string
	lastCh string // opaque (base64) of the last challenge handed out
	lastTk string
}

var (
	c19hsOpaqueRe = regexp.MustCompile(`opaque="([^"]*)"`)
	c19hsBearerRe = regexp.MustCompile(`bearer="([^"]*)"`)
	c19hsChalRe   = regexp.MustCompile(`challenge-client="([^"]*)"`)
)

const c19hsChallengeServer = "AAAAAAAAAAAAAAAAAAAAAAAAAAAAAAAAAAAAAAAAAAA="

func (x *c19hsRun) newServer() *PeerIDAuthHandshakeServer {
	key := make([]byte, 32)
	for i := range key {
		key[i] = byte(i*7 + 1)
	}
	return &PeerIDAuthHandshakeServer{Hostname: c19hsHost, PrivKey: x.srvKey, TokenTTL: x.ttl, Hmac: hmac.New(sha256.New, key)}
}

// serve runs one request on srv the way a caller of the API does
func c19hsServe(srv *PeerIDAuthHandshakeServer, header string) c19hsObs {
	var o c19hsObs
	o.hdr = http.Header{}
	srv.Reset()
	if err := srv.ParseHeaderVal([]byte(header)); err != nil {
		o.ParseErr = err.Error()
	} else if err := srv.Run(); err != nil {
		o.RunErr = err.Error()
	} else {
		srv.SetHeader(o.hdr)
	}
	id, err := srv.PeerID()
	switch {
	case o.ParseErr != "" || o.RunErr != "":
		// The request was refused. The package's one caller (ServerPeerIDAuth.ServeHTTP) answers 400 / 401 here and
		// never asks for a peer ID; the harness follows that calling convention: nothing is reported to anybody.
		// (What PeerID() would say is recorded as an outcome class only.)
		o.IDErr = "request refused: " + o.ParseErr + o.RunErr
		o.AfterRefusal = err == nil
	case err != nil:
		o.IDErr = err.Error()
	default:
		o.ID = id
	}
	return o
}

func (x *c19hsRun) answer(who c19hsWho, opaque, chal string) string {
	sig, err := sign(who.priv, PeerIDAuthScheme, []sigParam{{"challenge-client", []byte(chal)}, {"server-public-key", x.spk}, {"hostname", []byte(c19hsHost)}})
	if err != nil {
		panic(err)
	}
	return fmt.Sprintf(`%s public-key="%s", challenge-server="%s", opaque="%s", sig="%s"`, PeerIDAuthScheme,
		base64.URLEncoding.EncodeToString(who.pub), c19hsChallengeServer, opaque, base64.URLEncoding.EncodeToString(sig))
}

// mint: an honest server-initiated handshake of who on FRESH objects (one per request, as the HTTP handler does)
func (x *c19hsRun) mint(who c19hsWho) string {
	o := c19hsServe(x.newServer(), "")
	op, ch := c19hsOpaqueRe.FindStringSubmatch(o.hdr.Get("WWW-Authenticate")), c19hsChalRe.FindStringSubmatch(o.hdr.Get("WWW-Authenticate"))
	if op == nil || ch == nil {
		panic("c19hs: no challenge from a fresh server: " + o.RunErr)
	}
	o = c19hsServe(x.newServer(), x.answer(who, op[1], ch[1]))
	tk := c19hsBearerRe.FindStringSubmatch(o.hdr.Get("Authentication-Info"))
	if tk == nil || o.ID != who.id {
		panic("c19hs: honest handshake on fresh objects failed: " + o.RunErr + o.IDErr)
	}
	x.issued[tk[1]] = c19hsIssued{token: true, peer: who.id, created: x.now}
	return tk[1]
}

func c19hsNewRun(ttl time.Duration) *c19hsRun {
	x := &c19hsRun{ttl: ttl, now: c19hsT0, issued: map[string]c19hsIssued{}}
	nowFn = func() time.Time { return x.now }
	randReader = &c19hsCounter{}
	srv := c19hsIdentity(1)
	x.srvKey, x.spk = srv.priv, srv.pub
	x.V, x.A = c19hsIdentity(50), c19hsIdentity(100)
	x.tokV, x.tokA = x.mint(x.V), x.mint(x.A)
	x.srv = x.newServer()
	return x
}

// want: "" = no report may be made; otherwise the only peer ID that may be reported. must = the model accepts
// strictly inside the lifetime (the request has to succeed); edge = exactly at the expiry instant (either answer).
type c19hsWant struct {
	id   peer.ID
	must bool
	edge bool
	why  string
}

func (x *c19hsRun) life(created time.Time, ttl time.Duration, id peer.ID, what string) c19hsWant {
	end := created.Add(ttl)
	switch {
	case x.now.Before(end):
		return c19hsWant{id: id, must: true, why: what + ", unexpired"}
	case x.now.Equal(end):
		return c19hsWant{id: id, edge: true, why: what + ", exactly at its expiry instant"}
	}
	return c19hsWant{why: what + ", expired " + x.now.Sub(end).String() + " ago"}
}

func (x *c19hsRun) wantBearer(b string) c19hsWant {
	is, ok := x.issued[b]
	if !ok {
		return c19hsWant{why: "never issued"}
	}
	if !is.token {
		return c19hsWant{why: "a challenge state, not a token: nobody proved anything for it"}
	}
	return x.life(is.created, x.ttl, is.peer, "token issued for "+c19hsName(x, is.peer))
}

func (x *c19hsRun) wantAnswer(opaque string, signer c19hsWho) c19hsWant {
	is, ok := x.issued[opaque]
	if !ok {
		return c19hsWant{why: "state never issued"}
	}
	if is.token {
		return c19hsWant{why: "a token, not a challenge state"}
	}
	if is.client != "" && is.client != signer.id {
		return c19hsWant{why: "challenge state made for the key of " + c19hsName(x, is.client) + ", signed by somebody else"}
	}
	return x.life(is.created, challengeTTL, signer.id, "challenge answered by "+c19hsName(x, signer.id))
}

func c19hsName(x *c19hsRun, id peer.ID) string {
	switch id {
	case x.V.id:
		return "V"
	case x.A.id:
		return "A"
	case "":
		return "nobody"
	}
	return "UNKNOWN(" + id.String() + ")"
}

// enabled: events that need an earlier answer of the server are offered only once there is one
func (x *c19hsRun) enabled(ev c19hsEvent) bool {
	switch ev {
	case c19hsChallengeAsBearer, c19hsAnswer, c19hsAnswerByV:
		return x.lastCh != ""
	case c19hsLastToken:
		return x.lastTk != ""
	}
	return true
}

// apply one event to the reused object; returns the request, what was observed and what the model allows
func (x *c19hsRun) apply(ev c19hsEvent) (string, *c19hsObs, c19hsWant) {
	var header string
	var want c19hsWant
	switch ev {
	case c19hsTick:
		x.now = x.now.Add(time.Nanosecond)
		return "", nil, want
	case c19hsChalTTL:
		x.now = x.now.Add(challengeTTL)
		return "", nil, want
	case c19hsTokTTL:
		x.now = x.now.Add(time.Hour)
		return "", nil, want
	case c19hsNoCred:
		header, want = "", c19hsWant{why: "no credentials"}
	case c19hsClientInit:
		header = fmt.Sprintf(`%s challenge-server="%s", public-key="%s"`, PeerIDAuthScheme, c19hsChallengeServer, base64.URLEncoding.EncodeToString(x.A.pub))
		want = c19hsWant{why: "only a key was named, nothing proven yet"}
	case c19hsBearerV:
		header, want = fmt.Sprintf(`%s bearer="%s"`, PeerIDAuthScheme, x.tokV), x.wantBearer(x.tokV)
	case c19hsBearerA:
		header, want = fmt.Sprintf(`%s bearer="%s"`, PeerIDAuthScheme, x.tokA), x.wantBearer(x.tokA)
	case c19hsChallengeAsBearer:
		header, want = fmt.Sprintf(`%s bearer="%s"`, PeerIDAuthScheme, x.lastCh), x.wantBearer(x.lastCh)
	case c19hsAnswer:
		header, want = x.answer(x.A, x.lastCh, x.issued[x.lastCh].chal), x.wantAnswer(x.lastCh, x.A)
	case c19hsAnswerByV:
		header, want = x.answer(x.V, x.lastCh, x.issued[x.lastCh].chal), x.wantAnswer(x.lastCh, x.V)
	case c19hsTokenAsChallenge:
		header, want = x.answer(x.A, x.tokV, ""), x.wantAnswer(x.tokV, x.A)
	case c19hsLastToken:
		header, want = fmt.Sprintf(`%s bearer="%s"`, PeerIDAuthScheme, x.lastTk), x.wantBearer(x.lastTk)
	case c19hsBadMAC:
		raw, err := base64.URLEncoding.DecodeString(x.tokV)
		if err != nil {
			panic(err)
		}
		raw[0] ^= 1
		b := base64.URLEncoding.EncodeToString(raw)
		header, want = fmt.Sprintf(`%s bearer="%s"`, PeerIDAuthScheme, b), x.wantBearer(b)
	case c19hsGarbage:
		header, want = PeerIDAuthScheme+` nothing="here"`, c19hsWant{why: "no credentials (header without any known parameter)"}
	}
	o := c19hsServe(x.srv, header)
	// what the server handed out now belongs to the issued set
	if op := c19hsOpaqueRe.FindStringSubmatch(o.hdr.Get("WWW-Authenticate")); op != nil {
		is := c19hsIssued{created: x.now}
		if ch := c19hsChalRe.FindStringSubmatch(o.hdr.Get("WWW-Authenticate")); ch != nil {
			is.chal = ch[1]
		}
		if ev == c19hsClientInit {
			is.client = x.A.id
		}
		x.issued[op[1]] = is
		x.lastCh = op[1]
	}
	if tk := c19hsBearerRe.FindStringSubmatch(o.hdr.Get("Authentication-Info")); tk != nil && o.reported() {
		x.issued[tk[1]] = c19hsIssued{token: true, peer: o.ID, created: x.now}
		x.lastTk = tk[1]
	}
	return header, &o, want
}

type c19hsCase struct {
	TokenTTL string   `json:"token_ttl"`
	History  []string `json:"history"`
	Events   []int    `json:"events"`
}

func TestVerifC19HandshakeObject(t *testing.T) {
	r := vrep.New("C19", "handshake-object")
	defer r.Flush()
	origNow, origRand := nowFn, randReader
	defer func() { nowFn, randReader = origNow, origRand }()
	depth := 4
	ttls := []time.Duration{time.Hour, 0}
	if vrep.Thorough() {
		depth = 5
		ttls = append(ttls, time.Nanosecond, challengeTTL)
	}
	r.Bounds["object"] = "one PeerIDAuthHandshakeServer reused through Reset() for every request of a history (tokens of V and A minted beforehand on fresh objects with the same secret)"
	r.Bounds["events"] = strings.Join(c19hsEventNames, "; ")
	r.Bounds["depth"] = fmt.Sprintf("every history of 1..%d events (events that need an earlier answer of the server are enabled once there is one)", depth)
	r.Bounds["token_ttl"] = fmt.Sprint(ttls)
	shard, nshards := vrep.Shard()
	distinct := map[string]struct{}{}
	var replayEvents []int
	replayTTL := ""
	if p := vrep.ReplayPath(); p != "" {
		b, _ := os.ReadFile(p)
		var f struct {
			Replay struct {
				Part string    `json:"part"`
				Case c19hsCase `json:"case"`
			} `json:"replay"`
		}
		if json.Unmarshal(b, &f) != nil || f.Replay.Part != "handshake-object" {
			return // a replay file of another part
		}
		replayEvents, replayTTL = f.Replay.Case.Events, f.Replay.Case.TokenTTL
	}
	n := 0
	for _, ttl := range ttls {
		if replayEvents != nil && ttl.String() != replayTTL {
			continue
		}
		var walk func(prefix []c19hsEvent)
		walk = func(prefix []c19hsEvent) {
			if time.Now().After(vrep.Deadline()) {
				r.Cap("deadline reached after %d histories", r.Executions)
				return
			}
			if len(prefix) > 0 {
				n++
				mine := n%nshards == shard
				if replayEvents != nil {
					mine = fmt.Sprint(replayEvents) == fmt.Sprint(c19hsInts(prefix))
				}
				if mine {
					c19hsJudge(r, ttl, prefix, distinct)
				}
			}
			if len(prefix) == depth {
				return
			}
			// which events are enabled after prefix: replay it (no object can be copied)
			x := c19hsNewRun(ttl)
			for _, ev := range prefix {
				x.apply(ev)
			}
			for ev := c19hsEvent(0); ev < c19hsNumEvents; ev++ {
				if x.enabled(ev) {
					walk(append(append([]c19hsEvent{}, prefix...), ev))
				}
			}
		}
		walk(nil)
	}
	r.Distinct = int64(len(distinct))
}

func c19hsInts(p []c19hsEvent) []int {
	out := make([]int, len(p))
	for i, e := range p {
		out[i] = int(e)
	}
	return out
}

// c19hsJudge replays the history on a fresh world and judges its LAST event (every prefix is a history of its own).
func c19hsJudge(r *vrep.Result, ttl time.Duration, hist []c19hsEvent, distinct map[string]struct{}) {
	last := hist[len(hist)-1]
	if last >= c19hsTick {
		return // a clock step at the end observes nothing
	}
	x := c19hsNewRun(ttl)
	var names []string
	for _, ev := range hist[:len(hist)-1] {
		x.apply(ev)
		names = append(names, c19hsEventNames[ev])
	}
	names = append(names, c19hsEventNames[last])
	header, o, want := x.apply(last)
	// the same request to an object that has no past
	fresh := c19hsServe(x.newServer(), header)
	r.Executions++
	cs := c19hsCase{TokenTTL: ttl.String(), History: names, Events: c19hsInts(hist)}
	verdict := "refused"
	if o.reported() {
		verdict = "reports " + c19hsName(x, o.ID)
	}
	allowed := "nobody"
	if want.id != "" {
		allowed = c19hsName(x, want.id)
	}
	cls := fmt.Sprintf("ttl=%s %s -> %s (model: %s%s)", ttl, c19hsEventNames[last], verdict, allowed, map[bool]string{true: ", edge", false: ""}[want.edge])
	r.Outcome(cls)
	if o.AfterRefusal {
		r.Outcome("observation, outside the calling convention: PeerID() returns a peer after Run() refused the request")
	}
	distinct[fmt.Sprint(ttl, hist)] = struct{}{}
	if r.Executions%4001 == 1 {
		r.Sample(map[string]any{"case": cs, "observed": o, "model": want.why})
	}
	past := "an object without any past answers the same"
	if fresh.reported() != o.reported() || fresh.ID != o.ID {
		past = fmt.Sprintf("an object without any past answers differently (peer %s, error %q): state survives Reset()", c19hsName(x, fresh.ID), fresh.RunErr+fresh.IDErr)
	}
	switch {
	case o.reported() && o.ID != want.id:
		r.Violate("handshake-object:reports-unproven-peer", fmt.Sprintf("TokenTTL=%s, history [%s]: PeerID() reports %s for a request whose credential is: %s (the model allows %s); %s",
			ttl, strings.Join(names, " | "), c19hsName(x, o.ID), want.why, allowed, past), map[string]any{"part": "handshake-object", "case": cs})
	case !o.reported() && want.must:
		r.Violate("baseline-failed", fmt.Sprintf("TokenTTL=%s, history [%s]: refused (%s) although the credential is: %s; %s",
			ttl, strings.Join(names, " | "), o.ParseErr+o.RunErr+o.IDErr, want.why, past), map[string]any{"part": "handshake-object", "case": cs})
	}
}
