//go:build verif

package upgrader_test

import (
	"encoding/json"
	"fmt"
	"os"
	"runtime"
	"testing"
	"time"

	"github.com/libp2p/go-libp2p/x/verif/memnet"
	"github.com/libp2p/go-libp2p/x/verif/memtpt"
	"github.com/libp2p/go-libp2p/x/verif/vrep"
)

var c04Seed = vrep.Seed()

// c04Watchdog aborts the worker (exit 3 = infrastructure, no verdict) when one case does not finish in
// real time: inside a bubble that can only happen when a goroutine blocks on something synctest does not
// own (a mutex held forever, real I/O), which virtual time cannot resolve.
func c04Watchdog(r *vrep.Result, what *string) (stop func()) {
	tm := time.AfterFunc(240*time.Second, func() {
		buf := make([]byte, 1<<20)
		buf = buf[:runtime.Stack(buf, true)]
		fmt.Fprintf(os.Stderr, "C04 watchdog: case %s did not finish within 240s of real time\n%s\n", *what, buf)
		r.Cap("watchdog: case %s did not finish within 240s of real time (no verdict)", *what)
		r.Flush()
		os.Exit(3)
	})
	return func() { tm.Stop() }
}

// c04Cases builds the full case list of one configuration from its fault-free dry runs.
func c04Cases(cfg memtpt.Config, dry *c04Result, variants []c04Variant, extraScenarios bool) []c04Case {
	var cases []c04Case
	for _, v := range variants {
		add := func(f c04Fault) { cases = append(cases, c04Case{Cfg: cfg, Scenario: "echo", Variant: v, Fault: f}) }
		for si, side := range []string{"out", "in"} {
			// one index beyond the dry-run count: the position "after the last call" (usually not reached)
			for k := 0; k <= dry.Ops[si]; k++ {
				for _, io := range memnet.IOFaults {
					add(c04Fault{Kind: "io", Side: side, K: k, What: io.String()})
				}
				add(c04Fault{Kind: "cancel", Side: side, K: k})
				add(c04Fault{Kind: "lnclose", Side: side, K: k})
				add(c04Fault{Kind: "connclose", Side: side, K: k})
			}
			for _, hook := range memnet.GaterHooks {
				for n := 0; n < dry.GaCalls[si][hook]; n++ {
					add(c04Fault{Kind: "gater", Side: side, K: n, What: hook})
					add(c04Fault{Kind: "cancelcall", Side: side, K: n, What: hook})
				}
			}
			for _, call := range memnet.RcmgrCalls {
				for n := 0; n < dry.RcCalls[si][call]; n++ {
					add(c04Fault{Kind: "rcmgr", Side: side, K: n, What: call})
					add(c04Fault{Kind: "cancelcall", Side: side, K: n, What: call})
				}
			}
		}
	}
	if extraScenarios {
		for _, s := range []string{"noaccept", "threshold", "threshold-lnclose", "queued-lnclose"} {
			cases = append(cases, c04Case{Cfg: cfg, Scenario: s, Fault: c04Fault{Kind: "none"}})
		}
		if !cfg.PSK {
			cases = append(cases, c04Case{Cfg: cfg, Scenario: "forcepnet", Fault: c04Fault{Kind: "none"}})
		}
	}
	return cases
}

func TestVerifC04Upgrade(t *testing.T) {
	r := vrep.New("C04", "upgrade")
	defer r.Flush()
	cur := "-"
	defer c04Watchdog(r, &cur)()

	if p := vrep.ReplayPath(); p != "" {
		c04Replay(t, r, p)
		return
	}

	// quick: each variant on its own; thorough: their cross product
	variants := []c04Variant{{}, {LateAccept: true}, {InClosesFirst: true}, {ShortDial: true}}
	if vrep.Thorough() {
		variants = nil
		for _, a := range []bool{false, true} {
			for _, b := range []bool{false, true} {
				for _, c := range []bool{false, true} {
					variants = append(variants, c04Variant{InClosesFirst: a, LateAccept: b, ShortDial: c})
				}
			}
		}
	}
	cfgs := memtpt.Configs()
	r.Bounds["configurations"] = fmt.Sprint(cfgs)
	r.Bounds["faults_per_run"] = 1
	r.Bounds["io_faults"] = fmt.Sprint(memnet.IOFaults)
	r.Bounds["variants(teardown order, late Accept, short dial timeout)"] = len(variants)
	r.Bounds["scenarios"] = "echo x full fault menu; noaccept, threshold, threshold-lnclose, queued-lnclose, forcepnet fault-free"

	shard, nshards := vrep.Shard()
	deadline := vrep.Deadline()
	distinct := map[string]struct{}{}
	classes := map[string]struct{}{}
	idx := 0
	notReached := 0
	for _, cfg := range cfgs {
		// fault-free dry runs: the baseline must succeed, be clean, and count the interception points
		var dry *c04Result
		stable := true
		for rep := 0; rep < 2; rep++ {
			cur = fmt.Sprintf("%s dry run %d", cfg, rep)
			d := c04Run(t, c04Case{Cfg: cfg, Scenario: "echo", Fault: c04Fault{Kind: "none"}})
			r.Executions++
			if d.Infra != "" {
				r.Cap("configuration %s: dry run failed for a harness reason: %s", cfg, d.Infra)
				dry = nil
				break
			}
			if d.OutStage != "ok" || d.InStage != "accepted" || d.Post != "echo-ok" {
				r.Violate("baseline-failed", fmt.Sprintf("%s: the fault-free scenario did not succeed: out=%s (%s) in=%s post=%s", cfg, d.OutStage, d.OutErr, d.InStage, d.Post), d)
				dry = nil
				break
			}
			for _, v := range d.Vios {
				r.Violate(v.Key+"/baseline", fmt.Sprintf("%s fault-free: %s", cfg, v.Desc), d)
			}
			if dry != nil && (dry.Kinds != d.Kinds) {
				stable = false
			}
			dry = d
		}
		if dry == nil {
			continue
		}
		r.Outcome(dry.class())
		if shard == 0 {
			r.Note("%s: dry run: %d raw I/O calls on the outbound end (%s), %d on the inbound end (%s); rcmgr calls out=%v in=%v; gater calls out=%v in=%v; op sequence reproducible=%v",
				cfg, dry.Ops[0], dry.Kinds[0], dry.Ops[1], dry.Kinds[1], dry.RcCalls[0], dry.RcCalls[1], dry.GaCalls[0], dry.GaCalls[1], stable)
			dry.Trace = nil
			r.Sample(dry)
		}
		for _, cs := range c04Cases(cfg, dry, variants, true) {
			idx++
			if idx%nshards != shard {
				continue
			}
			if time.Now().After(deadline) {
				r.Cap("deadline reached at case %d (%s)", idx, cs)
				return
			}
			cur = cs.String()
			res := c04Run(t, cs)
			r.Executions++
			if res.Infra != "" {
				r.Cap("case %s: harness problem, no verdict: %s", cs, res.Infra)
				continue
			}
			if cs.Fault.Kind != "none" && !res.Fired {
				notReached++
				r.Outcome(fmt.Sprintf("%s|fault position not reached", cs.Cfg))
			} else {
				distinct[cs.String()] = struct{}{}
				cl := res.class()
				if _, ok := classes[cl]; !ok {
					classes[cl] = struct{}{}
					r.Outcome(cl)
				} else {
					r.Outcome(cl)
				}
			}
			for _, v := range res.Vios {
				fmt.Printf("C04-VIO %s  %s  out=%s in=%s post=%s\n", v.Key, cs, res.OutStage, res.InStage, res.Post)
				r.Violate(v.Key, fmt.Sprintf("%s: %s", cs, v.Desc), res)
			}
			if len(res.Vios) == 0 && res.Fired && len(r.Samples) < 6 && idx%97 == shard {
				res.Trace = nil
				r.Sample(res)
			}
		}
	}
	r.Distinct = int64(len(distinct))
	r.Note("cases whose fault position was not reached (counted as executions, not as distinct cases): %d; distinct outcome classes: %d", notReached, len(classes))
}

// c04Replay re-executes exactly the case stored in a replay file and prints its trace.
func c04Replay(t *testing.T, r *vrep.Result, path string) {
	b, err := os.ReadFile(path)
	if err != nil {
		r.Cap("replay: %v", err)
		return
	}
	var f struct {
		Replay struct {
			Case c04Case `json:"case"`
		} `json:"replay"`
	}
	if err := json.Unmarshal(b, &f); err != nil {
		r.Cap("replay: %v", err)
		return
	}
	res := c04Run(t, f.Replay.Case)
	r.Executions++
	r.Distinct = 1
	fmt.Printf("C04 replay of %s\n  out=%s (%s) in=%s post=%s fired=%v\n  out end: %d ops %s\n  in end:  %d ops %s\n", f.Replay.Case, res.OutStage, res.OutErr,
		res.InStage, res.Post, res.Fired, res.Ops[0], res.Kinds[0], res.Ops[1], res.Kinds[1])
	for _, l := range res.Trace {
		fmt.Println("  " + l)
	}
	for _, v := range res.Vios {
		fmt.Printf("  VIOLATION %s: %s\n", v.Key, v.Desc)
		r.Violate(v.Key, v.Desc, res)
	}
	r.Outcome(res.class())
	r.Sample(res)
}
