//go:build verif

package upgrader_test

// C04, part "upgrade" (connection level). The scenario runner, the fault menu and the audit live in
// x/verif/memtpt (shared with part "tcpdial"); this file has to be in the external test package because
// p2p/security/{noise,tls} import the upgrader.

import (
	"testing"

	"github.com/libp2p/go-libp2p/p2p/net/upgrader"
	"github.com/libp2p/go-libp2p/x/verif/memtpt"
	"github.com/libp2p/go-libp2p/x/verif/vrep"
)

func TestVerifC04Upgrade(t *testing.T) {
	r := vrep.New("C04", "upgrade")
	defer r.Flush()
	memtpt.ThresholdCount = upgrader.C04ThresholdCount
	memtpt.Enumerate(t, r, memtpt.EnumOptions{ExtraScenarios: true, RawDialFaults: true})
}
