//go:build verif

package tcpreuse

// C04, part "tcpreuse": the shared TCP listener (ConnMgr / multiplexedListener.run) - every resource scope
// that the gated listener opened for an inbound connection must be closed on EVERY exit of the
// accept / demultiplex path, so that system and transient usage return to their previous values, and the
// raw connection must be closed.
//
// One execution = fresh REAL resource manager (infinite limits, or limits that refuse at one step), a real
// upgrader (only its GateMaListener half is involved), a fresh ConnMgr, the registered demultiplexed
// listeners, real loopback TCP client connections that send a scripted first-bytes class, a scripted
// consumer, a scripted teardown order. The audit is evaluated after quiescence: every listener Close()
// returned (it waits for the per-connection goroutines), every goroutine of the shared listener is gone,
// every consumer goroutine of the harness was joined.
//
// There is no way to drive this package without sockets, so the harness steers by EVENTS, never by sleeping:
//   - a thin counting decorator around the real resource manager tells when the gated listener has judged
//     every connection (OpenConnection calls + gater calls == connections dialled);
//   - a goroutine dump (runtime.Stack) tells when every per-connection goroutine of run() is either gone or
//     parked (select on the demultiplexed listener's buffer / IO wait inside identifyConnType);
//   - the client side tells when a connection was dropped (Read returns EOF / reset).
// A wait that does not complete in c04EventWait is reported with r.Cap (coverage), never as a violation.
// Oracles (each after quiescence): (i) ViewSystem / ViewTransient Stat() equal their values before the
// listeners were created; (ii) the number of open sockets of the process equals its value before the case
// plus the client ends the harness still holds (the raw connection and the listening socket are closed) -
// executions of the enumeration are sequential within a worker process, so this count is exact.

import (
	"bytes"
	"encoding/json"
	"fmt"
	"io"
	"net"
	"net/netip"
	"os"
	"runtime"
	"runtime/debug"
	"sort"
	"strings"
	"sync"
	"sync/atomic"
	"testing"
	"time"

	"github.com/libp2p/go-libp2p/core/control"
	"github.com/libp2p/go-libp2p/core/network"
	"github.com/libp2p/go-libp2p/core/peer"
	"github.com/libp2p/go-libp2p/core/transport"
	rcmgr "github.com/libp2p/go-libp2p/p2p/host/resource-manager"
	tptu "github.com/libp2p/go-libp2p/p2p/net/upgrader"
	"github.com/libp2p/go-libp2p/x/verif/vrep"

	ma "github.com/multiformats/go-multiaddr"
)

// ---------------------------------------------------------------------------------------------------
// alphabet
// ---------------------------------------------------------------------------------------------------

const (
	c04EventWait     = 20 * time.Second       // generous: other jobs share the machine
	c04ShortIdentify = 150 * time.Millisecond // identifyConnTimeout for the "silent" classes of the sequential enumeration
	c04LongIdentify  = 60 * time.Second       // ... for every other class, so that load never redirects a case to the timeout exit
	c04QueueSize     = acceptQueueSize        // 64
)

var c04DefaultIdentify = identifyConnTimeout // the unmodified value (5 s), used by the real-timeout group

var c04Types = []DemultiplexedConnType{DemultiplexedConnType_MultistreamSelect, DemultiplexedConnType_HTTP, DemultiplexedConnType_TLS}

func c04TypeBit(t DemultiplexedConnType) int {
	switch t {
	case DemultiplexedConnType_MultistreamSelect:
		return 1
	case DemultiplexedConnType_HTTP:
		return 2
	case DemultiplexedConnType_TLS:
		return 4
	}
	return 0
}

// c04Class is one first-bytes class of an inbound connection.
type c04Class struct {
	Name  string
	Bytes string
	End   string                // "keep": stay open and read; "fin": half-close (FIN) and read; "rst": SetLinger(0)+Close
	Type  DemultiplexedConnType // the type the demultiplexer must choose when it got three bytes (0 = none of the three)
}

func c04Classes() []c04Class {
	var cs []c04Class
	add := func(n, b, e string, t DemultiplexedConnType) { cs = append(cs, c04Class{n, b, e, t}) }
	add("mss", "\x13/multistream/1.0.0\n", "keep", DemultiplexedConnType_MultistreamSelect)
	for _, v := range []string{"GET", "HEAD", "POST", "PUT", "DELETE", "CONNECT", "OPTIONS", "TRACE", "PATCH"} {
		add("http-"+v, v+" / HTTP/1.1\r\nHost: x\r\n\r\n", "keep", DemultiplexedConnType_HTTP)
	}
	add("http-PRI", "PRI * HTTP/2.0\r\n\r\nSM\r\n\r\n", "keep", DemultiplexedConnType_HTTP)
	add("tls-0301", "\x16\x03\x01\x00\x05hello", "keep", DemultiplexedConnType_TLS)
	add("tls-0302", "\x16\x03\x02\x00\x05hello", "keep", DemultiplexedConnType_TLS)
	add("tls-0303", "\x16\x03\x03\x00\x05hello", "keep", DemultiplexedConnType_TLS)
	// matched by nothing
	add("junk", "\x00\x01\x02\x03\x04\x05", "keep", 0)
	add("near-tls-0304", "\x16\x03\x04\x00\x05hello", "keep", 0)
	add("near-tls-0300", "\x16\x03\x00\x00\x05hello", "keep", 0)
	add("near-mss", "\x13/x/1.0.0\n", "keep", 0)
	add("near-http-lower", "get / HTTP/1.1\r\n\r\n", "keep", 0)
	add("ssh", "SSH-2.0-x\r\n", "keep", 0)
	// three or more bytes, then the client goes away
	add("mss+fin", "\x13/multistream/1.0.0\n", "fin", DemultiplexedConnType_MultistreamSelect)
	add("exact3-mss+fin", "\x13/m", "fin", DemultiplexedConnType_MultistreamSelect)
	add("http-GET+rst", "GET / HTTP/1.1\r\n\r\n", "rst", DemultiplexedConnType_HTTP)
	// fewer than three bytes, then EOF / reset
	add("eof0", "", "fin", 0)
	add("eof1", "\x13", "fin", 0)
	add("eof2", "\x13/", "fin", 0)
	add("rst0", "", "rst", 0)
	add("rst2", "GE", "rst", 0)
	// fewer than three bytes, then nothing until the identify timeout
	add("sil0", "", "keep", 0)
	add("sil1", "\x16", "keep", 0)
	add("sil2", "\x16\x03", "keep", 0)
	return cs
}

var c04ClassByName = func() map[string]c04Class {
	m := map[string]c04Class{}
	for _, c := range c04Classes() {
		m[c.Name] = c
	}
	return m
}()

func (c c04Class) silent() bool { return len(c.Bytes) < 3 && c.End == "keep" }

// resource-manager answers: "admit" (infinite limits), "limit1" (one inbound connection at a time), or a
// refusal at one step of OpenConnection(DirInbound, usefd=true).
var c04Refusals = []string{"refuse:ip-limit", "refuse:conn-scope", "refuse:transient-conns-inbound", "refuse:transient-conns", "refuse:transient-fd",
	"refuse:system-conns-inbound", "refuse:system-conns", "refuse:system-fd"}

func c04NewRM(kind string) (network.ResourceManager, error) {
	var p rcmgr.PartialLimitConfig
	opts := []rcmgr.Option{rcmgr.WithMetricsDisabled()}
	switch kind {
	case "admit":
	case "limit1":
		p.System.ConnsInbound = 1
	case "refuse:ip-limit":
		opts = append(opts, rcmgr.WithNetworkPrefixLimit([]rcmgr.NetworkPrefixLimit{{Network: c04Loopback8, ConnCount: 0}}, nil))
	case "refuse:conn-scope":
		p.Conn.ConnsInbound = rcmgr.BlockAllLimit
	case "refuse:transient-conns-inbound":
		p.Transient.ConnsInbound = rcmgr.BlockAllLimit
	case "refuse:transient-conns":
		p.Transient.Conns = rcmgr.BlockAllLimit
	case "refuse:transient-fd":
		p.Transient.FD = rcmgr.BlockAllLimit
	case "refuse:system-conns-inbound":
		p.System.ConnsInbound = rcmgr.BlockAllLimit
	case "refuse:system-conns":
		p.System.Conns = rcmgr.BlockAllLimit
	case "refuse:system-fd":
		p.System.FD = rcmgr.BlockAllLimit
	default:
		return nil, fmt.Errorf("unknown resource-manager answer %q", kind)
	}
	return rcmgr.NewResourceManager(rcmgr.NewFixedLimiter(p.Build(rcmgr.InfiniteLimits)), opts...)
}

// ---------------------------------------------------------------------------------------------------
// fixtures: counting decorator of the real resource manager, scripted gater
// ---------------------------------------------------------------------------------------------------

type c04Scope struct {
	network.ConnManagementScope
	done atomic.Int32
}

func (s *c04Scope) Done() {
	s.done.Add(1)
	s.ConnManagementScope.Done()
}

// c04RM forwards everything to the real manager; it only records, per OpenConnection call, whether the
// real manager admitted the connection and how often Done was called on the scope it returned.
type c04RM struct {
	network.ResourceManager
	mu    sync.Mutex
	calls []*c04Scope // nil = refused
}

func (r *c04RM) OpenConnection(dir network.Direction, usefd bool, endpoint ma.Multiaddr) (network.ConnManagementScope, error) {
	s, err := r.ResourceManager.OpenConnection(dir, usefd, endpoint)
	r.mu.Lock()
	defer r.mu.Unlock()
	if err != nil {
		r.calls = append(r.calls, nil)
		return nil, err
	}
	w := &c04Scope{ConnManagementScope: s}
	r.calls = append(r.calls, w)
	return w, nil
}

func (r *c04RM) snapshot() []*c04Scope {
	r.mu.Lock()
	defer r.mu.Unlock()
	return append([]*c04Scope(nil), r.calls...)
}

type c04Gater struct {
	allow bool
	calls atomic.Int32
}

func (g *c04Gater) InterceptPeerDial(peer.ID) bool               { return true }
func (g *c04Gater) InterceptAddrDial(peer.ID, ma.Multiaddr) bool { return true }
func (g *c04Gater) InterceptAccept(network.ConnMultiaddrs) bool  { g.calls.Add(1); return g.allow }
func (g *c04Gater) InterceptSecured(network.Direction, peer.ID, network.ConnMultiaddrs) bool {
	return true
}
func (g *c04Gater) InterceptUpgraded(network.Conn) (bool, control.DisconnectReason) { return true, 0 }

// ---------------------------------------------------------------------------------------------------
// observation helpers
// ---------------------------------------------------------------------------------------------------

type c04Usage struct {
	System, Transient network.ScopeStat
}

func c04Stat(rm network.ResourceManager) (u c04Usage, err error) {
	if err = rm.ViewSystem(func(s network.ResourceScope) error { u.System = s.Stat(); return nil }); err != nil {
		return
	}
	err = rm.ViewTransient(func(s network.ResourceScope) error { u.Transient = s.Stat(); return nil })
	return
}

// c04Sockets counts the open socket descriptors of this process.
func c04Sockets() int {
	ents, err := os.ReadDir("/proc/self/fd")
	if err != nil {
		return -1
	}
	n := 0
	for _, e := range ents {
		if l, err := os.Readlink("/proc/self/fd/" + e.Name()); err == nil && strings.HasPrefix(l, "socket:") {
			n++
		}
	}
	return n
}

// c04G is the census of the shared listener's goroutines (by state), from a goroutine dump.
type c04G struct {
	ConnSelect int // per-connection goroutine parked in the select on the demultiplexed listener's buffer
	ConnIO     int // per-connection goroutine in IO wait (identifyConnType reading the first bytes)
	ConnOther  int // per-connection goroutine running / runnable / anything else (transient)
	RunSelect  int // run() blocked in its select (accept queue full)
	RunIO      int // run() blocked in Accept
	RunOther   int
	Any        int // any goroutine with a frame of (or created by) *multiplexedListener that is not a harness goroutine
}

var c04StackBuf = make([]byte, 1<<20)

func c04Census() c04G {
	var n int
	for {
		n = runtime.Stack(c04StackBuf, true)
		if n < len(c04StackBuf) {
			break
		}
		c04StackBuf = make([]byte, 2*len(c04StackBuf))
	}
	var g c04G
	rest := c04StackBuf[:n]
	for len(rest) > 0 {
		var blk []byte
		if i := bytes.Index(rest, c04Sep); i >= 0 {
			blk, rest = rest[:i], rest[i+2:]
		} else {
			blk, rest = rest, nil
		}
		if !bytes.Contains(blk, c04FrML) {
			continue
		}
		if bytes.Contains(blk, c04FrHarness) || bytes.Contains(blk, c04FrTest) {
			continue // a harness goroutine inside Close()
		}
		g.Any++
		state := ""
		if i := bytes.IndexByte(blk, '['); i >= 0 {
			if j := bytes.IndexAny(blk[i:], ",]"); j > 0 {
				state = string(blk[i+1 : i+j])
			}
		}
		switch {
		case bytes.Contains(blk, c04FrConn):
			switch state {
			case "select":
				g.ConnSelect++
			case "IO wait":
				g.ConnIO++
			default:
				g.ConnOther++
			}
		case bytes.Contains(blk, c04FrRun):
			switch state {
			case "select":
				g.RunSelect++
			case "IO wait":
				g.RunIO++
			default:
				g.RunOther++
			}
		default:
			g.ConnOther++
		}
	}
	return g
}

var (
	c04Sep       = []byte("\n\n")
	c04FrML      = []byte("tcpreuse.(*multiplexedListener)")
	c04FrHarness = []byte("tcpreuse.c04")
	c04FrTest    = []byte("tcpreuse.TestVerifC04")
	c04FrConn    = []byte("tcpreuse.(*multiplexedListener).run.func1(")
	c04FrRun     = []byte("tcpreuse.(*multiplexedListener).run(")
)

// c04Dirty: the previous sequential case left a socket behind (only ever true when a violation or a cap was recorded).
var c04Dirty bool

// c04FlushFinalizers collects garbage and waits until the finalizer queue was worked off (bounded).
func c04FlushFinalizers() {
	for i := 0; i < 2; i++ {
		runtime.GC()
		ch := make(chan struct{})
		x := new([16]byte)
		runtime.SetFinalizer(x, func(*[16]byte) { close(ch) })
		x = nil
		runtime.GC()
		select {
		case <-ch:
		case <-time.After(5 * time.Second):
		}
	}
}

// c04Wait polls cond until it holds or d elapsed. It waits for an EVENT; the result false means "not
// observed", which callers report as a coverage cap.
func c04Wait(d time.Duration, cond func() bool) bool {
	end := time.Now().Add(d)
	for i := 0; ; i++ {
		if cond() {
			return true
		}
		if time.Now().After(end) {
			return false
		}
		switch {
		case i < 20:
			runtime.Gosched()
		case i < 200:
			time.Sleep(100 * time.Microsecond)
		default:
			time.Sleep(2 * time.Millisecond)
		}
	}
}

// c04Do runs f and waits for it (bounded); false = it did not return.
func c04Do(d time.Duration, f func()) bool {
	ch := make(chan struct{})
	go func() { defer close(ch); f() }()
	select {
	case <-ch:
		return true
	case <-time.After(d):
		return false
	}
}

// ---------------------------------------------------------------------------------------------------
// one case
// ---------------------------------------------------------------------------------------------------

type c04Case struct {
	Group    string   `json:"group"`
	Set      int      `json:"set"`   // registered listeners: bit 1 multistream/TCP, 2 HTTP/WebSocket, 4 TLS/WSS
	Reuse    bool     `json:"reuse"` // ConnMgr with reuseport
	Gater    string   `json:"gater"` // none | allow | reject
	RM       string   `json:"rm"`    // admit | limit1 | refuse:<step>
	Fill     int      `json:"fill,omitempty"`
	Conns    []string `json:"conns"`    // first-bytes class of each inbound connection, in dial order (Conns[0] is dialled Fill extra times first)
	Consumer string   `json:"consumer"` // accept | late | preclose | never/demux-first | never/others-first | never/shared-first | never/socket-first | never/wait-timeout
	RealTime bool     `json:"real_timeouts,omitempty"`
}

func (c c04Case) String() string {
	b, _ := json.Marshal(c)
	return string(b)
}

func (c c04Case) classes() []c04Class {
	var out []c04Class
	for i := 0; i < c.Fill; i++ {
		out = append(out, c04ClassByName[c.Conns[0]])
	}
	for _, n := range c.Conns {
		out = append(out, c04ClassByName[n])
	}
	return out
}

type c04Client struct {
	idx      int
	class    c04Class
	conn     *net.TCPConn
	local    string
	selfGone bool          // the client closed its end itself (rst)
	closed   chan struct{} // closed when Read returned EOF / an error (the listener side dropped the connection)
	early    bool          // ... observed before the teardown began
	deliver  atomic.Int32  // 1 + index of the type of the demultiplexed listener whose Accept returned it
}

func (c *c04Client) sawClose() bool {
	select {
	case <-c.closed:
		return true
	default:
		return false
	}
}

type c04ConnReport struct {
	Class     string `json:"class"`
	Exit      string `json:"expected_exit"`
	Admitted  string `json:"rm"`
	DoneCalls int    `json:"scope_done_calls"`
	Observed  string `json:"observed"`
}

type c04Vio struct {
	Key, Desc string
}

type c04Result struct {
	Case     c04Case         `json:"case"`
	Before   c04Usage        `json:"usage_before"`
	After    c04Usage        `json:"usage_after"`
	Sockets  [3]int          `json:"sockets_before_after_expected"`
	Conns    []c04ConnReport `json:"conns,omitempty"`
	NConns   int             `json:"n_conns"`
	Class    string          `json:"outcome"`
	Judged   bool            `json:"judged"`
	Caps     []string        `json:"caps,omitempty"`
	Infra    string          `json:"infra,omitempty"`
	Tainted  bool            `json:"-"`
	Vios     []c04Vio        `json:"-"`
	Misroute string          `json:"misrouted,omitempty"`
	Outlives int             `json:"parked_conns_outliving_their_closed_listener,omitempty"`
}

func (r *c04Result) cap(f string, a ...any) { r.Caps = append(r.Caps, fmt.Sprintf(f, a...)) }

var c04Loopback8 = netip.MustParsePrefix("127.0.0.0/8")

// c04Run executes one case. seq = the caller runs cases one at a time in this process (goroutine census
// and socket count are then exact); otherwise only client-side events and the usage audit are used.
func c04Run(cs c04Case, seq bool) *c04Result {
	res := &c04Result{Case: cs}
	classes := cs.classes()
	res.NConns = len(classes)
	anySilent := false
	for _, c := range classes {
		if c.silent() {
			anySilent = true
		}
	}
	idTimeout := c04LongIdentify
	if cs.RealTime {
		idTimeout = c04DefaultIdentify
	} else if anySilent {
		idTimeout = c04ShortIdentify
	}
	if seq {
		identifyConnTimeout = idTimeout // white-box: "a var so we can change it in tests"; no goroutine of the package is alive here
	}
	wait := c04EventWait + idTimeout
	if cs.Consumer == "never/wait-timeout" {
		wait += acceptTimeout
	}

	sock0 := -1
	if seq {
		// no garbage collection while the case runs: a finalizer closing a socket that the code under test
		// forgot would hide it from the socket count (it could only hide a leak, never invent one)
		if c04Dirty {
			c04FlushFinalizers() // a socket leaked by the previous case must not be closed by its finalizer in the middle of this one
			c04Dirty = false
		}
		defer debug.SetGCPercent(debug.SetGCPercent(-1))
		sock0 = c04Sockets()
	}

	real, err := c04NewRM(cs.RM)
	if err != nil {
		res.Infra = "resource manager: " + err.Error()
		return res
	}
	defer real.Close()
	rm := &c04RM{ResourceManager: real}
	// something unrelated is in use, so that "previous values" are not all zero
	var bg network.ConnManagementScope
	if cs.RM == "admit" || cs.RM == "limit1" {
		bg, err = real.OpenConnection(network.DirOutbound, true, ma.StringCast("/ip4/192.0.2.1/tcp/4001"))
		if err != nil {
			res.Infra = "background scope: " + err.Error()
			return res
		}
		defer bg.Done()
	}
	if res.Before, err = c04Stat(real); err != nil {
		res.Infra = "stat: " + err.Error()
		return res
	}

	var gater *c04Gater
	var upg transport.Upgrader
	if cs.Gater == "none" {
		upg, err = tptu.New(nil, nil, nil, rm, nil)
	} else {
		gater = &c04Gater{allow: cs.Gater == "allow"}
		upg, err = tptu.New(nil, nil, nil, rm, gater)
	}
	if err != nil {
		res.Infra = "upgrader: " + err.Error()
		return res
	}
	cm := NewConnMgr(cs.Reuse, upg)

	// --- listeners
	type lst struct {
		t      DemultiplexedConnType
		l      transport.GatedMaListener
		closed bool
	}
	var ls []*lst
	addr := ma.StringCast("/ip4/127.0.0.1/tcp/0")
	for _, t := range c04Types {
		if cs.Set&c04TypeBit(t) == 0 {
			continue
		}
		l, err := cm.DemultiplexedListen(addr, t)
		if err != nil {
			for _, x := range ls {
				x.l.Close()
			}
			res.Infra = "listen: " + err.Error()
			return res
		}
		addr = l.Multiaddr()
		ls = append(ls, &lst{t: t, l: l})
	}
	cm.mx.Lock()
	ml := cm.listeners[addr.String()]
	cm.mx.Unlock()
	if ml == nil || len(ls) == 0 {
		res.Infra = "no shared listener"
		return res
	}
	tcpAddr := ls[0].l.Addr().String()

	tainted := func(what string) *c04Result {
		// a Close() that does not return: nothing can be audited, and later socket / goroutine counts of
		// this process are meaningless
		res.cap("%s did not return within %v - no audit for this case", what, wait)
		res.Tainted = true
		res.Class = "hung"
		return res
	}
	closeL := func(x *lst) bool {
		if x.closed {
			return true
		}
		x.closed = true
		return c04Do(wait, func() { x.l.Close() })
	}

	// --- consumer
	var clients []*c04Client
	var clMu sync.Mutex
	byLocal := func(a string) *c04Client {
		clMu.Lock()
		defer clMu.Unlock()
		for _, c := range clients {
			if c.local == a {
				return c
			}
		}
		return nil
	}
	var accWG sync.WaitGroup
	startAcceptors := func() {
		for i, x := range ls {
			if x.closed {
				continue
			}
			accWG.Add(1)
			go func(ti int, x *lst) {
				defer accWG.Done()
				for {
					c, scope, err := x.l.Accept()
					if err != nil {
						return
					}
					// the consumer owns both now: it closes the connection and releases the scope
					ra := c.RemoteAddr().String()
					c.Close()
					scope.Done()
					// (the client may still be in the harness's Dial bookkeeping: resolve it lazily)
					c04Wait(c04EventWait, func() bool {
						if cl := byLocal(ra); cl != nil {
							cl.deliver.Store(int32(ti) + 1)
							return true
						}
						return false
					})
				}
			}(i, x)
		}
	}
	if cs.Consumer == "preclose" && len(ls) >= 2 {
		if !closeL(ls[0]) {
			return tainted("Close of the first demultiplexed listener")
		}
	}
	if cs.Consumer == "accept" || cs.Consumer == "preclose" {
		startAcceptors()
	}

	// --- clients
	var readers sync.WaitGroup
	dialFailed := false
	for i, cl := range classes {
		c, err := net.DialTimeout("tcp", tcpAddr, wait)
		if err != nil {
			res.cap("dial %d failed: %v", i, err)
			dialFailed = true
			break
		}
		tc := c.(*net.TCPConn)
		k := &c04Client{idx: i, class: cl, conn: tc, local: tc.LocalAddr().String(), closed: make(chan struct{})}
		clMu.Lock()
		clients = append(clients, k)
		clMu.Unlock()
		if cl.Bytes != "" {
			tc.Write([]byte(cl.Bytes)) // an error means the listener side already dropped it - fine
		}
		switch cl.End {
		case "rst":
			tc.SetLinger(0)
			tc.Close()
			k.selfGone = true
			close(k.closed)
			continue
		case "fin":
			tc.CloseWrite()
		}
		readers.Add(1)
		go func() {
			defer readers.Done()
			defer close(k.closed)
			io.Copy(io.Discard, tc) // returns on EOF / reset / local Close
		}()
	}
	n := len(clients)

	// --- steering (events, never sleeps): (A) the gated listener judged every connection
	judged := func() (gated, opened, refused int) {
		if gater != nil {
			gated = int(gater.calls.Load())
		}
		for _, s := range rm.snapshot() {
			if s == nil {
				refused++
			} else {
				opened++
			}
		}
		return
	}
	evA := func() bool {
		g, o, f := judged()
		if gater != nil {
			if cs.Gater == "reject" {
				return g >= n
			}
			return g >= n && o+f >= n
		}
		return o+f >= n
	}
	full := cs.Group == "queue-full"
	if full {
		// the 65th connection is pulled off the backlog only after run() came back from its select: the
		// event is "run() is blocked in its select and 64 goroutines are parked"
		if seq && !c04Wait(wait, func() bool {
			g := c04Census()
			return g.RunSelect == 1 && g.ConnSelect == c04QueueSize && g.ConnOther == 0 && g.ConnIO == 0
		}) {
			res.cap("queue-full state (64 parked goroutines, run() in its select) not observed")
		}
	} else if !c04Wait(wait, evA) {
		g, o, f := judged()
		res.cap("the gated listener did not judge every connection (gater calls %d, admitted %d, refused %d, dialled %d)", g, o, f, n)
	}
	_, o, f := judged()
	res.Judged = o+f > 0 || (gater != nil && gater.calls.Load() > 0)
	// admitted[i]: gater decisions are all-or-nothing and the accept queue of the kernel is FIFO, so the
	// k-th OpenConnection call belongs to the k-th connection dialled
	scopes := rm.snapshot()
	scopeOf := func(i int) (*c04Scope, string) {
		if cs.Gater == "reject" {
			return nil, "not asked (gater rejected)"
		}
		if i >= len(scopes) {
			return nil, "not asked (never accepted)"
		}
		if scopes[i] == nil {
			return nil, "refused"
		}
		return scopes[i], "admitted"
	}
	exit := func(i int, c *c04Client) string {
		s, adm := scopeOf(i)
		switch {
		case cs.Gater == "reject":
			return "gater-reject"
		case s == nil && adm == "refused":
			return "rm-refuse"
		case s == nil:
			return "never-accepted"
		case full && i == n-1:
			return "queue-full"
		case c.class.silent():
			return "identify-timeout"
		case len(c.class.Bytes) < 3:
			return "identify-error"
		}
		reg := false
		for _, x := range ls {
			if x.t == c.class.Type && !(cs.Consumer == "preclose" && len(ls) >= 2 && x == ls[0]) {
				reg = true
			}
		}
		switch {
		case !reg:
			return "no-listener"
		case cs.Consumer == "accept" || cs.Consumer == "preclose" || cs.Consumer == "late":
			return "delivered"
		case cs.Consumer == "never/wait-timeout":
			return "accept-timeout"
		}
		return "parked-until-close"
	}
	// classification only (never a verdict): give the client ends of connections that the code is expected
	// to have dropped already a moment to notice it, so that "dropped" / "closed-at-teardown" are stable labels
	settleLabels := func(all bool) {
		c04Wait(time.Second, func() bool {
			for i, c := range clients {
				switch exit(i, c) {
				case "gater-reject", "rm-refuse", "identify-error", "no-listener":
				default:
					if !all {
						continue
					}
				}
				if !c.sawClose() {
					return false
				}
			}
			return true
		})
	}
	silentPending := func() int {
		k := 0
		for i, c := range clients {
			if s, _ := scopeOf(i); s != nil && c.class.silent() && !c.sawClose() {
				k++
			}
		}
		return k
	}
	// (B) every per-connection goroutine is gone or parked
	parked := func() bool {
		g := c04Census()
		if full {
			return g.RunSelect == 1 && g.ConnOther == 0
		}
		return g.RunOther == 0 && g.ConnOther == 0 && g.ConnIO == silentPending()
	}
	noConnGoroutines := func() bool {
		g := c04Census()
		return g.RunOther == 0 && g.ConnOther == 0 && g.ConnIO == 0 && g.ConnSelect == 0
	}
	allClientsSawClose := func() bool {
		for _, c := range clients {
			if !c.sawClose() {
				return false
			}
		}
		return true
	}
	markEarly := func() {
		for _, c := range clients {
			if !c.selfGone && c.sawClose() {
				c.early = true
			}
		}
	}

	switch {
	case !seq:
		// real-timeout group: only the client side is watched
		if !c04Wait(wait, allClientsSawClose) {
			res.cap("not every client observed its connection being dropped within %v", wait)
		}
		markEarly()
	case cs.Consumer == "accept" || cs.Consumer == "preclose":
		if !c04Wait(wait, noConnGoroutines) {
			res.cap("per-connection goroutines still present before teardown: %+v", c04Census())
		}
		settleLabels(true)
		markEarly()
	case cs.Consumer == "late":
		if !c04Wait(wait, parked) {
			res.cap("parked state not observed: %+v", c04Census())
		}
		settleLabels(false)
		markEarly()
		startAcceptors()
		if !c04Wait(wait, noConnGoroutines) {
			res.cap("per-connection goroutines still present after the late Accept: %+v", c04Census())
		}
	default: // never/*
		if !c04Wait(wait, parked) {
			res.cap("parked state not observed: %+v", c04Census())
		}
		settleLabels(false)
		markEarly()
	}

	// --- teardown
	// the "target" listener is the one the first connection is routed to (else the first registered one)
	target := ls[0]
	for _, x := range ls {
		if len(classes) > 0 && x.t == classes[0].Type {
			target = x
		}
	}
	switch cs.Consumer {
	case "never/others-first":
		for _, x := range ls {
			if x != target && !closeL(x) {
				return tainted("Close of a demultiplexed listener")
			}
		}
	case "never/shared-first":
		if !c04Do(wait, func() { ml.Close() }) {
			return tainted("Close of the shared listener")
		}
	case "never/socket-first":
		// the socket fails under run(): Accept returns an error, run() returns and cleans up by itself
		ml.GatedMaListener.Close()
		if seq && !c04Wait(wait, func() bool { return c04Census().Any == 0 }) {
			res.cap("run() did not wind down after the socket was closed: %+v", c04Census())
		}
	}
	if !closeL(target) {
		return tainted("Close of a demultiplexed listener")
	}
	if seq && cs.Consumer == "never/demux-first" && len(ls) >= 2 {
		// observation only (the statement sets no time bound): is a connection still parked on the buffer of
		// the listener that was just closed? (its select watches the shared listener's context, not this one's)
		if g := c04Census(); g.ConnSelect > 0 {
			res.Outlives = g.ConnSelect
		}
	}
	for _, x := range ls {
		if !closeL(x) {
			return tainted("Close of a demultiplexed listener")
		}
	}
	if !c04Do(wait, accWG.Wait) {
		return tainted("the harness's Accept loops")
	}

	// --- quiescence: no goroutine of the shared listener is left (run()'s deferred Close may still be
	// winding down for a moment)
	quiet := true
	if seq && !c04Wait(wait, func() bool { return c04Census().Any == 0 }) {
		res.cap("goroutines of the shared listener still present %v after every Close returned: %+v", wait, c04Census())
		res.Tainted = true
		quiet = false
	}
	if !quiet {
		// not quiescent: no audit can be trusted (and none is a verdict)
		for _, c := range clients {
			if !c.selfGone {
				c.conn.Close()
			}
		}
		readers.Wait()
		res.Class = "not-quiescent"
		return res
	}

	// --- audit (ii): sockets. Expected: what was open before + the client ends still held by the harness.
	held := 0
	for _, c := range clients {
		if !c.selfGone {
			held++
		}
	}
	sockLeak := false
	if seq && quiet && sock0 >= 0 {
		exp := sock0 + held
		got := c04Sockets()
		if got > exp {
			// let a descriptor whose last reference is being dropped settle; a leak stays
			c04Wait(2*time.Second, func() bool { got = c04Sockets(); return got <= exp })
		}
		res.Sockets = [3]int{sock0, got, exp}
		sockLeak = got > exp
	}
	// client side: after teardown every connection must have been dropped (by the code, by the consumer,
	// or by the kernel for a connection that never left the backlog)
	if !sockLeak {
		if !c04Wait(c04EventWait, allClientsSawClose) {
			res.cap("not every client observed its connection being closed after teardown")
		}
	}
	var notClosed []int
	for _, c := range clients {
		if !c.sawClose() {
			notClosed = append(notClosed, c.idx)
			c04Dirty = c04Dirty || seq
		}
		if !c.selfGone {
			c.conn.Close()
		}
	}
	readers.Wait()

	// --- audit (i): usage
	res.After, err = c04Stat(real)
	if err != nil {
		res.Infra = "stat: " + err.Error()
		return res
	}

	// --- per-connection report, expected exits, outcome class
	classSet := map[string]struct{}{}
	firstLeak := ""
	for i, c := range clients {
		s, adm := scopeOf(i)
		rep := c04ConnReport{Class: c.class.Name, Exit: exit(i, c), Admitted: adm}
		if s != nil {
			rep.DoneCalls = int(s.done.Load())
			if rep.DoneCalls == 0 && firstLeak == "" {
				firstLeak = rep.Exit
			}
		}
		switch d := c.deliver.Load(); {
		case d > 0:
			rep.Observed = "delivered-to-" + ls[d-1].t.String()
			if ls[d-1].t != c.class.Type {
				res.Misroute = fmt.Sprintf("connection %d (%s) was delivered to the %s listener", i, c.class.Name, ls[d-1].t)
			}
		case c.selfGone:
			rep.Observed = "client-reset"
		case c.early:
			rep.Observed = "dropped"
		case c.sawClose():
			rep.Observed = "closed-at-teardown"
		default:
			rep.Observed = "NOT-CLOSED"
		}
		if rep.Exit == "delivered" && c.deliver.Load() == 0 && !c.selfGone && c.class.End == "keep" {
			res.cap("connection %d (%s) was expected to be delivered but was not", i, c.class.Name)
		}
		classSet[rep.Exit+"->"+rep.Observed] = struct{}{}
		if len(res.Conns) < 6 || i == n-1 {
			res.Conns = append(res.Conns, rep)
		}
	}
	var cl []string
	for k := range classSet {
		cl = append(cl, k)
	}
	sort.Strings(cl)
	cons := cs.Consumer
	if i := strings.Index(cons, "/"); i > 0 {
		cons = cons[:i]
	}
	res.Class = cons + ": " + strings.Join(cl, ", ")

	// --- verdicts
	if res.Before != res.After {
		if firstLeak == "" {
			firstLeak = "all-scopes-done"
		}
		var undone []string
		for i := range clients {
			if s, _ := scopeOf(i); s != nil && s.done.Load() == 0 {
				undone = append(undone, fmt.Sprintf("#%d(%s, expected exit %s)", i, clients[i].class.Name, exit(i, clients[i])))
			}
		}
		res.Vios = append(res.Vios, c04Vio{"usage-not-restored/" + firstLeak, fmt.Sprintf(
			"shared TCP listener, case %s: after every listener was closed (all goroutines of the listener gone) usage did not return to its previous values: system before %+v after %+v; transient before %+v after %+v; connection scopes opened by the gated listener and never Done: %v",
			cs, res.Before.System, res.After.System, res.Before.Transient, res.After.Transient, undone)})
	}
	if sockLeak {
		which := "unattributed"
		if len(notClosed) > 0 {
			i := notClosed[0]
			which = exit(i, clients[i])
		}
		res.Vios = append(res.Vios, c04Vio{"raw-conn-not-closed/" + which, fmt.Sprintf(
			"shared TCP listener, case %s: after every listener was closed and every goroutine of the listener is gone the process holds %d sockets, expected %d (= %d before the case + %d client ends held by the harness): a raw connection (or the listening socket) was not closed; client connections that never observed a close: %v",
			cs, res.Sockets[1], res.Sockets[2], sock0, held, notClosed)})
	}
	if dialFailed {
		res.Class += " (dial failed)"
	}
	return res
}

// ---------------------------------------------------------------------------------------------------
// the space
// ---------------------------------------------------------------------------------------------------

func c04Consumers(set int) []string {
	multi := set&(set-1) != 0
	out := []string{"accept", "late", "never/demux-first", "never/shared-first", "never/socket-first"}
	if multi {
		out = append(out, "never/others-first", "preclose")
	}
	return out
}

func c04FirstClassOf(set int) string {
	switch {
	case set&1 != 0:
		return "mss"
	case set&2 != 0:
		return "http-GET"
	}
	return "tls-0303"
}

// c04Space lists the sequential enumeration and the real-timeout group.
func c04Space(thorough bool) (seq, rt []c04Case) {
	all := c04Classes()
	var allNames []string
	for _, c := range all {
		allNames = append(allNames, c.Name)
	}
	reduced := []string{"mss", "http-GET", "tls-0303", "junk", "eof0", "sil0"}
	pair := []string{"mss", "http-GET", "tls-0301", "junk", "eof1", "rst0"}

	// G1: one connection, admitted
	for set := 1; set <= 7; set++ {
		for _, g := range []string{"none", "allow"} {
			for _, cons := range c04Consumers(set) {
				for _, cl := range allNames {
					seq = append(seq, c04Case{Group: "single", Set: set, Gater: g, RM: "admit", Conns: []string{cl}, Consumer: cons})
				}
			}
		}
	}
	// G2: the same over the reuseport listener
	for set := 1; set <= 7; set++ {
		conss := []string{"accept", "never/shared-first"}
		if thorough {
			conss = c04Consumers(set)
		}
		for _, cons := range conss {
			for _, cl := range allNames {
				seq = append(seq, c04Case{Group: "single-reuseport", Set: set, Reuse: true, Gater: "none", RM: "admit", Conns: []string{cl}, Consumer: cons})
			}
		}
	}
	// G3: one connection, turned away by the gater or by the resource manager at each step
	type gr struct{ g, rm string }
	blocked := []gr{{"reject", "admit"}, {"reject", "refuse:system-conns-inbound"}}
	for _, rf := range c04Refusals {
		blocked = append(blocked, gr{"none", rf}, gr{"allow", rf})
	}
	names := reduced
	if thorough {
		names = allNames
	}
	for set := 1; set <= 7; set++ {
		for _, b := range blocked {
			for _, cons := range []string{"accept", "never/demux-first"} {
				for _, cl := range names {
					seq = append(seq, c04Case{Group: "blocked", Set: set, Gater: b.g, RM: b.rm, Conns: []string{cl}, Consumer: cons})
				}
			}
		}
	}
	// G4: two connections (ordered pairs), all admitted / one at a time
	for set := 1; set <= 7; set++ {
		for _, rmk := range []string{"admit", "limit1"} {
			for _, cons := range c04Consumers(set) {
				for _, a := range pair {
					for _, b := range pair {
						seq = append(seq, c04Case{Group: "pair", Set: set, Gater: "none", RM: rmk, Conns: []string{a, b}, Consumer: cons})
					}
				}
			}
		}
	}
	for _, set := range []int{1, 7} {
		for _, rmk := range []string{"admit", "limit1"} {
			for _, cons := range c04Consumers(set) {
				for _, p := range [][]string{{"sil0", "mss"}, {"mss", "sil1"}, {"sil2", "sil0"}} {
					seq = append(seq, c04Case{Group: "pair-silent", Set: set, Gater: "none", RM: rmk, Conns: p, Consumer: cons})
				}
			}
		}
	}
	// G5: accept queue full (64 connections parked on a listener nobody accepts from) + one more, then Close
	for set := 1; set <= 7; set++ {
		for _, last := range []string{c04FirstClassOf(set), "junk"} {
			for _, cons := range []string{"never/demux-first", "never/shared-first"} {
				seq = append(seq, c04Case{Group: "queue-full", Set: set, Gater: "none", RM: "admit", Fill: c04QueueSize - 1,
					Conns: []string{c04FirstClassOf(set), last}, Consumer: cons})
			}
		}
	}
	if thorough {
		// three connections over a smaller alphabet
		tri := []string{"mss", "http-GET", "junk", "eof0"}
		for set := 1; set <= 7; set++ {
			for _, cons := range c04Consumers(set) {
				for _, a := range tri {
					for _, b := range tri {
						for _, c := range tri {
							seq = append(seq, c04Case{Group: "triple", Set: set, Gater: "none", RM: "admit", Conns: []string{a, b, c}, Consumer: cons})
						}
					}
				}
			}
		}
	}

	// real-timeout group (run concurrently, after the enumeration): the code's own, unshortened timeouts
	for set := 1; set <= 7; set++ {
		for _, cl := range []string{"sil0", "sil1", "sil2"} {
			rt = append(rt, c04Case{Group: "real-identify-timeout", Set: set, Gater: "none", RM: "admit", Conns: []string{cl}, Consumer: "accept", RealTime: true})
		}
	}
	if thorough {
		for set := 1; set <= 7; set++ {
			for _, t := range []struct {
				bit int
				cl  string
			}{{1, "mss"}, {2, "http-GET"}, {4, "tls-0303"}} {
				if set&t.bit != 0 {
					rt = append(rt, c04Case{Group: "real-accept-timeout", Set: set, Gater: "none", RM: "admit", Conns: []string{t.cl}, Consumer: "never/wait-timeout", RealTime: true})
				}
			}
		}
		for _, set := range []int{1, 7} {
			rt = append(rt, c04Case{Group: "real-accept-timeout-queue-full", Set: set, Gater: "none", RM: "admit", Fill: c04QueueSize - 1,
				Conns: []string{"mss", "mss"}, Consumer: "never/wait-timeout", RealTime: true})
		}
	}
	return
}

// ---------------------------------------------------------------------------------------------------
// driver
// ---------------------------------------------------------------------------------------------------

func c04Report(r *vrep.Result, res *c04Result, distinct map[string]struct{}) {
	r.Executions++
	if res.Infra != "" {
		r.Cap("case %s: harness problem: %s", res.Case, res.Infra)
		return
	}
	for _, c := range res.Caps {
		r.Cap("case %s: %s", res.Case, c)
	}
	if res.Misroute != "" {
		// routing is not part of this property's statement: reported, not a verdict
		r.Note("case %s: %s", res.Case, res.Misroute)
		r.Outcome("misrouted")
	}
	if res.Judged {
		distinct[res.Case.String()] = struct{}{}
	}
	if res.Outlives > 0 {
		r.Outcome("(observation) a parked connection outlives the Close of its demultiplexed listener while other listeners remain")
	}
	r.Outcome(res.Class)
	r.Sample(res)
	for _, v := range res.Vios {
		r.Violate(v.Key, v.Desc, res)
	}
}

func TestVerifC04TCPReuse(t *testing.T) {
	r := vrep.New("C04", "tcpreuse")
	defer r.Flush()
	defer func() { identifyConnTimeout = c04DefaultIdentify }()

	if p := vrep.ReplayPath(); p != "" {
		if sh, _ := vrep.Shard(); sh != 0 {
			return
		}
		b, err := os.ReadFile(p)
		if err != nil {
			r.Cap("replay: %v", err)
			return
		}
		var f struct {
			Part   string `json:"part"`
			Replay struct {
				Case c04Case `json:"case"`
			} `json:"replay"`
		}
		if err := json.Unmarshal(b, &f); err != nil {
			r.Cap("replay: %v", err)
			return
		}
		if f.Part != "" && f.Part != r.Part {
			fmt.Printf("C04 replay: %s belongs to part %q, not to %q - nothing to do here\n", p, f.Part, r.Part)
			return
		}
		res := c04Run(f.Replay.Case, !f.Replay.Case.RealTime)
		distinct := map[string]struct{}{}
		c04Report(r, res, distinct)
		r.Distinct = int64(len(distinct))
		out, _ := json.MarshalIndent(res, "  ", " ")
		fmt.Printf("REPLAY C04 tcpreuse %s\n  %s\n", f.Replay.Case, out)
		for _, v := range res.Vios {
			fmt.Printf("  VIOLATION %s: %s\n", v.Key, v.Desc)
		}
		fmt.Println("--- end of replay")
		return
	}

	seq, rt := c04Space(vrep.Thorough())
	classes := c04Classes()
	r.Bounds["listener sets"] = "all 7 non-empty subsets of {multistream/TCP, HTTP/WebSocket, TLS/WSS}"
	r.Bounds["first-bytes classes"] = len(classes)
	r.Bounds["resource-manager answers"] = append([]string{"admit", "limit1 (one inbound connection at a time)"}, c04Refusals...)
	r.Bounds["gater"] = "none, allow, reject"
	r.Bounds["consumers"] = "accept, late (Accept only after the connection is parked), preclose (first listener closed before the dial), never + {demultiplexed listener first, other listeners first, shared listener first, socket closed under run()}"
	r.Bounds["connections per execution"] = "1; 2 (ordered pairs over 6 classes + 3 pairs with silent classes); 65 (accept queue full); thorough: 3 (triples over 4 classes)"
	r.Bounds["identifyConnTimeout"] = fmt.Sprintf("%v for silent classes in the sequential enumeration (package variable), %v (unmodified) in the real-timeout group", c04ShortIdentify, c04DefaultIdentify)
	r.Bounds["cases (sequential enumeration, real-timeout group)"] = []int{len(seq), len(rt)}
	r.Bounds["event wait"] = c04EventWait.String()

	shard, nshards := vrep.Shard()
	deadline := vrep.Deadline()
	distinct := map[string]struct{}{}
	defer func() { r.Distinct = int64(len(distinct)) }()

	// warm up the network poller etc. so that the first socket count is not disturbed
	if l, err := net.Listen("tcp", "127.0.0.1:0"); err == nil {
		if c, err := net.Dial("tcp", l.Addr().String()); err == nil {
			c.Close()
		}
		l.Close()
	}

	for i, cs := range seq {
		if i%nshards != shard {
			continue
		}
		if time.Now().After(deadline) {
			r.Cap("deadline reached at sequential case %d of %d", i, len(seq))
			break
		}
		if r.NViolations >= 6 {
			r.Cap("stopped after %d violations at sequential case %d of %d", r.NViolations, i, len(seq))
			break
		}
		res := c04Run(cs, true)
		c04Report(r, res, distinct)
		if res.Tainted {
			r.Cap("a Close() or a goroutine of the listener hung in case %s: socket and goroutine counts of this process are no longer exact, sequential enumeration stopped at case %d of %d", cs, i, len(seq))
			break
		}
	}

	// real-timeout group: concurrently; only usage is audited
	identifyConnTimeout = c04DefaultIdentify
	var wg sync.WaitGroup
	var mu sync.Mutex
	for i, cs := range rt {
		if i%nshards != shard {
			continue
		}
		need := c04DefaultIdentify + 10*time.Second
		if cs.Consumer == "never/wait-timeout" {
			need += acceptTimeout
		}
		if time.Now().Add(need).After(deadline) {
			r.Cap("deadline: real-timeout case %d of %d not run", i, len(rt))
			continue
		}
		wg.Add(1)
		go func(cs c04Case) {
			defer wg.Done()
			res := c04Run(cs, false)
			mu.Lock()
			defer mu.Unlock()
			c04Report(r, res, distinct)
		}(cs)
	}
	wg.Wait()
}
