//go:build verif

package upgrader

import "github.com/libp2p/go-libp2p/core/transport"

// White-box window for the C04 harness, which has to live in the external test package (the security
// transports import this package, so an internal test file cannot import them).

const (
	C04DefaultAcceptTimeout    = defaultAcceptTimeout
	C04DefaultNegotiateTimeout = defaultNegotiateTimeout
)

// C04ThresholdCount returns the listener's backpressure counter (upgraded, not yet accepted connections).
func C04ThresholdCount(tl transport.Listener) (int, bool) {
	l, ok := tl.(*listener)
	if !ok {
		return 0, false
	}
	l.threshold.mu.Lock()
	defer l.threshold.mu.Unlock()
	return l.threshold.count, true
}
