//go:build verif

package basichost

// C04, part "host" (swarm + stream level). Two REAL BasicHosts over two REAL swarms are joined by the
// in-memory transport of x/verif/memtpt (which does around the REAL upgrader what the TCP transport does),
// each with a real resource manager behind the refusing decorator and a scripted gater, inside a
// testing/synctest bubble. One run: Connect (swarm dial: gater hooks, dial worker, upgrade, identify on both
// sides), then one NewStream + echo (lazy or fully negotiated protocol selection, or an unsupported protocol,
// or a handler that resets, or a protocol the opener wrongly believes the peer speaks, or a peerstore that
// fails when asked what the peer speaks), then Close of both hosts - with at most one fault. The remote may
// stall the opener (case.Stall): it never answers / answers 3 s late the IDENTIFY request of the connection
// (the connection is then made with Network().DialPeer, which does not wait for identify, so that NewStream
// finds the identify of its connection in progress and waits for it), or it never / late answers the protocol
// negotiation of the new stream. On top of the common fault menu those families get the fault kind "ctxend":
// the NewStream context ends WHILE NewStream is blocked (cancel() at the moment the whole bubble is idle with
// NewStream still running; a 1 s deadline; no deadline at all and a 2 s HostOpts.NegotiationTimeout). Audits:
//
//	mid   after the stream attempt is over and the stream was closed: usage of every scope equals the value
//	      before NewStream on a side that still has the connection, and the value before Connect otherwise
//	      (when an identify exchange was in flight before NewStream - stalled identify - the value before
//	      NewStream less the streams and stream memory, which all belonged to that exchange: it is over by
//	      then); no connection of either swarm still lists a stream in GetStreams()
//	final after both hosts are closed: every scope of both resource managers is zero, Conns() and
//	      ListenAddresses() are empty, every raw connection end and the raw listener were closed by their
//	      owner, and no goroutine of the bubble is left.

import (
	"context"
	"encoding/json"
	"errors"
	"fmt"
	"io"
	"os"
	"runtime"
	"sort"
	"strings"
	"sync"
	"sync/atomic"
	"testing"
	"testing/synctest"
	"time"

	"github.com/libp2p/go-libp2p/core/network"
	"github.com/libp2p/go-libp2p/core/peer"
	"github.com/libp2p/go-libp2p/core/peerstore"
	"github.com/libp2p/go-libp2p/core/protocol"
	"github.com/libp2p/go-libp2p/p2p/host/eventbus"
	"github.com/libp2p/go-libp2p/p2p/host/peerstore/pstoremem"
	"github.com/libp2p/go-libp2p/p2p/net/swarm"
	"github.com/libp2p/go-libp2p/x/verif/memnet"
	"github.com/libp2p/go-libp2p/x/verif/memtpt"
	"github.com/libp2p/go-libp2p/x/verif/vrep"
)

const (
	c04Proto   = protocol.ID("/c04/echo/1.0.0")
	c04Proto2  = protocol.ID("/c04/echo/2.0.0") // accepted by a match function, never advertised
	c04NoProto = protocol.ID("/c04/nobody-speaks-this/1.0.0")
	c04Service = "c04.echo"
)

var c04Payload = []byte("c04-ping")

const (
	c04LateBy       = 3 * time.Second // a "late" remote answers after this long: inside identify's 5 s and the 10 s negotiation timeout
	c04ShortCtx     = 1 * time.Second // ctxend:deadline - the NewStream context expires while the remote still stalls
	c04ShortNegTmo  = 2 * time.Second // ctxend:negtimeout - HostOpts.NegotiationTimeout of the opener, its context has no deadline
	c04NewStreamMax = 2 * time.Minute // virtual: a stream attempt that has not returned by then is recorded as hung and audited as it is
)

var c04ErrPstore = errors.New("c04: peerstore unavailable")

type c04Case struct {
	Cfg   memtpt.Config `json:"cfg"`
	Mode  string        `json:"mode"`            // lazy | negotiated | unsupported | handler-reset | lazy-stale | pstore-error | abandon-close | abandon-partial | abandon-closewrite
	Stall string        `json:"stall,omitempty"` // what the remote stalls: "" | id-never | id-late | neg-never | neg-late
	Fault memtpt.Fault  `json:"fault"`
	// Fault.Kind: none | io | cancel | hostclose | connclose | gater | rcmgr | hostclosecall (Close() of the
	// side's host issued when that side makes its K-th call of gater hook / resource-manager entry What) |
	// ctxend (What = cancel | deadline | negtimeout: how the NewStream context ends while NewStream is blocked)
	// Fault.Side: "a" (the dialing host / the dialer's raw end) or "b" (the listening host / its raw end);
	// for hostclose and connclose the raw end whose op index triggers AND the host that closes
}

func (c c04Case) family() string {
	if c.Stall == "" {
		return c.Mode
	}
	return c.Mode + "+" + c.Stall
}

func (c c04Case) String() string { return fmt.Sprintf("%s/%s/%s", c.Cfg, c.family(), c.Fault) }

func (c c04Case) idStall() bool { return strings.HasPrefix(c.Stall, "id-") }

// c04Pstore is the opener's peerstore in mode pstore-error: the real in-memory peerstore, except that
// SupportsProtocols fails while armed (as a datastore-backed peerstore does when its store is unavailable).
type c04Pstore struct {
	peerstore.Peerstore
	peerstore.CertifiedAddrBook
	fail atomic.Bool
}

func (p *c04Pstore) SupportsProtocols(id peer.ID, protos ...protocol.ID) ([]protocol.ID, error) {
	if p.fail.Load() {
		return nil, c04ErrPstore
	}
	return p.Peerstore.SupportsProtocols(id, protos...)
}

// c04ConnOnly is what a snapshot taken while only an identify exchange was in flight looks like once that
// exchange is over: the same connections and descriptors, no streams, no stream memory. (That a connection
// without streams accounts no memory is checked on the fault-free run of every family without a stalled
// identify; see c04Result.ConnOnlyOK.)
func c04ConnOnly(s memnet.Snap) memnet.Snap {
	z := func(st network.ScopeStat) network.ScopeStat {
		st.NumStreamsInbound, st.NumStreamsOutbound, st.Memory = 0, 0, 0
		return st
	}
	m := func(in map[string]network.ScopeStat) map[string]network.ScopeStat {
		out := make(map[string]network.ScopeStat, len(in))
		for k, v := range in {
			out[k] = z(v)
		}
		return out
	}
	return memnet.Snap{System: z(s.System), Transient: z(s.Transient), Peers: m(s.Peers), Protocols: m(s.Protocols), Services: m(s.Services)}
}

type c04Result struct {
	Case    c04Case           `json:"case"`
	Connect string            `json:"connect"`     // ok | error class
	Stream  string            `json:"stream"`      // what the stream attempt did
	Ops     [2]int            `json:"ops"`         // raw I/O calls on the two ends of the first raw connection
	OpsConn [2]int            `json:"ops_connect"` // ... of which before the stream attempt started
	Pairs   int               `json:"raw_connections"`
	RcCalls [2]map[string]int `json:"rcmgr_calls"`
	GaCalls [2]map[string]int `json:"gater_calls"`
	Fired   bool              `json:"fault_fired"`
	// AtReturn (fault kind ctxend only; an observation, not a verdict): whether usage was already back to its
	// value before NewStream when NewStream had returned and the bubble was idle, without any time passing
	AtReturn string `json:"at_return,omitempty"`
	// ConnOnlyOK (families without a stalled identify): before NewStream, with the connection up and identify
	// over, no scope accounted a stream or memory - the premise of c04ConnOnly
	ConnOnlyOK bool         `json:"conn_only_ok,omitempty"`
	Vios       []memtpt.Vio `json:"violations,omitempty"`
	Infra      string       `json:"infra,omitempty"`
	Trace      []string     `json:"trace,omitempty"`
}

func (r *c04Result) class() string {
	f := r.Case.Fault
	k := f.Kind
	if f.What != "" {
		k += ":" + f.What
	}
	if k == "" {
		k = "none"
	}
	s := fmt.Sprintf("%s|%s|connect=%s|stream=%s", r.Case.family(), k, r.Connect, r.Stream)
	if r.AtReturn != "" {
		s += "|at-return:" + r.AtReturn
	}
	return s
}

type c04Node struct {
	side *memtpt.Side
	sw   *swarm.Swarm
	h    *BasicHost
	ps   *c04Pstore // nil unless the node was built with the failing peerstore
}

func c04NewNode(name string, cfg memtpt.Config, n *memtpt.Net, addr string, negTimeout time.Duration, failingPstore bool) (*c04Node, error) {
	side, err := memtpt.NewSide(name, cfg, memtpt.Seed, memtpt.MustAddr(addr))
	if err != nil {
		return nil, err
	}
	mem, err := pstoremem.NewPeerstore()
	if err != nil {
		return nil, err
	}
	var ps peerstore.Peerstore = mem
	var fps *c04Pstore
	if failingPstore {
		fps = &c04Pstore{Peerstore: mem, CertifiedAddrBook: mem}
		ps = fps
	}
	ps.AddPrivKey(side.ID, side.Key)
	ps.AddPubKey(side.ID, side.Key.GetPublic())
	bus := eventbus.NewBus()
	sw, err := swarm.NewSwarm(side.ID, ps, bus, swarm.WithResourceManager(side.RM), swarm.WithConnectionGater(side.Gater))
	if err != nil {
		return nil, err
	}
	if err := sw.AddTransport(memtpt.NewTransport(n, side)); err != nil {
		return nil, err
	}
	if err := sw.Listen(side.Addr); err != nil {
		return nil, err
	}
	// negTimeout 0 = the default (10 s), negative = no negotiation timeout
	h, err := NewHost(sw, &HostOpts{EventBus: bus, NegotiationTimeout: negTimeout})
	if err != nil {
		return nil, err
	}
	h.Start()
	return &c04Node{side: side, sw: sw, h: h, ps: fps}, nil
}

func c04ErrClass(err error) string {
	if err == nil {
		return "ok"
	}
	s := err.Error()
	for _, p := range []struct{ sub, class string }{
		{c04ErrPstore.Error(), "pstore-error"},
		{"gater disallows connection to peer", "gater-peer"},
		{"gater disallows", "gater"},
		{"gater rejected", "gater-secured"},
		{"memnet: refusing", "rcmgr-refused"},
		{"resource limit exceeded", "rcmgr-refused"},
		{"failed to negotiate security protocol", "security"},
		{"failed to negotiate stream multiplexer", "muxer"},
		{"protocols not supported", "proto-unsupported"},
		{"failed to negotiate protocol", "proto-negotiation"},
		{"identify failed to complete", "identify-wait"},
		{"context canceled", "canceled"},
		{"context deadline exceeded", "deadline"},
		{"swarm closed", "swarm-closed"},
		{"connection failed", "no-conn"},
		{"no addresses", "no-addrs"},
		{"all dials failed", "dials-failed"},
		{"failed to open stream", "open-stream"},
		{"stream reset", "reset"},
	} {
		if strings.Contains(s, p.sub) {
			return p.class
		}
	}
	return "other"
}

func c04RunInBubble(cs c04Case, res *c04Result) {
	h := memtpt.NewH()
	defer func() {
		res.Trace, res.Vios = h.TraceLog, h.Vios
		if h.Fired() {
			res.Fired = true
		}
	}()
	mnet := memtpt.NewNet()
	f := cs.Fault
	// the opener's negotiation timeout is the default except where it is the thing that ends the context; a
	// remote that stalls has none, so that only the opener's reset (or the death of the connection) frees
	// what the remote holds for the new stream - "the remote sees the reset" is then part of the usage audit
	var negA, negB time.Duration
	if f.Kind == "ctxend" && f.What == "negtimeout" {
		negA = c04ShortNegTmo
	}
	if cs.Stall != "" {
		negB = -1
	}
	a, err := c04NewNode("a", cs.Cfg, mnet, "/ip4/10.1.1.1/tcp/4001", negA, cs.Mode == "pstore-error")
	if err != nil {
		res.Infra = "fixture: " + err.Error()
		return
	}
	b, err := c04NewNode("b", cs.Cfg, mnet, "/ip4/10.2.2.2/tcp/4002", negB, false)
	if err != nil {
		res.Infra = "fixture: " + err.Error()
		return
	}
	nodes := [2]*c04Node{a, b}
	idx := func(side string) int {
		if side == "b" {
			return 1
		}
		return 0
	}

	// the service on b
	handler := func(s network.Stream) {
		if cs.Mode == "handler-reset" {
			s.Reset()
			return
		}
		if err := s.Scope().SetService(c04Service); err != nil {
			h.Trace("handler: SetService: %v", err)
			s.ResetWithError(network.StreamResourceLimitExceeded)
			return
		}
		s.SetDeadline(time.Now().Add(10 * time.Second))
		buf := make([]byte, len(c04Payload))
		if _, err := io.ReadFull(s, buf); err != nil {
			h.Trace("handler: read: %v", err)
			s.Reset()
			return
		}
		if _, err := s.Write(buf); err != nil {
			h.Trace("handler: write: %v", err)
			s.Reset()
			return
		}
		s.Close()
	}
	b.h.SetStreamHandlerMatch(c04Proto, func(p protocol.ID) bool { return strings.HasPrefix(string(p), "/c04/echo/") }, handler)
	// a stalling remote: the next inbound stream after armStall is parked (never: b never looks at it, it
	// is held until the opener resets or closes it or the connection dies) or handled c04LateBy later
	var stallMu sync.Mutex
	stallNext := ""
	armStall := func(kind string) {
		stallMu.Lock()
		stallNext = kind
		stallMu.Unlock()
	}
	if cs.Stall != "" {
		b.sw.SetStreamHandler(func(s network.Stream) {
			stallMu.Lock()
			k := stallNext
			stallNext = ""
			stallMu.Unlock()
			switch k {
			case "never":
				h.Trace("remote: inbound stream parked, b never answers it")
				_, err := io.Copy(io.Discard, s)
				h.Trace("remote: the parked stream ended: %v", err)
				s.Reset()
				return
			case "late":
				h.Trace("remote: inbound stream held back for %v", c04LateBy)
				time.Sleep(c04LateBy)
			}
			b.h.newStreamHandler(s)
		})
	}
	stallKind := cs.Stall[strings.IndexByte(cs.Stall, '-')+1:] // never | late | ""
	synctest.Wait()

	var preConnect [2]memnet.Snap
	for i, n := range nodes {
		if preConnect[i], err = memnet.Snapshot(n.side.RM); err != nil {
			res.Infra = "snapshot: " + err.Error()
			return
		}
	}

	// ----- arm the fault -----
	ctx, cancel := context.WithTimeout(context.Background(), 30*time.Second)
	defer cancel()
	var closeMu sync.Mutex
	var closeClaimed [2]bool
	claimClose := func(i int) bool { // true for exactly one caller per host; never blocks
		closeMu.Lock()
		defer closeMu.Unlock()
		if closeClaimed[i] {
			return false
		}
		closeClaimed[i] = true
		return true
	}
	closeHostAsync := func(i int, why string) {
		if claimClose(i) {
			h.Trace("host %s Close() issued (%s)", nodes[i].side.Name, why)
			n := nodes[i]
			go func() { h.Trace("host %s Close() returned: %v", n.side.Name, n.h.Close()) }()
			c04Yield()
		}
	}
	switch f.Kind {
	case "gater":
		nodes[idx(f.Side)].side.Gater.Reject(f.What, f.K)
	case "rcmgr":
		nodes[idx(f.Side)].side.RM.Refuse(f.What, f.K)
	case "hostclosecall":
		hook := func(what string, n int) {
			if what == f.What && n == f.K {
				closeMu.Lock()
				already := closeClaimed[idx(f.Side)]
				closeMu.Unlock()
				if !already {
					h.MarkFired()
				}
				closeHostAsync(idx(f.Side), fmt.Sprintf("fault at %s call %s#%d", f.Side, what, n))
			}
		}
		nodes[idx(f.Side)].side.RM.SetOnCall(hook)
		nodes[idx(f.Side)].side.Gater.SetOnCall(hook)
	}
	mnet.SetOnPair(func(p *memtpt.Pair) {
		if p.Index != 0 {
			return
		}
		end := p.Out
		if f.Side == "b" {
			end = p.In
		}
		switch f.Kind {
		case "io":
			if x, ok := memnet.FaultByName(f.What); ok {
				end.SetFault(f.K, x)
			}
		case "cancel":
			end.SetOnOp(func(op memnet.Op) {
				if op.Index == f.K {
					h.MarkFired()
					h.Trace("fault: cancel the caller's ctx at %s op %d", f.Side, f.K)
					cancel()
				}
			})
		case "hostclose":
			end.SetOnOp(func(op memnet.Op) {
				if op.Index == f.K {
					closeMu.Lock()
					already := closeClaimed[idx(f.Side)]
					closeMu.Unlock()
					if !already {
						h.MarkFired()
					}
					closeHostAsync(idx(f.Side), fmt.Sprintf("fault at %s op %d", f.Side, f.K))
				}
			})
		case "connclose":
			end.SetOnOp(func(op memnet.Op) {
				if op.Index != f.K {
					return
				}
				n := nodes[idx(f.Side)]
				other := nodes[1-idx(f.Side)]
				for _, c := range n.sw.ConnsToPeer(other.side.ID) {
					h.MarkFired()
					h.Trace("fault: %s closes its connection at its op %d", f.Side, f.K)
					go c.Close()
				}
				c04Yield()
			})
		}
	})

	// ----- connect -----
	if cs.idStall() {
		// the swarm-level dial does not wait for identify: when it returns, a's identify of the connection
		// has been started by the Connected notification and is held up by b; no time passes before NewStream
		armStall(stallKind)
		a.h.Peerstore().AddAddrs(b.side.ID, b.sw.ListenAddresses(), peerstore.TempAddrTTL)
		_, err = a.h.Network().DialPeer(ctx, b.side.ID)
		res.Connect = c04ErrClass(err)
		h.Trace("DialPeer: %v", err)
	} else {
		err = a.h.Connect(ctx, peer.AddrInfo{ID: b.side.ID, Addrs: b.sw.ListenAddresses()})
		res.Connect = c04ErrClass(err)
		h.Trace("Connect: %v", err)
		// identify runs in both directions; let it finish (its timeout is 5s)
		time.Sleep(20 * time.Second)
	}
	synctest.Wait()
	pairs := mnet.Pairs()
	if len(pairs) > 0 {
		res.OpsConn = [2]int{pairs[0].Out.Ops(), pairs[0].In.Ops()}
	}

	// ----- one stream -----
	res.Stream = "-"
	hasConn := func(i int) bool { return len(nodes[i].sw.ConnsToPeer(nodes[1-i].side.ID)) > 0 }
	if hasConn(0) {
		var preStream [2]memnet.Snap
		for i, n := range nodes {
			preStream[i], _ = memnet.Snapshot(n.side.RM)
		}
		// families without a stalled identify: the connection is up, identify is over - nothing but the
		// connection may be accounted (the premise of c04ConnOnly, reported by the dry runs)
		res.ConnOnlyOK = len(c04ConnOnly(preStream[0]).Diff(preStream[0]))+len(c04ConnOnly(preStream[1]).Diff(preStream[1])) == 0
		pid := c04Proto
		switch cs.Mode {
		case "negotiated":
			pid = c04Proto2
		case "unsupported":
			pid = c04NoProto
		case "lazy-stale":
			// the opener believes (from an earlier session, say) that the peer speaks a protocol it does not
			// speak: NewStream takes the optimistic path and the refusal only shows at the first read
			pid = c04NoProto
			a.h.Peerstore().AddProtocols(b.side.ID, c04NoProto)
		case "pstore-error":
			a.ps.fail.Store(true)
		}
		if strings.HasPrefix(cs.Stall, "neg-") {
			armStall(stallKind)
		}
		// the context of NewStream
		nsCtx, nsCancel := context.WithCancel(ctx)
		if f.Kind == "ctxend" {
			switch f.What {
			case "deadline":
				nsCancel()
				nsCtx, nsCancel = context.WithTimeout(ctx, c04ShortCtx)
			case "negtimeout": // no deadline at all: BasicHost.NewStream then applies its negotiation timeout
				nsCancel()
				nsCtx, nsCancel = context.WithCancel(context.Background())
			}
		}
		defer nsCancel()
		var nsReturned atomic.Bool
		var atReturn [2]memnet.Snap
		returned := make(chan struct{})
		attempt := func() string {
			if strings.HasPrefix(cs.Mode, "abandon-") {
				// the opener opens a stream on the connection and gives it up before (or in the middle of) proposing a
				// protocol: the listener's negotiation ends with EOF at its first read / inside the header
				raw, err := a.h.Network().NewStream(network.WithNoDial(nsCtx, "c04"), b.side.ID)
				nsReturned.Store(true)
				if err != nil {
					h.Trace("Network().NewStream: %v", err)
					return "newstream:" + c04ErrClass(err)
				}
				switch cs.Mode {
				case "abandon-partial":
					raw.Write([]byte("\x13/multistr")) // length prefix + half of the multistream header
					raw.Close()
				case "abandon-closewrite":
					raw.CloseWrite()
					raw.SetReadDeadline(time.Now().Add(20 * time.Second))
					io.Copy(io.Discard, raw) // until the listener closes or resets its side (or the deadline)
					raw.Close()
				default: // abandon-close
					raw.Close()
				}
				return "abandoned"
			}
			s, err := a.h.NewStream(network.WithNoDial(nsCtx, "c04"), b.side.ID, pid)
			nsReturned.Store(true)
			if err != nil {
				h.Trace("NewStream: %v", err)
				if f.Kind == "ctxend" {
					if errors.Is(err, context.Canceled) || errors.Is(err, context.DeadlineExceeded) {
						if f.What != "cancel" {
							h.MarkFired()
						}
					}
					close(returned)
				}
				return "newstream:" + c04ErrClass(err)
			}
			s.SetDeadline(time.Now().Add(10 * time.Second))
			if _, err := s.Write(c04Payload); err != nil {
				h.Trace("stream write: %v", err)
				s.Reset()
				return "write-failed"
			}
			buf := make([]byte, len(c04Payload))
			if _, err := io.ReadFull(s, buf); err != nil {
				h.Trace("stream read: %v", err)
				s.Reset()
				return "read-failed"
			}
			if err := s.Close(); err != nil {
				h.Trace("stream close: %v", err)
			}
			return "echo-ok"
		}
		done := make(chan string, 1)
		go func() { done <- attempt() }()
		synctest.Wait()
		if f.Kind == "ctxend" && f.What == "cancel" && !nsReturned.Load() {
			// every goroutine of the bubble is idle and NewStream has not returned: it waits for the remote
			// (for the identify of its connection, or for the answer to its protocol proposal)
			h.MarkFired()
			h.Trace("fault: NewStream is blocked; its context is cancelled")
			nsCancel()
		}
		if f.Kind == "ctxend" {
			// observation only: what is accounted at the moment NewStream has given up, before any time passes
			select {
			case <-returned:
				synctest.Wait()
				obs := ""
				for i, n := range nodes {
					atReturn[i], _ = memnet.Snapshot(n.side.RM)
					if len(preStream[i].Diff(atReturn[i])) == 0 {
						obs += n.side.Name + "=restored "
					} else {
						obs += n.side.Name + "=differs "
					}
				}
				res.AtReturn = strings.TrimSpace(obs)
				h.Trace("at return (no time passed): %s", res.AtReturn)
			case res.Stream = <-done:
				done <- res.Stream
			case <-time.After(c04NewStreamMax):
			}
		}
		select {
		case res.Stream = <-done:
		case <-time.After(c04NewStreamMax):
			res.Stream = "hung"
			if !nsReturned.Load() {
				res.Stream = "newstream:hung"
			}
			h.Trace("the stream attempt has not returned after %v; auditing as it is", c04NewStreamMax)
		}
		if a.ps != nil {
			a.ps.fail.Store(false)
		}
		h.Trace("stream: %s", res.Stream)
		// negotiation timeouts are 10s, identify 5s, yamux write timeout 10s
		time.Sleep(45 * time.Second)
		synctest.Wait()
		// ----- mid audit -----
		for i, n := range nodes {
			if nodes[i].h.ctx.Err() != nil {
				continue // this host is being closed by the fault: the final audit covers it
			}
			now, _ := memnet.Snapshot(n.side.RM)
			want, what := preStream[i], "before NewStream"
			if cs.idStall() {
				want, what = c04ConnOnly(preStream[i]), "before NewStream (less the streams and stream memory of the identify exchange that was in flight then and is over now)"
			}
			if !hasConn(i) {
				// also when this side had not finished admitting the connection before NewStream (DialPeer
				// returns when the dialer is done): whatever it held for the half-made connection is over too
				want, what = preConnect[i], "before Connect (the connection is gone)"
			}
			if d := want.Diff(now); len(d) > 0 {
				h.Vio("stream-usage-not-restored/"+n.side.Name, "host %s: after the stream attempt was over (%s) and the stream was closed, resource usage differs from its value %s: %s",
					n.side.Name, res.Stream, what, strings.Join(d, "; "))
			}
			// every stream of the run has failed or finished by now (the harness closed or reset what it was
			// given, identify's and the negotiation timeouts have passed): none may still be registered
			for _, c := range n.sw.Conns() {
				if st := c.GetStreams(); len(st) > 0 {
					var l []string
					for _, x := range st {
						l = append(l, fmt.Sprintf("%s %s protocol=%q", x.ID(), x.Stat().Direction, x.Protocol()))
					}
					sort.Strings(l)
					h.Vio("stream-left-on-conn/"+n.side.Name, "host %s: after the stream attempt was over (%s) and every timeout had passed, its connection to %s still lists %d stream(s) in GetStreams(): %s",
						n.side.Name, res.Stream, c.RemotePeer(), len(st), strings.Join(l, ", "))
				}
			}
		}
	}

	// ----- close both hosts -----
	for i, n := range nodes {
		node := n
		if claimClose(i) {
			h.Step("close host "+node.side.Name, func() { h.Trace("host %s Close(): %v", node.side.Name, node.h.Close()) })
		}
	}
	cancel()
	time.Sleep(memtpt.Settle)
	synctest.Wait()

	// ----- facts -----
	pairs = mnet.Pairs()
	res.Pairs = len(pairs)
	if len(pairs) > 0 {
		res.Ops = [2]int{pairs[0].Out.Ops(), pairs[0].In.Ops()}
		if len(pairs[0].Out.Fired())+len(pairs[0].In.Fired()) > 0 {
			h.MarkFired()
		}
	}
	for i, n := range nodes {
		res.RcCalls[i], res.GaCalls[i] = n.side.RM.Counts(), n.side.Gater.Counts()
		if len(n.side.RM.Refused())+len(n.side.Gater.Rejected()) > 0 {
			h.MarkFired()
		}
	}

	// ----- final audit -----
	for _, n := range nodes {
		now, err := memnet.Snapshot(n.side.RM)
		if err != nil {
			res.Infra = "snapshot: " + err.Error()
			return
		}
		if d := (memnet.Snap{}).Diff(now); len(d) > 0 {
			key := "usage-not-zero-after-close/" + n.side.Name
			// Attribute the leak to listener.Accept's "skip a connection that is already closed" path only when
			// nothing else can explain it: this host upgraded more connections than its swarm ever saw (every
			// connection that Accept returns reaches addConn, whose first act is InterceptUpgraded), the
			// sessions of the upgraded connections are all closed, and exactly that many connection scopes
			// (and nothing else) are left.
			muxed := n.side.Muxer.Conns()
			closed := 0
			for _, mc := range muxed {
				if mc.IsClosed() {
					closed++
				}
			}
			missing := len(muxed) - n.side.Gater.Counts()[memnet.HookUpgraded]
			st := now.System
			if missing > 0 && closed == len(muxed) && st.NumConnsInbound+st.NumConnsOutbound == missing && st.NumStreamsInbound+st.NumStreamsOutbound == 0 && st.Memory == 0 {
				key += "/closed-conn-skipped-by-accept"
			}
			h.Vio(key, "host %s was closed, but resource usage is not zero: %s", n.side.Name, strings.Join(d, "; "))
		}
		if c := n.sw.Conns(); len(c) > 0 {
			h.Vio("conns-after-close/"+n.side.Name, "host %s was closed, but its swarm still lists %d connection(s)", n.side.Name, len(c))
		}
		if l := n.sw.ListenAddresses(); len(l) > 0 {
			h.Vio("listeners-after-close/"+n.side.Name, "host %s was closed, but its swarm still lists listen addresses %v", n.side.Name, l)
		}
	}
	if l := mnet.OpenListeners(); len(l) > 0 {
		h.Vio("raw-listener-not-closed", "both hosts were closed, but the raw listeners %v never saw Close", l)
	}
	for _, p := range pairs {
		if !p.Listener.WasPushed(p.In) {
			continue // the dial was refused: neither end was ever handed out
		}
		if !p.Out.Closed() {
			h.Vio("raw-conn-not-closed/dialer", "raw connection #%d: the dialing side never called Close on its end (%d I/O calls %q)", p.Index, p.Out.Ops(), p.Out.Kinds())
		}
		if p.Listener.WasAccepted(p.In) && !p.In.Closed() {
			h.Vio("raw-conn-not-closed/listener", "raw connection #%d: the listening side never called Close on its end (%d I/O calls %q)", p.Index, p.In.Ops(), p.In.Kinds())
		}
	}
	if !h.AuditGoroutines("both hosts (with their swarms, listeners, peerstores and resource managers) were closed") {
		for _, p := range pairs {
			p.Out.Abort()
		}
	}
}

// c04Yield lets a goroutine that was just started (an asynchronous Close) run as far as it can before the
// caller carries on: the workers run with GOMAXPROCS=1, so every Gosched hands the processor to the other
// runnable goroutines. It never blocks, so it is safe while the caller holds locks of the code under test.
func c04Yield() {
	for i := 0; i < 200; i++ {
		runtime.Gosched()
	}
}

func c04Run(t *testing.T, cs c04Case) *c04Result {
	res := &c04Result{Case: cs}
	func() {
		defer func() {
			if p := recover(); p != nil {
				msg := fmt.Sprint(p)
				switch {
				case strings.Contains(msg, "blocked goroutines remain"):
					for _, v := range res.Vios {
						if strings.HasPrefix(v.Key, "goroutine-left/") {
							return
						}
					}
					res.Vios = append(res.Vios, memtpt.Vio{Key: "goroutine-left/at-bubble-exit", Desc: "synctest: " + msg})
				case strings.Contains(msg, "all goroutines in bubble are blocked"):
					res.Infra = "harness deadlock: " + msg
				default:
					res.Infra = "panic: " + msg
				}
			}
		}()
		synctest.Test(t, func(t *testing.T) {
			defer func() {
				if p := recover(); p != nil {
					buf := make([]byte, 4096)
					buf = buf[:runtime.Stack(buf, false)]
					res.Infra = fmt.Sprintf("panic in the bubble's root goroutine: %v\n%s", p, buf)
				}
			}()
			c04RunInBubble(cs, res)
		})
	}()
	return res
}

func c04Cases(cfg memtpt.Config, mode, stall string, dry *c04Result, full bool) []c04Case {
	var cases []c04Case
	add := func(f memtpt.Fault) { cases = append(cases, c04Case{Cfg: cfg, Mode: mode, Stall: stall, Fault: f}) }
	if stall != "" {
		// the NewStream context ends while NewStream waits for the stalling remote
		for _, how := range []string{"cancel", "deadline", "negtimeout"} {
			add(memtpt.Fault{Kind: "ctxend", Side: "a", What: how})
		}
	}
	for si, side := range []string{"a", "b"} {
		// full: every index of the run; otherwise only the stream phase (the connect phase is the same in every mode)
		k0 := 0
		if !full {
			k0 = dry.OpsConn[si]
		}
		for k := k0; k <= dry.Ops[si]; k++ {
			for _, io := range memtpt.IOFaultMenu() {
				add(memtpt.Fault{Kind: "io", Side: side, K: k, What: io.String()})
			}
			add(memtpt.Fault{Kind: "cancel", Side: side, K: k})
			add(memtpt.Fault{Kind: "hostclose", Side: side, K: k})
			add(memtpt.Fault{Kind: "connclose", Side: side, K: k})
		}
		for _, hook := range memnet.GaterHooks {
			for n := 0; n < dry.GaCalls[si][hook] && full; n++ {
				add(memtpt.Fault{Kind: "gater", Side: side, K: n, What: hook})
				add(memtpt.Fault{Kind: "hostclosecall", Side: side, K: n, What: hook})
			}
		}
		for _, call := range memnet.RcmgrCalls {
			for n := 0; n < dry.RcCalls[si][call]; n++ {
				add(memtpt.Fault{Kind: "rcmgr", Side: side, K: n, What: call})
				add(memtpt.Fault{Kind: "hostclosecall", Side: side, K: n, What: call})
			}
		}
	}
	return cases
}

// c04Families lists the (mode, remote stall) families. The first four are the original modes (their order
// matters: the connect phase is enumerated in the first). Quick: the new modes without a stall and a
// selection of stalled families; thorough: the cross product.
func c04Families(thorough bool) []c04Case {
	modes := []string{"lazy", "negotiated", "unsupported", "handler-reset", "lazy-stale", "pstore-error", "abandon-close", "abandon-partial", "abandon-closewrite"}
	var out []c04Case
	for _, m := range modes {
		out = append(out, c04Case{Mode: m})
	}
	if thorough {
		for _, st := range []string{"id-never", "id-late", "neg-never", "neg-late"} {
			for _, m := range modes {
				if strings.HasPrefix(m, "abandon-") {
					continue // nothing of the opener waits for the remote in these modes
				}
				out = append(out, c04Case{Mode: m, Stall: st})
			}
		}
		return out
	}
	for _, x := range [][2]string{
		{"lazy", "id-never"}, {"unsupported", "id-never"}, {"pstore-error", "id-never"},
		{"lazy", "id-late"}, {"negotiated", "id-late"}, {"lazy-stale", "id-late"},
		{"lazy", "neg-never"}, {"negotiated", "neg-never"},
		{"negotiated", "neg-late"},
	} {
		out = append(out, c04Case{Mode: x[0], Stall: x[1]})
	}
	return out
}

// c04WantStream is what the fault-free run of a family must do (any of the listed results).
func c04WantStream(mode, stall string) []string {
	switch mode {
	case "abandon-close", "abandon-partial", "abandon-closewrite":
		return []string{"abandoned"}
	case "pstore-error":
		return []string{"newstream:pstore-error"}
	case "unsupported":
		if stall == "neg-never" { // nobody answers the proposal: the 30 s context of the run ends the negotiation
			return []string{"newstream:proto-negotiation"}
		}
		return []string{"newstream:proto-unsupported"}
	case "lazy-stale":
		if stall == "id-late" { // the late identify answer replaces the stale entry before NewStream looks
			return []string{"newstream:proto-unsupported"}
		}
		return []string{"read-failed"}
	case "handler-reset":
		if stall == "neg-never" {
			break
		}
		// after a full negotiation the handler's reset may already be there when the opener reads the
		// confirmation of its proposal, or when it writes
		return []string{"read-failed", "write-failed", "newstream:proto-negotiation"}
	}
	// lazy, negotiated (and handler-reset when the remote never looks at the stream)
	if stall == "neg-never" {
		if mode == "negotiated" {
			return []string{"newstream:proto-negotiation"}
		}
		return []string{"read-failed"} // optimistic path: NewStream returns at once, the read runs into its 10 s deadline
	}
	return []string{"echo-ok"}
}

func TestVerifC04Host(t *testing.T) {
	r := vrep.New("C04", "host")
	defer r.Flush()
	cur := "-"
	defer memtpt.Watchdog(r, &cur)()

	if p := vrep.ReplayPath(); p != "" {
		if sh, _ := vrep.Shard(); sh != 0 {
			return // one worker replays
		}
		b, err := os.ReadFile(p)
		if err != nil {
			r.Cap("replay: %v", err)
			return
		}
		var f struct {
			Part   string `json:"part"`
			Replay struct {
				Case c04Case `json:"case"`
			} `json:"replay"`
		}
		if err := json.Unmarshal(b, &f); err != nil {
			r.Cap("replay: %v", err)
			return
		}
		if f.Part != "" && f.Part != r.Part {
			fmt.Printf("C04 replay: %s belongs to part %q, not to %q - nothing to do here\n", p, f.Part, r.Part)
			return
		}
		res := c04Run(t, f.Replay.Case)
		r.Executions++
		r.Distinct = 1
		fmt.Printf("C04 host replay of %s\n  connect=%s stream=%s fired=%v ops=%v (connect phase %v) raw connections=%d\n", f.Replay.Case, res.Connect, res.Stream, res.Fired, res.Ops, res.OpsConn, res.Pairs)
		for _, l := range res.Trace {
			fmt.Println("  " + l)
		}
		for _, v := range res.Vios {
			fmt.Printf("  VIOLATION %s: %s\n", v.Key, v.Desc)
			r.Violate(v.Key, v.Desc, res)
		}
		r.Outcome(res.class())
		r.Sample(res)
		return
	}

	// the pipeline below the swarm is enumerated over all eight configurations by part "upgrade"; here the
	// two security transports with libp2p's default early muxer negotiation, thorough also PSK and multistream
	cfgs := []memtpt.Config{{Sec: "noise", EarlyMux: true}, {Sec: "tls", EarlyMux: true}}
	if vrep.Thorough() {
		cfgs = memtpt.Configs()
	}
	fams := c04Families(vrep.Thorough())
	r.Bounds["configurations"] = fmt.Sprint(cfgs)
	r.Bounds["modes"] = fmt.Sprint(fams)
	r.Bounds["faults_per_run"] = 1
	r.Bounds["io_faults"] = fmt.Sprint(memtpt.IOFaultMenu())
	r.Bounds["remote_stalls"] = fmt.Sprintf("identify / protocol negotiation of the new stream never answered or answered %v late", c04LateBy)
	r.Bounds["ctxend"] = fmt.Sprintf("cancel() while NewStream is blocked; deadline %v; no deadline + NegotiationTimeout %v", c04ShortCtx, c04ShortNegTmo)
	shard, nshards := vrep.Shard()
	deadline := vrep.Deadline()
	distinct := map[string]struct{}{}
	classes := map[string]struct{}{}
	idx, notReached := 0, 0
	defer func() { r.Distinct = int64(len(distinct)) }()
	for _, cfg := range cfgs {
		connOnlyOK := true
		for mi, fam := range fams {
			mode := fam.Mode
			if fam.Stall != "" && !vrep.Thorough() && cfg != cfgs[0] {
				continue // quick: what BasicHost does with a stalling remote does not depend on the security transport
			}
			if fam.idStall() && !connOnlyOK {
				r.Cap("%s/%s: skipped - a connection without streams was seen to account streams or memory, so the reference value for a stalled identify cannot be derived", cfg, fam.family())
				continue
			}
			cur = fmt.Sprintf("%s/%s dry run", cfg, fam.family())
			dry := c04Run(t, c04Case{Cfg: cfg, Mode: mode, Stall: fam.Stall, Fault: memtpt.Fault{Kind: "none"}})
			r.Executions++
			if dry.Infra != "" {
				r.Cap("%s/%s: dry run failed for a harness reason: %s", cfg, fam.family(), dry.Infra)
				continue
			}
			want := c04WantStream(mode, fam.Stall)
			okStream := false
			for _, w := range want {
				okStream = okStream || dry.Stream == w
			}
			if dry.Connect != "ok" || !okStream {
				r.Violate("baseline-failed", fmt.Sprintf("%s/%s: the fault-free scenario did not behave as expected: connect=%s stream=%s (want %v)", cfg, fam.family(), dry.Connect, dry.Stream, want), dry)
				continue
			}
			if !fam.idStall() && !dry.ConnOnlyOK {
				connOnlyOK = false
			}
			mode = fam.family() // for the notes below
			for _, v := range dry.Vios {
				r.Violate(v.Key+"/baseline", fmt.Sprintf("%s/%s fault-free: %s", cfg, mode, v.Desc), dry)
			}
			r.Outcome(dry.class())
			if shard == 0 {
				r.Note("%s/%s: dry run: raw I/O calls dialer end %d (connect+identify %d), listener end %d (connect+identify %d); rcmgr calls a=%v b=%v; gater calls a=%v b=%v",
					cfg, mode, dry.Ops[0], dry.OpsConn[0], dry.Ops[1], dry.OpsConn[1], dry.RcCalls[0], dry.RcCalls[1], dry.GaCalls[0], dry.GaCalls[1])
				if mi == 0 && cfg == cfgs[0] {
					dry.Trace = nil
					r.Sample(dry)
				}
			}
			// quick: the connect phase is enumerated once per configuration (mode "lazy"); thorough: in every mode
			// of the original four, and with identify stalled (connection made by DialPeer) in mode "lazy"
			full := mi == 0 || (vrep.Thorough() && (fam.Stall == "" && mi < 4 || fam.idStall() && fam.Mode == "lazy"))
			for _, cs := range c04Cases(cfg, fam.Mode, fam.Stall, dry, full) {
				idx++
				if idx%nshards != shard {
					continue
				}
				if time.Now().After(deadline) {
					r.Cap("deadline reached at case %d (%s)", idx, cs)
					return
				}
				cur = cs.String()
				res := c04Run(t, cs)
				r.Executions++
				if res.Infra != "" {
					r.Cap("case %s: harness problem, no verdict: %s", cs, res.Infra)
					continue
				}
				if !res.Fired {
					notReached++
					r.Outcome(cs.family() + "|" + cs.Fault.Kind + "|fault position not reached")
				} else {
					distinct[cs.String()] = struct{}{}
					classes[cfg.String()+"|"+cs.Fault.Side+"|"+res.class()] = struct{}{}
					r.Outcome(res.class())
				}
				for _, v := range res.Vios {
					fmt.Printf("C04-VIO %s  %s  connect=%s stream=%s\n", v.Key, cs, res.Connect, res.Stream)
					r.Violate(v.Key, fmt.Sprintf("%s: %s", cs, v.Desc), res)
				}
				if len(res.Vios) == 0 && res.Fired && len(r.Samples) < 6 && idx%211 == shard {
					res.Trace = nil
					r.Sample(res)
				}
			}
		}
	}
	r.Note("cases whose fault position was not reached: %d; distinct (configuration, mode, fault kind, side, connect result, stream result) classes in this shard: %d", notReached, len(classes))
}
