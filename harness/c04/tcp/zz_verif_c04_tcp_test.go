//go:build verif

package tcp

// C04, part "tcpdial": the outbound side is the REAL TCP transport (DialWithUpdates / dialWithScope:
// OpenConnection, SetPeer, raw dial, Upgrade, connScope.Done() on failure), driven through its
// WithDialerForAddr seam with an in-memory connection; the inbound side is a real upgrader listener over the
// in-memory listener. Same runs, faults and audit as part "upgrade" (x/verif/memtpt), plus faults of the raw
// dial itself.

import (
	"context"
	"net"
	"testing"

	"github.com/libp2p/go-libp2p/core/transport"
	"github.com/libp2p/go-libp2p/x/verif/memtpt"
	"github.com/libp2p/go-libp2p/x/verif/vrep"
	ma "github.com/multiformats/go-multiaddr"
)

type c04Dialer struct {
	env *memtpt.Env
	a   *memtpt.Attempt
}

func (d c04Dialer) DialContext(ctx context.Context, network, addr string) (net.Conn, error) {
	c, err := d.env.RawDial(ctx, d.a)
	if err != nil {
		return nil, err
	}
	return c, nil
}

// c04Dial runs one outbound attempt through a fresh real TcpTransport.
func c04Dial(ctx context.Context, e *memtpt.Env, a *memtpt.Attempt) (transport.CapableConn, string, error) {
	tr, err := NewTCPTransport(e.Out.Upgrader, e.Out.RM, nil, WithDialerForAddr(func(ma.Multiaddr) (ContextDialer, error) {
		return c04Dialer{env: e, a: a}, nil
	}))
	if err != nil {
		return nil, "fixture", err
	}
	c, err := tr.Dial(ctx, memtpt.AddrIn, e.In.ID)
	return c, "", err
}

func TestVerifC04TCPDial(t *testing.T) {
	r := vrep.New("C04", "tcpdial")
	defer r.Flush()
	o := memtpt.EnumOptions{Dial: c04Dial, RawDialFaults: true}
	if !vrep.Thorough() {
		// the inbound-only scenarios and the teardown variants are covered by part "upgrade"
		o.Variants = []memtpt.Variant{{}}
	} else {
		o.Variants = []memtpt.Variant{{}, {ShortDial: true}, {LateAccept: true}}
	}
	memtpt.Enumerate(t, r, o)
}
